"""Rescan family: C09 (rescan callbacks form a consistent walk of the block
tree and miss no relevant transaction).

model   specs/Rescan/Rescan.tla (one action per ChainSource interaction of the
        rescan goroutine, interleaved with chain growth / reorganisation /
        fetch failures / updates) explored exhaustively by TLC for every
        scenario of the tier (a scenario = a block tree with transactions and
        caller requests, written as RescanUniverse.tla, plus bounds);
replay  every transition of every graph is executed on the REAL rescan
        (harness/overlay/neutrino/zz_verif_rescan_test.go: gate ChainSource,
        real SubscriptionManager, real blocks and GCS filters);
judge   RescanProps.tla is evaluated by TLC on the observed callback histories.
"""
import json, os, random, shutil, time
from .. import core, family

SPEC = os.path.join(core.VERIF, "specs", "Rescan")
DRIVER = os.path.join(core.VERIF, "harness", "overlay", "neutrino", "zz_verif_rescan_test.go")
DRIVER_FREE = os.path.join(core.VERIF, "harness", "overlay", "neutrino", "zz_verif_rescan_free_test.go")
PKG = core.REPO

READY = True
PROPERTIES = ["C09"]

MANIFEST = {
    "C09": dict(
        engine="Rescan",
        text="Exhaustive TLC exploration of specs/Rescan (the rescan goroutine advanced from one ChainSource call to the "
             "next - BestBlock, Subscribe, GetBlockHeaderByHeight, GetBlockHeader, GetFilterHeaderByHeight, GetCFilter, "
             "GetBlock, IsCurrent - or to its select; between any two of them the chain may grow, reorganise block by "
             "block, a filter/block fetch may fail, the caller may send an update with or without rewind, the retry "
             "timer may fire) over block trees with a fork and create->spend transaction chains; EVERY transition is "
             "replayed on the real rescan (NewRescan(...).Start() with a gate-implementing ChainSource, a real "
             "blockntfns.SubscriptionManager behind Subscribe, real blocks and real GCS filters) and the walk / "
             "relevant-transaction operators of RescanProps.tla are evaluated by TLC on the callback histories observed "
             "(OnFilteredBlockConnected/Disconnected and the legacy OnBlockConnected/Disconnected). In addition seeded "
             "free-running executions of the real rescan (random schedules on an 11-block tree with two forks, real "
             "100 ms retry timer, up to 400 steps) are recorded, judged by the same operators and checked by TLC to be "
             "behaviours of Rescan.tla (TraceRescan.tla).",
        note="Bounded: trees of <=7 blocks with one fork (after the start block, one or two blocks above it) for the "
             "exhaustive part, 11 blocks with two forks for the free-running part; <=7 transactions with several "
             "inputs/outputs (create->spend through first and later outputs, external outpoints); <=5 chain extensions, "
             "<=4 rolled-back blocks (reorganisations up to the start block, stale parent fetchable or not), <=2 injected "
             "fetch failures, <=1 update (2 in free runs); rescans with an empty watch list and rescans wholly before their "
             "start time; in some universes a chain event and its notification are separate steps (duplicate / "
             "unseen-block notifications after Subscribe). Where the real rescan leaves the model's prediction the driver "
             "lets it run on to quiescence so that the consequences are judged. The caller's start block is on the chain when the rescan "
             "initialises; EndBlock and DisableDisconnectedNtfns are not used. The 100 ms retry timer is real: a path on "
             "which it fires before the path asked for it is cut there and its history judged as observed. A panic of "
             "the rescan goroutine would end the driver (exit 2), it is not turned into a verdict. Trusts TLC, the "
             "driver's block/transaction ground truth and its id projection.",
        design="4 C09", technique="TLA+ spec + TLC exhaustive + spec-to-code replay of every transition through gates + "
                                  "TLC-judged observed callback histories + trace validation of free-running executions"),
}

PROPS = {"C09": ["ConnectIsChildOfCurrent", "DisconnectIsCurrent", "NoBlockSkippedOrRepeated",
                 "RelevantTxDelivered", "RewindHonoured", "RelevantTxNeverDelivered"]}

CODE_VERSION = json.load(open(os.path.join(SPEC, "code_version.json")))

# ---------------------------------------------------------------------------
# Universes.  Blocks 0..NB-1 (Parent by id), transactions 1..NT; see
# specs/Rescan/RescanUniverse.tla for the encoding.
FORK = dict(
    Parent=[-1, 0, 1, 2, 1, 4, 5],
    TxOuts=[[1, 4], [0], [2], [0]], TxIns=[[0], [11], [0], [1]], ExtScript=[3],
    BlockTxs=[[], [], [1, 3], [2, 4], [3], [1, 2, 4], []],
    StartB=0, StartT=1, InitWatch=[1, 4], InitChain=[0, 1, 2], InitFH=2,
    Updates=[dict(add=[2, 101], rw=1), dict(add=[2, 101], rw=0)])

UNIVERSES = {
    # fork after block 1; A-branch 2,3 ; B-branch 4(2'),5(3'),6(4').  T1 pays the
    # watched addresses 1 and 4 (two outputs), T2 spends T1's SECOND output (in
    # the next block on A, in the same block on B) and pays nobody, T3 pays
    # address 2 and T4 spends the external outpoint 1 (both added by the update,
    # with or without rewind).
    "fork": FORK,
    # the same tree entered at the tip: the rescan is current at once and the
    # reorganisation reaches it through notifications; the external outpoint is
    # watched from the start (WatchInputs)
    "tip": dict(FORK, InitChain=[0, 1, 2, 3], InitFH=3, StartB=2, InitWatch=[1, 4, 101]),
    # start time after height 2: blocks 1,2 are not scanned; start below the fork
    "late": dict(FORK, StartT=3, InitChain=[0, 1, 2, 3], InitFH=3, StartB=1, InitWatch=[1, 4, 101],
                 BlockTxs=[[], [3], [1], [2], [1], [2, 3], [4]],
                 Updates=[dict(add=[2], rw=2), dict(add=[110], rw=1)]),
    # filter headers trail block headers
    "lag": dict(FORK, InitChain=[0, 1, 2], InitFH=1, Lag=True),
    # empty watch list at the start (nothing to scan for until an update adds
    # items); a chain event and its notification are two steps, so a subscription
    # registered in between gets the block in its backlog and again live
    "nowatch": dict(FORK, InitWatch=[], Updates=[dict(add=[1, 4], rw=1)], Split=True),
    # the whole tree lies BEFORE the start time: the rescan never scans
    # (scanning = false) although it watches addresses
    "early": dict(FORK, StartT=9, Split=True),
    # the tip universe with split notifications
    "tipsplit": dict(FORK, InitChain=[0, 1, 2, 3], InitFH=3, StartB=2, InitWatch=[1, 4, 101], Split=True),
    # a longer main branch 1-2-3-4 with a fork after 2 (5 = 3', 6 = 4'): several
    # blocks can wait in the retry queue while the chain reorganises under them
    "retry": dict(Parent=[-1, 0, 1, 2, 3, 2, 5],
                  TxOuts=[[1], [0]], TxIns=[[0], [10]], ExtScript=[],
                  BlockTxs=[[], [], [], [1], [2], [1], [2]],
                  StartB=1, StartT=1, InitWatch=[1], InitChain=[0, 1, 2], InitFH=2,
                  Updates=[dict(add=[2], rw=1)]),
    # the fork is at the START block: A-branch 1,2 ; B-branch 3(1'),4(2'),5(3').  A
    # reorganisation while the rescan catches up goes two blocks deep below its
    # current block, so the parent of its stale current block is stale as well
    # (no longer fetchable by hash) while the chain has OTHER blocks at those heights.
    # T1 has three outputs (nobody, watched 1, watched 4); T2 spends the last one.
    "deep": dict(Parent=[-1, 0, 1, 0, 3, 4],
                 TxOuts=[[0, 1, 4], [0]], TxIns=[[0], [12]], ExtScript=[],
                 BlockTxs=[[], [1], [2], [], [1], [2]],
                 StartB=0, StartT=1, InitWatch=[1, 4], InitChain=[0, 1, 2], InitFH=2,
                 Updates=[dict(add=[2], rw=1)]),
    # change outputs: T1 pays the watched address, T2 spends that output AND pays the watched address again
    # (change), T3 spends the change; a fork repeats T2/T3 one block later.  A transaction that is relevant
    # as a spend must still have its outputs registered.
    "change": dict(Parent=[-1, 0, 1, 2, 3, 4, 3, 6],
                   TxOuts=[[1], [0, 1], [0]], TxIns=[[0], [10], [21]], ExtScript=[],
                   BlockTxs=[[], [], [], [1], [2], [3], [], [2, 3]],
                   StartB=1, StartT=1, InitWatch=[1], InitChain=[0, 1, 2], InitFH=2,
                   Updates=[dict(add=[2], rw=1)]),
    # free-running executions: main branch 1-5, fork after 2 (6,7,8), fork of the
    # fork after 6 (9,10); create->spend chains through first and later outputs,
    # an external outpoint
    "big": dict(Parent=[-1, 0, 1, 2, 3, 4, 2, 6, 7, 6, 9],
                TxOuts=[[1, 4], [0], [2], [0], [4, 0, 1], [0], [0]],
                TxIns=[[0], [11], [0], [1], [0], [52], [10, 0]], ExtScript=[3],
                BlockTxs=[[], [], [1], [2, 3], [4, 7], [5], [3], [1, 2, 4], [5, 6], [4, 1], [5, 2, 7]],
                StartB=1, StartT=2, InitWatch=[1, 4, 101], InitChain=[0, 1, 2, 3], InitFH=3,
                Updates=[dict(add=[2], rw=2), dict(add=[2], rw=0), dict(add=[150], rw=1)]),
}
UNIVERSES["biglag"] = dict(UNIVERSES["big"], InitFH=2, Lag=True)
UNIVERSES["big"] = dict(UNIVERSES["big"], Split=True)


def _heights(parent):
    h = []
    for b, p in enumerate(parent):
        h.append(0 if p < 0 else h[p] + 1)
    return h


def universe(name):
    u = dict(UNIVERSES[name])
    u.setdefault("Lag", False)
    u.setdefault("Split", False)
    u["NB"] = len(u["Parent"])
    u["NT"] = len(u["TxOuts"])
    u["Height"] = _heights(u["Parent"])
    _validate(name, u)
    return u


def _out_script(u, o):
    if o >= 10:
        t, j = divmod(o, 10)
        return u["TxOuts"][t - 1][j] if t <= u["NT"] and j < len(u["TxOuts"][t - 1]) else 0
    return u["ExtScript"][o - 1] if 1 <= o <= len(u["ExtScript"]) else 0


def _validate(name, u):
    """A universe the encoding cannot express is a harness error, not drift."""
    def bad(msg):
        raise core.MachineryError("universe %s: %s" % (name, msg))
    if u["NT"] > 9 or len(u["TxIns"]) != u["NT"] or len(u["BlockTxs"]) != u["NB"]:
        bad("sizes")
    for b, p in enumerate(u["Parent"]):
        if b and not (0 <= p < b):
            bad("parent of block %d" % b)
    for t in range(1, u["NT"] + 1):
        if len(u["TxOuts"][t - 1]) > 10 or not u["TxOuts"][t - 1] or not u["TxIns"][t - 1]:
            bad("tx %d needs 1..10 outputs and an input" % t)
        for o in u["TxIns"][t - 1]:
            if o >= 10 and (o // 10 >= t or o % 10 >= len(u["TxOuts"][o // 10 - 1])):
                bad("tx %d spends %d" % (t, o))
    items = list(u["InitWatch"]) + [i for x in u["Updates"] for i in x["add"]]
    for it in items:
        if it >= 100 and _out_script(u, it - 100) == 0:
            bad("watched outpoint %d has no known script" % (it - 100))
    if u["InitChain"][0] != 0 or u["StartB"] not in u["InitChain"] or not (0 <= u["InitFH"] < len(u["InitChain"])):
        bad("initial chain")
    for a, b in zip(u["InitChain"], u["InitChain"][1:]):
        if u["Parent"][b] != a:
            bad("initial chain is not a chain")


def _seq(x):
    if isinstance(x, (list, tuple)):
        return "<<" + ", ".join(_seq(y) for y in x) + ">>"
    if isinstance(x, dict):
        return "[" + ", ".join("%s |-> %s" % (k, _seq(v)) for k, v in x.items()) + "]"
    if isinstance(x, bool):
        return "TRUE" if x else "FALSE"
    return str(x)


def write_universe(u, d):
    os.makedirs(d, exist_ok=True)
    lines = ["---- MODULE RescanUniverse ----", "EXTENDS Integers, Sequences"]
    for k in ("NB", "Parent", "Height", "NT", "TxOuts", "TxIns", "ExtScript", "BlockTxs", "StartB",
              "StartT", "InitWatch", "InitChain", "InitFH", "Updates"):
        lines.append("%s == %s" % (k, _seq(u[k])))
    lines.append("====")
    open(os.path.join(d, "RescanUniverse.tla"), "w").write("\n".join(lines) + "\n")
    uj = os.path.join(d, "universe.json")
    json.dump(u, open(uj, "w"))
    return uj


# ---------------------------------------------------------------------------
BASE = dict(MaxExt=2, MaxRb=1, MaxFail=1, MaxUpd=1, MaxNotCur=0, Lag=False, StaleFilterOK=False,
            WithQuit=False, SplitNotify=False)

SCENARIOS = {
    "quick": [
        ("fork", dict(MaxExt=2, MaxRb=2, StaleFilterOK=True)),
        ("tip", dict(MaxExt=2, MaxRb=2, MaxFail=2, MaxUpd=0)),
        ("lag", dict(MaxExt=2, MaxRb=1, MaxUpd=0, Lag=True, MaxNotCur=1)),
        ("retry", dict(MaxExt=3, MaxRb=2, MaxFail=2, MaxUpd=0)),
        ("deep", dict(MaxExt=4, MaxRb=3, MaxFail=1, MaxUpd=1, StaleFilterOK=True)),
        ("nowatch", dict(MaxExt=3, MaxRb=2, MaxFail=0, MaxUpd=0)),
        ("early", dict(MaxExt=3, MaxRb=2, MaxFail=0, MaxUpd=0)),
        ("change", dict(MaxExt=3, MaxRb=1, MaxFail=1, MaxUpd=0)),
    ],
    "thorough": [
        ("change", dict(MaxExt=4, MaxRb=2, MaxFail=1, MaxUpd=0, StaleFilterOK=True)),
        ("fork", dict(MaxExt=3, MaxRb=3, MaxFail=2, StaleFilterOK=True, WithQuit=True, MaxNotCur=1)),
        ("tip", dict(MaxExt=3, MaxRb=3, MaxFail=2, StaleFilterOK=True, WithQuit=True)),
        ("late", dict(MaxExt=3, MaxRb=2, MaxFail=1, StaleFilterOK=True)),
        ("lag", dict(MaxExt=3, MaxRb=2, MaxFail=1, Lag=True, MaxNotCur=1)),
        ("nowatch", dict(MaxExt=3, MaxRb=3, MaxFail=1, MaxNotCur=1)),
        ("early", dict(MaxExt=3, MaxRb=3, MaxFail=0, MaxUpd=1, MaxNotCur=1)),
        ("tipsplit", dict(MaxExt=3, MaxRb=2, MaxFail=1, MaxUpd=0, StaleFilterOK=True)),
        ("retry", dict(MaxExt=4, MaxRb=2, MaxFail=2, MaxUpd=1, StaleFilterOK=True)),
        ("deep", dict(MaxExt=5, MaxRb=4, MaxFail=1, MaxUpd=1, StaleFilterOK=True)),
    ],
}

# free-running executions (universe, runs, steps per run, updates per run)
FREE = {
    "quick": [("big", 48, 150, 1)],
    "thorough": [("big", 640, 400, 2), ("biglag", 640, 400, 2)],
}
UNBOUNDED = dict(MaxExt=1000000, MaxRb=1000000, MaxFail=1000000, MaxUpd=1000000, MaxNotCur=1000000,
                 StaleFilterOK=True, WithQuit=True)

ASSUMPTIONS = [
    "the caller's start block (given by hash and height) is on the best chain when the rescan initialises; the "
    "documented fallback to the block at that height is not explored",
    "header look-ups by hash succeed exactly for blocks of the current header chain, GetBlock fails for blocks that "
    "left it, GetCFilter may still serve them (cache) - the behaviour of RescanChainSource/ChainService; GetCFilter "
    "never returns the bare headerfs.ErrHashNotFound sentinel (ChainService wraps it)",
    "a chain event and its notification are one step of the environment, except in the universes marked Split, where "
    "the stores change first and the notification is handed to the subscription manager in a second step (at most one "
    "outstanding, as the block manager blocks in that send): a subscription registered in between gets the block in "
    "its backlog and again live, or a Disconnected for a block it never saw",
    "updates are sent through Rescan.Update into a one-slot channel installed by the driver, so an update sent while the "
    "rescan is between two chain-source calls is found by the catch-up loop's non-blocking drain like a caller blocked "
    "in Update() would be; an update counts as watched once the rescan has received it",
    "EndBlock and DisableDisconnectedNtfns are not used; GCS false positives (2^-19 per item) are ignored by the model",
    "the 100 ms retry timer is real time: paths on which it fires early are cut at that point (counted as timer_races), "
    "their observed history is still judged",
]


def label(act):
    op = act.get("op", "?")
    if op == "SendUpd":
        return "SendUpd(+%s,rw%d)" % ("/".join(str(x) for x in act.get("add", [])), act.get("rw", 0))
    if op in ("Ntfn", "Emit"):
        return "%s(%s%d)" % (op, act.get("res"), act.get("b", -1))
    if op in ("Extend", "AddFH", "Rollback", "Start"):
        return "%s(%d)" % (op, act.get("b", -1))
    if op in ("Retry", "Quit", "Idle"):
        return op
    return "%s(%d)=%s" % (op, act.get("b", -1), act.get("res"))


def _drift_one(e, t):
    """family.drift for one (predicted path, observed trace) pair.  A path cut
    by an early retry timer (race) must agree with the model up to the cut; the
    cut itself is scheduling the driver cannot force, not drift.
    Returns (steps compared, drifted, sample)."""
    if t.get("error"):
        return 0, False, None
    if e.get("init_obs") is not None and t.get("init_obs") != e["init_obs"]:
        return 0, True, {"trace": t["id"], "step": 0, "what": "initial observables differ",
                         "model": e["init_obs"], "code": t.get("init_obs")}
    n = 0
    for i, s in enumerate(t["steps"]):
        if s.get("note"):
            if t.get("race"):
                break
            return n, True, {"trace": t["id"], "step": i + 1, "what": s["note"]}
        if i >= len(e["steps"]):
            break
        m = e["steps"][i]
        n += 1
        if s["act"] != m["act"] or s["obs"] != m["obs"]:
            return n, True, {"trace": t["id"], "step": i + 1,
                             "labels": [label(x["act"]) for x in t["steps"][:i + 1]],
                             "model_act": m["act"], "code_act": s["act"],
                             "model_obs": m["obs"], "code_obs": s["obs"]}
    return n, False, None


def _run_driver(binary, test_name, env_extra, out_file, cwd, timeout=3600):
    """family.run_driver without reading the output into memory."""
    import subprocess
    env = core.go_env()
    env.update({"VERIF_OUT": out_file, "VERIF_SCRATCH": cwd})
    env.update(env_extra)
    p = subprocess.run([binary, "-test.run", "^" + test_name + "$", "-test.count=1",
                        "-test.timeout", "%ds" % timeout], cwd=cwd, env=env,
                       stdout=subprocess.PIPE, stderr=subprocess.STDOUT, text=True)
    if p.returncode != 0 or not os.path.exists(out_file):
        raise core.MachineryError("driver failed rc=%d:\n%s" % (p.returncode, p.stdout[-6000:]))


def _process(pf, of, spec_dirs, prop_id, uname, chunk=12000):
    """Judges the observed traces (TLC, RescanProps) and compares them with the
    model's predictions, reading both files in step - a thorough scenario has
    some 90 000 traces of 25 steps, which are never all in memory."""
    known = core.load_known()
    verdict = {"violations": [], "known": {}, "n_lines": 0, "wall": 0.0, "raw": 0}
    dr = [0, 0, []]
    light, races, callbacks = [], 0, 0
    filler = {}

    def flush(exp, buf):
        nonlocal races, callbacks
        v = family.judge(spec_dirs, "RescanProps", PROPS[prop_id], prop_id, buf, label=label, known=known)
        full = set(id(x["observed"]) for x in v["violations"])
        for e, t in zip(exp, buf):
            a, b, c = _drift_one(e, t)
            dr[0] += a
            dr[1] += 1 if b else 0
            if c and len(dr[2]) < 5:
                c["trace"] = "%s/%s" % (uname, c["trace"])
                dr[2].append(c)
            races += 1 if t.get("race") else 0
            callbacks += sum(len(st["obs"]["ev"]) for st in t["steps"])
        for x in v["violations"]:
            x["trace"] = "%s/%s" % (uname, x["trace"])
        for t in buf:
            t["uni"] = uname
            t["id"] = "%s/%s" % (uname, t["id"])
            if len(light) < 3 or t.get("error") or id(t) in full:
                light.append(t)
            else:
                light.append({"id": t["id"], "steps": [filler] * len(t["steps"])})
        verdict["violations"] += v["violations"]
        verdict["n_lines"] += v["n_lines"]
        verdict["wall"] += v["wall"]
        verdict["raw"] += v["raw"]
        for kid, kv in v["known"].items():
            if kid in verdict["known"]:
                verdict["known"][kid]["count"] += kv["count"]
            else:
                verdict["known"][kid] = kv

    exp, buf = [], []
    with open(pf) as fp, open(of) as fo:
        for lp in fp:
            lo = fo.readline()
            if not lo:
                raise core.MachineryError("driver output of %s ends early" % uname)
            e, t = json.loads(lp), json.loads(lo)
            if e["id"] != t["id"]:
                raise core.MachineryError("driver output of %s out of order" % uname)
            exp.append(e)
            buf.append(t)
            if len(buf) >= chunk:
                flush(exp, buf)
                exp, buf = [], []
        if buf:
            flush(exp, buf)
    return light, verdict, tuple(dr), races, callbacks


class _Agg:
    """Sums of several TLC runs / graphs, in the shape family.finish reads."""
    def __init__(self):
        self.generated = self.distinct = self.depth = 0
        self.wall = 0.0
        self.edges = []

    def add(self, tlc, g):
        self.generated += tlc.generated
        self.distinct += tlc.distinct
        self.depth = max(self.depth, tlc.depth)
        self.wall += tlc.wall
        if g:
            self.edges += g.edges


def trace_check(spec_dirs, consts, traces, wd, timeout=3000, max_reject=12):
    """Is every observed trace a behaviour of Rescan.tla (TraceRescan.tla)?
    Returns [(trace id, step)] of the rejected ones.  TLC stops at the first
    line no action matches, so every rejection costs one more TLC run on the
    rest; after max_reject rejections (a tree that has left the specification)
    the remaining traces are not examined - they are still judged by Props."""
    import subprocess
    rejected = []
    rest = list(traces)
    rnd = 0
    while rest:
        rnd += 1
        d = os.path.join(wd, "tr%d" % rnd)
        os.makedirs(d, exist_ok=True)
        for sd in spec_dirs:
            for f in os.listdir(sd):
                if f.endswith(".tla"):
                    shutil.copy(os.path.join(sd, f), d)
        owner = []
        with open(os.path.join(d, "trace.ndjson"), "w") as f:
            for t in rest:
                f.write(json.dumps({"t": 0, "i": 0, "act": {"op": "Init"}, "obs": t["init_obs"]}) + "\n")
                owner.append((t, 0))
                for i, st in enumerate(t["steps"]):
                    f.write(json.dumps({"t": 0, "i": i + 1, "act": st["act"], "obs": st["obs"]}) + "\n")
                    owner.append((t, i + 1))
        cfg = ["INIT TInit", "NEXT TNext", "CONSTANTS"]
        cfg += ["  %s = %s" % (k, core.tla_value(v)) for k, v in consts.items()]
        cfg += ["CONSTRAINT HighWater", "POSTCONDITION Post", "CHECK_DEADLOCK FALSE"]
        open(os.path.join(d, "TraceRescan.cfg"), "w").write("\n".join(cfg) + "\n")
        env = dict(os.environ)
        env.pop("JAVA_TOOL_OPTIONS", None)
        p = subprocess.run(["timeout", str(timeout), "java", "-XX:+UseParallelGC", "-Xss256m", "-cp", core.TLA_CP,
                            "tlc2.TLC", "-workers", "1", "-metadir", os.path.join(d, "meta"),
                            "-noGenerateSpecTE", "TraceRescan.tla"], cwd=d, stdout=subprocess.PIPE,
                           stderr=subprocess.STDOUT, text=True, env=env)
        hf = os.path.join(d, "hw.json")
        if not os.path.exists(hf):
            raise core.MachineryError("TraceRescan TLC failed rc=%d\n%s" % (p.returncode, p.stdout[-3000:]))
        hw = json.load(open(hf))
        shutil.rmtree(d, ignore_errors=True)
        if hw["n"] != len(owner):
            raise core.MachineryError("TraceRescan read %d of %d lines" % (hw["n"], len(owner)))
        if hw["hw"] >= len(owner) + 1:
            break
        t, i = owner[hw["hw"] - 1]           # the line that no action of the specification matches
        rejected.append((t["id"], i))
        if len(rejected) >= max_reject:
            break
        k = rest.index(t)
        rest = rest[k + 1:]
    return rejected


def _free(k, uname, runs, steps, maxupd, prop_id, seed, sc, binary):
    """free-running executions of the real rescan: judged by Props and checked
    to be behaviours of the specification"""
    u = universe(uname)
    ud = os.path.join(sc, "f%d" % k)
    uj = write_universe(u, ud)
    sd = os.path.join(sc, "frun%d" % k)
    os.makedirs(sd, exist_ok=True)
    cfg = dict(seed=seed, runs=runs, steps=steps, max_upd=maxupd, stale_ok=True)
    obs, log = family.run_driver(binary, "TestVerifRescanFree", "-", os.path.join(sc, "fobs%d.ndjson" % k), sd,
                                 env_extra={"VERIF_UNIVERSE": uj, "VERIF_FREE": json.dumps(cfg)})
    v = _judge([SPEC, ud], prop_id, obs)
    consts = dict(UNBOUNDED)
    consts["Lag"] = bool(u["Lag"])
    consts["SplitNotify"] = bool(u["Split"])
    consts.update(CODE_VERSION)
    rej = trace_check([SPEC, ud], consts, [t for t in obs if not t.get("error")], sd)
    samples = []
    by_id = {t["id"]: t for t in obs}
    for (tid, i) in rej[:5]:
        t = by_id[tid]
        samples.append({"trace": "free-%s/%s" % (uname, tid), "step": i,
                        "what": "not a behaviour of Rescan.tla",
                        "labels": [label(x["act"]) for x in t["steps"][:i]][-12:],
                        "code_obs": t["steps"][i - 1]["obs"] if i > 0 else t["init_obs"]})
    for t in obs:
        t["uni"] = uname
        t["id"] = "free-%s/%s" % (uname, t["id"])
    for x in v["violations"]:
        x["trace"] = "free-%s/%s" % (uname, x["trace"])
    info = {"universe": uname, "free_runs": len(obs), "steps": sum(len(t["steps"]) for t in obs),
            "callbacks_observed": sum(len(s["obs"]["ev"]) for t in obs for s in t["steps"]),
            "retry_timer_fired": sum(1 for t in obs for s in t["steps"] if s["act"]["op"] == "Retry"),
            "rejected_by_spec": len(rej), "rejections_examined_up_to": 12}
    _slim(obs, v["violations"])
    return dict(obs=obs, v=v, rejected=len(rej), samples=samples, info=info)


def _judge(spec_dirs, prop_id, obs, chunk=25000):
    """family.judge in chunks of traces (one TLC each), so that neither the JVM
    nor the trace file grows with the size of the tier."""
    out = {"violations": [], "known": {}, "n_lines": 0, "wall": 0.0, "raw": 0}
    known = core.load_known()
    for i in range(0, max(len(obs), 1), chunk):
        v = family.judge(spec_dirs, "RescanProps", PROPS[prop_id], prop_id, obs[i:i + chunk], label=label,
                         known=known)
        out["violations"] += v["violations"]
        out["n_lines"] += v["n_lines"]
        out["wall"] += v["wall"]
        out["raw"] += v["raw"]
        for kid, kv in v["known"].items():
            if kid in out["known"]:
                out["known"][kid]["count"] += kv["count"]
            else:
                out["known"][kid] = kv
    return out


class _Edges:
    """What family.finish reads of a graph (number of edges, violating ones),
    without the states and observations of a few hundred thousand edges."""
    def __init__(self, g):
        self.edges = [(0, 0, 0, 0, e[4]) for e in g.edges]
        self.n_nodes = len(g.ids)


def _slim(obs, violations, keep=3):
    """The verdict, drift and counts are computed; of the observed traces only the
    first few (evidence samples), the failed and the violating ones are kept
    in full - a thorough run observes some six million steps."""
    full = set(id(x["observed"]) for x in violations)
    filler = {}
    for n, t in enumerate(obs):
        if n < keep or t.get("error") or id(t) in full:
            continue
        t["steps"] = [filler] * len(t["steps"])
        t["init_obs"] = None


def _scenario(k, uname, over, prop_id, tier, seed, sc, binary, replay):
    """model -> paths -> real rescan -> judge, for one universe."""
    rng = random.Random("%d/%s/%d" % (seed, uname, k))
    u = universe(uname)
    ud = os.path.join(sc, "u%d" % k)
    uj = write_universe(u, ud)
    pf = os.path.join(sc, "paths%d.ndjson" % k)
    consts = None
    if replay:
        family.paths_from_replay(replay, pf)
        tlc, g, paths, unreach = family._NoTLC(), None, [0], 0
    else:
        consts = dict(BASE)
        consts.update(over)
        consts["Lag"] = bool(u["Lag"])
        consts["SplitNotify"] = bool(u["Split"])
        consts.update(CODE_VERSION)
        tlc = core.run_tlc([SPEC, ud], "Rescan", consts, workers=1, invariants=["TypeOK"],
                           workdir=os.path.join(sc, "tlc%d" % k), timeout=3000)
        if not tlc.ok:
            raise core.MachineryError("TLC on Rescan (%s) failed: %s\n%s" % (
                uname, tlc.error, tlc.stdout_tail[-3000:]))
        g = core.Graph.load(tlc)
        if len(g.ids) != tlc.distinct:
            raise core.MachineryError("graph export of Rescan (%s) has %d nodes, TLC found %d states" % (
                uname, len(g.ids), tlc.distinct))
        paths, unreach = core.edge_cover(g, rng)
        if tier == "thorough":
            paths += core.random_walks(g, 1500, 60, rng)
        core.write_paths(g, paths, pf)
        g = _Edges(g)
        shutil.rmtree(os.path.join(sc, "tlc%d" % k), ignore_errors=True)
    sd = os.path.join(sc, "run%d" % k)
    os.makedirs(sd, exist_ok=True)
    of = os.path.join(sc, "obs%d.ndjson" % k)
    _run_driver(binary, "TestVerifRescanReplay", {"VERIF_PATHS": pf, "VERIF_UNIVERSE": uj}, of, sd)
    obs, v, (a, b, c), nr, callbacks = _process(pf, of, [SPEC, ud], prop_id, uname)
    os.remove(of)
    os.remove(pf)
    info = {"universe": uname, "config": consts, "states": tlc.distinct,
            "edges": len(g.edges) if g else 0,
            "model_violating_edges": sum(1 for e in g.edges if e[4]) if g else 0,
            "paths": len(paths), "tlc_wall_s": round(tlc.wall, 1),
            "callbacks_observed": callbacks, "timer_races": nr}
    return dict(tlc=tlc, g=g, paths=paths, unreach=unreach, obs=obs, v=v, drift=(a, b, c), races=nr, info=info)


def run(prop_id, tier, seed, replay=None):
    from concurrent.futures import ThreadPoolExecutor
    t0 = time.time()
    sc = core.scratch("rs")
    try:
        binary = family.build_overlay_test(PKG, [DRIVER, DRIVER_FREE], os.path.join(sc, "neutrino.test"))
        if replay:
            d = json.load(open(replay))
            scen = [(d["trace"].get("uni", "fork"), None)]
        else:
            scen = SCENARIOS[tier]
        with ThreadPoolExecutor(max_workers=3) as ex:
            futs = [ex.submit(_scenario, k, uname, over, prop_id, tier, seed, sc, binary, replay)
                    for k, (uname, over) in enumerate(scen)]
            ffuts = [] if replay else [
                ex.submit(_free, k, uname, runs, steps, mu, prop_id, seed, sc, binary)
                for k, (uname, runs, steps, mu) in enumerate(FREE[tier])]
            res = [f.result() for f in futs]
            fres = [f.result() for f in ffuts]
        agg = _Agg()
        observed, all_paths, per = [], [], []
        verdict = {"violations": [], "known": {}, "n_lines": 0, "wall": 0.0, "raw": 0}
        dr = [0, 0, []]
        races = unreach_total = 0
        for r in res:
            observed += r["obs"]
            all_paths += r["paths"]
            agg.add(r["tlc"], r["g"])
            v = r["v"]
            verdict["violations"] += v["violations"]
            for kid, kv in v["known"].items():
                if kid in verdict["known"]:
                    verdict["known"][kid]["count"] += kv["count"]
                else:
                    verdict["known"][kid] = kv
            verdict["n_lines"] += v["n_lines"]
            verdict["raw"] += v["raw"]
            dr[0] += r["drift"][0]
            dr[1] += r["drift"][1]
            dr[2] += r["drift"][2]
            races += r["races"]
            unreach_total += r["unreach"]
            per.append(r["info"])
        free_info = []
        for r in fres:
            observed += r["obs"]
            v = r["v"]
            verdict["violations"] += v["violations"]
            for kid, kv in v["known"].items():
                if kid in verdict["known"]:
                    verdict["known"][kid]["count"] += kv["count"]
                else:
                    verdict["known"][kid] = kv
            verdict["n_lines"] += v["n_lines"]
            verdict["raw"] += v["raw"]
            dr[1] += r["rejected"]
            dr[2] += r["samples"]
            free_info.append(r["info"])
        dr[2] = dr[2][:5]
        return family.finish(prop_id, tier, seed, t0, agg, agg if agg.edges else None, all_paths, observed,
                             verdict, tuple(dr),
                             {"scenarios": per, "free_running": free_info, "timer_races": races, "code_version": CODE_VERSION,
                              "edges_only_reachable_through_model_violation": unreach_total},
                             ASSUMPTIONS, label=label)
    finally:
        shutil.rmtree(sc, ignore_errors=True)
