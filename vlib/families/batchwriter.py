"""BatchWriter: chanutils.BatchWriter, the batched persister of compact filters (slice of the Shutdown family).

Not a registered check of its own: `run_slice(prop_id, tier, seed)` is called by the check of C17 (and may be called
by C05), which merges the coverage it returns into its evidence with `merge_evidence`.

  model    specs/BatchWriter/BatchWriter.tla: AddItem, one action per arm of manageNewItems' select (take an item
           / batch full -> PutItems, ticker, quit -> final flush), the three steps of Stop, PutItems failing, the
           queue as the FIFO that specs/ConcQueue shows it to be; explored exhaustively by TLC (invariants: the
           Props clauses on every transition, conservation of items, batch empty once Stop returned, ticker armed
           iff a partial batch waits) and exported
  paths    settled.py derives the SETTLED steps (AddItem / Start / Stop issued at once, or the clock advancing by
           one ticker period, or PutItems changing mode; then the goroutines run until none can move); every
           settled step is covered by a path, plus random walks
  replay   harness/overlay/chanutils/zz_verif_batchwriter_test.go on the real BatchWriter[int] in testing/synctest
           bubbles (fake clock for the ticker, recording PutItems)
  judge    BatchWriterProps.tla on the OBSERVED steps (TLC); drift = an observed step that is no settled step of
           the model

AddItem after (or racing with) Stop: the model mirrors what the code does - the call parks in its send on the
queue's input channel for ever (obs.pend stays set).  No clause judges it (see notes/smallstructs.md); the number of
runs that ended so is reported as `runs_ending_with_additem_parked_for_good`.
"""
import json, os, random, shutil, sys, time
from .. import core, family
from . import settled

READY = False          # a slice, not a property owner: bin/vcheck must not register it
PROPERTIES = []

SPEC = os.path.join(core.VERIF, "specs", "BatchWriter")
DRIVER = os.path.join(core.VERIF, "harness", "overlay", "chanutils", "zz_verif_batchwriter_test.go")
PKG = os.path.join(core.REPO, "chanutils")
PARTIES = ("a", "t", "s", "d")

CLAUSES = ["PutOnlyAddedOnceInOrder", "StopReturns", "FinalFlush"]
PROPS = {"C17": CLAUSES, "C05": ["PutOnlyAddedOnceInOrder"]}

CONFIGS = {
    "quick": dict(cfgs=[(1, 0), (2, 2), (3, 0)], MaxAdd=5, MaxTicks=2, MaxToggles=1, walks=300, depth=24),
    "thorough": dict(cfgs=[(1, 0), (1, 3), (2, 0), (2, 2), (3, 0), (3, 1), (4, 2)], MaxAdd=7, MaxTicks=3, MaxToggles=2,
                     walks=3000, depth=40),
}
# thorough: the client's own configuration (neutrino.go:801-806: MaxBatch 10, QueueBufferSize 10), long runs
LONG = dict(cfgs=[(10, 10)], MaxAdd=13, MaxTicks=2, MaxToggles=1, walks=1500, depth=60)

ASSUMPTIONS = [
    "AddItem callers are serialised (the queue's input channel is unbuffered, one call is in its send at a time); "
    "PutItems returns promptly (a database write that blocks is outside this slice)",
    "the ticker's clock moves only when the environment says so, by one full DBWritesTickerDuration; Tick and the "
    "change of PutItems' mode are never simultaneous with AddItem / Start / Stop in a step",
    "testing/synctest: when synctest.Wait() returns every goroutine of the bubble is durably blocked",
    "Start after Stop is not part of the model",
]


def label(act):
    if act.get("op") != "Step":
        return act.get("op", "?")
    return "Step(%s)" % ",".join(act[p] for p in PARTIES if act.get(p, "none") != "none")


def _allow(combo):
    return len(combo) == 1 or not ("t" in combo or "d" in combo)


def _explore(cfg, wd):
    tlc = core.run_tlc([SPEC], "BatchWriter", dict(MaxAdd=cfg["MaxAdd"], MaxTicks=cfg["MaxTicks"], MaxToggles=cfg["MaxToggles"]),
                       cfg_extra="CONSTANT Cfgs <- CfgSet",
                       extra_defs="CfgSet == {%s}" % ", ".join("<<%d, %d>>" % c for c in cfg["cfgs"]),
                       invariants=["TypeOK", "NoViolation", "SettledIsExact", "Conservation", "StoppedBatchEmpty",
                                   "TickerIffPartialBatch"],
                       workers=1, workdir=wd, timeout=2400, heap="4g")
    if not tlc.ok:
        raise core.MachineryError("TLC on BatchWriter failed: %s\n%s" % (tlc.error, tlc.stdout_tail[-3000:]))
    fine = settled.Fine.load(tlc)
    g = settled.macro_graph(fine, PARTIES, allow=_allow)
    shutil.rmtree(wd, ignore_errors=True)
    return tlc, fine, g


def run_slice(prop_id, tier, seed):
    """Returns (rc, coverage): rc 0 held, 1 violation (VIOLATION lines printed); machinery problems raise
    core.MachineryError."""
    t0 = time.time()
    rng = random.Random(seed)
    cfg = CONFIGS["thorough" if tier == "thorough" else "quick"]
    sc = core.scratch("bw")
    try:
        binary = family.build_overlay_test(PKG, [DRIVER], os.path.join(sc, "chanutils.test"))
        runs = []
        tlc, fine, g = _explore(cfg, os.path.join(sc, "tlc"))
        paths, unreach = core.edge_cover(g, rng, max_len=200)
        n_cover = len(paths)
        paths += core.random_walks(g, cfg["walks"], cfg["depth"], rng)
        runs.append(("exh", tlc, fine, g, paths, cfg))
        if tier == "thorough":
            tl2, f2, g2 = _explore(LONG, os.path.join(sc, "tlc-long"))
            p2, _ = core.edge_cover(g2, rng, max_len=200)
            p2 += settled.stall_walks(g2, LONG["walks"], LONG["depth"], rng, party="t", seg=(1, 14),
                                      late=lambda a: a.get("s") == "Stop")
            runs.append(("client-config", tl2, f2, g2, p2, LONG))
        rc, graphs, tot = 0, {}, dict(states=0, transitions=0, traces=0, viol=0, drift=0, tlc=0.0)
        samples, known_seen, parked = [], {}, 0
        for name, tl, fn, gg, pp, c in runs:
            observed, verdict, dr, info = settled.run_graph(
                [SPEC], "BatchWriterProps", PROPS[prop_id], prop_id, binary, "TestVerifBatchWriterReplay",
                gg, pp, sc, name, seed, label, "BatchWriter")
            for kid, k in sorted(verdict["known"].items()):
                print("KNOWN-FINDING: property=%s %s [%s; seen on %d replayed traces, e.g. %s]" % (
                    prop_id, k["entry"]["what_fails"], kid, k["count"], " ".join(k["example"])))
                known_seen[kid] = known_seen.get(kid, 0) + k["count"]
            for v in verdict["violations"][:5]:
                fnm = core.save_replay(prop_id, {"property": prop_id, "slice": "batchwriter", "props": v["props"],
                                                 "step": v["step"], "labels": v["labels"], "trace": v["observed"]})
                print("VIOLATION property=%s replay=%s" % (prop_id, fnm))
                io = v["observed"]["init_obs"]
                print("  violated: %s at step %d of (BatchWriter, MaxBatch %s, QueueBufferSize %s): %s" % (
                    ",".join(v["props"]), v["step"], io.get("maxb"), io.get("qb"), " ".join(v["labels"])))
                rc = 1
            if dr[1]:
                print("drift: %d of %d BatchWriter runs (%s) made a step the model does not have (not a verdict)" % (
                    dr[1], len(observed), name), file=sys.stderr)
            pk = sum(1 for t in observed if t["steps"] and t["steps"][-1]["obs"]["pend"] != 0
                     and t["steps"][-1]["obs"]["stop"] == 2)
            parked += pk
            lost = sum(1 for t in observed if t["steps"] and t["steps"][-1]["obs"]["nq"] != 0
                       and t["steps"][-1]["obs"]["stop"] == 2)
            graphs[name] = dict(
                config={k: c[k] for k in ("cfgs", "MaxAdd", "MaxTicks", "MaxToggles")},
                fine_states=tl.distinct, fine_transitions=fn.n_edges(),
                settled_states=len(gg.out), settled_steps=len(gg.edges),
                settled_steps_with_several_outcomes=gg.nondeterministic_steps,
                model_violating_steps=sum(1 for e in gg.edges if e[4]),
                paths=info["paths"], replayed_steps=info["steps"], paths_cut_short=info["cut"],
                paths_leaving_a_goroutine_blocked_for_good=info["leaked"],
                runs_ending_with_additem_parked_for_good=pk,
                runs_ending_with_accepted_items_left_in_the_queue_after_stop=lost,
                settled_steps_observed_on_the_code=info["edges_seen"],
                outcomes_other_than_predicted_but_allowed=info["alt"],
                steps_with_several_model_states_matching=info["ambiguous"],
                longest_path=max([len(t["steps"]) for t in observed] + [0]),
                putitems_calls=sum(len(t["steps"][-1]["obs"]["put"]) for t in observed if t["steps"]),
                putitems_calls_failing=sum(t["steps"][-1]["obs"]["oks"].count(0) for t in observed if t["steps"]),
                judged_lines_by_tlc=verdict["n_lines"],
                drift={"paths": dr[1], "steps_validated": dr[0], "samples": dr[2]},
                new_violations=len(verdict["violations"]), tlc_wall_s=round(tl.wall, 1))
            if name == "exh":
                graphs[name]["cover_paths"] = n_cover
                graphs[name]["steps_only_reachable_through_model_violation"] = unreach
            tot["states"] += tl.distinct
            tot["transitions"] += fn.n_edges()
            tot["traces"] += len(observed)
            tot["viol"] += len(verdict["violations"])
            tot["drift"] += dr[1]
            tot["tlc"] += tl.wall
            for t in observed[len(observed) // 2:len(observed) // 2 + 2]:
                samples.append({"path": [label(s["act"]) for s in t["steps"]],
                                "last_obs": t["steps"][-1]["obs"] if t["steps"] else t.get("init_obs")})
        cov = {
            "states": tot["states"], "transitions": tot["transitions"], "traces_validated_against_impl": tot["traces"],
            "graphs": graphs, "new_violations": tot["viol"], "known_findings_seen": known_seen,
            "runs_ending_with_additem_parked_for_good": parked,
            "drift": {"paths": tot["drift"]}, "tlc_wall_s": round(tot["tlc"], 1), "wall_s": round(time.time() - t0, 1),
            "samples": samples[:4], "assumptions": ASSUMPTIONS,
        }
        return rc, cov
    finally:
        shutil.rmtree(sc, ignore_errors=True)


def is_my_replay(replay_file):
    try:
        return json.load(open(replay_file)).get("slice") == "batchwriter"
    except Exception:
        return False


def run_replay(prop_id, replay_file):
    """Re-executes a saved violation of this slice on the working tree (bin/vcheck <id> --replay <file>)."""
    sc = core.scratch("bw")
    try:
        binary = family.build_overlay_test(PKG, [DRIVER], os.path.join(sc, "chanutils.test"))
        return settled.replay_saved([SPEC], "BatchWriterProps", PROPS[prop_id], prop_id, binary,
                                    "TestVerifBatchWriterReplay", replay_file, label)
    finally:
        shutil.rmtree(sc, ignore_errors=True)


def merge_evidence(prop_id, cov, rc=0, key="batch_writer_slice_batchwriter"):
    """Adds this slice's measured coverage to the evidence file the calling check has just written."""
    fn = os.path.join(os.environ.get("VERIF_EVIDENCE_DIR", os.path.join(core.VERIF, "evidence")), prop_id + ".json")
    ev = json.load(open(fn))
    c = ev["coverage"]
    c[key] = {k: v for k, v in cov.items() if k not in ("samples", "assumptions")}
    c["states"] += cov["states"]
    c["transitions"] += cov["transitions"]
    c["traces_validated_against_impl"] += cov["traces_validated_against_impl"]
    c["samples"] = list(c.get("samples", [])) + cov["samples"][:2]
    ev["assumptions"] = list(ev.get("assumptions", [])) + [a for a in cov.get("assumptions", []) if a not in ev.get("assumptions", [])]
    ev["violations"] = ev.get("violations", 0) + cov["new_violations"]
    ev["wall_s"] = round(ev.get("wall_s", 0) + cov["wall_s"], 2)
    json.dump(ev, open(fn + ".tmp", "w"), indent=1)
    os.replace(fn + ".tmp", fn)
    return rc


if __name__ == "__main__":
    # python3 -m vlib.families.batchwriter C17 quick 1
    pid = sys.argv[1] if len(sys.argv) > 1 else "C17"
    tier = sys.argv[2] if len(sys.argv) > 2 else "quick"
    seed = int(sys.argv[3]) if len(sys.argv) > 3 else 1
    try:
        rc, cov = run_slice(pid, tier, seed)
    except core.MachineryError as e:
        print("MACHINERY ERROR:", e, file=sys.stderr)
        sys.exit(2)
    except Exception:
        import traceback
        traceback.print_exc()
        sys.exit(2)
    json.dump(cov, sys.stdout, indent=1)
    print()
    sys.exit(rc)
