"""FilterQuery / BlockQuery families: C05 (GetCFilter returns only filters that
match the committed filter header) and C06 (GetBlock returns only the
requested, internally valid block)."""
import json, os, random, shutil, signal, subprocess, time
from .. import core, family

SPEC_F = os.path.join(core.VERIF, "specs", "FilterQuery")
SPEC_B = os.path.join(core.VERIF, "specs", "BlockQuery")
DRIVER = os.path.join(core.VERIF, "harness", "overlay", "neutrino", "zz_verif_queries_test.go")
PKG = core.REPO

READY = True
PROPERTIES = ["C05", "C06"]

MANIFEST = {
    "C05": dict(
        engine="FilterQuery",
        text="Exhaustive TLC exploration of specs/FilterQuery (GetCFilter as CacheLookup / DbLookup / Lock / "
             "CacheLookup2 / Prepare / Submit / one Resp step per peer response / Verdict / Return, plus the batch "
             "writer's Flush; one or two concurrent callers under the single-flight mutex) over every target (block 0, "
             "block 1, the tip, blocks whose filter header is not committed yet, an unknown hash), every batching mode "
             "(none, forward, reverse, capped below / at / above the range), persistToDisk on/off, and response "
             "streams of UNBOUNDED length over {true filter in range, true filter out of range, wrong filter, "
             "malformed bytes, wrong filter type, duplicate, non-cfilter message} x every block. EVERY transition of "
             "that graph is replayed against the real ChainService.GetCFilter / cfiltersQuery.handleResponse (real "
             "headerfs stores with a real chain, real GCS filters built with btcd, real lru cache, real filterdb, real "
             "chanutils.BatchWriter; only the work manager is a capturing dispatcher), and the operators of "
             "FilterQueryProps.tla are evaluated by TLC on the observed traces: the returned filter is recomputed "
             "against the filter headers the real store committed, FilterCache.Range / FilterDB.FetchFilter / "
             "batch-writer hand-offs may only ever gain the true filter of the block a first-time, in-range, "
             "well-formed response is about. In addition free-running scenarios drive GetCFilter through the REAL "
             "query.WorkManager (dispatcher + workers) with scripted mock peers; every handler invocation is recorded "
             "with the projected state and the recorded trace must be a behaviour of the specification (walk of TLC's "
             "state graph) and satisfy the same Props.",
        note="Bounded: chain of <=6 blocks, <=2 callers, caps <=3; stream length unbounded (bad responses are "
             "self-loops of the state graph). Trusts TLC, btcd's gcs builder for the TRUE filters (cross-checked "
             "against the harness' own filter-header hash), and that a dispatcher calls HandleResp sequentially per "
             "request and reports one verdict (that is C12's subject). Cache eviction (cache smaller than a batch) "
             "and database read errors are not modelled.",
        design="4 C05", technique="TLA+ spec + TLC exhaustive + spec-to-code replay of every transition + free-running traces "
                                  "(real work manager) validated against TLC's state graph + TLC-judged observed traces"),
    "C06": dict(
        engine="BlockQuery",
        text="Exhaustive TLC exploration of specs/BlockQuery (GetBlock as HeaderLookup / CacheLookup / Submit / one "
             "Resp step per response / Verdict+cache put / Return, up to 3 consecutive calls) over response streams of "
             "unbounded length from up to 4 peers over {requested block intact, other block, sibling header (the requested block with exactly one header field - version, prev block, merkle root, timestamp, bits or nonce - changed and PoW still valid), tx mutated, tx added, tx "
             "removed, witness stripped, witness commitment forged, duplicate of the previous message, non-block}, "
             "for two target classes: an ordinary stored header, and (second configuration) a stored header whose timestamp "
             "is more than two hours ahead of the node's clock (the code's CheckBlockSanity then fails on the header before "
             "it looks at the transactions: every response under the requested header, the intact block included, is "
             "rejected and its sender banned - modelled as it is, the intact case is not judged). "
             "EVERY transition is replayed against the real ChainService.GetBlock and its response closure (real block "
             "header store, REAL blocks with witness commitments and P2WPKH/P2PKH transactions, mutations such as the "
             "CVE-2012-2459 duplicate-tail block that keeps the merkle root, real lru cache, real banman store behind "
             "BanPeer; capturing dispatcher), and BlockQueryProps.tla is evaluated by TLC on the observed traces: "
             "returned block has the requested header hash, reproduces the merkle root and has a valid witness "
             "commitment (recomputed by the harness' own code, not btcd's); invalid-under-requested-header responses "
             "ban their sender and never finish the request; other responses change neither bans nor cache; only the "
             "intact requested block is cached. In addition free-running scenarios drive GetBlock through the REAL "
             "query.WorkManager with scripted mock peers that serve invalid / unrelated / intact blocks and disconnect "
             "or time out (the retry with other peers happens for real); the recorded traces must be behaviours of "
             "the specification and satisfy the same Props.",
        note="Bounded: <=3 known blocks, <=4 peers, <=3 calls; the future-dated header is the top block of the store. Witness encoding only (the default); retry with other "
             "peers itself is the dispatcher's job (C12) - here the Progress values that trigger it are checked. Trusts "
             "TLC and the harness' own merkle / witness-commitment code (cross-checked against btcd on the intact blocks).",
        design="4 C06", technique="TLA+ spec + TLC exhaustive + spec-to-code replay of every transition + free-running traces "
                                  "(real work manager) validated against TLC's state graph + TLC-judged observed traces"),
}

PROPS = {
    "C05": ["ReturnedMatchesCommitted", "StoredOnlyVerified", "ContentsAreTrueFilters", "FailsCleanly",
            "CallReturns"],
    "C06": ["ReturnedIsRequested", "InvalidSenderBanned", "OthersIgnored", "RejectedNotFinished",
            "OnlyIntactCached", "FailsCleanly", "CallReturns"],
}


def S(xs):
    xs = list(xs)
    if xs and isinstance(xs[0], str):
        return "{" + ",".join('"%s"' % x for x in xs) + "}"
    if xs and isinstance(xs[0], bool):
        return "{" + ",".join("TRUE" if x else "FALSE" for x in xs) + "}"
    return "{" + ",".join(str(x) for x in xs) + "}"


ALLM = ["none", "fwd", "rev"]


def fq(BTip, FTips, NC, M1, C1, T1, M2=("none",), C2=(0,), T2=(), P=(True, False), BadAll=False, PH=()):
    return dict(BTip=BTip, FTips=S(FTips), NC=NC, Modes1=S(M1), Caps1=S(C1), Targets1=S(T1),
                Modes2=S(M2), Caps2=S(C2), Targets2=S(T2), Persists=S(P), BadAll=BadAll, PHBlocks=S(PH))


# (module, spec dir, driver test, [(scenario name, constants, random walks (n, depth))])
CONFIGS = {
    ("C05", "quick"): ("FilterQuery", SPEC_F, "TestVerifFilterQueryReplay", [
        ("single", fq(4, [2, 4], 1, ALLM, [0, 2], range(0, 6), PH=[2]), None),
        ("two-callers", fq(2, [2], 2, ["none", "fwd"], [0], [1, 2], ["none", "rev"], [0], [1, 2], P=[True], PH=[1]), None),
    ]),
    ("C05", "thorough"): ("FilterQuery", SPEC_F, "TestVerifFilterQueryReplay", [
        ("single", fq(5, [3, 4, 5], 1, ALLM, [0, 1, 2, 3, 5], range(0, 7), BadAll=True, PH=[1, 3, 5]), (3000, 40)),
        ("two-callers", fq(3, [2, 3], 2, ALLM, [0], range(1, 5), ["none", "rev"], [0], range(1, 4), P=[True], PH=[2]), (2000, 40)),
    ]),
    # Fut: known blocks whose STORED header is dated more than 2 h ahead of the node's clock (the top block of
    # the store only: its children would have to build on it).  "future": the same model with such a target
    # next to an ordinary one; an optional 4th element gives the scenario free-running runs of its own
    # (scenarios, silent share, chatter share, forced chatter).
    ("C06", "quick"): ("BlockQuery", SPEC_B, "TestVerifBlockQueryReplay", [
        ("calls", dict(NB=2, NP=3, MaxCalls=2, MaxResp=0, Fut="{}"), None),
        ("future", dict(NB=2, NP=2, MaxCalls=2, MaxResp=0, Fut="{2}"), None, (16, 0.0, 0.0, 0)),
    ]),
    ("C06", "thorough"): ("BlockQuery", SPEC_B, "TestVerifBlockQueryReplay", [
        ("calls", dict(NB=3, NP=4, MaxCalls=3, MaxResp=0, Fut="{}"), (5000, 40)),
        ("future", dict(NB=3, NP=3, MaxCalls=3, MaxResp=0, Fut="{3}"), (2000, 40), (200, 0.04, 0.03, 0)),
    ]),
}

# free-running traces through the real query.WorkManager: (number of scenarios, share of peers that stay
# silent after their script instead of disconnecting - each costs the dispatcher's 2 s+ job timeout)
FREE = {   # (scenarios, share of silent peers, share of chattering peers, scenarios with a forced chattering peer)
    ("C05", "quick"): (64, 0.0, 0.0, 4), ("C05", "thorough"): (1000, 0.04, 0.03, 8),
    ("C06", "quick"): (64, 0.0, 0.0, 4), ("C06", "thorough"): (1000, 0.04, 0.03, 8)}
# A peer that stays silent, or keeps sending unrelated messages ("chatter", one every 400 ms), costs the
# dispatcher's job timeout (2 s, doubled per timeout) before the request moves on; everything else is immediate.
DRIVER_TIMEOUT = 1200      # outer wall-clock bound of one driver process (normal: < 90 s)
BOUND_FAST, BOUND_SLOW = 30, 150   # per-call bound in free-running scenarios without / with silent or chattering peers

INVARIANTS = {"FilterQuery": ["TypeOK", "SingleFlight", "StoredCommitted"], "BlockQuery": ["TypeOK"]}

ASSUMPTIONS = {
    "C05": [
        "the dispatcher calls a request's HandleResp from one goroutine at a time and delivers exactly one verdict "
        "(C12); the capturing dispatcher of the driver does the same",
        "the TRUE filter of a block is what btcd's builder.BuildBasicFilter produces for the real block; the harness "
        "recomputes the filter-header hash itself and reads the committed headers from the real filter header store",
        "a batch-writer flush is modelled as one step that writes everything handed over so far (equivalent to the "
        "writer's ticker firing at that moment); the hand-off itself (PutItems callback) is observed after every step",
        "block and filter header stores do not change during a call (reorganisations are the block manager's subject)",
    ],
    "C06": [
        "the dispatcher calls the handler from one goroutine at a time and delivers exactly one verdict (C12)",
        "'valid witness commitment' is judged by the harness' own implementation of BIP141's commitment rule, "
        "cross-checked against btcd on the generated intact blocks",
        "a ban is observed through banman.Store.Status for the sender's address; the asynchronous disconnect that "
        "follows BanPeer is not part of the property",
    ],
}


def label(act):
    op = act.get("op", "?")
    if "c" in act:      # FilterQuery
        c = act.get("c", 0)
        if op == "CacheLookup":
            s = "CacheLookup%d(t%d,%s,cap%d)" % (c, act["tgt"], act["m"], act["cap"])
        elif op == "Resp":
            s = "Resp%d(%s,b%d)" % (c, act["k"], act["b"])
        elif op == "Verdict":
            s = "Verdict%d(%s)" % (c, act["k"])
        elif op == "Submit":
            s = "Submit%d[%d..%d]" % (c, act["lo"], act["hi"])
        elif op == "Flush":
            s = "Flush"
        else:
            s = "%s%d" % (op, c)
    else:               # BlockQuery
        if op == "HeaderLookup":
            s = "GetBlock(t%d)" % act["tgt"]
        elif op == "Resp":
            s = "Resp(%s,b%d,p%d)" % (act["k"], act["b"], act["p"])
        elif op == "Verdict":
            s = "Verdict(%s)" % act["k"]
        else:
            s = op
    return s + "=" + str(act.get("res"))



# --------------------------------------------------------------------------
# Free-running traces: the real query.WorkManager with scripted mock peers.
# --------------------------------------------------------------------------
FQ_IN = ("op", "c", "tgt", "m", "cap", "b")
BQ_IN = ("op", "tgt", "b", "p")


def _same_input(module, a, m):
    keys = FQ_IN if module == "FilterQuery" else BQ_IN
    if any(a.get(k) != m.get(k) for k in keys):
        return False
    ka, km = a.get("k"), m.get("k")
    if module == "FilterQuery" and {ka, km} <= {"true", "dup"}:
        return True          # a repeated true filter is the model's "dup"
    return ka == km


def validate_trace(module, g, trace):
    """Is the recorded trace a behaviour of the specification?  Walks TLC's
    exhaustive state graph along the recorded inputs and compares the recorded
    outcome and observables with the model's.  Returns None or a description."""
    node = None
    for n, o in g.inits:
        if o == trace["init_obs"]:
            node = n
    if node is None:
        return {"step": 0, "what": "no initial state of the model has these observables"}
    for i, st in enumerate(trace["steps"]):
        a = st["act"]
        cands = [g.edges[e] for e in g.out[node] if _same_input(module, a, g.edges[e][1])]
        if not cands:
            return {"step": i + 1, "what": "the model has no such step here", "act": a}
        hit = None
        for e in cands:
            m = dict(e[1])
            if module == "FilterQuery":
                m["k"] = a.get("k")
            if m == a and e[3] == st["obs"]:
                hit = e
        if hit is None:
            return {"step": i + 1, "what": "outcome differs from the model", "code_act": a,
                    "code_obs": st["obs"], "model_act": cands[0][1], "model_obs": cands[0][3]}
        node = hit[2]
    return None


def _fq_range(h, m, cp, ftip):
    bs = cp if 0 < cp < 1000 else 1000
    s0 = h - bs + 1 if m == "rev" else h
    e0 = h + bs - 1 if m == "fwd" else h
    return max(s0, 1), min(e0, ftip)


def free_scenarios(module, consts, n, rng, silent_share, chatter_share=0.0, forced_chatter=0):
    """n scenario lines (dicts with init_obs and free) inside the bounds of consts."""
    out = []
    ev = lambda x: eval(x.replace("{", "[").replace("}", "]").replace("TRUE", "True").replace("FALSE", "False"))
    def ending():
        x = rng.random()
        return "silent" if x < silent_share else "chatter" if x < silent_share + chatter_share else "disconnect"

    def finish_call(call, chatter_items, force):
        """Sets the chatter items and the wall-clock bound; force: one peer is made to chatter and nobody
        may finish the request, so that the chattering peer is certainly asked."""
        if force:
            call["peers"][rng.randrange(len(call["peers"]))]["end"] = "chatter"
        slow = False
        for pr in call["peers"]:
            if pr["end"] == "chatter":
                pr["chatter"] = chatter_items
            slow = slow or pr["end"] in ("silent", "chatter")
        call["bound_s"] = BOUND_SLOW if slow else BOUND_FAST
        return call

    for sn in range(n):
        force = sn < forced_chatter
        if module == "BlockQuery":
            nb, np_, mc = consts["NB"], consts["NP"], consts["MaxCalls"]
            futs = ev(consts.get("Fut", "{}"))
            init = {"ret": -9, "cache": [0] * nb, "cx": 0, "fut": [1 if b in futs else 0 for b in range(1, nb + 1)],
                    "banned": [0] * np_}
            calls = []
            for _c in range(rng.randint(1, mc)):
                tgt = rng.choice(list(range(1, nb + 1)) * 4 + [nb + 1] + list(futs) * 6)
                if force and _c == 0:
                    tgt = rng.randint(1, nb)
                peers, first = [], True
                order = list(range(1, np_ + 1))
                for p in order:
                    script = []
                    for j in range(rng.randint(0, 3)):
                        ks = ["intact", "other", "sibling", "mutated", "added", "removed", "stripped", "forged", "nonblock"]
                        if force and _c == 0:
                            ks.remove("intact")
                        if j > 0:       # the dispatcher decides which peer is asked first
                            ks.append("dup")
                        k = rng.choice(ks)
                        b = tgt
                        if k == "other":
                            b = rng.choice([x for x in range(1, nb + 2) if x != tgt])
                        elif k == "nonblock":
                            b = 0
                        elif k == "dup":
                            b = -1          # resolved by the driver / the walk
                        script.append({"k": k, "b": b})
                    first = False
                    peers.append({"p": p, "script": script, "end": ending()})
                other = rng.choice([x for x in range(1, nb + 2) if x != tgt])
                chat = [{"k": "other", "b": other}, {"k": "nonblock", "b": 0}, {"k": "sibling", "b": tgt}]
                calls.append(finish_call({"tgt": tgt, "m": "", "cap": 0, "retries": np_, "peers": peers},
                                         chat, force and _c == 0))
            out.append({"init_obs": init, "free": {"calls": calls}})
        else:
            bt = consts["BTip"]
            ftip = rng.choice(ev(consts["FTips"]))
            persist = rng.choice(ev(consts["Persists"]))
            init = {"ret": [-9, -9], "cache": [0] * (bt + 1), "db": [1] + [0] * bt, "wq": [0] * (bt + 1),
                    "cx": 0, "dx": 0, "wx": 0, "btip": bt, "ftip": ftip, "persist": 1 if persist else 0}
            phs = ev(consts["PHBlocks"]) if consts.get("PHBlocks", "{}") != "{}" else []
            if phs and rng.random() < 0.3:
                init["db"][rng.choice(phs)] = 2      # a placeholder entry in the database
            tgt = rng.choice(ev(consts["Targets1"]))
            m = rng.choice(ev(consts["Modes1"]))
            cp = rng.choice(ev(consts["Caps1"]))
            lo, hi = _fq_range(tgt, m, cp, ftip)
            inr = list(range(lo, hi + 1))
            peers = []
            for p in (1, 2, 3):
                script = []
                for j in range(rng.randint(0, 4)):
                    k = rng.choice(["true", "true", "true", "wrong", "malformed", "wrongtype", "noncf"])
                    if force and k == "true" and tgt in inr:
                        k = "noncf"          # nobody completes the request
                    if k == "true":
                        b = rng.choice(inr * 3 + list(range(0, bt + 1))) if inr else rng.randint(0, bt)
                    elif k == "noncf":
                        b = 0
                    else:
                        pool = list(range(1, bt + 1)) if consts["BadAll"] else inr
                        if not pool:
                            continue
                        b = rng.choice(pool)
                    script.append({"k": k, "b": b})
                peers.append({"p": p, "script": script, "end": ending()})
            chat = [{"k": "noncf", "b": 0}, {"k": "true", "b": 0}]
            out.append({"init_obs": init,
                        "free": {"calls": [finish_call({"tgt": tgt, "m": m, "cap": cp, "retries": 3, "peers": peers},
                                                       chat, force)]}})
    return out


def judge_adaptive(spec, module, prop_id, observed, info):
    """family.judge, made robust against trees on which almost every trace violates something: TLC's set of
    violations makes one big ObsCheck run quadratic.  A probe of 300 traces is judged first; only if it is
    clean is the rest judged in one run, otherwise in pieces of 1000, stopping once 60 violations are known
    (the verdict is exit 1 already; the number of unjudged traces is reported)."""
    def one(trs):
        return family.judge([spec], module + "Props", PROPS[prop_id], prop_id, trs, label=label)
    total = {"violations": [], "known": {}, "n_lines": 0, "wall": 0.0, "raw": 0}

    def add(v):
        total["violations"].extend(v["violations"])
        total["n_lines"] += v["n_lines"]
        total["raw"] += v["raw"]
        for kid, k in v["known"].items():
            if kid in total["known"]:
                total["known"][kid]["count"] += k["count"]
            else:
                total["known"][kid] = k
    probe, rest = observed[:300], observed[300:]
    v = one(probe)
    add(v)
    if not rest:
        return total
    if v["raw"] == 0:
        add(one(rest))
        return total
    for i in range(0, len(rest), 1000):
        if len(total["violations"]) >= 60:
            info["traces_not_judged_after_60_violations"] = info.get("traces_not_judged_after_60_violations", 0) + \
                len(rest) - i
            break
        add(one(rest[i:i + 1000]))
    return total


def run_driver(binary, test_name, paths_file, out_file, scratch, timeout=DRIVER_TIMEOUT, env_extra=None):
    """Like family.run_driver, with an outer wall-clock bound: the driver bounds every blocking point itself
    (hung calls become the judged outcome "hang"); if the process as a whole still does not finish it is
    killed and the run is a machinery error, never a verdict."""
    env = core.go_env()
    env.update({"VERIF_PATHS": paths_file, "VERIF_OUT": out_file, "VERIF_SCRATCH": scratch})
    if env_extra:
        env.update(env_extra)
    p = subprocess.Popen([binary, "-test.run", "^" + test_name + "$", "-test.count=1",
                          "-test.timeout", "%ds" % timeout], cwd=scratch, env=env, stdout=subprocess.PIPE,
                         stderr=subprocess.STDOUT, text=True, start_new_session=True)
    try:
        out, _ = p.communicate(timeout=timeout + 60)
    except subprocess.TimeoutExpired:
        try:
            os.killpg(p.pid, signal.SIGKILL)
        except OSError:
            pass
        p.wait()
        raise core.MachineryError("driver %s did not finish within %d s and was killed" % (test_name, timeout + 60))
    if p.returncode != 0 or not os.path.exists(out_file):
        raise core.MachineryError("driver failed rc=%d:\n%s" % (p.returncode, out[-6000:]))
    res = [json.loads(line) for line in open(out_file)]
    return res, out


class _Merged:
    """Sums what family.finish reads from a TLC run / a graph."""
    def __init__(self):
        self.generated = self.distinct = self.depth = 0
        self.wall = 0.0
        self.edges = []

    def add(self, tlc, g):
        self.generated += tlc.generated
        self.distinct += tlc.distinct
        self.depth = max(self.depth, tlc.depth)
        self.wall += tlc.wall
        self.edges.extend((0, 0, 0, 0, e[4]) for e in g.edges)   # finish() only counts them


CHUNK = 30000     # paths per driver / judge round (bounds memory)


def _shrink(t):
    d = {"id": t["id"], "steps": [0] * len(t["steps"])}
    if t.get("error"):
        d["error"] = t["error"]
    return d


def run(prop_id, tier, seed, replay=None):
    t0 = time.time()
    rng = random.Random(seed)
    module, spec, test, scenarios = CONFIGS[(prop_id, tier)]
    sc = core.scratch("qy")
    try:
        phases = {"model_s": 0.0, "build_s": 0.0, "replay_s": 0.0, "judge_s": 0.0}
        t1 = time.time()
        binary = family.build_overlay_test(PKG, [DRIVER], os.path.join(sc, "neutrino.test"))
        phases["build_s"] = round(time.time() - t1, 1)
        merged = _Merged()
        info = {}
        state = {"n_paths": 0, "unreach": 0, "observed": [], "keep": 3,
                 "verdict": {"violations": [], "known": {}, "n_lines": 0, "wall": 0.0, "raw": 0},
                 "drift": [0, 0, []], "variants": {}}

        def replay_chunk(pf):
            t1 = time.time()
            observed, log = run_driver(binary, test, pf, pf + ".obs", sc,
                                              env_extra={"VERIF_SEED": str(seed)})
            os.remove(pf + ".obs")
            phases["replay_s"] += time.time() - t1
            t1 = time.time()
            observed.sort(key=lambda t: t["id"])
            v = judge_adaptive(spec, module, prop_id, observed, state)
            phases["judge_s"] += time.time() - t1
            vd = state["verdict"]
            vd["violations"].extend(v["violations"])
            vd["n_lines"] += v["n_lines"]
            vd["raw"] += v["raw"]
            for kid, k in v["known"].items():
                if kid in vd["known"]:
                    vd["known"][kid]["count"] += k["count"]
                else:
                    vd["known"][kid] = k
            n_steps, n_drift, samples = family.drift(pf, observed, label=label)
            state["drift"][0] += n_steps
            state["drift"][1] += n_drift
            state["drift"][2] = (state["drift"][2] + samples)[:5]
            for t in observed:
                if t.get("skipped"):
                    state["skipped"] = state.get("skipped", 0) + 1
                for st in t["steps"]:
                    if st["act"].get("res") == "hang":
                        state["hangs"] = state.get("hangs", 0) + 1
                    v = st.get("var")
                    if v:
                        v = v.split(" ")[0]
                        state["variants"][v] = state["variants"].get(v, 0) + 1
                if state["keep"] > 0 and not t.get("error"):
                    state["keep"] -= 1
                    state["observed"].append(t)
                else:
                    state["observed"].append(_shrink(t))

        free = FREE.get((prop_id, tier))

        def free_run(g, consts, spec_free):
            n, silent, chatter, forced = spec_free
            t1 = time.time()
            fpf = os.path.join(sc, "free.ndjson")
            scen = {}
            with open(fpf, "w") as f:
                for i, d in enumerate(free_scenarios(module, consts, n, rng, silent, chatter, forced)):
                    d["id"] = 10 ** 7 + len(state.get("free_obs", [])) + i
                    d["steps"] = []
                    scen[d["id"]] = d["free"]
                    f.write(json.dumps(d) + "\n")
            traces, log = run_driver(binary, test, fpf, fpf + ".obs", sc,
                                            env_extra={"VERIF_SEED": str(seed)})
            traces.sort(key=lambda t: t["id"])
            # the "dup" letter: the driver resolves it to the previous message; give it the model's b
            for t in traces:
                last_b = 0
                for st in t["steps"]:
                    a = st["act"]
                    if module == "BlockQuery" and a["op"] == "Resp":
                        if a["k"] == "dup":
                            a["b"] = last_b
                        last_b = a["b"]
                    elif module == "BlockQuery" and a["op"] == "HeaderLookup":
                        last_b = 0
            v = judge_adaptive(spec, module, prop_id, traces, state)
            vd = state["verdict"]
            vd["violations"].extend(v["violations"])
            vd["n_lines"] += v["n_lines"]
            for kid, k in v["known"].items():
                vd["known"].setdefault(kid, k)
            rejected = []
            for t in traces:
                if t.get("error"):
                    continue
                r = validate_trace(module, g, t)
                if r:
                    r["trace"] = t["id"]
                    r["scenario"] = scen.get(t["id"])
                    r["labels"] = [label(x["act"]) for x in t["steps"][:r["step"]]]
                    rejected.append(r)
            fr = {"traces": len(traces), "steps": sum(len(t["steps"]) for t in traces),
                  "hung_calls": sum(1 for t in traces for st in t["steps"] if st["act"].get("res") == "hang"),
                  "skipped": sum(1 for t in traces if t.get("skipped")),
                  "not_a_behaviour_of_the_spec": len(rejected), "samples": rejected[:3],
                  "wall_s": round(time.time() - t1, 1),
                  "example": [label(x["act"]) for x in traces[0]["steps"]] if traces else []}
            prev = state.get("free")
            if prev:        # a second scenario with free-running runs of its own: sum up
                for k in ("traces", "steps", "hung_calls", "skipped", "not_a_behaviour_of_the_spec"):
                    fr[k] += prev[k]
                fr["samples"] = (prev["samples"] + fr["samples"])[:3]
                fr["wall_s"] = round(fr["wall_s"] + prev["wall_s"], 1)
                fr["example"] = prev["example"]
                def fut_resp(x):
                    f, t = x["obs"].get("fut", []), x["act"].get("tgt", 0)
                    return x["act"]["op"] == "Resp" and 1 <= t <= len(f) and f[t - 1] == 1
                fr["example_future_dated_target"] = next(
                    ([label(x["act"]) for x in t["steps"]] for t in traces if any(fut_resp(x) for x in t["steps"])), [])
            state["free"] = fr
            state["drift"][1] += len(rejected)
            state["drift"][2] = (state["drift"][2] + [dict(r, what="free-running trace: " + r["what"]) for r in rejected])[:5]
            state["free_obs"] = state.get("free_obs", []) + [_shrink(t) for t in traces]

        if replay:
            pf = os.path.join(sc, "paths.ndjson")
            family.paths_from_replay(replay, pf)
            # keep the concrete message variants of the recorded trace
            rec = [x for x in json.load(open(replay))["trace"]["steps"] if not x.get("note")]
            d = json.loads(open(pf).read())
            for st, r in zip(d["steps"], rec):
                if "vn" in r:
                    st["vn"] = r["vn"]
            open(pf, "w").write(json.dumps(d) + "\n")
            state["n_paths"] = 1
            replay_chunk(pf)
            tlc_m, g_m = family._NoTLC(), None
        else:
            for name, consts, walks, *own_free in scenarios:
                t1 = time.time()
                tlc = core.run_tlc([spec], module, consts, workers=1, invariants=INVARIANTS[module],
                                   workdir=os.path.join(sc, "tlc-" + name), timeout=3000)
                if not tlc.ok:
                    raise core.MachineryError("TLC on %s (%s) failed: %s\n%s" % (
                        module, name, tlc.error, tlc.stdout_tail[-3000:]))
                g = core.Graph.load(tlc)
                shutil.rmtree(os.path.join(sc, "tlc-" + name), ignore_errors=True)
                paths, un = core.edge_cover(g, rng)
                state["unreach"] += un
                if walks:
                    paths += core.random_walks(g, walks[0], walks[1], rng)
                tmp = os.path.join(sc, "p-%s.ndjson" % name)
                core.write_paths(g, paths, tmp)
                merged.add(tlc, g)
                if free and name == scenarios[0][0]:
                    free_run(g, consts, free)
                elif free and own_free:
                    free_run(g, consts, own_free[0])
                info[name] = {"constants": consts, "states": tlc.distinct, "edges": len(g.edges),
                              "paths": len(paths), "tlc_wall_s": round(tlc.wall, 1),
                              "model_violating_edges": sum(1 for e in g.edges if e[4])}
                del g
                phases["model_s"] += time.time() - t1
                # renumber and replay in chunks
                k, out, pf = 0, None, None
                for line in open(tmp):
                    if out is None:
                        pf = os.path.join(sc, "chunk.ndjson")
                        out = open(pf, "w")
                    d = json.loads(line)
                    d["id"] = state["n_paths"]
                    state["n_paths"] += 1
                    out.write(json.dumps(d, separators=(",", ":")) + "\n")
                    k += 1
                    if k >= CHUNK:
                        out.close()
                        replay_chunk(pf)
                        k, out = 0, None
                if out is not None:
                    out.close()
                    replay_chunk(pf)
                os.remove(tmp)
            tlc_m, g_m = merged, merged
        phases = {k: round(v, 1) for k, v in phases.items()}
        return family.finish(prop_id, tier, seed, t0, tlc_m, g_m, list(range(state["n_paths"])),
                             state["observed"] + state.get("free_obs", []), state["verdict"],
                             tuple(state["drift"]),
                             {"scenarios": info, "edges_only_reachable_through_model_violation": state["unreach"],
                              "phases": phases, "free_running": state.get("free"),
                              "hung_calls": state.get("hangs", 0) + (state.get("free") or {}).get("hung_calls", 0),
                              "paths_skipped_after_repeated_hangs": state.get("skipped", 0),
                              "traces_not_judged_after_60_violations":
                                  state.get("traces_not_judged_after_60_violations", 0),
                              "response_variants_exercised": dict(sorted(state["variants"].items()))},
                             ASSUMPTIONS[prop_id], label=label)
    finally:
        shutil.rmtree(sc, ignore_errors=True)
