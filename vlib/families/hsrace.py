"""HSRace: one writer against one reader on the two headerfs stores (slice of the HeaderStore family).

Not a registered check of its own: `run_race(prop_id, tier, seed)` is called by the checks of C01
(lookups by height / hash / tip agree) and C07 (reads answer like a plain list), which merge the
coverage it returns into their evidence.

  model    specs/HeaderStore/HSRace.tla, explored exhaustively by TLC twice: Locks = TRUE (the store
           mutexes exactly where the code at HEAD takes them: behaviours are PREDICTIONS) and
           Locks = FALSE (nobody locks: every interleaving at gate granularity: SCHEDULES only)
  replay   harness/overlay/headerfs/zz_verif_hsrace_test.go: two real goroutines on real stores,
           every View/Update/ReadAt/Write/Truncate a gate (in front of and behind the primitive),
           mutex waits recognised from goroutine dumps; every edge of both graphs is replayed
  judge    HSRaceProps.tla on the OBSERVED traces: the value a finished read returned must be the
           answer of the plain lists before/after one of the operations that overlapped the read
"""
import json, os, random, re, shutil, sys, time
from .. import core, family

SPEC = os.path.join(core.VERIF, "specs", "HeaderStore")
DRIVER = os.path.join(core.VERIF, "harness", "overlay", "headerfs", "zz_verif_hsrace_test.go")
PKG = os.path.join(core.REPO, "headerfs")

# clause -> properties.  C01 speaks about the tip and lookups by height and by hash of the block
# store; C07 about every read of both stores.
PROPS = {
    "C01": ["BlockLookupAtomic"],
    "C07": ["BlockLookupAtomic", "AncestorsAtomic", "LocatorAtomic", "FilterLookupAtomic"],
}

CODE_VERSION = json.load(open(os.path.join(SPEC, "code_version.json")))
LOCKS = CODE_VERSION.get("RaceLocks", True)   # the model that predicts the code

ASSUMPTIONS = [
    "one writer goroutine and one reader goroutine; the stores reach their media only through the "
    "headerfs.File and walletdb.DB interfaces, so an interleaving is fixed by the order of those calls",
    "a read is correct iff its value is the plain lists' answer before or after one of the writer "
    "operations that overlapped it (linearizability)",
    "a goroutine that is not at a gate and whose dump twice shows a sync mutex wait called from a "
    "store method is waiting for that store's mutex",
]


def _op(call, n=0, batch=()):
    return {"call": call, "n": n, "batch": list(batch)}


def _reads(ids=(), heights=(), fids=(), fheights=(), tips="", anc=True, hs=()):
    r = []
    for i in ids:
        r += [("FetchHeader", i, 0), ("HeightFromHash", i, 0)]
        if anc:
            r.append(("Ancestors", i, hs[i]))
    for h in heights:
        r.append(("ByHeight", h, 0))
    for i in fids:
        r.append(("FFetchHeader", i, 0))
        if anc:
            r.append(("FAncestors", i, hs[i]))
    for h in fheights:
        r.append(("FByHeight", h, 0))
    if "B" in tips:
        r.append(("ChainTip", 0, 0))
    if "L" in tips:
        r.append(("Locator", 0, 0))
    if "F" in tips:
        r.append(("FChainTip", 0, 0))
    return r


def scenarios(tier):
    """(N, [scenario]): initial lists 0..lb-1 / 0..lf-1, the writer's program, the reader's repertoire
    (hs[i] = the height header i has whenever it is stored = numHeaders of an ancestors call for it),
    mr = read calls per history."""
    if tier == "quick":
        n = 4
        hs = [0, 1, 2, 1]
        scen = [
            # a two-deep reorganisation of the block store: headers 1,2 replaced by header 3
            dict(lb=3, lf=1, mr=1, prog=[_op("RollbackB", 2), _op("AppendB", 1, [3])],
                 reads=_reads(ids=[1, 2, 3], heights=[1, 2], tips="BL", hs=hs)),
            # header 2 replaced by header 3, filter headers too, in the order the block manager uses
            dict(lb=3, lf=3, mr=1, prog=[_op("RollbackF", 1), _op("RollbackB", 1), _op("AppendB", 2, [3]),
                                         _op("AppendF", 2, [3])],
                 reads=_reads(ids=[2, 3], heights=[2], fids=[2, 3], fheights=[2], tips="BLF", hs=[0, 1, 2, 2])),
            # two reads, one after the other, while one header is removed and another one added
            dict(lb=3, lf=1, mr=2, prog=[_op("RollbackB", 1), _op("AppendB", 2, [3])],
                 reads=[("ChainTip", 0, 0), ("ByHeight", 2, 0), ("HeightFromHash", 2, 0), ("FetchHeader", 3, 0)]),
        ]
    else:
        n = 6
        hs = [0, 1, 2, 2, 0, 0]
        scen = [
            dict(lb=3, lf=1, mr=2, prog=[_op("RollbackB", 2), _op("AppendB", 1, [3])],
                 reads=_reads(ids=[0, 1, 2, 3], heights=[0, 1, 2], tips="BL", hs=[0, 1, 2, 1, 0, 0])),
            dict(lb=3, lf=3, mr=2, prog=[_op("RollbackF", 1), _op("RollbackB", 1), _op("AppendB", 2, [3]),
                                         _op("AppendF", 2, [3])],
                 reads=_reads(ids=[1, 2, 3], heights=[1, 2, 3], fids=[1, 2, 3], fheights=[1, 2, 3], tips="BLF", hs=hs)),
            # two headers replaced by two others (batch append), filter headers follow
            dict(lb=4, lf=4, mr=1, prog=[_op("RollbackF", 2), _op("RollbackF", 1), _op("RollbackB", 2),
                                         _op("AppendB", 2, [4, 5]), _op("AppendF", 2, [4, 5])],
                 reads=_reads(ids=range(6), heights=range(5), fids=range(6), fheights=range(5), tips="BLF",
                              hs=[0, 1, 2, 3, 2, 3])),
            # plain growth
            dict(lb=2, lf=2, mr=2, prog=[_op("AppendB", 2, [2, 3]), _op("AppendF", 2, [2]), _op("AppendB", 4, [4])],
                 reads=_reads(ids=[1, 3, 4], heights=[1, 3, 4, 5], fids=[2], fheights=[2, 3], tips="BLF",
                              hs=[0, 1, 2, 3, 4, 0])),
            # plain shrinking, then one other header
            dict(lb=5, lf=4, mr=1, prog=[_op("RollbackF", 2), _op("RollbackB", 1), _op("RollbackF", 1),
                                         _op("RollbackB", 2), _op("AppendB", 2, [5])],
                 reads=_reads(ids=[1, 2, 3, 4, 5], heights=[1, 2, 3, 4], fids=[1, 2, 3], fheights=[1, 2, 3],
                              tips="BLF", hs=[0, 1, 2, 3, 4, 2])),
        ]
    return n, scen


def scen_tla(s):
    prog = ", ".join('[call |-> "%s", n |-> %d, batch |-> <<%s>>]' % (o["call"], o["n"], ", ".join(map(str, o["batch"])))
                     for o in s["prog"])
    reads = ", ".join('<<"%s", %d, %d>>' % r for r in s["reads"])
    return "[lb |-> %d, lf |-> %d, mr |-> %d, prog |-> <<%s>>, reads |-> {%s}]" % (
        s["lb"], s["lf"], s["mr"], prog, reads)


def label(act):
    p, call = act.get("op", "?"), act.get("call", "")
    if p == "Init":
        return "Init"
    pc = act.get("pc", "")
    if pc == "skip":
        return "%s.%s~" % (p, call)
    if pc == "ret":
        if p == "R":
            return "%s.%s=%s" % (p, call, ",".join(map(str, act.get("val") or [])))
        return "%s.%s=%s" % (p, call, act.get("res"))
    if act.get("ph") == "start":
        if p == "R":
            arg = "%d,n%d" % (act.get("arg", 0), act.get("n", 0))
        else:
            arg = "%d;%s" % (act.get("n", 0), ",".join(map(str, act.get("batch") or [])))
        return "%s.%s(%s):%s" % (p, call, arg, pc)
    return "%s.%s>%s" % (p, call, pc)


def _drift(lines, observed):
    """Predicted paths (Locks = code version): every step's label and raw store content must be the
    model's. Steps the driver added after the path (calls run to their end) are not part of it."""
    exp = {}
    for l in lines:
        d = json.loads(l)
        exp[d["id"]] = d
    n_steps = n_drift = skipped = 0
    samples = []
    for t in observed:
        e = exp[t["id"]]
        if t.get("error"):
            continue
        steps = [s for s in t["steps"] if not s.get("note")]
        skipped += sum(1 for s in steps if s["act"]["pc"] == "skip")
        if e["sched"]:
            continue
        bad = None
        if t.get("init_obs") != e["init_obs"] or len(steps) != len(e["steps"]):
            bad = 0
        else:
            for i, (a, b) in enumerate(zip(steps, e["steps"])):
                n_steps += 1
                if a["act"] != b["act"] or a["obs"] != b["obs"]:
                    bad = i + 1
                    break
        if bad is not None:
            n_drift += 1
            if len(samples) < 5:
                samples.append({"trace": t["id"], "step": bad,
                                "labels": [label(x["act"]) for x in steps[:max(bad, 1)]],
                                "model": e["steps"][bad - 1] if bad else e["init_obs"],
                                "code": steps[bad - 1] if bad and bad <= len(steps) else t.get("init_obs")})
    return n_steps, n_drift, samples, skipped


def _explore(tier, rng, sc, n, scen):
    defs = "ScenSeq == <<%s>>" % ",\n  ".join(scen_tla(s) for s in scen)
    lines, info = [], {}
    tot = dict(states=0, transitions=0, wall=0.0, pred_edges=0)
    for locks in (LOCKS, not LOCKS):
        predicted = locks == LOCKS
        wd = os.path.join(sc, "tlc%d" % locks)
        tlc = core.run_tlc([SPEC], "HSRace", dict(Locks=locks, N=n),
                           workers=1, invariants=["TypeOK"], cfg_extra="CONSTANT Scen <- ScenSeq",
                           extra_defs=defs, workdir=wd, timeout=3000, heap="4g")
        if not tlc.ok:
            raise core.MachineryError("TLC on HSRace failed: %s\n%s" % (tlc.error, tlc.stdout_tail[-3000:]))
        g = core.Graph.load(tlc)
        pp, _ = core.edge_cover(g, rng, max_len=200)
        tmp = os.path.join(sc, "paths%d.ndjson" % locks)
        core.write_paths(g, pp, tmp)
        for line in open(tmp):
            d = json.loads(line)
            d["id"] = len(lines)
            d["sched"] = not predicted      # behaviours of the variant that is not the code: schedules
            d.pop("init", None)
            lines.append(json.dumps(d, separators=(",", ":")))
        dead = 0
        if predicted:
            ends = set(n_ for n_ in g.out if not g.out[n_])
            dead = len(set(e[2] for e in g.edges if e[2] in ends and e[3]["rp"] == "blk" and e[3]["wp"] == "blk"))
        info["locks_%s" % str(locks).lower()] = {
            "states": tlc.distinct, "edges": len(g.edges), "paths": len(pp),
            "model_violating_edges": sum(1 for e in g.edges if e[4]), "tlc_wall_s": round(tlc.wall, 1),
            "depth": tlc.depth, "predicts_the_code": predicted, "deadlock_states": dead}
        tot["states"] += tlc.distinct
        tot["transitions"] += len(g.edges)
        tot["wall"] += tlc.wall
        if predicted:
            tot["pred_edges"] = len(g.edges)
        shutil.rmtree(wd, ignore_errors=True)
    return lines, info, tot


def _replay_sharded(binary, lines, cfg_fn, sc):
    """Goroutine dumps stop the world of one process, so the paths are spread over several driver
    PROCESSES (two path workers each) instead of many goroutines of one."""
    from concurrent.futures import ThreadPoolExecutor
    nproc = max(1, min(int(os.environ.get("VERIF_HSR_PROCS", "0")) or max(2, (os.cpu_count() or 4) // 2),
                       (len(lines) + 49) // 50))
    shards = [lines[i::nproc] for i in range(nproc)]

    def one(i):
        d = os.path.join(sc, "p%d" % i)
        os.makedirs(d)
        pf = os.path.join(d, "paths.ndjson")
        open(pf, "w").write("\n".join(shards[i]) + "\n")
        obs, _ = family.run_driver(binary, "TestVerifHSRaceReplay", pf, os.path.join(d, "obs.ndjson"), d,
                                   env_extra={"VERIF_HSR_CONFIG": cfg_fn, "VERIF_HSR_WORKERS": "2"}, timeout=7200)
        shutil.rmtree(d, ignore_errors=True)
        return obs

    with ThreadPoolExecutor(nproc) as ex:
        parts = list(ex.map(one, range(nproc)))
    observed = [t for part in parts for t in part]
    observed.sort(key=lambda t: t["id"])
    return observed, nproc


def is_race_replay(replay_file):
    try:
        d = json.load(open(replay_file))
        return "rp" in d["trace"]["init_obs"]
    except Exception:
        return False


def _lines_from_replay(replay_file):
    """A saved violation (an observed trace) becomes a schedule: which goroutine is released, which
    read is called."""
    tr = json.load(open(replay_file))["trace"]
    steps = [{"act": s["act"], "obs": s["obs"], "viol": []} for s in tr["steps"] if s["act"]["pc"] != "skip"]
    return [json.dumps({"id": 0, "init_obs": tr["init_obs"], "steps": steps, "sched": True})], tr.get("config")


def run_race(prop_id, tier, seed, replay=None):
    """Runs the slice for property prop_id ("C01" or "C07"). Prints KNOWN-FINDING / VIOLATION lines.
    Returns (rc, coverage): rc 0 held, 1 violation; machinery problems raise core.MachineryError."""
    t0 = time.time()
    rng = random.Random(seed)
    sc = core.scratch("hsr")
    try:
        n, scen = scenarios(tier)
        info, tot = {}, dict(states=0, transitions=0, wall=0.0, pred_edges=0)
        if replay:
            lines, cfg = _lines_from_replay(replay)
            if cfg:
                n, scen = cfg["N"], cfg["scen"]
        else:
            lines, info, tot = _explore(tier, rng, sc, n, scen)
        cfg = {"N": n, "scen": [{"lb": s["lb"], "lf": s["lf"], "prog": s["prog"]} for s in scen]}
        cfg_fn = os.path.join(sc, "config.json")
        json.dump(cfg, open(cfg_fn, "w"))
        binary = family.build_overlay_test(PKG, [DRIVER], os.path.join(sc, "headerfs.test"))
        t1 = time.time()
        observed, nproc = _replay_sharded(binary, lines, cfg_fn, sc)
        t_drv = time.time() - t1
        errs = [t for t in observed if t.get("error")]
        if errs:
            raise core.MachineryError("HSRace driver: %d paths ended in a driver error, e.g. %s" % (
                len(errs), errs[0]["error"][:1500]))
        n_steps, n_drift, dsamples, skipped = _drift(lines, observed)
        if n_drift:
            print("drift: %d of %d predicted HSRace paths left the model's prediction (not a verdict)" % (
                n_drift, sum(1 for l in lines if '"sched":false' in l)), file=sys.stderr)
        # judged by TLC with HSRaceProps; the raw store content is not needed for that
        slim = [{"id": t["id"], "init_obs": {"l0": t["init_obs"]["l0"]},
                 "steps": [{"act": s["act"], "obs": {"l0": s["obs"]["l0"]}} for s in t["steps"]]} for t in observed]
        verdict = family.judge([SPEC], "HSRaceProps", PROPS[prop_id], prop_id, slim, label=label)
        full = {t["id"]: t for t in observed}
        rc = 0
        for kid, k in sorted(verdict["known"].items()):
            print("KNOWN-FINDING: property=%s %s [%s; seen on %d replayed traces, e.g. %s]" % (
                prop_id, k["entry"]["what_fails"], kid, k["count"], " ".join(k["example"])))
        for v in verdict["violations"][:10]:
            tr = dict(full[v["trace"]])
            tr["config"] = cfg
            fn = core.save_replay(prop_id, {"property": prop_id, "props": v["props"], "step": v["step"],
                                            "labels": v["labels"], "trace": tr})
            print("VIOLATION property=%s replay=%s" % (prop_id, fn))
            print("  violated: %s at step %d of: %s" % (",".join(v["props"]), v["step"], " ".join(v["labels"])))
            rc = 1
        stuck = [t for t in observed if t.get("stuck")]
        samples = []
        for t in observed[:2] + stuck[:1]:
            samples.append({"path": [label(s["act"]) for s in t["steps"]],
                            "last_obs": t["steps"][-1]["obs"] if t["steps"] else t.get("init_obs"),
                            **({"stuck": t["stuck"][:1500]} if t.get("stuck") else {})})
        cov = {
            "states": tot["states"], "transitions": tot["transitions"],
            "traces_validated_against_impl": len(observed),
            "paths": len(lines), "predicted_paths": sum(1 for l in lines if '"sched":false' in l),
            "schedule_paths": sum(1 for l in lines if '"sched":true' in l),
            "replayed_steps": sum(len(t["steps"]) for t in observed),
            "schedule_commands_not_applicable": skipped,
            "goroutine_dumps": sum(t.get("dumps", 0) for t in observed), "driver_processes": nproc,
            "paths_ending_with_both_goroutines_parked_on_the_store_mutex": len(stuck),
            "drift": {"paths": n_drift, "steps_compared": n_steps, "samples": dsamples},
            "judged_lines_by_tlc": verdict["n_lines"],
            "known_findings_seen": {k: v["count"] for k, v in verdict["known"].items()},
            "new_violations": len(verdict["violations"]),
            "models": info, "scenarios": [scen_tla(s) for s in scen] if not replay else [],
            "tlc_wall_s": round(tot["wall"], 1), "driver_wall_s": round(t_drv, 1),
            "judge_wall_s": round(verdict["wall"], 1), "wall_s": round(time.time() - t0, 1),
            "samples": samples, "assumptions": ASSUMPTIONS,
        }
        return rc, cov
    finally:
        shutil.rmtree(sc, ignore_errors=True)


if __name__ == "__main__":
    # python3 -m vlib.families.hsrace C07 quick 1 [replay.json]
    pid = sys.argv[1] if len(sys.argv) > 1 else "C07"
    tier = sys.argv[2] if len(sys.argv) > 2 else "quick"
    seed = int(sys.argv[3]) if len(sys.argv) > 3 else 1
    try:
        rc, cov = run_race(pid, tier, seed, replay=sys.argv[4] if len(sys.argv) > 4 else None)
    except core.MachineryError as e:
        print("MACHINERY ERROR:", e, file=sys.stderr)
        sys.exit(2)
    cov.pop("scenarios", None)
    json.dump(cov, sys.stdout, indent=1)
    print()
    sys.exit(rc)
