"""HSRace: one writer against one reader on the two headerfs stores (slice of the HeaderStore family).

Not a registered check of its own: `run_race(prop_id, tier, seed)` is called by the checks of C01
(lookups by height / hash / tip agree) and C07 (reads answer like a plain list), which merge the
coverage it returns into their evidence.

  model    specs/HeaderStore/HSRace.tla, explored exhaustively by TLC for three lock placements:
           "code" (the store mutexes exactly where the code at HEAD takes them: behaviours are
           PREDICTIONS), "nolock" (nobody locks: every interleaving at gate granularity) and
           "wsplit" (the writer lets go of its lock between two primitives): SCHEDULES only
  replay   harness/overlay/headerfs/zz_verif_hsrace_test.go: two real goroutines on real stores,
           every View/Update/ReadAt/Write/Truncate a gate (in front of and behind the primitive),
           mutex waits recognised from goroutine dumps; every edge of both graphs is replayed
  judge    HSRaceProps.tla on the OBSERVED traces: the value a finished read returned must be the
           answer of the plain lists before/after one of the operations that overlapped the read
"""
import json, os, random, shutil, subprocess, sys, time
from .. import core, family

SPEC = os.path.join(core.VERIF, "specs", "HeaderStore")
DRIVER = os.path.join(core.VERIF, "harness", "overlay", "headerfs", "zz_verif_hsrace_test.go")
PKG = os.path.join(core.REPO, "headerfs")

# clause -> properties.  C01 speaks about the tip and lookups by height and by hash of the block
# store; C07 about every read of both stores.
PROPS = {
    "C01": ["BlockLookupAtomic"],
    "C07": ["BlockLookupAtomic", "AncestorsAtomic", "LocatorAtomic", "FilterLookupAtomic"],
}


# Which behaviour of the code the model describes (the spec follows the code). A file of its own:
# code_version.json of this directory is handed to HeaderStore.tla as a whole.
CODE_VERSION = json.load(open(os.path.join(SPEC, "hsrace_code_version.json")))
CODE_VERSION.update(json.loads(os.environ.get("VERIF_HSR_CODE_VERSION", "{}")))   # trying out a repair

ASSUMPTIONS = [
    "one writer goroutine and one reader goroutine; the stores reach their media only through the "
    "headerfs.File and walletdb.DB interfaces, so an interleaving is fixed by the order of those calls",
    "a read is correct iff its value is the plain lists' answer before or after one of the writer "
    "operations that overlapped it (linearizability)",
    "a goroutine that is not at a gate and whose dump twice shows a sync mutex wait called from a "
    "store method is waiting for that store's mutex",
]


def _op(call, n=0, batch=()):
    return {"call": call, "n": n, "batch": list(batch)}


def _reads(ids=(), heights=(), fids=(), fheights=(), tips="", anc=True, hs=()):
    r = []
    for i in ids:
        r += [("FetchHeader", i, 0), ("HeightFromHash", i, 0)]
        if anc:
            r.append(("Ancestors", i, hs[i]))
    for h in heights:
        r.append(("ByHeight", h, 0))
    for i in fids:
        r.append(("FFetchHeader", i, 0))
        if anc:
            r.append(("FAncestors", i, hs[i]))
    for h in fheights:
        r.append(("FByHeight", h, 0))
    if "B" in tips:
        r.append(("ChainTip", 0, 0))
    if "L" in tips:
        r.append(("Locator", 0, 0))
    if "F" in tips:
        r.append(("FChainTip", 0, 0))
    return r


def scenarios(tier):
    """(N, [scenario]): initial lists 0..lb-1 / 0..lf-1, the writer's program, the reader's repertoire
    (hs[i] = the height header i has whenever it is stored = numHeaders of an ancestors call for it),
    mr = read calls per history."""
    if tier == "quick":
        n = 4
        hs = [0, 1, 2, 1]
        scen = [
            # a two-deep reorganisation of the block store: headers 1,2 replaced by header 3
            dict(lb=3, lf=1, mr=1, prog=[_op("RollbackB", 2), _op("AppendB", 1, [3])],
                 reads=_reads(ids=[1, 2, 3], heights=[1, 2], tips="BL", hs=hs)),
            # header 2 replaced by header 3, filter headers too, in the order the block manager uses
            dict(lb=3, lf=3, mr=1, prog=[_op("RollbackF", 1), _op("RollbackB", 1), _op("AppendB", 2, [3]),
                                         _op("AppendF", 2, [3])],
                 reads=_reads(ids=[2, 3], heights=[2], fids=[2, 3], fheights=[2], tips="BLF", hs=[0, 1, 2, 2])),
            # two reads, one after the other, while one header is removed and another one added
            dict(lb=3, lf=1, mr=2, prog=[_op("RollbackB", 1), _op("AppendB", 2, [3])],
                 reads=[("ChainTip", 0, 0), ("ByHeight", 2, 0), ("HeightFromHash", 2, 0), ("HeightFromHash", 3, 0),
                        ("FetchHeader", 3, 0)]),
        ]
    else:
        n = 6
        hs = [0, 1, 2, 2, 0, 0]
        scen = [
            dict(lb=3, lf=1, mr=2, prog=[_op("RollbackB", 2), _op("AppendB", 1, [3])],
                 reads=_reads(ids=[0, 1, 2, 3], heights=[0, 1, 2], tips="BL", hs=[0, 1, 2, 1, 0, 0])),
            dict(lb=3, lf=3, mr=2, prog=[_op("RollbackF", 1), _op("RollbackB", 1), _op("AppendB", 2, [3]),
                                         _op("AppendF", 2, [3])],
                 reads=_reads(ids=[1, 2, 3], heights=[1, 2, 3], fids=[1, 2, 3], fheights=[1, 2, 3], tips="BLF", hs=hs)),
            # two headers replaced by two others (batch append), filter headers follow
            dict(lb=4, lf=4, mr=1, prog=[_op("RollbackF", 2), _op("RollbackF", 1), _op("RollbackB", 2),
                                         _op("AppendB", 2, [4, 5]), _op("AppendF", 2, [4, 5])],
                 reads=_reads(ids=range(6), heights=range(5), fids=range(6), fheights=range(5), tips="BLF",
                              hs=[0, 1, 2, 3, 2, 3])),
            # plain growth
            dict(lb=2, lf=2, mr=2, prog=[_op("AppendB", 2, [2, 3]), _op("AppendF", 2, [2]), _op("AppendB", 4, [4])],
                 reads=_reads(ids=[1, 3, 4], heights=[1, 3, 4, 5], fids=[2], fheights=[2, 3], tips="BLF",
                              hs=[0, 1, 2, 3, 4, 0])),
            # plain shrinking, then one other header
            dict(lb=5, lf=4, mr=1, prog=[_op("RollbackF", 2), _op("RollbackB", 1), _op("RollbackF", 1),
                                         _op("RollbackB", 2), _op("AppendB", 2, [5])],
                 reads=_reads(ids=[1, 2, 3, 4, 5], heights=[1, 2, 3, 4], fids=[1, 2, 3], fheights=[1, 2, 3],
                              tips="BLF", hs=[0, 1, 2, 3, 4, 2])),
        ]
    return n, scen


def scen_tla(s):
    prog = ", ".join('[call |-> "%s", n |-> %d, batch |-> <<%s>>]' % (o["call"], o["n"], ", ".join(map(str, o["batch"])))
                     for o in s["prog"])
    reads = ", ".join('<<"%s", %d, %d>>' % r for r in s["reads"])
    return "[lb |-> %d, lf |-> %d, mr |-> %d, prog |-> <<%s>>, reads |-> {%s}]" % (
        s["lb"], s["lf"], s["mr"], prog, reads)


def label(act):
    p, call = act.get("op", "?"), act.get("call", "")
    if p == "Init":
        return "Init"
    pc = act.get("pc", "")
    if pc == "skip":
        return "%s.%s~" % (p, call)
    if pc == "ret":
        if p == "R":
            return "%s.%s=%s" % (p, call, ",".join(map(str, act.get("val") or [])))
        return "%s.%s=%s" % (p, call, act.get("res"))
    if act.get("ph") == "start":
        if p == "R":
            arg = "%d,n%d" % (act.get("arg", 0), act.get("n", 0))
        else:
            arg = "%d;%s" % (act.get("n", 0), ",".join(map(str, act.get("batch") or [])))
        return "%s.%s(%s):%s" % (p, call, arg, pc)
    return "%s.%s>%s" % (p, call, pc)


class _Drift:
    """Predicted paths (mode "code"): every step's label and raw store content must be the model's.
    Steps the driver added after the path (calls run to their end) are not part of it."""

    def __init__(self):
        self.n_steps = self.n_drift = self.skipped = 0
        self.samples = []

    def add(self, e, t):
        steps = [s for s in t["steps"] if not s.get("note")]
        self.skipped += sum(1 for s in steps if s["act"]["pc"] == "skip")
        if e["sched"]:
            return
        bad = None
        if t.get("init_obs") != e["init_obs"] or len(steps) != len(e["steps"]):
            bad = 0
        else:
            for i, (a, b) in enumerate(zip(steps, e["steps"])):
                self.n_steps += 1
                if a["act"] != b["act"] or a["obs"] != b["obs"]:
                    bad = i + 1
                    break
        if bad is not None:
            self.n_drift += 1
            if len(self.samples) < 5:
                self.samples.append({"trace": t["id"], "step": bad,
                                     "labels": [label(x["act"]) for x in steps[:max(bad, 1)]],
                                     "model": e["steps"][bad - 1] if bad else e["init_obs"],
                                     "code": steps[bad - 1] if bad and bad <= len(steps) else t.get("init_obs")})


MODES = ("code", "nolock", "wsplit")


def _explore(tier, rng, sc, n, scen):
    """One exhaustive TLC run over every lock placement (variable `mode` of HSRace.tla); returns the
    path lines (mode "code": predictions, the others: schedules), per-mode numbers and totals."""
    defs = "ScenSeq == <<%s>>\nModeSet == {%s}" % (",\n  ".join(scen_tla(s) for s in scen),
                                                  ", ".join('"%s"' % m for m in MODES))
    wd = os.path.join(sc, "tlc")
    tlc = core.run_tlc([SPEC], "HSRace", dict(CODE_VERSION, N=n), workers=1, invariants=["TypeOK"],
                       cfg_extra="CONSTANT Scen <- ScenSeq\nCONSTANT Modes <- ModeSet",
                       extra_defs=defs, workdir=wd, timeout=3000, heap="4g")
    if not tlc.ok:
        raise core.MachineryError("TLC on HSRace failed: %s\n%s" % (tlc.error, tlc.stdout_tail[-3000:]))
    g = core.Graph.load(tlc)
    pp, _ = core.edge_cover(g, rng, max_len=200)
    if tier == "thorough":
        pp += core.random_walks(g, 6000, 80, rng)
    tmp = os.path.join(sc, "paths.tmp.ndjson")
    core.write_paths(g, pp, tmp)
    info = {m: dict(states=0, edges=0, paths=0, model_violating_edges=0, deadlock_states=0) for m in MODES}

    def gen():
        for k, line in enumerate(open(tmp)):
            d = json.loads(line)
            m = d.pop("init")["mode"]
            d["id"] = k
            d["sched"] = m != "code"     # lock placements that are not the code's: schedules only
            info[m]["paths"] += 1
            yield json.dumps(d, separators=(",", ":"))
    shards = _shard(gen(), len(pp), sc)
    os.unlink(tmp)
    node_mode = {}
    for n0, _ in g.inits:
        node_mode[n0] = g.init_state[n0]["mode"]
    order = list(node_mode)
    while order:                      # modes never change along an edge
        x = order.pop()
        for ei in g.out[x]:
            t = g.edges[ei][2]
            if t not in node_mode:
                node_mode[t] = node_mode[x]
                order.append(t)
    for x, m in node_mode.items():
        info[m]["states"] += 1
        if not g.out[x]:
            info[m]["terminal"] = info[m].get("terminal", 0) + 1
    dead = set()
    for e in g.edges:
        m = node_mode[e[0]]
        info[m]["edges"] += 1
        if e[4]:
            info[m]["model_violating_edges"] += 1
        if e[3]["rp"] == "blk" and e[3]["wp"] == "blk" and not g.out[e[2]]:
            dead.add((m, e[2]))
    for m, _ in dead:
        info[m]["deadlock_states"] += 1
    if "code" in info:
        info["code"]["predicts_the_code"] = True
    tot = dict(states=tlc.distinct, transitions=len(g.edges), wall=tlc.wall, depth=tlc.depth)
    shutil.rmtree(wd, ignore_errors=True)
    return shards, info, tot


def _shard(lines, n_lines, sc):
    """Goroutine dumps stop the world of one process, so the paths are spread over several driver
    PROCESSES (two path workers each) instead of many goroutines of one. Returns the path files."""
    nproc = max(1, min(int(os.environ.get("VERIF_HSR_PROCS", "0")) or max(2, (os.cpu_count() or 4) // 2),
                       (n_lines + 49) // 50))
    files = []
    for i in range(nproc):
        d = os.path.join(sc, "p%d" % i)
        os.makedirs(d)
        files.append(open(os.path.join(d, "paths.ndjson"), "w"))
    for k, line in enumerate(lines):
        files[k % nproc].write(line + "\n")
    for f in files:
        f.close()
    return [f.name for f in files]


def _replay_sharded(binary, shards, cfg_fn):
    """Runs one driver process per path file; returns the files with the observed traces (same order
    of lines as the path files)."""
    from concurrent.futures import ThreadPoolExecutor

    def one(pf):
        d = os.path.dirname(pf)
        out = os.path.join(d, "obs.ndjson")
        env = core.go_env()
        env.update({"VERIF_PATHS": pf, "VERIF_OUT": out, "VERIF_SCRATCH": d, "VERIF_HSR_CONFIG": cfg_fn,
                    "VERIF_HSR_WORKERS": "2"})
        for attempt in (1, 2):
            p = subprocess.run([binary, "-test.run", "^TestVerifHSRaceReplay$", "-test.count=1", "-test.timeout", "7200s"],
                               cwd=d, env=env, stdout=subprocess.PIPE, stderr=subprocess.STDOUT, text=True)
            if p.returncode == 0 and os.path.exists(out):
                break
            # a driver process that dies (seen once on a heavily loaded machine: fatal signal inside the test
            # binary, no verdict involved) is started once more; the full output of the failed attempt is kept
            try:
                keep = os.path.join(os.environ.get("VERIF_REPLAY_DIR", os.path.join(core.VERIF, "replays")),
                                    "hsrace-driver-death-%d.log" % os.getpid())
                os.makedirs(os.path.dirname(keep), exist_ok=True)
                open(keep, "a").write(p.stdout)
                print("hsrace: driver process died (rc=%d), output kept in %s, attempt %d" % (p.returncode, keep, attempt),
                      file=sys.stderr)
            except OSError:
                pass
            if os.path.exists(out):
                os.remove(out)
        if p.returncode != 0 or not os.path.exists(out):
            raise core.MachineryError("HSRace driver failed rc=%d:\n%s" % (p.returncode, p.stdout[-6000:]))
        return out

    with ThreadPoolExecutor(len(shards)) as ex:
        return list(ex.map(one, shards))


def is_race_replay(replay_file):
    try:
        d = json.load(open(replay_file))
        return "rp" in d["trace"]["init_obs"]
    except Exception:
        return False


def _lines_from_replay(replay_file):
    """A saved violation (an observed trace) becomes a schedule: which goroutine is released, which
    read is called."""
    tr = json.load(open(replay_file))["trace"]
    steps = [{"act": s["act"], "obs": s["obs"], "viol": []} for s in tr["steps"] if s["act"]["pc"] != "skip"]
    return [json.dumps({"id": 0, "init_obs": tr["init_obs"], "steps": steps, "sched": True})], tr.get("config")


JUDGE_CHUNK = 400000     # trace lines per ObsCheck run


def run_race(prop_id, tier, seed, replay=None):
    """Runs the slice for property prop_id ("C01" or "C07"). Prints KNOWN-FINDING / VIOLATION lines.
    Returns (rc, coverage): rc 0 held, 1 violation; machinery problems raise core.MachineryError."""
    t0 = time.time()
    rng = random.Random(seed)
    sc = core.scratch("hsr")
    try:
        n, scen = scenarios(tier)
        info, tot = {}, dict(states=0, transitions=0, wall=0.0, depth=0)
        if replay:
            lines, cfg = _lines_from_replay(replay)
            if cfg:
                n, scen = cfg["N"], cfg["scen"]
            shards = _shard(lines, len(lines), sc)
        else:
            shards, info, tot = _explore(tier, rng, sc, n, scen)
        cfg = {"N": n, "scen": [{"lb": s["lb"], "lf": s["lf"], "prog": s["prog"]} for s in scen]}
        cfg_fn = os.path.join(sc, "config.json")
        json.dump(cfg, open(cfg_fn, "w"))
        binary = family.build_overlay_test(PKG, [DRIVER], os.path.join(sc, "headerfs.test"))
        t1 = time.time()
        obs_files = _replay_sharded(binary, shards, cfg_fn)
        t_drv = time.time() - t1

        # one pass over (predicted path, observed trace) pairs: drift, counters, and the traces
        # reduced to what HSRaceProps looks at (labels + initial lengths), judged by TLC in chunks
        dr = _Drift()
        verdict = {"violations": [], "known": {}, "n_lines": 0, "wall": 0.0}
        cnt = dict(paths=0, pred=0, steps=0, dumps=0, stuck=0)
        samples, stuck_sample, slim, slim_lines, first_err, n_err = [], None, [], 0, None, 0

        def flush():
            nonlocal slim, slim_lines
            if not slim:
                return
            v = family.judge([SPEC], "HSRaceProps", PROPS[prop_id], prop_id, slim, label=label,
                             known=[] if os.environ.get("VERIF_HSR_IGNORE_KNOWN") else None)
            verdict["violations"] += v["violations"]
            verdict["n_lines"] += v["n_lines"]
            verdict["wall"] += v["wall"]
            for kid, k in v["known"].items():
                if kid in verdict["known"]:
                    verdict["known"][kid]["count"] += k["count"]
                else:
                    verdict["known"][kid] = k
            slim, slim_lines = [], 0

        for pf, of in zip(shards, obs_files):
            for el, ol in zip(open(pf), open(of)):
                e, t = json.loads(el), json.loads(ol)
                if e["id"] != t["id"]:
                    raise core.MachineryError("HSRace driver output out of order")
                if t.get("error"):
                    n_err += 1
                    first_err = first_err or t["error"]
                    continue
                cnt["paths"] += 1
                cnt["pred"] += 0 if e["sched"] else 1
                cnt["steps"] += len(t["steps"])
                cnt["dumps"] += t.get("dumps", 0)
                dr.add(e, t)
                smp = None
                if t.get("stuck"):
                    cnt["stuck"] += 1
                    if stuck_sample is None:
                        stuck_sample = smp = {"stuck": t["stuck"][:1500]}
                elif len(samples) < 2:
                    smp = {}
                if smp is not None:
                    smp.update({"path": [label(s["act"]) for s in t["steps"]],
                                "last_obs": t["steps"][-1]["obs"] if t["steps"] else t.get("init_obs")})
                    samples.append(smp)
                slim.append({"id": t["id"], "init_obs": {"l0": t["init_obs"]["l0"]},
                             "steps": [{"act": s["act"], "obs": {"l0": s["obs"]["l0"]}} for s in t["steps"]]})
                slim_lines += len(t["steps"]) + 1
                if slim_lines >= JUDGE_CHUNK:
                    flush()
        flush()
        if n_err:
            raise core.MachineryError("HSRace driver: %d paths ended in a driver error, e.g. %s" % (
                n_err, first_err[:1500]))
        if dr.n_drift:
            print("drift: %d of %d predicted HSRace paths left the model's prediction (not a verdict)" % (
                dr.n_drift, cnt["pred"]), file=sys.stderr)
        rc = 0
        for kid, k in sorted(verdict["known"].items()):
            print("KNOWN-FINDING: property=%s %s [%s; seen on %d replayed traces, e.g. %s]" % (
                prop_id, k["entry"]["what_fails"], kid, k["count"], " ".join(k["example"])))
        report = verdict["violations"][:10]
        if report:
            want, full = set(v["trace"] for v in report), {}
            for of in obs_files:
                for ol in open(of):
                    t = json.loads(ol)
                    if t["id"] in want:
                        full[t["id"]] = t
        for v in report:
            tr = dict(full[v["trace"]])
            tr["config"] = cfg
            fn = core.save_replay(prop_id, {"property": prop_id, "props": v["props"], "step": v["step"],
                                            "labels": v["labels"], "trace": tr})
            print("VIOLATION property=%s replay=%s" % (prop_id, fn))
            print("  violated: %s at step %d of: %s" % (",".join(v["props"]), v["step"], " ".join(v["labels"])))
            rc = 1
        cov = {
            "states": tot["states"], "transitions": tot["transitions"],
            "traces_validated_against_impl": cnt["paths"],
            "paths": cnt["paths"], "predicted_paths": cnt["pred"], "schedule_paths": cnt["paths"] - cnt["pred"],
            "replayed_steps": cnt["steps"],
            "schedule_commands_not_applicable": dr.skipped,
            "goroutine_dumps": cnt["dumps"], "driver_processes": len(shards),
            "paths_ending_with_both_goroutines_parked_on_the_store_mutex": cnt["stuck"],
            "drift": {"paths": dr.n_drift, "steps_compared": dr.n_steps, "samples": dr.samples},
            "judged_lines_by_tlc": verdict["n_lines"],
            "known_findings_seen": {k: v["count"] for k, v in verdict["known"].items()},
            "new_violations": len(verdict["violations"]),
            "models": info, "code_version": CODE_VERSION, "scenarios": [scen_tla(s) for s in scen] if not replay else [],
            "tlc_wall_s": round(tot["wall"], 1), "tlc_depth": tot["depth"], "driver_wall_s": round(t_drv, 1),
            "judge_wall_s": round(verdict["wall"], 1), "wall_s": round(time.time() - t0, 1),
            "samples": samples, "assumptions": ASSUMPTIONS,
        }
        return rc, cov
    finally:
        shutil.rmtree(sc, ignore_errors=True)


def merge_evidence(prop_id, cov, rc=0):
    """Convenience for the calling check: adds this slice's measured coverage to the evidence file the
    check has just written (as headerstore.multi_store does for the BlockManager run)."""
    fn = os.path.join(os.environ.get("VERIF_EVIDENCE_DIR", os.path.join(core.VERIF, "evidence")), prop_id + ".json")
    ev = json.load(open(fn))
    c = ev["coverage"]
    c["reader_writer_slice_hsrace"] = {k: v for k, v in cov.items() if k not in ("samples", "assumptions", "scenarios")}
    c["states"] += cov["states"]
    c["transitions"] += cov["transitions"]
    c["traces_validated_against_impl"] += cov["traces_validated_against_impl"]
    c["samples"] = list(c.get("samples", [])) + cov["samples"][:2]
    ev["assumptions"] = list(ev.get("assumptions", [])) + [a for a in ASSUMPTIONS if a not in ev.get("assumptions", [])]
    ev["violations"] = ev.get("violations", 0) + cov["new_violations"]
    ev["wall_s"] = round(ev.get("wall_s", 0) + cov["wall_s"], 2)
    json.dump(ev, open(fn + ".tmp", "w"), indent=1)
    os.replace(fn + ".tmp", fn)
    return rc


if __name__ == "__main__":
    # python3 -m vlib.families.hsrace C07 quick 1 [replay.json]
    pid = sys.argv[1] if len(sys.argv) > 1 else "C07"
    tier = sys.argv[2] if len(sys.argv) > 2 else "quick"
    seed = int(sys.argv[3]) if len(sys.argv) > 3 else 1
    try:
        rc, cov = run_race(pid, tier, seed, replay=sys.argv[4] if len(sys.argv) > 4 else None)
    except core.MachineryError as e:
        print("MACHINERY ERROR:", e, file=sys.stderr)
        sys.exit(2)
    cov.pop("scenarios", None)
    json.dump(cov, sys.stdout, indent=1)
    print()
    sys.exit(rc)
