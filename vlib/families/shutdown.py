"""Shutdown family: C17 (Stop always completes and releases every blocked caller).

Pipeline of the check

  model   TLC explores specs/Shutdown/Shutdown.tla (every goroutine of the client
          reduced to its blocking points, ChainService.Stop as the code's sequence of
          steps) exhaustively and exports the labelled state graph.
  design  a second TLC run checks  StopCalled ~> StopReturned /\\ every caller returned
          under fairness of every select arm (SPECIFICATION LSpec, no VIEW, no state
          constraint).  Wait-for cycles are counterexamples.  Informational (the model
          is not the code): the result is compared with what the real client did.
  paths   every state of the graph in which the model calls Stop (and every Begin after
          Stop) is projected to a scenario: peer pool x activities in flight x moment.
  replay  each scenario runs against a REAL ChainService in its own child process
          (netsim peers), Stop is called at that moment; the visible events are recorded.
  judge   TLC evaluates ShutdownProps.tla on the OBSERVED traces - the only verdicts.
  drift   every observed trace must be a behaviour of the model: the recorded visible
          events are run through the exported graph with the internal steps hidden
          (subset construction), the goroutine positions sampled at Stop / at a hang
          must be those of a model state, and a hang must sit in a model state from
          which Stop cannot complete.
"""
import itertools, json, os, random, re, shutil, subprocess, threading, time
from array import array
from .. import core, family

SPEC = os.path.join(core.VERIF, "specs", "Shutdown")
OVL = os.path.join(core.VERIF, "harness", "overlay", "neutrino")
DRIVER = os.path.join(OVL, "zz_verif_shutdown_test.go")
NETSIM = os.path.join(OVL, "zz_verif_netsim_test.go")
PKG = core.REPO

READY = True
PROPERTIES = ["C17"]

MANIFEST = {
    "C17": dict(
        engine="Shutdown",
        text="specs/Shutdown/Shutdown.tla models every goroutine of the client as a process reduced to its blocking "
             "points (what it waits for and which quit channels that wait selects on: peerHandler, blockHandler, "
             "cfHandler with its cond-var waits and retry timers, workDispatcher, worker, utxo batchManager, broadcast "
             "handler + rebroadcast, subscription handler + forwarders, batch writer, and the callers blocked in "
             "GetBlock, GetCFilter, GetUtxo, SendTransaction, a rescan, a block subscription, a Rescan.Update call "
             "waiting for its busy rescan goroutine) and ChainService.Stop as "
             "the code's exact sequence of steps. TLC (a) checks StopCalled ~> StopReturned and every caller returned "
             "under fairness of every select arm (design level: wait-for cycles are counterexamples) and (b) exports "
             "the state graph; every model state in which Stop is called becomes a scenario (peer pool {empty, silent, "
             "responsive} x <=2 activities in flight x moment, plus activities begun after Stop) that is run against a "
             "REAL ChainService on a temp data dir with in-process simulated peers, one child process per scenario; a "
             "verif-tag hook lets the driver hold the real Stop after a chosen step while the client keeps running. "
             "TLC evaluates StopReturns / CallersReleased / CallerErrorClass / ReopenConsistent of ShutdownProps.tla on "
             "the recorded events; every recorded trace is also checked to be a behaviour of the model (drift).",
        note="Quick: all single activities x 3 pools (+ begun after Stop, + dial in progress, + no peer ever connected), two seed-chosen pairs and "
             "(subscribe, mid-sync); thorough: all pairs. Bound for 'bounded time': 90 s (normal Stop: 0.05-3 s). Peers are the netsim mock nodes; a dial is assumed "
             "to return in bounded time. Reopen checks stores open, tips readable, filter tip <= block tip, last 50 "
             "headers linked, NewChainService succeeds; chain validity proper is C01/C03. The interleaving of "
             "goroutines inside the real Stop is whatever the Go scheduler does (moments: immediately / parked / "
             "seeded delay / held after a step), the model side is exhaustive."
             " Slices: specs/UtxoScan with Stop at every gate of a scan in flight over long stretches of non-matching / matching heights: the number of environment calls the real batch manager makes after Stop (exact in the gated driver, independent of machine load) is bounded by a constant independent of the heights left (StopBoundedWork, StopReturnsDuringScan); specs/BatchWriter (AddItem, batch-full and ticker flush, PutItems failing, Stop with the final flush) and specs/ConcQueue (chanutils.ConcurrentQueue) bound to the real structures under virtual time; their coverage is merged into this check's evidence.",
        design="4 C17", technique="TLA+ composite spec + TLC liveness under fairness + scenarios from model states "
                                 "replayed on a real ChainService + TLC-judged observed traces + trace inclusion in the exported graph"),
}

PROPS = {"C17": ["StopReturns", "CallersReleased", "CallerErrorClass", "ReopenConsistent"]}

CODE_VERSION = json.load(open(os.path.join(SPEC, "code_version.json")))

BOUND = int(os.environ.get("VSD_BOUND_S", "90"))   # seconds: >= 100x a normal Stop (override for self-tests only)

KNAME = {1: "getblock", 2: "getcfilter", 3: "getutxo", 4: "rescan", 5: "sendtx", 6: "subscribe", 7: "sync", 8: "update"}
CALLERS = (1, 2, 3, 4, 5, 6, 8)      # kinds with a blocked caller (7 = mid-sync has none)
CNAME = {0: "pending", 1: "shutdown", 2: "cancelled", 3: "legit", 4: "bad", 5: "hung", 6: "none"}
PNAME = {0: "empty", 1: "silent", 2: "responsive"}
VISIBLE = ("Begin", "Stop", "Ret", "StopRet", "Reopen")

ASSUMPTIONS = [
    "bounded time = 90 s wall clock per scenario (normal Stop takes 0.05 s idle, up to the broadcast / query "
    "timeouts (2-5 s) with unresponsive peers); a scenario that exceeds it is a hang, with a goroutine dump",
    "peers are in-process mock nodes (netsim): empty = the peer went away before Stop, silent = connected and "
    "answering pings only, responsive = answers parked and released around the moment of Stop",
    "a dial returns in bounded time (the simulator refuses or connects at once)",
    "error classes: shutdown = text contains 'shutting down' / 'stopped'; cancelled = 'cancel' / 'rescan exited' / a "
    "closed subscription channel; any other error or a value is the operation's own result; nil value with nil error "
    "from GetBlock / GetCFilter or a panic is 'bad'",
    "Rescan.Update: nil = the rescan goroutine took the update (the operation's own result); 'Rescan is already "
    "done and cannot be updated' (r.running closed) = cancelled, whatever rescan error text it quotes; the caller's "
    "own QuitChan stays open, so only the client can release the call",
    "reopen: database and both header stores open, tips readable, filter tip <= block tip, the last 50 block "
    "headers link, NewChainService succeeds on the directory",
    "model fairness: every select arm / timer that stays enabled is eventually taken (strong fairness for the "
    "blockHandler's quit arm against a stream of headers)",
]


def fix_br1():
    """Does Broadcaster.MarkAsConfirmed select on the quit channel (the spec follows the code;
    that repair belongs to the Broadcaster family, so it is read from the source)."""
    try:
        src = open(os.path.join(core.REPO, "pushtx", "broadcaster.go")).read()
        m = re.search(r"func \(b \*Broadcaster\) MarkAsConfirmed\(.*?\n}\n", src, re.S)
        return bool(m and "b.quit" in m.group(0))
    except Exception:
        return False


def all_pairs(kinds):
    return [tuple(p) for p in itertools.combinations(sorted(kinds), 2)]


def pairs_literal(pairs):
    return "{" + ",".join("{%d,%d}" % p for p in pairs) + "}"


def config(tier, seed):
    rng = random.Random(seed * 1000003 + 17)
    kinds = [1, 2, 3, 4, 5, 6, 7, 8]
    # 8 = Rescan.Update blocked on its busy rescan goroutine: the activity owns the model's one
    # rescan, so it never pairs with 4; its rescan walks, and walk x mid-sync is not explored
    ap = [p for p in all_pairs(kinds) if p not in ((4, 8), (7, 8))]
    if tier == "quick":
        # all single activities (x pool x moment, also begun after Stop) and a
        # seed-chosen sample of the pairs; the pairs with getutxo rotate first
        # (pairs with mid-sync have 5x the states: thorough tier only)
        nosync = [p for p in ap if 7 not in p]
        # the pair run takes one pool (rotating with the seed) and two pairs
        pairs = [nosync[(seed * 7 + 3) % len(nosync)], nosync[(seed * 11 + 8) % len(nosync)]]
        pools = "{%d}" % (seed % 3)
        if os.environ.get("VSD_PAIRS"):      # self-tests: "4-7,2-4" [@pools, e.g. "@{1,2}"]
            spec = os.environ["VSD_PAIRS"].split("@")
            pairs = [tuple(sorted(int(x) for x in p.split("-"))) for p in spec[0].split(",")]
            pools = spec[1] if len(spec) > 1 else "{0,1,2}"
        return dict(runs=[dict(Pools="{0,1,2}", MaxAct=1, LateBegin=True, pairs=[], Dialing=True),
                          dict(Pools=pools, MaxAct=2, LateBegin=False, pairs=pairs),
                          # a block subscription registered while mid-sync (cfHandler announcing blocks)
                          dict(Pools="{2}", Kinds="{6,7}", MaxAct=2, LateBegin=False, pairs=[(6, 7)])],
                    live=dict(Pools="{0,1,2}", MaxAct=1, LateBegin=True, pairs=ap),
                    moments=[0, 1], per_key=2, bound=BOUND)
    # (of the pairs with the update activity only those in which the partner meets the rescan at the
    # cfilter mutex / the work manager / MarkAsConfirmed, in a TLC run of their own: state space and heap
    # of the 15-pair export)
    nosync = [p for p in ap if 7 not in p and 8 not in p]
    return dict(runs=[dict(Pools="{0,1,2}", MaxAct=1, LateBegin=True, pairs=[], Dialing=True),
                      dict(Pools="{0,1,2}", MaxAct=2, LateBegin=False, pairs=nosync),
                      dict(Pools="{0,1,2}", Kinds="{2,3,5,8}", MaxAct=2, LateBegin=False,
                           pairs=[(2, 8), (3, 8), (5, 8)]),
                      dict(Pools="{2}", MaxAct=2, LateBegin=False, pairs=[(1, 7), (2, 7), (5, 7), (6, 7)]),
                      dict(Pools="{1,2}", MaxAct=2, LateBegin=False, pairs=[(3, 7)]),
                      dict(Pools="{2}", MaxAct=2, LateBegin=False, pairs=[(4, 7)])],
                # (activities begun after Stop are in the quick tier's liveness config, MaxAct=1;
                # with two activities that run no longer finishes in its time budget)
                # the pairs that share something (work manager / cfilter mutex, broadcaster <->
                # rescan via MarkAsConfirmed, broadcaster / rescan <-> subscription handler)
                live=dict(Pools="{0,1,2}", MaxAct=2, LateBegin=False,
                          pairs=[(1, 2), (1, 3), (1, 4), (2, 3), (2, 4), (3, 4), (4, 5), (4, 6), (5, 6)]),
                moments=[0, 1, 2], per_key=3, bound=BOUND, all_pauses=True)


def consts_of(run):
    c = dict(Pools=run["Pools"], Kinds=run.get("Kinds", "{1,2,3,4,5,6,7,8}"), MaxAct=run["MaxAct"],
             Pairs=pairs_literal(run["pairs"]) if run["pairs"] else "{}",
             LateBegin=run["LateBegin"], Dialing=bool(run.get("Dialing")))
    c.update(CODE_VERSION)
    c["FixBR1"] = fix_br1()
    return c


# --------------------------------------------------------------------------
# compact graph
# --------------------------------------------------------------------------
def pcs_names():
    src = open(os.path.join(SPEC, "Shutdown.tla")).read()
    m = re.search(r"PCS == <<(.*?)>>", src, re.S)
    return [""] + re.findall(r'"([^"]*)"', m.group(1))      # 1-based


PCS = pcs_names()
ACTS_OFF = 62        # index of the first activity code in the State tuple
AT_FIELDS = {"stop": 8, "disp": 9, "bm": 11, "bch": 12, "subh": 14, "blkh": 15, "cfh": 16}


class G:
    """Exported state graph with interned labels. edges: parallel arrays."""

    def __init__(self):
        self.ids = {}
        self.states = []          # node -> state tuple
        self.inits = []
        self.labels = {}          # key -> id ; id 0 = internal
        self.lab = [None]
        self.ef = array("i")
        self.el = array("i")
        self.et = array("i")
        self.ev = array("b")
        self.out = None
        self.n_edges_raw = 0
        self.seen = set()

    def node(self, st):
        k = array("H", st).tobytes()        # compact: 2 bytes per component
        n = self.ids.get(k)
        if n is None:
            n = len(self.states)
            self.ids[k] = n
            self.states.append(k)
        return n

    def label(self, a):
        if a["op"] not in VISIBLE:
            return 0
        at = a.get("at") or {}
        key = (a["op"], a["k"], a["m"], a["cls"], tuple(sorted(at.items())) if a["op"] == "Stop" else ())
        i = self.labels.get(key)
        if i is None:
            i = len(self.lab)
            self.labels[key] = i
            self.lab.append(dict(op=a["op"], k=a["k"], m=a["m"], cls=a["cls"], at=dict(at)))
        return i

    def add_run(self, run):
        for line in open(run.inits_path):
            d = json.loads(line)
            n = self.node(d["init"])
            if n not in self.inits:
                self.inits.append(n)
        seen = self.seen
        for line in open(run.edges_path):
            d = json.loads(line)
            self.n_edges_raw += 1
            f, t, l = self.node(d["from"]), self.node(d["to"]), self.label(d["act"])
            key = (f << 40) | (l << 24) | t
            if key in seen:
                continue
            seen.add(key)
            self.ef.append(f)
            self.el.append(l)
            self.et.append(t)
            self.ev.append(1 if d.get("viol") else 0)

    def freeze(self):
        self.seen = None
        n = len(self.states)
        self.out = [[] for _ in range(n)]
        self.inn = [[] for _ in range(n)]
        for i in range(len(self.ef)):
            self.out[self.ef[i]].append(i)
            self.inn[self.et[i]].append(i)

    # --- decoding of a state tuple
    def st(self, n):
        a = array("H")
        a.frombytes(self.states[n])
        return a

    def pool(self, n):
        return self.st(n)[0]

    def acts(self, n):
        st = self.st(n)
        j = ACTS_OFF
        out = []
        while st[j] != 99:
            out.append((st[j] // 10, st[j] % 10))
            j += 1
        return tuple(out)

    def at(self, n):
        st = self.st(n)
        d = {f: PCS[st[i]] for f, i in AT_FIELDS.items()}
        j = ACTS_OFF
        while st[j] != 99:
            j += 1
        d["rs"] = PCS[st[j + 4] % 100]
        return d

    def stopped(self, n):
        return self.st(n)[-1] == 1

    def dial(self, n):
        return self.st(n)[-2]

    def never(self, n):
        return self.st(n)[-3]

    def closure(self, S):
        S = set(S)
        stack = list(S)
        while stack:
            n = stack.pop()
            for e in self.out[n]:
                if self.el[e] == 0:
                    t = self.et[e]
                    if t not in S:
                        S.add(t)
                        stack.append(t)
        return S

    def back_reach(self, pred):
        """nodes from which an edge with pred(label dict) can be reached"""
        R = set()
        stack = []
        for e in range(len(self.ef)):
            l = self.el[e]
            if l and pred(self.lab[l]):
                f = self.ef[e]
                if f not in R:
                    R.add(f)
                    stack.append(f)
        while stack:
            n = stack.pop()
            for e in self.inn[n]:
                f = self.ef[e]
                if f not in R:
                    R.add(f)
                    stack.append(f)
        return R

    # the shape vlib.family.finish wants
    @property
    def edges(self):
        return _EdgeView(self)


class _EdgeView:
    def __init__(self, g):
        self.g = g

    def __len__(self):
        return len(self.g.ef)

    def __iter__(self):
        for i in range(len(self.g.ef)):
            yield (self.g.ef[i], None, self.g.et[i], None, [1] if self.g.ev[i] else [])


def norm_stop(s):
    return "sub_wait" if s == "sub_cancel" else s


STABLE = {"bm": {"cond", "getblk", "getcf", "cflock", "exited"},
          "disp": {"run", "exited"},
          "bch": {"sel", "bcast", "cancelsub", "exited"},
          "subh": {"sel", "nsh", "exited"},
          "blkh": {"sel", "ntfn", "exited"},
          "cfh": {"first", "cond", "qall", "cpq", "getblk", "retry", "ntfn", "exited"},
          "rs": {"mark", "flock", "filter", "block", "cur"},
          "stop": {"connmgr", "bcast_wait", "utxo_wait", "wm_wait", "sub_wait", "bm_wait", "addr", "bw_wait",
                   "wg_wait"}}


def at_matches(model_at, seen_at, fields):
    for f in fields:
        v = seen_at.get(f, "")
        if v == "" or v not in STABLE[f]:
            continue           # not sampled / goroutine was running
        mv = model_at.get(f, "")
        if f == "stop":
            mv = norm_stop(mv)
        if mv != v:
            return False
    return True


# --------------------------------------------------------------------------
# scenarios from the model's states
# --------------------------------------------------------------------------
PAUSES = [2, 3, 4, 5, 6, 9]
NOAT = dict(stop="", bm="", disp="", bch="", subh="", blkh="", cfh="", rs="")


def mk_act(op, k=0, m=0, cls=0, res="ok", at=None):
    return {"op": op, "k": k, "m": m, "cls": cls, "res": res, "at": dict(at or NOAT)}


def scenarios(g, cfg, rng, conf=None):
    """Every Stop edge and every Begin-after-Stop edge of the graph, projected to what the
    driver controls. Returns (list of scenario dicts, coverage targets)."""
    keys = {}     # (pool, acts) -> set of at tuples the model has at Stop
    late = set()  # (pool, acts_pre, (k,m), after_return)
    slow = set()  # keys from which the model can reach a state where Stop / a caller is stuck
    done_ix = PCS.index("done")
    for e in range(len(g.ef)):
        l = g.el[e]
        if not l:
            continue
        lab = g.lab[l]
        f = g.ef[e]
        if lab["op"] == "Stop":
            key = (g.pool(f), g.dial(f) + 10 * g.never(f), g.acts(f))
            at = dict(lab["at"])
            at.pop("stop", None)
            keys.setdefault(key, set()).add(tuple(sorted(at.items())))
            if conf is not None and key not in slow and conf.may_hang(g.et[e]):
                slow.add(key)
        elif lab["op"] == "Begin" and g.stopped(f):
            pre = g.acts(f)
            if len(pre) <= 1:
                late.add((g.pool(f), g.dial(f) + 10 * g.never(f), pre, (lab["k"], lab["m"]), g.st(f)[8] == done_ix))
    out = []
    for (pool, dial, acts), ats in sorted(keys.items()):
        moments = list(cfg["moments"])
        if not acts:
            moments = [1]
        for m in moments:
            reps = 1 if m < 2 else cfg["per_key"] - 1
            for _ in range(max(1, reps)):
                steps = [mk_act("Begin", k, mm) for (k, mm) in acts] + [mk_act("Stop", 0, m)]
                out.append(dict(pool=pool, dial=dial, steps=steps, key=(pool, dial, acts)))
            if m >= 1:
                # the same moment with Stop held for 20-90 ms after one of its steps
                # (k of the Stop act: 2 bcast, 3 wm, 4 utxo, 5 sub, 6 bm, 9 quit): every
                # step where the rest of the client keeps moving on its own (mid-sync) or
                # in the thorough tier, else one step chosen by the seed
                busy = any(k == 7 for (k, mm) in acts)
                for ps in (PAUSES if m == 1 and (busy or cfg.get("all_pauses")) else [rng.choice(PAUSES)]):
                    steps = [mk_act("Begin", k, mm) for (k, mm) in acts] + [mk_act("Stop", ps, m)]
                    out.append(dict(pool=pool, dial=dial, steps=steps, key=(pool, dial, acts)))
    for (pool, dial, pre, (k, m), after) in sorted(late):
        steps = [mk_act("Begin", kk, mm) for (kk, mm) in pre] + [mk_act("Stop", 0, 1)]
        if after:
            steps.append(mk_act("StopRet"))
        steps.append(mk_act("Begin", k, m))
        out.append(dict(pool=pool, dial=dial, steps=steps, key=(pool, dial, pre), late=True))
    # scenarios in which the model says somebody can get stuck take the whole bound: first
    out.sort(key=lambda s: 0 if s["key"] in slow else 1)
    return out, keys


def write_scenarios(scn, fn):
    with open(fn, "w") as f:
        for i, s in enumerate(scn):
            s["id"] = i
            f.write(json.dumps({"id": i,
                                "init_obs": {"pool": s["pool"], "dial": s["dial"] % 10, "never": s["dial"] // 10,
                                             "stop": 0, "calls": [], "reopen": 0},
                                "steps": [{"act": a, "obs": None, "viol": []} for a in s["steps"]]},
                               separators=(",", ":")) + "\n")


# --------------------------------------------------------------------------
# trace inclusion (drift)
# --------------------------------------------------------------------------
class Conformance:
    def __init__(self, g):
        self.g = g
        self.can_stopret = g.back_reach(lambda l: l["op"] == "StopRet")
        self.can_ret = {k: g.back_reach(lambda l, k=k: l["op"] == "Ret" and l["k"] == k) for k in CALLERS}
        self.init_by_pool = {}
        for n in g.inits:
            self.init_by_pool.setdefault((g.pool(n), g.dial(n), g.never(n)), []).append(n)
        self._mh = {}

    def may_hang(self, n):
        """can the model, from node n, reach a state in which Stop or a pending caller is stuck"""
        g = self.g
        seen = {n}
        stack = [n]
        while stack:
            x = stack.pop()
            if x not in self.can_stopret:
                return True
            st = g.st(x)
            j = ACTS_OFF
            while st[j] != 99:
                j += 1
            for k in CALLERS:
                if st[j + k] // 100 == 0 and x not in self.can_ret[k]:
                    return True
            for e in g.out[x]:
                t = g.et[e]
                if t not in seen and g.lab[g.el[e]] is None or (t not in seen and g.lab[g.el[e]]["op"] in ("Ret", "StopRet")):
                    seen.add(t)
                    stack.append(t)
        return False

    def step(self, S, a):
        g = self.g
        T = set()
        for n in S:
            for e in g.out[n]:
                l = g.el[e]
                if not l:
                    continue
                lab = g.lab[l]
                if lab["op"] != a["op"]:
                    continue
                if a["op"] == "Begin" and (lab["k"], lab["m"]) != (a["k"], a["m"]):
                    continue
                if a["op"] == "Ret" and (lab["k"], lab["cls"]) != (a["k"], a["cls"]):
                    continue
                if a["op"] == "Stop" and not at_matches(lab["at"], a.get("at") or {},
                                                        ("bm", "disp", "bch", "subh", "blkh", "cfh", "rs")):
                    continue
                T.add(g.et[e])
        return g.closure(T)

    def check(self, tr):
        """Returns None if the observed trace is a behaviour of the model, else a dict
        describing the first step at which it leaves the model."""
        g = self.g
        io = tr["init_obs"]
        S = g.closure(self.init_by_pool.get((io["pool"], io.get("dial", 0), io.get("never", 0)), []))
        if not S:
            return dict(step=0, what="no model state for this pool")
        for i, s in enumerate(tr["steps"]):
            a = s["act"]
            if a["op"] == "Hang" and a.get("res") == "panic-before-stop":
                return None      # the process died before Stop was called: not this model's business
            if a["op"] == "Hang":
                o = s["obs"]
                ok = False
                for n in S:
                    if not at_matches(g.at(n), a.get("at") or {},
                                      ("stop", "bm", "disp", "bch", "subh", "blkh", "cfh", "rs")):
                        continue
                    if o["stop"] == 3:
                        if n in self.can_stopret:
                            continue
                    else:
                        hung = [c["k"] for c in o["calls"] if c["st"] == 5]
                        if any(n in self.can_ret.get(k, set()) for k in hung):
                            continue
                    ok = True
                    break
                if not ok:
                    return dict(step=i + 1, what="the real client hung where no model state is stuck",
                                at=a.get("at"), model_states=len(S))
                return None
            T = self.step(S, a)
            if not T:
                return dict(step=i + 1, what="observed event is not possible in the model here",
                            act={k: a[k] for k in ("op", "k", "m", "cls")}, at=a.get("at"), err=s.get("err", ""),
                            info=tr.get("info"),
                            model_at_sample=[g.at(n) for n in list(S)[:3]], model_states=len(S))
            S = T
        return None


def conformance(g, observed, c=None):
    c = c or Conformance(g)
    n_steps = n_drift = 0
    samples = []
    for t in observed:
        if t.get("error"):
            continue
        n_steps += len(t["steps"])
        r = c.check(t)
        if r:
            n_drift += 1
            if len(samples) < 8:
                r["trace"] = t["id"]
                r["labels"] = [label(s["act"]) for s in t["steps"]]
                samples.append(r)
    return (n_steps, n_drift, samples), c


# --------------------------------------------------------------------------
# liveness (design level)
# --------------------------------------------------------------------------
def run_liveness(consts, wd, prop="StopTerminates", workers=8, timeout=1500):
    os.makedirs(wd, exist_ok=True)
    for f in os.listdir(SPEC):
        if f.endswith(".tla"):
            shutil.copy(os.path.join(SPEC, f), wd)
    open(os.path.join(wd, "MC.tla"), "w").write("---- MODULE MC ----\nEXTENDS Shutdown\n====\n")
    cfg = ["SPECIFICATION LSpec", "CONSTANTS"] + ["  %s = %s" % (k, core.tla_value(v)) for k, v in consts.items()]
    cfg += ["PROPERTY " + prop, "CHECK_DEADLOCK FALSE"]
    open(os.path.join(wd, "MC.cfg"), "w").write("\n".join(cfg) + "\n")
    env = dict(os.environ)
    env.pop("JAVA_TOOL_OPTIONS", None)
    t0 = time.time()
    p = subprocess.run(["timeout", str(timeout), "java", "-XX:+UseParallelGC", "-Xmx6g", "-Xss64m", "-cp", core.TLA_CP,
                        "tlc2.TLC", "-workers", str(workers), "-metadir", os.path.join(wd, "meta"),
                        "-noGenerateSpecTE", "MC.tla"], cwd=wd, stdout=subprocess.PIPE, stderr=subprocess.STDOUT,
                       text=True, env=env)
    out = p.stdout
    res = dict(wall=round(time.time() - t0, 1), rc=p.returncode, states=0, distinct=0, holds=None, cex=[])
    m = re.findall(r"(\d+) states generated, (\d+) distinct states found", out)
    if m:
        res["states"], res["distinct"] = int(m[-1][0]), int(m[-1][1])
    if "Model checking completed. No error has been found" in out:
        res["holds"] = True
    elif "Temporal properties were violated" in out or "was violated" in out:
        res["holds"] = False
        for l in out.splitlines():
            mm = re.match(r"State (\d+): <(\w+)", l)
            if mm:
                res["cex"].append(mm.group(2))
            elif "Stuttering" in l:
                res["cex"].append("(stuttering)")
            elif "Back to state" in l:
                res["cex"].append("(loop)")
    else:
        res["error"] = out[-2000:]
    return res


# --------------------------------------------------------------------------
def label(a):
    op = a.get("op", "?")
    if op == "Begin":
        return "Begin(%s:%d)" % (KNAME.get(a.get("k"), a.get("k")), a.get("m", 0))
    if op == "Ret":
        return "Ret(%s)=%s" % (KNAME.get(a.get("k"), a.get("k")), CNAME.get(a.get("cls"), a.get("cls")))
    if op == "Stop":
        return "Stop[m%d%s]" % (a.get("m", 0), (",p%d" % a["k"]) if a.get("k") else "")
    if op == "Hang":
        at = a.get("at") or {}
        s = "Hang[stop=%s,bm=%s,rs=%s,bch=%s,cfh=%s,blkh=%s,subh=%s,disp=%s]" % tuple(
            at.get(f, "") for f in ("stop", "bm", "rs", "bch", "cfh", "blkh", "subh", "disp"))
        if str(a.get("res", "")).startswith("panic"):
            s += "=" + a["res"]
        return s
    if op == "Reopen":
        return "Reopen=%s" % ("ok" if str(a.get("res", "")).startswith("ok") else "fail")
    return op


class _Tlc:
    pass


def _tm(what, t):
    if os.environ.get("VSD_TIMING"):
        print("timing: %-12s %6.1f s" % (what, time.time() - t), file=os.sys.stderr)


def run(prop_id, tier, seed, replay=None):
    t0 = time.time()
    if replay:
        from . import utxoscan
        if utxoscan.is_my_replay(replay):       # a saved trace of the UTXO-scan slice (it carries its chain table)
            return utxoscan.run_slice_c17(tier, seed, replay=replay)[0]
    rng = random.Random(seed)
    cfg = config(tier, seed)
    sc = core.scratch("sd")
    try:
        pf = os.path.join(sc, "paths.ndjson")
        live_res = {}
        g = None
        tl = _Tlc()
        tl.generated = tl.distinct = tl.depth = 0
        tl.wall = 0.0
        keys = {}
        if replay:
            family.paths_from_replay(replay, pf)
            d = json.load(open(replay))
            scn = [dict(id=0)]
        else:
            # design-level liveness in the background while the graph is exported
            lc = consts_of(cfg["live"])
            th = threading.Thread(target=lambda: live_res.update(
                run_liveness(lc, os.path.join(sc, "live"), workers=4, timeout=2400)))
            th.start()
            # ... and the driver is compiled
            built = {}

            def _build():
                try:
                    built["bin"] = family.build_overlay_test(PKG, [NETSIM, DRIVER], os.path.join(sc, "neutrino.test"))
                except Exception as e:          # reported below, on the main thread
                    built["err"] = e
            tb = threading.Thread(target=_build)
            tb.start()
            g = G()
            for i, r in enumerate(cfg["runs"]):
                tlc = core.run_tlc([SPEC], "Shutdown", consts_of(r), workers=8,
                                   invariants=["TypeOK", "QuitOrder", "NoViolation"], heap="6g",
                                   workdir=os.path.join(sc, "tlc%d" % i), timeout=3000)
                if not tlc.ok:
                    raise core.MachineryError("TLC on Shutdown failed: %s\n%s" % (tlc.error, tlc.stdout_tail[-3000:]))
                g.add_run(tlc)
                tl.generated += tlc.generated
                tl.distinct += tlc.distinct
                tl.depth = max(tl.depth, tlc.depth)
                tl.wall += tlc.wall
                shutil.rmtree(os.path.join(sc, "tlc%d" % i), ignore_errors=True)
            _tm("tlc+load", t0)
            g.freeze()
            conf0 = Conformance(g)
            scn, keys = scenarios(g, cfg, rng, conf0)
            _tm("scenarios %d" % len(scn), t0)
            write_scenarios(scn, pf)
        if replay:
            binary = family.build_overlay_test(PKG, [NETSIM, DRIVER], os.path.join(sc, "neutrino.test"))
        else:
            tb.join()
            if "err" in built:
                raise built["err"]
            binary = built["bin"]
        _tm("build", t0)
        observed, log = family.run_driver(binary, "TestVerifShutdownReplay", pf, os.path.join(sc, "obs.ndjson"), sc,
                                          timeout=7000,
                                          env_extra={"VERIF_SEED": str(seed), "VSD_BOUND_S": str(cfg["bound"])})
        _tm("driver", t0)
        for t in observed:
            for s in t["steps"]:
                s.pop("viol", None)
            if not t.get("error") and (not t["steps"] or t["steps"][-1]["act"]["op"] not in ("Reopen", "Hang")):
                t["error"] = "driver: scenario ended without Reopen or Hang"
        verdict = family.judge([SPEC], "ShutdownProps", PROPS[prop_id], prop_id, observed, label=label)
        _tm("judge", t0)
        if g is not None:
            dr, conf = conformance(g, observed, conf0)
            _tm("conformance", t0)
        else:
            dr, conf = (sum(len(t["steps"]) for t in observed), 0, []), None
        # coverage of the model's Stop moments by what the driver sampled
        # (a moment = a parked position vector of the goroutines the model has at a Stop edge)
        hit = tot = 0
        if g is not None:
            seen = {}
            for t, s in zip(observed, scn):
                for st in t["steps"]:
                    if st["act"]["op"] == "Stop":
                        at = st["act"].get("at") or {}
                        if any(v for k, v in at.items() if k != "stop"):
                            seen.setdefault(s["key"], []).append(at)
            flds = ("bm", "disp", "bch", "subh", "blkh", "cfh", "rs")
            for k, ats in keys.items():
                for a in ats:
                    ad = dict(a)
                    if any(ad.get(f) not in STABLE[f] for f in flds if f != "rs"):
                        continue            # a transient position: cannot be sampled
                    if ad.get("rs") not in STABLE["rs"] | {"off", "ret"}:
                        continue
                    tot += 1
                    if any(at_matches(ad, o, flds) and (o.get("rs", "") in STABLE["rs"]) == (ad.get("rs") in STABLE["rs"])
                           for o in seen.get(k, [])):
                        hit += 1
        if not replay:
            th.join()
            if live_res.get("holds") is None:
                raise core.MachineryError("TLC liveness run on Shutdown failed: %s" % live_res.get("error", "?")[-1500:])
        hangs = [t for t in observed if any(s["act"]["op"] == "Hang" for s in t["steps"])]
        early = [t for t in observed if any(s["act"].get("res") == "panic-before-stop" for s in t["steps"])]
        for t in early[:3]:
            print("note: the client process died BEFORE Stop was called in scenario %s (not judged by C17): %s"
                  % (" ".join(label(s["act"]) for s in t["steps"]),
                     (t["steps"][-1].get("dump") or "").split("\n")[0][:200]), file=os.sys.stderr)
        extra = {
            "config": {k: (v if k != "runs" else [dict(r, pairs=len(r["pairs"])) for r in v]) for k, v in cfg.items()
                       if k != "live"},
            "code_version": dict(CODE_VERSION, FixBR1=fix_br1()),
            "design_level_liveness": dict(live_res, config=dict(cfg["live"], pairs=len(cfg["live"]["pairs"])),
                                          property="(Stop called) ~> (Stop returned /\\ every caller returned), "
                                                   "fair select arms, no state constraint"),
            "scenarios": len(scn), "scenario_keys": len(keys),
            "model_stop_moments": tot, "model_stop_moments_sampled_on_real_client": hit,
            "hung_scenarios": len(hangs), "client_died_before_stop": len(early),
            "stop_ms_max": max([s["t_ms"] for t in observed for s in t["steps"] if s["act"]["op"] == "StopRet"] or [0]),
        }
        if live_res.get("holds") is False:
            print("design-level: TLC finds a fair behaviour of the model in which Stop does not complete: %s"
                  % " ".join(live_res["cex"][:60]), file=os.sys.stderr)
        rc = family.finish(prop_id, tier, seed, t0, tl, g, scn, observed, verdict, dr, extra,
                           ASSUMPTIONS, label=label, exhaustive=True)
        if not replay:
            # the filter batch writer ChainService.Stop stops last, and the queue it rests on
            # (specs/BatchWriter, specs/ConcQueue; notes/smallstructs.md)
            from . import batchwriter, concqueue
            rc2, cov2 = batchwriter.run_slice("C17", tier, seed)
            batchwriter.merge_evidence("C17", cov2)
            rc3, cov3 = concqueue.run_slice("C17", tier, seed)
            concqueue.merge_evidence("C17", cov3)
            rc = max(rc, rc2, rc3)
            # Stop with a UTXO scan in flight (specs/UtxoScan with Stop at every gate of the scan, chains with
            # long stretches of non-matching / matching heights; notes/utxoscan.md section 9): the number of
            # environment calls the real batch manager makes after Stop is bounded independently of the
            # heights left (StopBoundedWork), Stop returns (StopReturnsDuringScan)
            from . import utxoscan
            rc = utxoscan.merge_slice_c17(tier, seed, rc)
        return rc
    finally:
        shutil.rmtree(sc, ignore_errors=True)
