"""PeerSet: the peer-set bookkeeping of ChainService (slice of the BanStore family, property C13).

Not a registered check of its own: `run_slice(prop_id, tier, seed)` is called by the check of C13
(vlib/families/banstore.py) after its own parts; `merge_evidence` adds the coverage it returns to the
evidence file that check has just written.

  model    specs/BanStore/PeerSet.tla: peerHandler's select arms, every message of notifications.go,
           BanPeer, outboundPeerConnected and the connection requests outstanding at btcd's connmgr;
           several scenarios (sets of enabled actions with their own constants) explored in ONE
           exhaustive TLC run, every transition exported
  replay   harness/overlay/neutrino/zz_verif_peerset_test.go (built together with the banenforce
           driver, whose scripted connections it reuses): every transition on a real ChainService
           value with the real peerHandler, connmgr (Dial / GetNewAddress are gates), addrmgr, ban
           store, btcd handshake; observed through the public API after every step
  judge    PeerSetProps.tla on the OBSERVED traces: only the enforcement sentence of C13
           (MisbehavingPeerBanned, NoConnectionToBanned, BannedConnectRefused)
  drift    everything else the driver reads back (ConnectedCount, AddedNodeInfo, OutboundGroupCount,
           ForAllPeers, subscription deliveries, heights, address manager, outstanding connection
           requests, answers of ConnectNode / RemoveNode / DisconnectNode) against the model's
           prediction, step by step: zero on the unchanged tree, never a verdict

Stand-alone:  python3 -m vlib.families.peerset C13 quick 1 [replay.json]
"""
import json, os, random, shutil, sys, time
from concurrent.futures import ThreadPoolExecutor
from .. import core, family

SPEC = os.path.join(core.VERIF, "specs", "BanStore")
DRIVER_ENF = os.path.join(core.VERIF, "harness", "overlay", "neutrino", "zz_verif_banenforce_test.go")
DRIVER = os.path.join(core.VERIF, "harness", "overlay", "neutrino", "zz_verif_peerset_test.go")
PKG = core.REPO

# clause -> property.  Only C13's enforcement sentence is judged (see PeerSetProps.tla).
PROPS = {"C13": ["MisbehavingPeerBanned", "NoConnectionToBanned", "BannedConnectRefused"],
         "C04": []}     # C04: nothing of its statement is decidable on this slice; coverage and drift only

CODE_VERSION = json.load(open(os.path.join(SPEC, "code_version.json")))
SWITCHES = {k: CODE_VERSION[k] for k in ("FixBanAllOfHost",)}

NI, NJ = 2, 2        # IPs, ports per IP: address a = (i-1)*NJ + j

LIFE = ("ConnectNode", "Redial", "NewAddr", "VerAck", "Drop")
CUT = ("RemoveAddr", "RemoveID", "DisconnectAddr", "DisconnectID")


def _scen(name, ops, addrs=(1, 2, 3), maxops=6, maxpeers=2, to=0, ks=(5,), sgs=(0,), devs=(1,)):
    return dict(name=name, ops=list(ops), addrs=list(addrs), maxops=maxops, maxpeers=maxpeers, to=to,
                ks=list(ks), sgs=list(sgs), devs=list(devs))


# addresses: 1 = (ip 1, port 1), 2 = (ip 1, port 2), 3 = (ip 2, port 1), 4 = (ip 2, port 2)
# tier -> [(connection slots NP, [scenario, ...]), ...]: one exhaustive TLC run per group
SCENARIOS = {
    "quick": [(2, [
        # bans against the whole life cycle, the client looking for peers itself (GetNewAddress)
        _scen("ban", LIFE + ("Misbehave", "Unban"), addrs=(1, 2), maxops=6, to=1),
        # ... and in ConnectPeers mode, two IPs
        _scen("ban2", LIFE + ("Misbehave", "Unban"), addrs=(1, 3), maxops=5, to=0),
        # remove / disconnect by address and by id
        _scen("cut", LIFE + CUT, addrs=(1, 2, 3), maxops=5, to=0),
        # shutdown window: life cycle; bans
        _scen("shut", LIFE + ("Shutdown",), addrs=(1, 3), maxops=5, to=1),
        _scen("shutban", ("ConnectNode", "VerAck", "Misbehave", "Shutdown"), addrs=(1, 3), maxops=5, to=0),
        # MaxPeers reached
        _scen("max", ("ConnectNode", "Redial", "VerAck", "Drop", "Misbehave"), addrs=(1, 3), maxops=5, maxpeers=1,
              to=1),
        # subscription, heights, addr messages (development network or not, one or two groups)
        _scen("sub", ("ConnectNode", "VerAck", "Drop", "Subscribe"), addrs=(1, 3), maxops=5),
        _scen("hgt", ("ConnectNode", "VerAck", "Heights"), addrs=(1, 3), maxops=5, sgs=(0, 1)),
        _scen("addr", ("ConnectNode", "VerAck", "AddrMsg"), addrs=(1,), maxops=4, devs=(0, 1)),
    ])],
    "thorough": [(2, [
        _scen("ban", LIFE + ("Misbehave", "Unban"), addrs=(1, 2, 3), maxops=7, to=1),
        _scen("ban2", LIFE + ("Misbehave", "Unban"), addrs=(1, 2, 3, 4), maxops=6, to=0),
        _scen("cut", LIFE + CUT + ("Misbehave",), addrs=(1, 2, 3), maxops=6, to=1),
        _scen("shut", LIFE + CUT + ("Misbehave", "Unban", "Shutdown"), addrs=(1, 2, 3), maxops=6, to=1),
        _scen("max", LIFE + CUT + ("Misbehave",), addrs=(1, 2, 3), maxops=6, maxpeers=1, to=1),
        _scen("sub", LIFE + ("Subscribe", "Misbehave"), addrs=(1, 3), maxops=6, to=1),
        _scen("hgt", ("ConnectNode", "VerAck", "Drop", "Heights"), addrs=(1, 3), maxops=6, sgs=(0, 1)),
        _scen("addr", ("ConnectNode", "VerAck", "Drop", "AddrMsg"), addrs=(1, 3), maxops=5, devs=(0, 1),
              sgs=(0, 1)),
    ]), (3, [
        # three connections: MaxPeers = 2 refuses the third, bans with two bystanders
        _scen("max3", LIFE + ("Misbehave",), addrs=(1, 2, 3), maxops=6, maxpeers=2, to=1),
        _scen("ban3", ("ConnectNode", "Redial", "VerAck", "Drop", "Misbehave", "Unban"), addrs=(1, 2, 3), maxops=6,
              to=0),
        _scen("cut3", ("ConnectNode", "VerAck") + CUT, addrs=(1, 2, 3), maxops=7, maxpeers=3, to=0, sgs=(0, 1)),
    ])],
}

ASSUMPTIONS = [
    "peer-set slice: connmgr's Dial and GetNewAddress are gates of the driver (a dial the path asked for is "
    "served at once, the retry of a permanent request and every NewConnReq park until the path releases them); "
    "the retry delay is 1 ms instead of 5 s",
    "peer-set slice: the driver observes after every asynchronous consequence of a step has finished (bounded "
    "waits of 2 s, >= 100x the normal latency, extended while the machine is starved), in particular after the peer "
    "handler has taken the done message of every connection that ended in the step (a done message handled after a "
    "later query is a behaviour of the real system too; the model describes the quiescent order); ShutBegin / ShutEnd are "
    "the first (shutdown flag, connManager.Stop) and the last (close(quit)) effect of ChainService.Stop on the "
    "peer handler, performed by the driver on a ChainService value without the other subsystems",
    "peer-set slice: only the enforcement sentence of C13 is judged; ConnectedCount, AddedNodeInfo, "
    "OutboundGroupCount, ForAllPeers, subscription deliveries, peer heights, the address manager and the "
    "answers of ConnectNode / RemoveNode / DisconnectNode are compared with the model as drift",
]


def _set(xs):
    return "{" + ", ".join(('"%s"' % x) if isinstance(x, str) else str(x) for x in xs) + "}"


def scen_tla(s):
    return ("[ops |-> %s, as |-> %s, maxops |-> %d, maxpeers |-> %d, to |-> %d, ks |-> %s, sgs |-> %s, "
            "devs |-> %s]" % (_set(s["ops"]), _set(s["addrs"]), s["maxops"], s["maxpeers"], s["to"],
                              _set(s["ks"]), _set(s["sgs"]), _set(s["devs"])))


def label(act):
    op, res = act.get("op", "?"), str(act.get("res"))
    p, i, j, f, k = (act.get(x, 0) for x in ("p", "i", "j", "f", "k"))
    if op == "Misbehave":                       # same vocabulary as the enforcement part (known findings)
        return "Misbehave(i%d,j%d,k%d)=%s" % (i, j, k, res)
    if op == "ConnectNode":
        return "ConnectNode(p%d,i%d,j%d,f%d)=%s" % (p, i, j, f, res)
    if op in ("VerAck", "Drop", "Redial", "NewAddr", "RemoveID", "DisconnectID", "Announce"):
        return "%s(p%d,i%d,j%d)=%s" % (op, p, i, j, res)
    if op in ("RemoveAddr", "DisconnectAddr"):
        return "%s(i%d,j%d)=%s" % (op, i, j, res)
    if op == "Unban":
        return "Unban(i%d)=%s" % (i, res)
    if op == "UpdateHeights":
        return "UpdateHeights(p%d,f%d)=%s" % (p, f, res)
    if op == "AddrMsg":
        return "AddrMsg(p%d,i%d,j%d,f%d)=%s" % (p, i, j, f, res)
    return "%s=%s" % (op, res)


def is_replay(replay_file):
    try:
        return str(json.load(open(replay_file))["trace"].get("part", "")).startswith("peerset")
    except Exception:
        return False


def _run_drivers(binary, lines, sc, seed):
    """Paths grouped by MaxPeers (a package variable of neutrino: one driver process per value)."""
    groups = {}
    for d in lines:
        groups.setdefault(d["cfg"]["maxpeers"], []).append(d)

    def one(item):
        mp, ds = item
        wd = os.path.join(sc, "mp%d" % mp)
        os.makedirs(wd, exist_ok=True)
        pf = os.path.join(wd, "paths.ndjson")
        with open(pf, "w") as f:
            for d in ds:
                f.write(json.dumps(d, separators=(",", ":")) + "\n")
        obs, _ = family.run_driver(binary, "TestVerifPeerSetReplay", pf, os.path.join(wd, "obs.ndjson"), wd,
                                   env_extra={"VERIF_SEED": str(seed), "VERIF_PAR": "48",
                                              "VERIF_PS_MAXPEERS": str(mp),
                                              "GOMAXPROCS": os.environ.get("VERIF_PS_PROCS", "4")})
        return obs

    with ThreadPoolExecutor(len(groups)) as ex:
        res = list(ex.map(one, sorted(groups.items())))
    observed = [t for r in res for t in r]
    observed.sort(key=lambda t: t["id"])
    return observed


def _cfg_of(init, scen, np):
    s = scen[init["sc"] - 1]
    return {"maxpeers": s["maxpeers"], "to": s["to"], "sg": init["sg"], "dev": init["dev"],
            "np": np, "ni": NI, "nj": NJ}


def _explore(np, scen, tier, rng, sc, first_id, info, tot):
    """One exhaustive TLC run over the scenarios of a group; returns the path lines."""
    defs = "ScenSeq == <<%s>>" % ",\n  ".join(scen_tla(s) for s in scen)
    wd = os.path.join(sc, "tlc%d" % np)
    consts = dict(SWITCHES, NP=np, NI=NI, NJ=NJ)
    tlc = core.run_tlc([SPEC], "PeerSet", consts, workers=1, invariants=["TypeOK"], view="View0",
                       cfg_extra="CONSTANT Scen <- ScenSeq", extra_defs=defs, workdir=wd, timeout=3000,
                       heap="6g")
    if not tlc.ok:
        raise core.MachineryError("TLC on PeerSet failed: %s\n%s" % (tlc.error, tlc.stdout_tail[-3000:]))
    g = core.Graph.load(tlc)
    paths, unreach = core.edge_cover(g, rng, max_len=48)
    if tier == "thorough":
        paths += core.random_walks(g, 2000, 30, rng)
    tmp = os.path.join(sc, "paths.tmp.ndjson")
    core.write_paths(g, paths, tmp)
    lines = []
    for k, line in enumerate(open(tmp)):
        d = json.loads(line)
        init = d.pop("init")
        d["id"] = first_id + k
        d["cfg"] = _cfg_of(init, scen, np)
        d["scen"] = scen[init["sc"] - 1]["name"]
        lines.append(d)
    os.unlink(tmp)
    # per scenario numbers (the scenario never changes along an edge)
    node_sc = {}
    for n0, _ in g.inits:
        node_sc[n0] = g.init_state[n0]["sc"]
    order = list(node_sc)
    while order:
        x = order.pop()
        for ei in g.out[x]:
            t = g.edges[ei][2]
            if t not in node_sc:
                node_sc[t] = node_sc[x]
                order.append(t)
    for s in scen:
        info[s["name"]] = dict(config=dict({k: v for k, v in s.items() if k != "name"}, np=np), states=0, edges=0,
                               model_violating_edges=0, paths=0, ops={})
    for x, k in node_sc.items():
        info[scen[k - 1]["name"]]["states"] += 1
    for e in g.edges:
        r = info[scen[node_sc[e[0]] - 1]["name"]]
        r["edges"] += 1
        r["model_violating_edges"] += 1 if e[4] else 0
        key = "%s=%s" % (e[1]["op"], e[1]["res"])
        r["ops"][key] = r["ops"].get(key, 0) + 1
    for d in lines:
        info[d["scen"]]["paths"] += 1
    tot["states"] += tlc.distinct
    tot["transitions"] += len(g.edges)
    tot["wall"] += tlc.wall
    tot["depth"] = max(tot["depth"], tlc.depth)
    tot["unreach"] += unreach
    tot["model_viol"] += sum(1 for e in g.edges if e[4])
    shutil.rmtree(wd, ignore_errors=True)
    return lines


def _judge(prop_id, names, observed, probe=400, chunk=8000):
    """family.judge in chunks (ObsCheck holds a whole chunk in memory); once enough new violations are
    in hand to report, the rest is not judged."""
    out = {"violations": [], "known": {}, "n_lines": 0, "wall": 0.0, "judged_traces": 0}
    k = 0
    while k < len(observed):
        n = probe if k == 0 and len(observed) > chunk else chunk
        part = observed[k:k + n]
        k += n
        v = family.judge([SPEC], "PeerSetProps", names, prop_id, part, label=label)
        out["violations"] += v["violations"]
        for kid, kv in v["known"].items():
            if kid in out["known"]:
                out["known"][kid]["count"] += kv["count"]
            else:
                out["known"][kid] = kv
        out["n_lines"] += v["n_lines"]
        out["wall"] += v["wall"]
        out["judged_traces"] += len(part)
        if len(out["violations"]) >= 10:
            break
    return out


def run_slice(prop_id, tier, seed, replay=None):
    """Runs the slice for property prop_id ("C13").  Prints KNOWN-FINDING / VIOLATION lines.
    Returns (rc, coverage): rc 0 held, 1 violation; machinery problems raise core.MachineryError."""
    t0 = time.time()
    rng = random.Random(seed * 7919 + 13)
    sc = core.scratch("ps")
    names = PROPS[prop_id]
    try:
        groups = SCENARIOS["thorough" if tier == "thorough" else "quick"]
        binary = family.build_overlay_test(PKG, [DRIVER_ENF, DRIVER], os.path.join(sc, "neutrino.test"))
        t_build = time.time() - t0
        info = {}
        tot = dict(states=0, transitions=0, wall=0.0, depth=0, unreach=0, model_viol=0)
        pf = os.path.join(sc, "paths.ndjson")
        if replay:
            tr = json.load(open(replay))["trace"]
            steps = [{"act": s["act"], "obs": s["obs"], "viol": []} for s in tr["steps"] if not s.get("note")]
            lines = [{"id": 0, "pseed": tr["pseed"], "cfg": tr["cfg"], "init_obs": tr["init_obs"], "steps": steps}]
        else:
            lines = []
            for np, scen in groups:
                lines += _explore(np, scen, tier, rng, sc, len(lines), info, tot)
        with open(pf, "w") as f:
            for d in lines:
                f.write(json.dumps(d, separators=(",", ":")) + "\n")
        t1 = time.time()
        observed = _run_drivers(binary, lines, sc, seed)
        t_drv = time.time() - t1
        by_id = {d["id"]: d for d in lines}
        for t in observed:
            t["part"] = "peerset:" + by_id[t["id"]].get("scen", "replay")
        errs = [t for t in observed if t.get("error")]
        if errs:
            raise core.MachineryError("PeerSet driver: %d paths ended in a driver error, e.g. %s" % (
                len(errs), errs[0]["error"][:3000]))
        t1 = time.time()
        verdict = _judge(prop_id, names, observed)
        t_judge = time.time() - t1
        n_steps, n_drift, dsamples = family.drift(pf, observed, label=label)
        if n_drift:
            print("drift: %d of %d replayed PeerSet paths left the model's prediction (not a verdict)" % (
                n_drift, len(observed)), file=sys.stderr)
        rc = 0
        for kid, k in sorted(verdict["known"].items()):
            print("KNOWN-FINDING: property=%s %s [%s; seen on %d replayed traces of the peer-set slice, e.g. %s]" % (
                prop_id, k["entry"]["what_fails"], kid, k["count"], " ".join(k["example"])))
        for v in verdict["violations"][:10]:
            fn = core.save_replay(prop_id, {"property": prop_id, "props": v["props"], "step": v["step"],
                                            "labels": v["labels"], "trace": v["observed"]})
            print("VIOLATION property=%s replay=%s" % (prop_id, fn))
            print("  violated: %s at step %d of: %s" % (",".join(v["props"]), v["step"], " ".join(v["labels"])))
            print("  (peer-set slice; re-execute with: python3 -m vlib.families.peerset %s %s %d %s)" % (
                prop_id, tier, seed, fn))
            rc = 1
        samples = [{"path": [label(s["act"]) for s in t["steps"]],
                    "last_obs": t["steps"][-1]["obs"] if t["steps"] else t.get("init_obs")} for t in observed[:2]]
        cov = {
            "states": tot["states"], "transitions": tot["transitions"],
            "traces_validated_against_impl": len(observed),
            "replayed_paths": len(observed), "replayed_steps": sum(len(t["steps"]) for t in observed),
            "judged_lines_by_tlc": verdict["n_lines"],
            "model_violating_edges": tot["model_viol"],
            "edges_only_reachable_through_model_violation": tot["unreach"],
            "drift": {"paths": n_drift, "steps_compared": n_steps, "samples": dsamples},
            "known_findings_seen": {k: v["count"] for k, v in verdict["known"].items()},
            "new_violations": len(verdict["violations"]),
            "scenarios": info, "code_version": SWITCHES,
            "tlc_wall_s": round(tot["wall"], 1), "tlc_depth": tot["depth"], "build_wall_s": round(t_build, 1),
            "driver_wall_s": round(t_drv, 1), "judge_wall_s": round(t_judge, 1),
            "wall_s": round(time.time() - t0, 1), "samples": samples, "assumptions": ASSUMPTIONS,
        }
        return rc, cov
    finally:
        shutil.rmtree(sc, ignore_errors=True)


def merge_evidence(prop_id, cov, rc=0):
    """Adds this slice's measured coverage to the evidence file the calling check has just written."""
    fn = os.path.join(os.environ.get("VERIF_EVIDENCE_DIR", os.path.join(core.VERIF, "evidence")), prop_id + ".json")
    ev = json.load(open(fn))
    c = ev["coverage"]
    c["peer_set_slice"] = {k: v for k, v in cov.items() if k not in ("samples", "assumptions")}
    c["states"] += cov["states"]
    c["transitions"] += cov["transitions"]
    c["traces_validated_against_impl"] += cov["traces_validated_against_impl"]
    c["samples"] = list(c.get("samples", [])) + cov["samples"][:1]
    ev["assumptions"] = list(ev.get("assumptions", [])) + [a for a in ASSUMPTIONS if a not in ev.get("assumptions", [])]
    ev["violations"] = ev.get("violations", 0) + cov["new_violations"]
    ev["wall_s"] = round(ev.get("wall_s", 0) + cov["wall_s"], 2)
    json.dump(ev, open(fn + ".tmp", "w"), indent=1)
    os.replace(fn + ".tmp", fn)
    return rc


if __name__ == "__main__":
    # python3 -m vlib.families.peerset C13 quick 1 [replay.json]
    pid = sys.argv[1] if len(sys.argv) > 1 else "C13"
    tier = sys.argv[2] if len(sys.argv) > 2 else "quick"
    seed = int(sys.argv[3]) if len(sys.argv) > 3 else 1
    try:
        rc, cov = run_slice(pid, tier, seed, replay=sys.argv[4] if len(sys.argv) > 4 else None)
    except core.MachineryError as e:
        print("MACHINERY ERROR:", e, file=sys.stderr)
        sys.exit(2)
    for s in cov.get("scenarios", {}).values():
        s.pop("ops", None)
    json.dump(cov, sys.stdout, indent=1)
    print()
    sys.exit(rc)
