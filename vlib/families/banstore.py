"""BanStore family: C13 (bans are exact, durable and enforced).

Two parts, both model -> TLC -> edge cover -> replay on the real code -> TLC judge:

  store        specs/BanStore/BanStore.tla (+ BanStoreProps.tla) replayed on the real
               banman.Store over real bbolt (harness/overlay/banman/...).
  enforcement  specs/BanStore/BanEnforce.tla (+ BanEnforceProps.tla) replayed on a real
               ChainService (peerHandler, BanPeer, IsBanned, OnVersion, handleAddPeerMsg,
               outboundPeerConnected behind the real connmgr) with scripted in-memory
               connections (harness/overlay/neutrino/...).
"""
import json, os, random, shutil, time
from .. import core, family

SPEC = os.path.join(core.VERIF, "specs", "BanStore")
DRIVER_STORE = os.path.join(core.VERIF, "harness", "overlay", "banman", "zz_verif_banstore_test.go")
DRIVER_ENF = os.path.join(core.VERIF, "harness", "overlay", "neutrino", "zz_verif_banenforce_test.go")
PKG_STORE = os.path.join(core.REPO, "banman")
PKG_ENF = core.REPO

READY = True
PROPERTIES = ["C13"]

MANIFEST = {
    "C13": dict(
        engine="BanStore",
        text="Two TLA+ specifications checked exhaustively by TLC, every transition of both replayed on the real code, "
             "the property operators evaluated by TLC on the observed traces. (1) specs/BanStore/BanStore.tla: the two "
             "bbolt buckets keyed by the serialised IP network, a logical clock, actions Ban(class, spelling group, "
             "duration, reason) / Unban / Status (with its lazy delete) / Reopen / Tick over address classes (IPv4 "
             "address, IPv6 address, a second IPv4 address, their /N networks); the spelling is an action parameter "
             "the property ignores. Replayed on the real banman.Store over real bbolt with concrete spellings made "
             "per class from the seed (dotted quad, with port, eight IPv4-mapped IPv6 forms, compressed / expanded / "
             "upper-case / dotted-tail IPv6, bracketed with port, explicit /32 and /128 masks in both mask lengths, "
             "net.ParseCIDR forms, net.IPNet literals, non-default masks /8../30 and /32../120, IPv4 networks also with "
             "their mask in IPv4-mapped 16-byte form /(96+n)); after EVERY step Status is queried for "
             "every class through one spelling of every group (on a snapshot, so the lazy delete does not disturb the "
             "store under test) and BannedUntilLapse / RecordedReason / NotBannedAfterLapse / NotBannedAfterUnban / "
             "SameRecordEverySpelling / ReopenPreserves / EveryFormAccepted are judged. Thorough adds real-time bans "
             "of 1-5 s on a 3 s grid (lapse observed on both sides of the expiry second), bans that lapse within a "
             "second, and random walks. Both tiers also replay two-caller steps: every pair of store calls, the second "
             "caller's call run in its own goroutine after database transaction 0, 1 or 2 of the first caller's call "
             "(a walletdb.DB proxy under the store gates every transaction), judged against both legal orders. (2) specs/BanStore/BanEnforce.tla: peer life cycle Connect / Version(service "
             "bits) / VerAck / Misbehave(kind) / Unban / Drop over connection slots and ip:port addresses; replayed, "
             "without a network, on a ChainService with the real ban store, real addrmgr, real btcd connmgr (scripted "
             "in-memory connections from its Dial), the real peerHandler, outboundPeerConnected, btcd peer handshake -> "
             "ServerPeer.OnVersion / OnVerAck -> handleAddPeerMsg, BanPeer, IsBanned, Peers(); judged: "
             "NoServicePeerBanned, MisbehavingPeerBanned, NoConnectionToBanned (over ChainService.Peers()), "
             "BannedConnectRefused. A second configuration takes a BanPeer call step by step (ban write held by a "
             "proxy ban store, the environment dials / handshakes / drops in the window, then the write commits and "
             "the deferred disconnect runs); after a divergence the remaining inputs are still applied and the "
             "system is driven to quiescence before NoConnectionToBanned is judged. A third configuration "
             "(enforce-skew) adds the client's network-adjusted clock as an environment dimension: the ChainService's "
             "median time source is fed, before the history, with version timestamps of peers whose clocks are off by "
             "-1 h / +1 h (and the history's peers stamp their version messages likewise), BanDuration is 30 min, and "
             "StoreBan actions put ban records with half an hour left / lapsed half an hour ago / a day left into the "
             "store; ChainService.IsBanned is judged after every step against the ideal set of banned IPs kept by the "
             "property module (IsBannedUntilLapse, IsBannedNotAfterLapse), and the connection clauses count an address "
             "as banned when the ideal says so, whatever IsBanned answers.",
        note="Bounded: store <=5 address classes, 3 spelling groups, 2 reasons, clock 0..3; enforcement <=3 connection "
             "slots, 2 IPs x 2 ports, 6 actions per history (the replayed graph has cycles, paths are longer). "
             "Assumes: expiries are whole Unix seconds, queries in the wall-clock second of a nominal expiry are never "
             "issued and never judged; the statement does not say that banning a network bans its member addresses, so "
             "that is not judged; spellings Go's net package rejects (zone ids, leading zeros, brackets without port) "
             "are not textual forms of an address here. Enforcement limits: the misbehaviour DETECTION sites "
             "(GetBlock, filter-header / checkpoint validation) are not driven here - the driver calls BanPeer the way "
             "they do, detection belongs to the C03/C05/C06 checks; NewChainService wiring, GetNewAddress skipping "
             "banned addresses (non-dev networks), UnbanPeer and two simultaneous connections to one ip:port are not "
             "covered; neutrino accepts no inbound connections, so there is no inbound refusal to check. A full "
             "simulated network (Client family) is needed to observe enforcement during real sync. Known finding "
             "KF-BS-2 (ban covers the IP, only the exact ip:port peer is dropped) is reported as KNOWN-FINDING."
             ' Peer-set slice (specs/BanStore/PeerSet.tla, vlib/families/peerset.py): every select arm of peerHandler and every query message of notifications.go (ConnectNode, Remove/Disconnect by address and id, ban, unban, shutdown ...) as one action each, every transition replayed on the real peerHandler + connmgr + addrmgr + ban store with the btcd handshake over scripted connections; verdicts only for the enforcement sentence (banned and disconnected, no connection kept or accepted to a banned address), everything else is conformance (drift).',
        design="4 C13", technique="TLA+ specs + TLC exhaustive + spec-to-code replay of every transition (real bbolt, "
                                  "real connmgr/peer handshake over in-memory connections) + TLC-judged observed traces"),
}

STORE_PROPS = ["BannedUntilLapse", "RecordedReason", "NotBannedAfterLapse", "NotBannedAfterUnban",
               "SameRecordEverySpelling", "ReopenPreserves", "EveryFormAccepted"]
ENF_PROPS = ["NoServicePeerBanned", "MisbehavingPeerBanned", "NoConnectionToBanned", "BannedConnectRefused",
             "IsBannedUntilLapse", "IsBannedNotAfterLapse"]
PROPS = {"C13": STORE_PROPS + ENF_PROPS}

CODE_VERSION = json.load(open(os.path.join(SPEC, "code_version.json")))
STORE_SWITCHES = {k: CODE_VERSION[k] for k in ("FixWideMask",)}
ENF_SWITCHES = {k: CODE_VERSION[k] for k in ("FixBanAllOfHost",)}

ENF_CONFIGS = {
    "quick": dict(NP=2, NI=2, NJ=2, MaxOps=6, Split=False, Offs="{0}", StoreBans=False),
    "thorough": dict(NP=3, NI=2, NJ=2, MaxOps=6, Split=False, Offs="{0}", StoreBans=False),
}
# the client's network-adjusted clock (timeSource) is off by -1 / 0 / +1 hour because its peers' clocks are;
# neutrino.BanDuration = 30 min in the driver process; ban records of an earlier run (lapsed 30 min ago,
# 30 min left, a day left) in the store
SKEW_CONFIGS = {
    "quick": dict(NP=2, NI=1, NJ=2, MaxOps=5, Split=False, Offs="{1,2}", StoreBans=True),
    "thorough": dict(NP=2, NI=2, NJ=2, MaxOps=6, Split=False, Offs="{0,1,2}", StoreBans=True),
}
SKEW_ENV = {"VERIF_BAN_MINUTES": "30"}
# BanPeer taken step by step (ban write held, environment moves in the window, write commits)
WINDOW_CONFIGS = {
    "quick": dict(NP=2, NI=1, NJ=2, MaxOps=7, Split=True, Offs="{0}", StoreBans=False),
    "thorough": dict(NP=3, NI=1, NJ=2, MaxOps=7, Split=True, Offs="{0}", StoreBans=False),
}

STORE_CONFIGS = {
    "quick": dict(NC=3, Groups="{1,2,3}", MaxShort=0, Long=100, NR=2, MaxT=1, NK=0),
    "thorough": dict(NC=4, Groups="{1,2,3}", MaxShort=0, Long=100, NR=2, MaxT=1, NK=0),
}
# two concurrent callers: every pair of store calls (also on different classes in thorough), the second
# placed after transaction 0, 1, 2 of the first
CONC_CONFIGS = {
    "quick": dict(NC=1, Groups="{1}", MaxShort=0, Long=100, NR=2, MaxT=0, NK=3),
    "thorough": dict(NC=2, Groups="{1}", MaxShort=0, Long=100, NR=2, MaxT=0, NK=3),
}
# all five classes (both networks, two addresses of one network), one reason, no clock
WIDE_CONFIG = dict(NC=5, Groups="{1,2,3}", MaxShort=0, Long=100, NR=1, MaxT=0, NK=0)
# real sleeps: thorough tier only, kept small
TIMED_CONFIG = dict(NC=2, Groups="{1,3}", MaxShort=2, Long=100, NR=1, MaxT=3, NK=0)

ASSUMPTIONS = [
    "ban expiries are persisted in whole Unix seconds: a query issued in the wall-clock second that contains the "
    "nominal expiry of a ban is not judged; the driver never issues one (lapsed bans get durations <= -2 s or the "
    "driver waits for the end of that second, short bans sit on a 3 s grid with the expiry second strictly between "
    "two ticks, a path whose actions miss their window is re-run)",
    "the Status sweep after every step runs the real banman code on a snapshot (walletdb Copy) of the database, "
    "because Status deletes lapsed records as a side effect; explicit Status actions run on the store under test",
    "the statement does not say whether a banned network bans the addresses inside it: while a covering network "
    "is live, 'not banned' is not judged for the covered addresses",
    "a class is one address / one network; spellings of a network vary the text of its base address only, with "
    "the mask given in the network's own address family",
    "enforcement parts: whether a ban has lapsed is a matter of real (system) time - the store records an absolute "
    "expiry and compares it with time.Now(); every ban placed there is at least 28 minutes away from its expiry on "
    "either side (24 h, 30 min +- 2 min, -30 min +- 2 min), so no ban lapses while a trace runs and the ideal set of "
    "banned IPs only changes by the logged actions",
]


def label(act):
    op = act.get("op", "?")
    res = str(act.get("res"))
    if "p" in act:      # enforcement part
        if op == "Connect":
            return "Connect(p%d,i%d,j%d)=%s" % (act["p"], act["i"], act["j"], res)
        if op == "Version":
            return "Version(p%d,i%d,j%d,f%d)=%s" % (act["p"], act["i"], act["j"], act["f"], res)
        if op in ("VerAck", "Drop"):
            return "%s(p%d,i%d,j%d)=%s" % (op, act["p"], act["i"], act["j"], res)
        if op in ("Misbehave", "BanBegin", "BanCommit"):
            return "%s(i%d,j%d,k%d)=%s" % (op, act["i"], act["j"], act["k"], res)
        if op == "Unban":
            return "Unban(i%d)=%s" % (act["i"], res)
        if op == "StoreBan":
            return "StoreBan(i%d,d%d,k%d)=%s" % (act["i"], act["f"], act["k"], res)
        return "%s=%s" % (op, res)
    if act.get("k", -1) >= 0:     # two concurrent callers
        second = {"op": act["op2"], "c": act["c2"], "g": act["g2"], "d": act["d2"], "r": act["r2"],
                  "res": act["res2"], "b": act["b2"], "rr": act["rr2"]}
        first = dict(act, k=-1)
        return "%s||after-tx%d||%s" % (label(first), act["k"], label(second))
    if op == "Ban":
        return "Ban(c%d,g%d,d%d,r%d)=%s" % (act["c"], act["g"], act["d"], act["r"], res)
    if op == "Unban":
        return "Unban(c%d,g%d)=%s" % (act["c"], act["g"], res)
    if op == "Status":
        return "Status(c%d,g%d)=%s:%d/%d" % (act["c"], act["g"], res, act.get("b", -1), act.get("rr", -1))
    return "%s=%s" % (op, res)


class _Part:
    """One model -> replay -> judge round."""

    def __init__(self, name):
        self.name = name
        self.tlc = None
        self.g = None
        self.paths = []
        self.observed = []
        self.verdict = {"violations": [], "known": {}, "n_lines": 0, "wall": 0.0, "raw": 0}
        self.drift = (0, 0, [])
        self.unreach = 0
        self.consts = {}
        self.driver_wall = 0.0
        self.judge_wall = 0.0


def _paths_from_replay(replay_file, pf):
    d = json.load(open(replay_file))
    tr = d["trace"]
    steps = [{"act": s["act"], "obs": s["obs"], "viol": []} for s in tr["steps"] if not s.get("note")]
    rec = {"id": 0, "init_obs": tr.get("init_obs"), "steps": steps}
    if "pseed" in tr:
        rec["pseed"] = tr["pseed"]
    with open(pf, "w") as f:
        f.write(json.dumps(rec) + "\n")
    return tr.get("part", "store"), bool(tr.get("soon"))


def _judge(props_mod, names, observed, probe=300, chunk=4000):
    """family.judge in chunks.  ObsCheck keeps every violation it has seen in one TLC
    variable, so a tree on which most traces violate makes a single big run quadratic (and
    memory hungry).  A small probe chunk is judged first; once enough new violations are
    in hand to report, the rest is not judged."""
    out = {"violations": [], "known": {}, "n_lines": 0, "wall": 0.0, "raw": 0, "judged_traces": 0}
    k = 0
    while k < len(observed):
        n = probe if k == 0 else chunk
        part = observed[k:k + n]
        k += n
        v = family.judge([SPEC], props_mod, names, "C13", part, label=label)
        out["violations"] += v["violations"]
        for kid, kv in v["known"].items():
            if kid in out["known"]:
                out["known"][kid]["count"] += kv["count"]
            else:
                out["known"][kid] = kv
        out["n_lines"] += v["n_lines"]
        out["wall"] += v["wall"]
        out["raw"] += v["raw"]
        out["judged_traces"] += len(part)
        if len(out["violations"]) >= 10:
            break
    return out


def _store_part(name, consts, tier, seed, rng, sc, binary, walks=0, depth=0, max_len=64, env=None):
    part = _Part(name)
    consts = dict(consts)
    consts.update(STORE_SWITCHES)
    part.consts = consts
    wd = os.path.join(sc, name)
    os.makedirs(wd, exist_ok=True)
    tlc = core.run_tlc([SPEC], "BanStore", consts, workers=1, invariants=["TypeOK"], view="View0",
                       workdir=os.path.join(wd, "tlc"), timeout=3000)
    if not tlc.ok:
        raise core.MachineryError("TLC on BanStore (%s) failed: %s\n%s" % (name, tlc.error, tlc.stdout_tail[-3000:]))
    part.tlc = tlc
    part.g = core.Graph.load(tlc)
    part.paths, part.unreach = core.edge_cover(part.g, rng, max_len=max_len)
    if walks:
        part.paths += core.random_walks(part.g, walks, depth, rng)
    pf = os.path.join(wd, "paths.ndjson")
    core.write_paths(part.g, part.paths, pf)
    e = {"VERIF_SEED": str(seed)}
    e.update(env or {})
    t1 = time.time()
    part.observed, _ = family.run_driver(binary, "TestVerifBanStoreReplay", pf, os.path.join(wd, "obs.ndjson"),
                                         wd, env_extra=e)
    part.driver_wall = time.time() - t1
    for t in part.observed:
        t["part"] = name
    t1 = time.time()
    part.verdict = _judge("BanStoreProps", STORE_PROPS, part.observed)
    part.judge_wall = time.time() - t1
    part.drift = family.drift(pf, part.observed, label=label)
    shutil.rmtree(os.path.join(wd, "tlc"), ignore_errors=True)
    return part


def _enf_part(name, consts, tier, seed, rng, sc, binary, walks=0, depth=0, env=None):
    part = _Part(name)
    consts = dict(consts)
    consts.update(ENF_SWITCHES)
    part.consts = consts
    wd = os.path.join(sc, name)
    os.makedirs(wd, exist_ok=True)
    tlc = core.run_tlc([SPEC], "BanEnforce", consts, workers=1, invariants=["TypeOK"], view="View0",
                       workdir=os.path.join(wd, "tlc"), timeout=3000)
    if not tlc.ok:
        raise core.MachineryError("TLC on BanEnforce failed: %s\n%s" % (tlc.error, tlc.stdout_tail[-3000:]))
    part.tlc = tlc
    part.g = core.Graph.load(tlc)
    part.paths, part.unreach = core.edge_cover(part.g, rng)
    if walks:
        part.paths += core.random_walks(part.g, walks, depth, rng)
    pf = os.path.join(wd, "paths.ndjson")
    core.write_paths(part.g, part.paths, pf)
    t1 = time.time()
    part.observed, _ = family.run_driver(binary, "TestVerifBanEnforceReplay", pf, os.path.join(wd, "obs.ndjson"),
                                         wd, env_extra=dict({"VERIF_SEED": str(seed), "VERIF_PAR": "64"}, **(env or {})))
    part.driver_wall = time.time() - t1
    for t in part.observed:
        t["part"] = name
    t1 = time.time()
    part.verdict = _judge("BanEnforceProps", ENF_PROPS, part.observed)
    part.judge_wall = time.time() - t1
    part.drift = family.drift(pf, part.observed, label=label)
    shutil.rmtree(os.path.join(wd, "tlc"), ignore_errors=True)
    return part


class _Sum:
    pass


def _merge(parts):
    """Presents several parts to family.finish as one run."""
    tlc = _Sum()
    tlc.distinct = sum(p.tlc.distinct for p in parts if p.tlc)
    tlc.generated = sum(p.tlc.generated for p in parts if p.tlc)
    tlc.depth = max([p.tlc.depth for p in parts if p.tlc] or [0])
    tlc.wall = sum(p.tlc.wall for p in parts if p.tlc)
    g = _Sum()
    g.edges = [e for p in parts if p.g for e in p.g.edges]
    paths, observed = [], []
    verdict = {"violations": [], "known": {}, "n_lines": 0, "wall": 0.0, "raw": 0}
    n_steps = n_drift = 0
    dsamples = []
    for k, p in enumerate(parts):
        paths += p.paths
        for t in p.observed:
            t["id"] = "%s:%s" % (p.name, t["id"]) if not isinstance(t["id"], str) else t["id"]
        observed += p.observed
        for v in p.verdict["violations"]:
            v["trace"] = "%s:%s" % (p.name, v["trace"])
        verdict["violations"] += p.verdict["violations"]
        for kid, kv in p.verdict["known"].items():
            if kid in verdict["known"]:
                verdict["known"][kid]["count"] += kv["count"]
            else:
                verdict["known"][kid] = kv
        verdict["n_lines"] += p.verdict["n_lines"]
        verdict["wall"] += p.verdict["wall"]
        verdict["raw"] += p.verdict["raw"]
        n_steps += p.drift[0]
        n_drift += p.drift[1]
        for s in p.drift[2]:
            s["part"] = p.name
            dsamples.append(s)
    return tlc, g, paths, observed, verdict, (n_steps, n_drift, dsamples[:8])


def run(prop_id, tier, seed, replay=None):
    t0 = time.time()
    rng = random.Random(seed)
    sc = core.scratch("bs")
    try:
        parts = []
        if replay:
            pf = os.path.join(sc, "paths.ndjson")
            which, soon = _paths_from_replay(replay, pf)
            part = _Part(which)
            part.tlc = family._NoTLC()
            part.paths = [0]
            env = {"VERIF_SEED": str(seed), "VERIF_SOON": "1" if soon else "0", "VERIF_KEEP_SWEEPS": "1"}
            if which.startswith("store"):
                binary = family.build_overlay_test(PKG_STORE, [DRIVER_STORE], os.path.join(sc, "banman.test"))
                test, props_mod, names = "TestVerifBanStoreReplay", "BanStoreProps", STORE_PROPS
            else:
                binary = family.build_overlay_test(PKG_ENF, [DRIVER_ENF], os.path.join(sc, "neutrino.test"))
                test, props_mod, names = "TestVerifBanEnforceReplay", "BanEnforceProps", ENF_PROPS
                if which == "enforce-skew":
                    env.update(SKEW_ENV)
            part.observed, _ = family.run_driver(binary, test, pf, os.path.join(sc, "obs.ndjson"), sc, env_extra=env)
            for t in part.observed:
                t["part"] = which
            part.verdict = _judge(props_mod, names, part.observed)
            part.drift = family.drift(pf, part.observed, label=label)
            parts.append(part)
        else:
            thorough = tier == "thorough"
            store_bin = family.build_overlay_test(PKG_STORE, [DRIVER_STORE], os.path.join(sc, "banman.test"))
            enf_bin = family.build_overlay_test(PKG_ENF, [DRIVER_ENF], os.path.join(sc, "neutrino.test"))
            # once a part has produced a new violation the verdict is settled; the remaining
            # parts are skipped (evidence says which ran)
            plan = [lambda: _store_part("store-conc", CONC_CONFIGS[tier], tier, seed, rng, sc, store_bin,
                                        walks=500 if thorough else 0, depth=30, env={"VERIF_SOON": "0"}),
                    lambda: _store_part("store", STORE_CONFIGS[tier], tier, seed, rng, sc, store_bin,
                                        walks=2000 if thorough else 0, depth=40,
                                        env={"VERIF_SOON": "1" if thorough else "0"}),
                    lambda: _enf_part("enforce-window", WINDOW_CONFIGS[tier], tier, seed, rng, sc, enf_bin,
                                      walks=1000 if thorough else 0, depth=30),
                    lambda: _enf_part("enforce", ENF_CONFIGS[tier], tier, seed, rng, sc, enf_bin,
                                      walks=2000 if thorough else 0, depth=30),
                    lambda: _enf_part("enforce-skew", SKEW_CONFIGS[tier], tier, seed, rng, sc, enf_bin,
                                      walks=1000 if thorough else 0, depth=30, env=SKEW_ENV)]
            if thorough:
                plan.append(lambda: _store_part("store-wide", WIDE_CONFIG, tier, seed, rng, sc, store_bin,
                                                env={"VERIF_SOON": "1"}))
                plan.append(lambda: _store_part("store-timed", TIMED_CONFIG, tier, seed, rng, sc, store_bin,
                                                max_len=24, env={"VERIF_PAR": "48", "VERIF_SOON": "0"}))
            only = os.environ.get("VERIF_C13_PARTS")      # self-test aid: run a subset of the parts
            names = ["store-conc", "store", "enforce-window", "enforce", "enforce-skew"] + \
                (["store-wide", "store-timed"] if thorough else [])
            for nm, step in zip(names, plan):
                if only and nm not in only.split(","):
                    continue
                parts.append(step())
                if parts[-1].verdict["violations"]:
                    break
        tlc, g, paths, observed, verdict, dr = _merge(parts)
        extra = {"parts": {p.name: {"config": p.consts,
                                    "states": p.tlc.distinct if p.tlc else 0,
                                    "edges": len(p.g.edges) if p.g else 0,
                                    "tlc_wall_s": round(p.tlc.wall, 1) if p.tlc else 0,
                                    "driver_wall_s": round(p.driver_wall, 1),
                                    "judge_wall_s": round(p.judge_wall, 1),
                                    "replayed_paths": len(p.observed),
                                    "replayed_steps": sum(len(t["steps"]) for t in p.observed),
                                    "paths_rerun_for_timing": sum(1 for t in p.observed if t.get("retries")),
                                    "edges_only_reachable_through_model_violation": p.unreach}
                          for p in parts}}
        rc = family.finish(prop_id, tier, seed, t0, tlc, g if not replay else None, paths, observed, verdict, dr,
                           extra, ASSUMPTIONS, label=label)
        if not replay and rc != 1 and "peerset" in os.environ.get("VERIF_C13_PARTS", "peerset").split(","):
            # peer-set bookkeeping slice (PeerSet.tla, vlib/families/peerset.py), coverage merged into the evidence
            from . import peerset
            rc2, cov2 = peerset.run_slice(prop_id, tier, seed)
            rc = max(rc, peerset.merge_evidence(prop_id, cov2, rc2))
        return rc
    finally:
        shutil.rmtree(sc, ignore_errors=True)
