"""BlockManager family: C01 (stored chain always valid), C02 (reorganisation
rules and completeness), C19 (chain events mirror the committed chain)."""
import json, os, random, shutil, time
from .. import core, family
from . import bm_universe

READY = True
PROPERTIES = ["C01", "C02", "C19"]
SPEC = os.path.join(core.VERIF, "specs", "BlockManager")
DRIVER = os.path.join(core.VERIF, "harness", "overlay", "neutrino", "zz_verif_blockmanager_test.go")
PKG = core.REPO

PROPS = {
    "C01": ["StoreReadable", "ChainValid", "LookupsAgree"],
    "C02": ["StoreChangedWithoutHeaders", "AdoptedNotFromBatch", "ReorgBelowCheckpoint", "ReorgNotHeavier",
            "IllegalTruncation", "WorkDecreased", "ExtensionAdoptedInFull", "HeavierBranchAdoptedInFull",
            "HandlerPanicked"],
    "C19": ["DisconnectEvents", "ConnectEvents", "EventOrder", "BacklogExact"],
}
CODE_VERSION = json.load(open(os.path.join(SPEC, "code_version.json")))
CONFIGS = {
    "quick": dict(universe="small", MaxMsgs=3, MaxRestarts=1),
    "thorough": dict(universe="quick", MaxMsgs=4, MaxRestarts=1),
}
_COMMON_NOTE = ("Bounded: header universe of 10 (quick) / 13 (thorough) headers incl. forks below/at/above a checkpoint, "
                "tie / heavier-by-one branches, an invalid header with a valid child; 2 peers; every connected batch of <= 3 "
                "headers plus unconnected ones; <= 3 (quick) / 4 (thorough) messages and one restart. Validity is abstract in "
                "the model; the driver mines concrete headers (custom easy-PoW params with the min-difficulty rule, so two "
                "work classes exist) and cross-checks each against btcd's CheckBlockHeaderContext/Sanity with an independent "
                "full-slice context. One chain-parameter set (no retarget boundary inside the universe). Trusts TLC and the "
                "projection of store reads to ids.")
MANIFEST = {
    "C01": dict(engine="BlockManager",
                text="TLC explores specs/BlockManager (handleNewPeerMsg/handleDonePeerMsg/handleInvMsg/handleHeadersMsg transcribed "
                     "loop-step by loop-step with every early return, rollBackToHeight, writeCFHeadersMsg, restart, on an entry-level "
                     "model of both header stores) over every sequence of messages from sync and non-sync peers; EVERY transition is "
                     "replayed on the real blockManager with real headerfs stores and mined headers; after each step tip, every "
                     "by-height and by-hash lookup are read back and ChainValid / LookupsAgree / StoreReadable are evaluated by TLC.",
                note=_COMMON_NOTE, design="4 C01",
                technique="TLA+ spec + TLC exhaustive + spec-to-code replay of every transition + TLC-judged observed traces"),
    "C02": dict(engine="BlockManager",
                text="Same exploration and replay; the step clauses of BlockManagerProps.tla classify every change of the stored "
                     "chain observed on the real code: extension only from the batch, reorganisation only above the last reached "
                     "checkpoint and only to strictly more work, truncation only on a checkpoint failure, no change without a "
                     "headers message, work monotone, and completeness (a fully valid extending / heavier batch from a listened-to "
                     "peer is adopted in full).",
                note=_COMMON_NOTE + " Known finding KF-BM-4 (batch crossing the next checkpoint is adopted only up to it).",
                design="4 C02",
                technique="TLA+ spec + TLC exhaustive + spec-to-code replay of every transition + TLC-judged observed traces"),
    "C19": dict(engine="BlockManager",
                text="Same exploration and replay with the driver as the only receiver of the block-notification channel: the events "
                     "emitted by every step (with the filter-store tip seen at delivery) and NotificationsSinceHeight(k) for every k "
                     "after every step are recorded; DisconnectEvents / ConnectEvents / EventOrder / BacklogExact are evaluated by TLC.",
                note=_COMMON_NOTE + " Filter-header writes are the tip/uncheckpointed form with true filter headers; checkpointed "
                     "batches with partial first intervals are exercised by the CFSync family.", design="4 C19",
                technique="TLA+ spec + TLC exhaustive + spec-to-code replay of every transition + TLC-judged observed traces"),
}
ASSUMPTIONS = [
    "a header is valid iff it passes btcd's contextual and context-free checks given its true ancestors; the model treats that as "
    "an abstract predicate per header and the driver's generator is cross-checked against btcd for every header",
    "all universe timestamps lie within 24 h of now, so the '24 h' clause of BlockHeadersSynced is always true",
    "handlers are called directly from one goroutine (as blockHandler does); writeCFHeadersMsg is atomic w.r.t. them here",
    "fake peers are unconnected btcd peer objects whose startingHeight/lastBlock/services are set by reflection",
]


_CP = {}


def label(a):
    s = a.get("op", "?")
    if s == "Headers":
        b = a["batch"]
        # tag batches that contain a checkpoint block followed by more headers
        tag = ""
        for i, x in enumerate(b[:-1]):
            if x in _CP.get("ids", ()):
                tag = ";xcp"
        s += "(p%d,%s%s)" % (a["p"], "-".join(str(x) for x in b), tag)
    elif s == "Inv":
        s += "(p%d,%s)" % (a["p"], a["batch"][0] if a["batch"] else "")
    elif s in ("NewPeer",):
        s += "(p%d,h%d)" % (a["p"], a["k"])
    elif s == "DonePeer":
        s += "(p%d)" % a["p"]
    elif s == "WriteCF":
        s += "(%d)" % a["k"]
    if a.get("res") not in (None, "ok"):
        s += "=" + a["res"]
    return s


def run(prop_id, tier, seed, replay=None):
    t0 = time.time()
    rng = random.Random(seed)
    cfg = dict(CONFIGS[tier])
    uni = bm_universe.UNIVERSES[cfg.pop("universe")]()
    consts = dict(cfg)
    consts.update(CODE_VERSION)
    _CP["ids"] = set(uni["checkpoints"].values())
    sc = core.scratch("bm")
    try:
        udir = os.path.join(sc, "uni")
        os.makedirs(udir)
        open(os.path.join(udir, "Universe.tla"), "w").write(bm_universe.tla(uni))
        uf = os.path.join(sc, "universe.json")
        json.dump(uni, open(uf, "w"))
        pf = os.path.join(sc, "paths.ndjson")
        if replay:
            family.paths_from_replay(replay, pf)
            tlc, g, paths, unreach = family._NoTLC(), None, [0], 0
        else:
            tlc = core.run_tlc([SPEC, udir], "BlockManager", consts, workers=1, invariants=["TypeOK"],
                               workdir=os.path.join(sc, "tlc"), timeout=3000)
            if not tlc.ok:
                raise core.MachineryError("TLC on BlockManager failed: %s\n%s" % (tlc.error, tlc.stdout_tail[-3000:]))
            g = core.Graph.load(tlc)
            paths, unreach = core.edge_cover(g, rng)
            core.write_paths(g, paths, pf)
        binary = family.build_overlay_test(PKG, [DRIVER], os.path.join(sc, "neutrino.test"))
        observed, log = family.run_driver(binary, "TestVerifBlockManagerReplay", pf,
                                          os.path.join(sc, "obs.ndjson"), sc,
                                          env_extra={"VERIF_UNIVERSE": uf})
        verdict = family.judge([SPEC, udir], "BlockManagerProps", PROPS[prop_id], prop_id, observed, label=label)
        dr = family.drift(pf, observed, label=label)
        return family.finish(prop_id, tier, seed, t0, tlc, g, paths, observed, verdict, dr,
                             {"config": consts, "universe": uni,
                              "edges_only_reachable_through_model_violation": unreach},
                             ASSUMPTIONS, label=label)
    finally:
        shutil.rmtree(sc, ignore_errors=True)
