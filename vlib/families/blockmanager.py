"""BlockManager family: C01 (stored chain always valid), C02 (reorganisation
rules and completeness), C19 (chain events mirror the committed chain)."""
import json, os, random, shutil, subprocess, sys, time
from .. import core, family
from . import bm_universe

READY = True
PROPERTIES = ["C01", "C02", "C19"]
SPEC = os.path.join(core.VERIF, "specs", "BlockManager")
DRIVER = os.path.join(core.VERIF, "harness", "overlay", "neutrino", "zz_verif_blockmanager_test.go")
PKG = core.REPO

PROPS = {
    "C01": ["StoreReadable", "ChainValid", "LookupsAgree"],
    "C02": ["StoreChangedWithoutHeaders", "AdoptedNotFromBatch", "ReorgBelowCheckpoint", "ReorgNotHeavier",
            "IllegalTruncation", "WorkDecreased", "ExtensionAdoptedInFull", "HeavierBranchAdoptedInFull",
            "HandlerPanicked", "HandlerHung"],
    # HandlerHung: a handler that never returns while it announces a batch / a rollback (e.g. waiting for a
    # lock the event consumer's backlog request holds) announces nothing further: "every block ... is announced"
    "C19": ["DisconnectEvents", "ConnectEvents", "EventOrder", "BacklogExact", "BacklogAtEvent", "HandlerHung"],
    # multi-store crash points (used by the C08 check of the HeaderStore family)
    "C08": ["CrashRecoverOpens", "CrashChainIntact", "CrashFilterConsistent"],
    # slice of C04 (used by the C04 check of the Client family, run_slice_c04): the sync peer the client reports is
    # none or a connected peer - a client whose sync peer has left asks nobody for headers and ignores everybody else's
    "C04": ["SyncPeerIsConnected"],
}
# fault parameters of a headers message: 1 = the batch write fails; 20+j / 30+j = the j-th RollbackLastBlock call of the
# message on the block-header / filter-header store fails (only explored where MaxFaults > 0)
ALL_FAULTS = "{0, 1, 21, 22, 23, 31, 32, 33, 41, 42}"
ROLLBACK_FAULTS = "{0, 21, 22, 23, 31, 32, 33}"
# ... plus, for writeCFHeadersMsg: 40+j = the j-th FetchHeader / FetchHeaderAncestors call of the step on the block-header
# store fails if the step makes it (the code makes one, before the write)
ROLLBACK_READ_FAULTS = "{0, 21, 22, 23, 31, 32, 33, 41, 42}"
CODE_VERSION = json.load(open(os.path.join(SPEC, "code_version.json")))
CONFIGS = {
    "quick": [dict(universe="u1", MaxMsgs=3, MaxRestarts=0, MaxFaults=0, MaxCrashes=0)],
    "thorough": [dict(universe="u1", MaxMsgs=3, MaxRestarts=1, MaxFaults=1, MaxCrashes=0),
                 dict(universe="deep", MaxMsgs=3, MaxRestarts=1, MaxFaults=1, MaxCrashes=0, FaultKinds=ROLLBACK_FAULTS),
                 dict(universe="retarget", MaxMsgs=3, MaxRestarts=1, MaxFaults=0, MaxCrashes=0),
                 dict(universe="quick", MaxMsgs=4, MaxRestarts=1, MaxFaults=0, MaxCrashes=0),
                 dict(universe="stale", MaxMsgs=3, MaxRestarts=1, MaxFaults=0, MaxCrashes=0),
                 dict(universe="cpalt", MaxMsgs=3, MaxPeerEv=3, MaxRestarts=1, MaxFaults=0, MaxCrashes=0),
                 # store-rollback failures in the checkpoint-mismatch caller (logs the error and carries on)
                 dict(universe="cpalt", MaxMsgs=3, MaxPeerEv=1, MaxRestarts=1, MaxFaults=1, MaxCrashes=0,
                      FaultKinds=ROLLBACK_FAULTS),
                 # checkpoint-mismatch rollbacks two and three stored blocks deep, with store-rollback failures
                 dict(universe="cpdeep", MaxMsgs=3, MaxPeerEv=1, MaxRestarts=1, MaxFaults=1, MaxCrashes=0,
                      FaultKinds=ROLLBACK_FAULTS),
                 # either peer may connect as a non-candidate (no SFNodeNetwork), with either advertised height
                 dict(universe="u1l", MaxMsgs=3, MaxRestarts=0, MaxFaults=0, MaxCrashes=0)],
    # slice of C04 (run_slice_c04): SyncPeerIsConnected over u1 / over u1 with the full non-candidate dimension
    "c04": [dict(universe="u1", MaxMsgs=3, MaxRestarts=0, MaxFaults=0, MaxCrashes=0)],
    "c04thorough": [dict(universe="u1l", MaxMsgs=3, MaxRestarts=1, MaxFaults=0, MaxCrashes=0)],
    "deep": [dict(universe="deep", MaxMsgs=3, MaxRestarts=0, MaxFaults=0, MaxCrashes=0)],
    "retarget": [dict(universe="retarget", MaxMsgs=3, MaxRestarts=0, MaxFaults=0, MaxCrashes=0)],
    # timestamp-profile class (C01 quick): stored chains with legal zig-zag timestamps ending on a low / a high tip,
    # the in-memory list re-seeded with the stored tip alone (start, Restart, DonePeer of the sync peer, ImportReset),
    # then two messages: the 2nd / 3rd header after the re-seed is dated at its TRUE median time past (invalid)
    "zigzag": [dict(universe="zigzag", MaxMsgs=3, MaxPeerEv=3, MaxRestarts=1, MaxFaults=0, MaxCrashes=0)],
    "stale": [dict(universe="stale", MaxMsgs=3, MaxRestarts=0, MaxFaults=0, MaxCrashes=0)],
    "cpalt": [dict(universe="cpalt", MaxMsgs=3, MaxPeerEv=1, MaxRestarts=0, MaxFaults=0, MaxCrashes=0)],
    "crash": [dict(universe="u1", MaxMsgs=2, MaxRestarts=0, MaxFaults=0, MaxCrashes=1)],
    "crash3": [dict(universe="u1", MaxMsgs=3, MaxRestarts=0, MaxFaults=0, MaxCrashes=1)],
    # quick slice of C19: ONE store rollback call of a headers message fails (j-th call, j = 1..3, either store) inside
    # rollBackToHeight, in both callers: the checkpoint-mismatch path (logs the error, the client carries on; universe
    # cpdeep: 2- and 3-deep rollbacks to the previous checkpoint) and the reorganisation path (panics; universe deep:
    # 2- and 3-deep reorganisations).  Two events per history (plus the peer's connection in cpdeep).
    "qfaults": [dict(universe="cpdeep", MaxMsgs=2, MaxPeerEv=1, MaxRestarts=0, MaxFaults=1, MaxCrashes=0,
                     FaultKinds=ROLLBACK_READ_FAULTS),
                dict(universe="deep", MaxMsgs=2, MaxRestarts=0, MaxFaults=1, MaxCrashes=0, FaultKinds=ROLLBACK_FAULTS)],
    # quick slice of C19: a stored chain of several thousand blocks (one trunk id = a run of real headers, written
    # straight into the stores), the backlog requested from every run boundary after every step, a short live part
    # on top (headers, cfheaders, 1- and 2-deep reorganisations, an import of the next runs)
    "qlong": [dict(universe="long", MaxMsgs=3, MaxPeerEv=1, MaxRestarts=0, MaxFaults=0, MaxCrashes=0)],
    "faults": [dict(universe="u1", MaxMsgs=3, MaxRestarts=0, MaxFaults=1, MaxCrashes=0),
               # the checkpoint-mismatch caller of rollBackToHeight (logs the error and carries on) with stored
               # headers to remove, and rollbacks three blocks deep: store-rollback failures only
               dict(universe="cpalt", MaxMsgs=3, MaxPeerEv=1, MaxRestarts=0, MaxFaults=1, MaxCrashes=0,
                    FaultKinds=ROLLBACK_FAULTS),
               dict(universe="deep", MaxMsgs=3, MaxRestarts=0, MaxFaults=1, MaxCrashes=0, FaultKinds=ROLLBACK_FAULTS),
               # checkpoint-mismatch rollbacks two and three stored blocks deep
               dict(universe="cpdeep", MaxMsgs=3, MaxPeerEv=1, MaxRestarts=0, MaxFaults=1, MaxCrashes=0,
                    FaultKinds=ROLLBACK_FAULTS)],
}
_COMMON_NOTE = ("Bounded: header universe of 10 (quick) / 13 (thorough) headers incl. forks below/at/above a checkpoint, "
                "tie / heavier-by-one branches, an invalid header with a valid child; 2 peers; every connected batch of <= 3 "
                "headers plus unconnected ones; <= 3 (quick) / 4 (thorough) messages and one restart. Validity is abstract in "
                "the model; the driver mines concrete headers (custom easy-PoW params with the min-difficulty rule, so two "
                "work classes exist) and cross-checks each against btcd's CheckBlockHeaderContext/Sanity with an independent "
                "full-slice context. One chain-parameter set (no retarget boundary inside the universe). Trusts TLC and the "
                "projection of store reads to ids.")
MANIFEST = {
    "C01": dict(engine="BlockManager",
                text="TLC explores specs/BlockManager (handleNewPeerMsg/handleDonePeerMsg/handleInvMsg/handleHeadersMsg transcribed "
                     "loop-step by loop-step with every early return, rollBackToHeight, writeCFHeadersMsg, restart, on an entry-level "
                     "model of both header stores) over every sequence of messages from sync and non-sync peers; EVERY transition is "
                     "replayed on the real blockManager with real headerfs stores and mined headers; after each step tip, every "
                     "by-height and by-hash lookup are read back and ChainValid / LookupsAgree / StoreReadable are evaluated by TLC.",
                note=_COMMON_NOTE, design="4 C01",
                technique="TLA+ spec + TLC exhaustive + spec-to-code replay of every transition + TLC-judged observed traces"),
    "C02": dict(engine="BlockManager",
                text="Same exploration and replay; the step clauses of BlockManagerProps.tla classify every change of the stored "
                     "chain observed on the real code: extension only from the batch, reorganisation only above the last reached "
                     "checkpoint and only to strictly more work, truncation only on a checkpoint failure, no change without a "
                     "headers message, work monotone, and completeness (a fully valid extending / heavier batch from a listened-to "
                     "peer is adopted in full).",
                note=_COMMON_NOTE + " Known finding KF-BM-4 (batch crossing the next checkpoint is adopted only up to it).",
                design="4 C02",
                technique="TLA+ spec + TLC exhaustive + spec-to-code replay of every transition + TLC-judged observed traces"),
    "C19": dict(engine="BlockManager",
                text="Same exploration and replay with the driver as the only receiver of the block-notification channel: the events "
                     "emitted by every step (with the filter-store tip seen at delivery) and NotificationsSinceHeight(k) for every k "
                     "after every step are recorded; DisconnectEvents / ConnectEvents / EventOrder / BacklogExact are evaluated by TLC. "
                     "All tiers (quick: universes cpdeep and deep with two events; faults / thorough: all): the j-th RollbackLastBlock call of a headers message on the block-header or the "
                     "filter-header store fails (j = 1..3): what an interrupted rollBackToHeight removed must have been announced; "
                     "the j-th FetchHeader / FetchHeaderAncestors call of writeCFHeadersMsg on the block-header store fails. "
                     "Universe long (quick): stored chains of 2000 / 2001 / 4000 / 4001 / 4500 blocks (one model id = a run of real "
                     "headers written straight into the stores), the backlog requested from every run boundary after every step "
                     "(distances 0 .. 4502 from the filter tip incl. 1999 / 2000 / 2001 / 2002 / 3999 / 4000 / 4001 / 4002) and "
                     "folded back into ids by the driver, with a short live part (headers, cfheaders, 1- and 2-deep reorganisation) on top.",
                note=_COMMON_NOTE + " Filter-header writes are the tip/uncheckpointed form with true filter headers; checkpointed "
                     "batches with partial first intervals are exercised by the CFSync family.", design="4 C19",
                technique="TLA+ spec + TLC exhaustive + spec-to-code replay of every transition + TLC-judged observed traces"),
}
ASSUMPTIONS = [
    "a header is valid iff it passes btcd's contextual and context-free checks given its true ancestors; the model treats that as "
    "an abstract predicate per header and the driver's generator is cross-checked against btcd for every header",
    "all universe timestamps lie within 24 h of now, so the '24 h' clause of BlockHeadersSynced is always true",
    "handlers are called directly from one goroutine (as blockHandler does); writeCFHeadersMsg is atomic w.r.t. them here",
    "fake peers are unconnected btcd peer objects whose startingHeight/lastBlock/services are set by reflection",
    "injected store errors (quick tier of C19: store-rollback failures in universes cpdeep / deep; faults / thorough tiers: "
    "all universes named there): one per history, returned by the driver's store wrapper without touching "
    "the store; a panic of the reorganisation path on such an error ends the process (only a restart follows)",
    "universe long: one id of the trunk stands for a run of consecutive real headers; a run counts as present in a backlog only "
    "if all its headers are there consecutively and in order; runs are written by import only (no cfheaders message, no "
    "reorganisation reaches into the trunk); heights carried by backlog notifications are not compared",
    "read faults of writeCFHeadersMsg: only FetchHeader / FetchHeaderAncestors calls on the block-header store are fault points",
    "quick tier: a peer that is not a full node (no SFNodeNetwork) connects only as the first event of a history, to a client "
    "that is current, as peer 2 advertising height 7; the thorough tier (universe u1l) has no such restriction",
]


C04_ASSUMPTIONS = [
    "SyncPeerIsConnected: 'connected' is what the environment's own NewPeer/DonePeer steps say; a peer's messages are "
    "handled only between its NewPeer and its DonePeer (a headers message still queued when the peer's DonePeer is "
    "handled is outside this slice)",
]

_CP = {}


def label(a):
    s = a.get("op", "?")
    if s == "Headers":
        b = a["batch"]
        # tag batches that contain a checkpoint block followed by more headers
        tag = ""
        for i, x in enumerate(b[:-1]):
            if x in _CP.get("ids", ()):
                tag = ";xcp"
        if a.get("k") == 1:
            tag += ";writefails"
        k = a.get("k", 0)
        if 10 <= k < 20:
            tag += ";crash-after-%d-store-calls" % (k - 10)
        elif 20 < k < 30:
            tag += ";blockstore-rollback-call-%d-fails" % (k - 20)
        elif 30 < k < 40:
            tag += ";filterstore-rollback-call-%d-fails" % (k - 30)
        s += "(p%d,%s%s)" % (a["p"], "-".join(str(x) for x in b), tag)
    elif s == "Inv":
        s += "(p%d,%s)" % (a["p"], a["batch"][0] if a["batch"] else "")
    elif s in ("NewPeer",):
        s += "(p%d,h%d%s)" % (a["p"], a["k"], ",notfullnode" if a.get("nf") else "")
    elif s == "DonePeer":
        s += "(p%d)" % a["p"]
    elif s == "WriteCF":
        s += "(%d%s)" % (a["k"], ";blockstore-read-call-%d-fails-if-made" % (a["p"] - 40) if a.get("p", 0) > 40 else "")
    elif s == "ImportReset":
        s += "(%s)" % "-".join(str(x) for x in a["batch"])
    if a.get("res") not in (None, "ok"):
        s += "=" + a["res"]
    return s


def run_one(prop_id, cfg, rng, sc, replay=None):
    cfg = dict(cfg)
    uname = cfg.pop("universe")
    uni = bm_universe.UNIVERSES[uname]()
    consts = dict(cfg)
    consts.setdefault("MaxPeerEv", 0)
    consts.setdefault("FaultKinds", ALL_FAULTS)
    consts.update(CODE_VERSION)
    _CP["ids"] = set(uni["checkpoints"].values())
    os.makedirs(sc)
    binary = os.path.join(os.path.dirname(sc), "neutrino.test")
    if not os.path.exists(binary):
        family.build_overlay_test(PKG, [DRIVER], binary)
    if uni.get("auto_work"):
        # difficulties follow from the retarget rules: let the generator mine the
        # universe once and report the work of every header before TLC runs
        uf0 = os.path.join(sc, "universe0.json")
        json.dump(uni, open(uf0, "w"))
        env = core.go_env()
        env.update({"VERIF_UNIVERSE": uf0, "VERIF_OUT": os.path.join(sc, "gen.json")})
        env.pop("VERIF_PATHS", None)
        p = subprocess.run([binary, "-test.run", "^TestVerifBlockManagerGen$", "-test.count=1"], cwd=sc, env=env,
                           stdout=subprocess.PIPE, stderr=subprocess.STDOUT, text=True)
        if p.returncode != 0 or not os.path.exists(os.path.join(sc, "gen.json")):
            raise core.MachineryError("universe generator failed:\n" + p.stdout[-3000:])
        gen = json.load(open(os.path.join(sc, "gen.json")))
        for h in uni["headers"]:
            h["work"] = gen["work"][h["id"]]
    udir = os.path.join(sc, "uni")
    os.makedirs(udir)
    open(os.path.join(udir, "Universe.tla"), "w").write(bm_universe.tla(uni))
    uf = os.path.join(sc, "universe.json")
    json.dump(uni, open(uf, "w"))
    pf = os.path.join(sc, "paths.ndjson")
    if replay:
        d = json.load(open(replay))
        tr = d["trace"]
        steps = [{"act": x["act"], "obs": x["obs"], "viol": []} for x in tr["steps"] if not x.get("note")]
        open(pf, "w").write(json.dumps({"id": 0, "init_obs": tr.get("init_obs"), "init": d.get("init"),
                                        "steps": steps, "list_cap": tr.get("list_cap", 0)}) + "\n")
        tlc, g, paths, unreach = family._NoTLC(), None, [0], 0
    else:
        tlc = core.run_tlc([SPEC, udir], "BlockManager", consts, workers=1, invariants=["TypeOK"],
                           workdir=os.path.join(sc, "tlc"), timeout=6000)
        if not tlc.ok:
            raise core.MachineryError("TLC on BlockManager failed: %s\n%s" % (tlc.error, tlc.stdout_tail[-3000:]))
        g = core.Graph.load(tlc)
        paths, unreach = core.edge_cover(g, rng)
        core.write_paths(g, paths, pf)
    observed, log = family.run_driver(binary, "TestVerifBlockManagerReplay", pf,
                                      os.path.join(sc, "obs.ndjson"), sc, timeout=7200,
                                      env_extra={"VERIF_UNIVERSE": uf})
    # paths the driver skipped (after repeated hung steps) carry no observation at all
    skipped = [t for t in observed if t.get("error") and not t.get("steps")]
    observed = [t for t in observed if not (t.get("error") and not t.get("steps"))]
    verdict = family.judge([SPEC, udir], "BlockManagerProps", PROPS[prop_id], prop_id, observed, label=label)
    dr = family.drift(pf, observed, label=label)
    inits = {}
    for line in open(pf):
        d = json.loads(line)
        inits[d["id"]] = d.get("init")
    return dict(uname=uname, uni=uni, consts=consts, tlc=tlc, g=g, paths=paths, unreach=unreach,
                observed=observed, verdict=verdict, drift=dr, inits=inits, skipped=skipped)


def run_slice_c04(tier, seed, replay=None):
    """Slice of C04 for the Client family's check: the BlockManager model over universe u1 (quick constants; thorough:
    u1 with the full non-candidate peer dimension and a restart), every transition replayed on the real block manager,
    judged for PROPS["C04"] (SyncPeerIsConnected).  Prints KNOWN-FINDING / VIOLATION lines for C04, writes its evidence
    into a scratch directory (as headerstore.multi_store does for C08) and returns (exit code, coverage dict)."""
    evdir = core.scratch("c04bm")
    old = os.environ.get("VERIF_EVIDENCE_DIR")
    os.environ["VERIF_EVIDENCE_DIR"] = evdir
    try:
        rc = run("C04", "c04thorough" if tier == "thorough" else "c04", seed, replay=replay)
        cov = json.load(open(os.path.join(evdir, "C04.json")))["coverage"]
    finally:
        if old is None:
            os.environ.pop("VERIF_EVIDENCE_DIR", None)
        else:
            os.environ["VERIF_EVIDENCE_DIR"] = old
        shutil.rmtree(evdir, ignore_errors=True)
    return rc, cov


def merge_slice_c04(tier, seed, rc=0):
    """Convenience for the C04 check (call it after the check has written evidence/C04.json): runs run_slice_c04 and
    adds its measured coverage to that evidence file; returns max(rc, exit code of the slice)."""
    t0 = time.time()
    rc2, cov = run_slice_c04(tier, seed)
    fn = os.path.join(os.environ.get("VERIF_EVIDENCE_DIR", os.path.join(core.VERIF, "evidence")), "C04.json")
    ev = json.load(open(fn))
    c = ev["coverage"]
    c["sync_peer_slice_blockmanager"] = {k: v for k, v in cov.items() if k != "samples"}
    for k in ("states", "transitions", "traces_validated_against_impl"):
        c[k] = int(c.get(k, 0) or 0) + int(cov.get(k, 0) or 0)
    c["samples"] = list(c.get("samples", [])) + cov.get("samples", [])[:1]
    ev["assumptions"] = list(ev.get("assumptions", [])) + [a for a in ASSUMPTIONS + C04_ASSUMPTIONS
                                                           if a not in ev.get("assumptions", [])]
    ev["violations"] = ev.get("violations", 0) + int(cov.get("new_violations", 0) or 0)
    ev["wall_s"] = round(ev.get("wall_s", 0) + time.time() - t0, 2)
    json.dump(ev, open(fn + ".tmp", "w"), indent=1)
    os.replace(fn + ".tmp", fn)
    return max(rc, rc2)


def run(prop_id, tier, seed, replay=None):
    t0 = time.time()
    rng = random.Random(seed)
    sc = core.scratch("bm")
    try:
        if replay:
            rd = json.load(open(replay))
            cfgs = [dict(universe=rd.get("universe", "u1"), MaxMsgs=1, MaxRestarts=0, MaxFaults=0, MaxCrashes=0)]
        else:
            cfgs = CONFIGS[tier]
            if tier == "quick" and prop_id in ("C01", "C02"):
                # validity under other chain parameters / deep forks matters to these two
                cfgs = cfgs + CONFIGS["deep"] + CONFIGS["retarget"] + CONFIGS["cpalt"]
            if tier == "quick" and prop_id == "C01":
                # "respects the median-time-past limit": the median must come from the header's TRUE ancestors also
                # when most of them are read from the store and the stored timestamps are not monotone
                cfgs = cfgs + CONFIGS["zigzag"]
            if tier == "quick" and prop_id == "C02":
                # "not current" (tip older than 24 h): whom the client listens to while it is syncing an old chain
                cfgs = cfgs + CONFIGS["stale"]
            if tier == "quick" and prop_id == "C19":
                # "every block header removed by a rollback is announced": rollbacks interrupted by a store error
                cfgs = cfgs + CONFIGS["qfaults"]
                # "the backlog ... is exactly the committed blocks above that height": thousands of blocks behind
                cfgs = cfgs + CONFIGS["qlong"]
        runs = [run_one(prop_id, c, rng, os.path.join(sc, "r%d" % i), replay) for i, c in enumerate(cfgs)]
        rc = 0
        known = {}
        nviol = 0
        for r in runs:
            _CP["ids"] = set(r["uni"]["checkpoints"].values())
            for kid, k in sorted(r["verdict"]["known"].items()):
                if kid in known:
                    known[kid]["count"] += k["count"]
                else:
                    known[kid] = k
            for v in r["verdict"]["violations"]:
                nviol += 1
                if nviol > 10:
                    continue
                fn = core.save_replay(prop_id, {"property": prop_id, "universe": r["uname"], "props": v["props"],
                                                "step": v["step"], "labels": v["labels"],
                                                "init": r["inits"].get(v["trace"]), "trace": v["observed"]})
                print("VIOLATION property=%s replay=%s" % (prop_id, fn))
                print("  violated: %s at step %d of: [universe %s, stored %s] %s" % (
                    ",".join(v["props"]), v["step"], r["uname"],
                    (r["inits"].get(v["trace"]) or {}).get("bfile"), " ".join(v["labels"])))
                rc = 1
            errs = [t for t in r["observed"] if t.get("error")] + r["skipped"]
            if errs:
                print("MACHINERY: %d paths ended in a driver error, e.g. %s" % (len(errs), errs[0]["error"][:600]),
                      file=sys.stderr)
                rc = rc or 2
            if r["drift"][1]:
                print("drift: %d of %d replayed paths left the model's prediction (universe %s; not a verdict)" % (
                    r["drift"][1], len(r["observed"]), r["uname"]), file=sys.stderr)
        for kid, k in sorted(known.items()):
            print("KNOWN-FINDING: property=%s %s [%s; seen on %d replayed traces, e.g. %s]" % (
                prop_id, k["entry"]["what_fails"], kid, k["count"], " ".join(k["example"])))
        samples = []
        for r in runs:
            for t in r["observed"][:2]:
                samples.append({"universe": r["uname"], "stored_at_start": (r["inits"].get(t["id"]) or {}).get("bfile"),
                                "path": [label(x["act"]) for x in t["steps"]],
                                "last_obs": t["steps"][-1]["obs"] if t["steps"] else t.get("init_obs")})
        cov = {
            "states": max(1, sum(r["tlc"].distinct for r in runs)),
            "transitions": max(1, sum(len(r["g"].edges) if r["g"] else 0 for r in runs)),
            "traces_validated_against_impl": sum(len(r["observed"]) for r in runs),
            "samples": samples, "exhaustive": True,
            "replayed_steps": sum(sum(len(t["steps"]) for t in r["observed"]) for r in runs),
            "judged_lines_by_tlc": sum(r["verdict"]["n_lines"] for r in runs),
            "model_violating_edges": sum(sum(1 for e in r["g"].edges if e[4]) if r["g"] else 0 for r in runs),
            "drift": {"paths": sum(r["drift"][1] for r in runs), "steps_compared": sum(r["drift"][0] for r in runs),
                      "samples": [x for r in runs for x in r["drift"][2]][:5]},
            "known_findings_seen": {k: v["count"] for k, v in known.items()},
            "new_violations": nviol,
            "paths_by_header_list_capacity": {
                k: sum(1 for r in runs for t in r["observed"]
                       if (t.get("list_cap", 0) - r["uni"]["max_batch_len"] if t.get("list_cap", 0) else 0) == d)
                for k, d in (("code default (10000)", 0), ("longest message + 1", 1), ("longest message + 2", 2))},
            "configs": [{"universe": r["uname"], "constants": r["consts"], "tlc_states": r["tlc"].distinct,
                         "tlc_generated": r["tlc"].generated, "tlc_wall_s": round(r["tlc"].wall, 1),
                         "edges": len(r["g"].edges) if r["g"] else 0, "paths": len(r["paths"]),
                         "headers": len(r["uni"]["headers"]), "batches": len(r["uni"]["batches"]),
                         "init_chains": r["uni"]["init_chains"], "checkpoints": r["uni"]["checkpoints"]}
                        for r in runs],
        }
        if prop_id == "C19" and not replay:
            # "events are emitted in the order the chain changed" also under concurrency: the CFSync
            # family's CFRace slice runs rollBackToHeight against writeCFHeadersMsg on two real
            # goroutines at store-call and event-delivery granularity; its coverage is merged here.
            from . import cfsync
            rc2, cov2 = cfsync.run_race("C19", tier, seed)
            rc = max(rc, rc2)
            cov["concurrency_slice_cfrace"] = {k: v for k, v in cov2.items() if k != "samples"}
            for k in ("states", "transitions", "traces_validated_against_impl"):
                cov[k] += int(cov2.get(k, 0) or 0)
            nviol += int(cov2.get("new_violations", 0) or 0)
        core.write_evidence(prop_id, tier, seed, "model_checking", cov, ASSUMPTIONS, time.time() - t0, nviol)
        if prop_id == "C01" and not replay and tier in ("quick", "thorough"):
            # "at every instant ... lookups agree": reads racing with a reorganisation of the store
            from . import hsrace
            rc2, cov2 = hsrace.run_race("C01", tier, seed)
            hsrace.merge_evidence("C01", cov2)
            rc = max(rc, rc2)
        if prop_id == "C02" and not replay and tier in ("quick", "thorough"):
            # "any fork depth inside the in-memory window": the window itself (headerlist.BoundedMemoryChain,
            # ring + skip-list ancestors) is specified in specs/HeaderList and bound to the real structure
            from . import headerlist
            rc2, cov2 = headerlist.run_slice("C02", tier, seed)
            headerlist.merge_evidence("C02", cov2)
            rc = max(rc, rc2)
        return rc
    finally:
        shutil.rmtree(sc, ignore_errors=True)
