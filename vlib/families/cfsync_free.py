"""CFSync, free-running slice: the REAL blockManager.cfHandler goroutine under virtual time.

Not a registered check of its own: `run_slice(prop_id, tier, seed)` is called by the C03 check
(vlib/families/cfsync.py), which merges the coverage it returns into its evidence.

  run      harness/overlay/neutrino/zz_verif_cfsync_free_test.go: the unmodified cfHandler loop in a
           testing/synctest bubble (its 3 s retry sleeps cost nothing), real headerfs stores, the peers of
           the replay driver scripted automatically (seeded), a seeded controller injecting
           reorganisations / header batches / a late peer whenever the handler is blocked; one recorded
           step per gate of specs/CFSync/CFSync.tla, with that specification's labels
  judge    the clauses of specs/CFSync/CFSyncProps.tla on the recorded traces (family.judge), exactly as
           for the replayed paths
  drift    specs/CFSync/CFTrace.tla: is every recorded trace a behaviour of CFSync.tla (labels and
           observables line by line)?  Not a verdict.
"""
import json, os, random, shutil, subprocess, sys, time
from .. import core, family

SPEC = os.path.join(core.VERIF, "specs", "CFSync")
OVL = os.path.join(core.VERIF, "harness", "overlay", "neutrino")
DRIVER = os.path.join(OVL, "zz_verif_cfsync_test.go")
FREE_DRIVER = os.path.join(OVL, "zz_verif_cfsync_free_test.go")
HOOK = os.path.join(core.VERIF, "harness", "overlay", "chainsync", "zz_verif_cfsync_hook.go")
PKG = core.REPO

# The clauses of C03 as the replayed paths are judged with (cfsync.PROPS["C03"]); all of them can be
# evaluated on a free-running trace: the labels they read (GetCheckpts.rs, RStart.hi, RCfh/UCfh rs/lo/hi,
# the result "good" / "ok" of a dispute round, CPDeliver p/lo/hi) are observed at the callbacks.
PROPS = {
    "C03": ["NotAhead", "BelongsToBlock", "AppendOnlySuccessor", "EqualsHardcoded",
            "DisputeCommitsHonest", "HonestNotBanned", "HonestNotBannedInFetch", "LiarsBanned",
            "SelfContradictingLiarBanned", "BlockProvenLiarBanned"],
}

ASSUMPTIONS = [
    "free-running slice: the real cfHandler goroutine runs in a testing/synctest bubble (virtual clock); the "
    "block handler's steps (rollBackToHeight immediately followed by the first headers batch of the new branch, "
    "as in handleHeadersMsg; a plain headers batch) and a late peer are injected only while the handler is "
    "blocked (callback, retry sleep, condition variable, select of the batched fetch)",
    "free-running slice: step boundaries and labels are observed at the scripted callbacks and at the ChainTip "
    "calls of the two stores by looking at the function NAMES on the caller's stack (resolveConflict, "
    "getCheckpointedCFHeaders, getUncheckpointedCFHeaders, cfHandler); a round of resolveConflict counts as "
    "successful iff the handler leaves it without the retry sleep",
    "free-running slice: a peer that connects late is a truthful peer of kind T that is silent before it connects; "
    "a reorganisation never goes below height 1 nor below a hard-coded filter-header checkpoint",
]

# where the handler can be blocked (field fpc of the recorder): a reorganisation is aimed at each of them
GATES = {"quick": ["q_cp", "r_cfh", "r_flt", "r_blk", "cp_wait", "u_cfh", "retry", "tip"],
         "thorough": ["q_cp", "r_cfh", "r_flt", "r_blk", "cp_wait", "u_cfh", "u_flt", "u_blk", "retry", "tipz", "tip", ""]}

TIERS = {
    # runs per core scenario without / with environment events, sampled scenarios, steps per run
    "quick": dict(maxh=5, plain=1, eventful=6, sampled=3, steps=60, reorgs=2, extends=1, workers=4, worlds=1),
    "thorough": dict(maxh=7, plain=2, eventful=14, sampled=30, steps=120, reorgs=3, extends=2, workers=4, worlds=2),
}


def scenarios(tier, seed):
    from . import cfsync
    cfg = TIERS[tier]
    rng = random.Random(seed * 7919 + 17)
    base = cfsync.core_scenarios(cfg["maxh"]) + cfsync.sample_scenarios(rng, cfg["sampled"], cfg["maxh"], 3)
    out = []
    for (asg, bt, ft, hard) in base:
        a = [{"kind": k, "k": h} for (k, h) in asg]
        ts = [i + 1 for i, (k, _) in enumerate(asg) if k == "T"]
        gates = list(GATES[tier])
        rng.shuffle(gates)
        for r in range(cfg["plain"] + cfg["eventful"]):
            ev = r >= cfg["plain"]
            late = rng.choice(ts) if ts and ev and rng.random() < 0.5 else 0
            # the first reorganisation of an eventful run is aimed at one gate (each scenario walks through the
            # gates in a seeded order), further events fall at random moments
            gate = gates[(r - cfg["plain"]) % len(gates)] if ev else ""
            depth = rng.choice([1, 2, 2, 3]) if ev else 0
            out.append({"id": len(out), "asg": a, "bt": bt, "ft": ft, "hard": hard,
                        "seed": rng.randrange(1 << 40),
                        "reorgs": rng.randint(1, cfg["reorgs"]) if ev else 0,
                        "extends": rng.randint(0, cfg["extends"]) if ev else 0,
                        "late": late, "late_at": rng.randint(2, 9) if late else 0,
                        "p_event": rng.choice([0.05, 0.15, 0.3]) if ev else 0.0,
                        "ev_gate": gate, "ev_depth": depth, "ev_n": max(1, depth + rng.choice([0, 0, 0, 1, 1, -1])),
                        "max_steps": cfg["steps"]})
    return out


def label(act):
    from . import cfsync
    return cfsync.label(act)


def build(sc):
    return family.build_overlay_test(
        PKG, [DRIVER, FREE_DRIVER], os.path.join(sc, "neutrino-free.test"),
        extra_overlay={os.path.join(core.REPO, "chainsync", os.path.basename(HOOK)): HOOK})


def trace_check(traces, consts, wd, timeout=600, max_reject=8):
    """Is every recorded trace a behaviour of CFSync.tla (CFTrace.tla)?  Returns [(trace id, step, why)]
    of the rejected ones (TLC stops at the first line no action matches; every rejection costs one
    more run on the rest, after max_reject the remaining traces are left unexamined)."""
    rejected, rest, rnd, n_lines, wall = [], list(traces), 0, 0, 0.0
    while rest:
        rnd += 1
        d = os.path.join(wd, "tr%d" % rnd)
        os.makedirs(d, exist_ok=True)
        for f in os.listdir(SPEC):
            if f.endswith(".tla"):
                shutil.copy(os.path.join(SPEC, f), d)
        owner = []
        with open(os.path.join(d, "trace.ndjson"), "w") as f:
            for t in rest:
                f.write(json.dumps({"i": 0, "act": {"op": "Init"}, "obs": t["init_obs"],
                                    "bt": t["free"]["bt"], "ft": t["free"]["ft"]}, separators=(",", ":")) + "\n")
                owner.append((t, 0))
                for i, st in enumerate(t["steps"]):
                    f.write(json.dumps({"i": i + 1, "act": st["act"], "obs": st["obs"]}, separators=(",", ":")) + "\n")
                    owner.append((t, i + 1))
        cfg = ["INIT TInit", "NEXT TNext", "CONSTANTS"]
        cfg += ["  %s = %s" % (k, core.tla_value(v)) for k, v in consts.items()]
        cfg += ["CONSTANT Scen <- TScen", "CONSTRAINT HighWater", "POSTCONDITION Post", "CHECK_DEADLOCK FALSE"]
        open(os.path.join(d, "CFTrace.cfg"), "w").write("\n".join(cfg) + "\n")
        env = dict(os.environ)
        env.pop("JAVA_TOOL_OPTIONS", None)
        t0 = time.time()
        p = subprocess.run(["timeout", str(timeout), "java", "-XX:+UseParallelGC", "-Xss256m", "-cp", core.TLA_CP,
                            "tlc2.TLC", "-workers", "1", "-metadir", os.path.join(d, "meta"),
                            "-noGenerateSpecTE", "CFTrace.tla"], cwd=d, stdout=subprocess.PIPE,
                           stderr=subprocess.STDOUT, text=True, env=env)
        wall += time.time() - t0
        hf = os.path.join(d, "hw.json")
        if not os.path.exists(hf):
            raise core.MachineryError("CFTrace TLC failed rc=%d\n%s" % (p.returncode, p.stdout[-3000:]))
        hw = json.load(open(hf))
        shutil.rmtree(d, ignore_errors=True)
        if hw["n"] != len(owner):
            raise core.MachineryError("CFTrace read %d of %d lines" % (hw["n"], len(owner)))
        n_lines += min(hw["hw"], len(owner))
        if hw["hw"] >= len(owner) + 1:
            break
        t, i = owner[hw["hw"] - 1]           # the line that no action of the specification matches
        rejected.append((t["id"], i))
        if len(rejected) >= max_reject:
            break
        rest = rest[rest.index(t) + 1:]
    return rejected, n_lines, wall


def run_slice(prop_id, tier, seed, replay=None):
    """Runs the slice for prop_id ("C03").  Prints KNOWN-FINDING / VIOLATION lines.  Returns
    (rc, coverage): rc 0 held, 1 violation; machinery problems raise core.MachineryError.
    replay: a saved trace of this slice (it carries its scenario under "free")."""
    from . import cfsync
    t0 = time.time()
    sc = core.scratch("cff")
    try:
        cfg = TIERS[tier]
        if replay:
            tr = json.load(open(replay))["trace"]
            scen = [dict(tr["free"], id=0)]
            maxh = tr.get("maxh") or max([cfg["maxh"], scen[0]["bt"]] + [len(s["obs"]["B"]) - 1 for s in tr["steps"]])
            seed = tr.get("world_seed", seed)
            batches = [(seed, scen)]
        else:
            # one chain universe (split of the intervals, lie positions) per world seed
            maxh = cfg["maxh"]
            batches = [(ws, scenarios(tier, ws)) for ws in [seed + 1000003 * k for k in range(cfg["worlds"])]]
        binary = build(sc)
        t1 = time.time()
        observed = []
        for bi, (ws, scen) in enumerate(batches):
            pf = os.path.join(sc, "scen%d.ndjson" % bi)
            with open(pf, "w") as f:
                for s in scen:
                    s["id"] += len(observed)
                    f.write(json.dumps(s, separators=(",", ":")) + "\n")
            obs, _ = family.run_driver(binary, "TestVerifCFSyncFree", pf, os.path.join(sc, "obs%d.ndjson" % bi), sc,
                                       env_extra={"VERIF_SEED": str(ws), "VERIF_CFS_MAXH": str(maxh),
                                                  "VERIF_FR_WORKERS": str(cfg["workers"]),
                                                  "GOMAXPROCS": str(cfg["workers"])},
                                       timeout=600 if tier == "quick" else 3000)
            for t in obs:
                t["steps"] = t["steps"] or []
                t["world_seed"], t["maxh"] = ws, maxh
            observed += obs
        t_drv = time.time() - t1
        errs = [t for t in observed if t.get("error")]
        if errs:
            raise core.MachineryError("free-running CFSync driver: %d executions ended in a driver error, e.g. %s"
                                      % (len(errs), errs[0]["error"][:1500]))
        spins = [t for t in observed if t["info"].get("end") == "spin"]
        if spins:
            print("free-running cfHandler: %d executions in which the handler never came to rest (cut after %s "
                  "observation points; not judged as a violation of %s)" % (len(spins), "40000", prop_id), file=sys.stderr)
        verdict = family.judge([SPEC], "CFSyncProps", PROPS[prop_id], prop_id, observed, label=label)
        # code -> specification: every trace must be a behaviour of CFSync.tla
        consts = dict(NP=3, CPI=2, MaxH=maxh, MaxSteps=100000, MaxReorgs=1000, MaxRb=maxh, MaxExt=1000,
                      MaxExtN=maxh, RbDepths="{%s}" % ", ".join(str(x) for x in range(1, maxh + 1)), EnvFree=True, EnvLean=False)
        consts.update(cfsync.CODE_VERSION)
        ok_tr = [t for t in observed if t["info"].get("end") != "spin"]
        rej, tv_lines, tv_wall = trace_check(ok_tr, consts, sc)
        by_id = {t["id"]: t for t in observed}
        dsamples = []
        for (tid, i) in rej[:5]:
            t = by_id[tid]
            dsamples.append({"trace": tid, "step": i, "what": "not a behaviour of CFSync.tla",
                             "labels": [label(x["act"]) for x in t["steps"][:i]][-14:],
                             "code_act": t["steps"][i - 1]["act"] if i else None,
                             "code_obs": t["steps"][i - 1]["obs"] if i else t["init_obs"],
                             "scenario": t["free"]})
        if rej:
            print("drift: %d of %d free-running cfHandler traces are not behaviours of CFSync.tla (not a verdict)"
                  % (len(rej), len(observed)), file=sys.stderr)
        rc = 0
        for kid, k in sorted(verdict["known"].items()):
            print("KNOWN-FINDING: property=%s %s [%s; seen on %d free-running traces, e.g. %s]" % (
                prop_id, k["entry"]["what_fails"], kid, k["count"], " ".join(k["example"])))
        for v in verdict["violations"][:10]:
            fn = core.save_replay(prop_id, {"property": prop_id, "props": v["props"], "step": v["step"],
                                            "labels": v["labels"], "trace": v["observed"]})
            print("VIOLATION property=%s replay=%s" % (prop_id, fn))
            print("  violated: %s at step %d of: %s (free-running cfHandler)" % (
                ",".join(v["props"]), v["step"], " ".join(v["labels"])))
            rc = 1
        ops = {}
        for t in observed:
            for s in t["steps"]:
                k = s["act"]["op"] + "=" + s["act"]["res"]
                ops[k] = ops.get(k, 0) + 1
        ends = {}
        for t in observed:
            ends[t["info"].get("end")] = ends.get(t["info"].get("end"), 0) + 1
        ev_at = {}
        for t in observed:
            for x in t["info"].get("events_at") or []:
                ev_at[x] = ev_at.get(x, 0) + 1
        ev_at = dict(sorted(ev_at.items()))
        panics = sum(1 for t in observed for s in t["steps"] if s["act"].get("res") == "panic")
        hb = sum(1 for t in observed for i, s in enumerate(t["steps"])
                 if any(a["kind"] == "H" and s["obs"]["ban"][q] == 1 and
                        (t["steps"][i - 1]["obs"] if i else t["init_obs"])["ban"][q] == 0
                        for q, a in enumerate(s["obs"]["asg"])))
        n_steps = sum(len(t["steps"]) for t in observed)
        samples = [{"path": [label(s["act"]) for s in t["steps"]],
                    "last_obs": t["steps"][-1]["obs"] if t["steps"] else t["init_obs"]} for t in observed[1:3]]
        cov = {
            "traces_validated_against_impl": len(observed), "executions": len(observed),
            "recorded_steps": n_steps, "steps_by_label": dict(sorted(ops.items())),
            "executions_by_end": ends,
            "virtual_seconds_slept": sum(t["info"].get("virtual_s", 0) for t in observed),
            "retry_sleeps": sum(t["info"].get("retry_sleeps", 0) for t in observed),
            "reorganisations": sum(t["info"].get("reorgs", 0) for t in observed),
            "header_batches": sum(t["info"].get("batches", 0) for t in observed),
            "late_peers": sum(1 for t in observed if t["free"].get("late")),
            "chain_universes": len(batches),
            "environment_events_by_gate": ev_at,
            "steps_where_the_code_panicked": panics, "steps_banning_an_honest_peer": hb,
            "notes": sorted(set(n for t in observed for n in t["info"].get("notes", [])))[:10],
            "judged_lines_by_tlc": verdict["n_lines"],
            "drift": {"paths": len(rej), "steps_compared": tv_lines, "samples": dsamples},
            "known_findings_seen": {k: v["count"] for k, v in verdict["known"].items()},
            "new_violations": len(verdict["violations"]),
            "driver_wall_s": round(t_drv, 1), "judge_wall_s": round(verdict["wall"], 1),
            "trace_validation_wall_s": round(tv_wall, 1), "wall_s": round(time.time() - t0, 1),
            "samples": samples,
        }
        return rc, cov
    finally:
        shutil.rmtree(sc, ignore_errors=True)


def run_replay(prop_id, tier, seed, replay):
    """`vcheck C03 --replay <file>` for a saved trace of this slice: the scenario of the trace is run again
    (same seeds) against the working tree and judged; evidence is written for this run alone."""
    t0 = time.time()
    rc, cov = run_slice(prop_id, tier, seed, replay=replay)
    cov["states"] = cov["transitions"] = 1
    cov["exhaustive"] = False
    core.write_evidence(prop_id, tier, seed, "model_checking", cov, ASSUMPTIONS, time.time() - t0,
                        cov["new_violations"])
    return rc


def is_free_replay(replay_file):
    try:
        return "free" in json.load(open(replay_file))["trace"]
    except Exception:
        return False


def merge_evidence(prop_id, cov, rc=0):
    """Adds this slice's measured coverage to the evidence file the calling check has just written."""
    fn = os.path.join(os.environ.get("VERIF_EVIDENCE_DIR", os.path.join(core.VERIF, "evidence")), prop_id + ".json")
    ev = json.load(open(fn))
    c = ev["coverage"]
    c["free_running_cfhandler_slice"] = {k: v for k, v in cov.items() if k not in ("samples",)}
    c["traces_validated_against_impl"] += cov["traces_validated_against_impl"]
    c["replayed_steps"] = c.get("replayed_steps", 0) + cov["recorded_steps"]
    c["judged_lines_by_tlc"] = c.get("judged_lines_by_tlc", 0) + cov["judged_lines_by_tlc"]
    d = c.setdefault("drift", {"paths": 0, "steps_compared": 0, "samples": []})
    d["paths"] += cov["drift"]["paths"]
    d["steps_compared"] += cov["drift"]["steps_compared"]
    d["samples"] = (list(d.get("samples", [])) + cov["drift"]["samples"])[:5]
    c["new_violations"] = c.get("new_violations", 0) + cov["new_violations"]
    for k, v in cov["known_findings_seen"].items():
        c.setdefault("known_findings_seen", {})
        c["known_findings_seen"][k] = c["known_findings_seen"].get(k, 0) + v
    c["samples"] = list(c.get("samples", [])) + cov["samples"][:1]
    ev["assumptions"] = list(ev.get("assumptions", [])) + [a for a in ASSUMPTIONS if a not in ev.get("assumptions", [])]
    ev["violations"] = ev.get("violations", 0) + cov["new_violations"]
    ev["wall_s"] = round(ev.get("wall_s", 0) + cov["wall_s"], 2)
    json.dump(ev, open(fn + ".tmp", "w"), indent=1)
    os.replace(fn + ".tmp", fn)
    return rc


if __name__ == "__main__":
    # python3 -m vlib.families.cfsync_free C03 quick 1 [replay.json]
    pid = sys.argv[1] if len(sys.argv) > 1 else "C03"
    tier = sys.argv[2] if len(sys.argv) > 2 else "quick"
    seed = int(sys.argv[3]) if len(sys.argv) > 3 else 1
    try:
        rc, cov = run_slice(pid, tier, seed, replay=sys.argv[4] if len(sys.argv) > 4 else None)
    except core.MachineryError as e:
        print("MACHINERY ERROR:", e, file=sys.stderr)
        sys.exit(2)
    cov.pop("samples", None)
    json.dump(cov, sys.stdout, indent=1)
    print()
    sys.exit(rc)
