"""BlockNtfns family: C11 (each subscriber sees every block event once, in
order, from its start; slow / cancelling subscribers do not affect others;
closed after Cancel / Stop)."""
import gc, json, os, random, re, shutil, subprocess, sys, time
from .. import core, family

SPEC = os.path.join(core.VERIF, "specs", "BlockNtfns")
DRIVER = os.path.join(core.VERIF, "harness", "overlay", "blockntfns", "zz_verif_blockntfns_test.go")
PKG = os.path.join(core.REPO, "blockntfns")

READY = True
PROPERTIES = ["C11"]

MANIFEST = {
    "C11": dict(
        engine="BlockNtfns",
        text="specs/BlockNtfns models the handler goroutine of blockntfns.SubscriptionManager (one action per select "
             "arm: registration with backlog, cancel, event fan-out, quit), per subscriber the unbounded "
             "ConcurrentQueue, the forwarding goroutine and the bounded notification channel, consumers, Cancel and "
             "the stages of Stop, with Go's random choice among ready select arms after m.quit is closed made "
             "explicit. TLC explores every interleaving of the fine-grained model (forwarder and Stop stages "
             "interleaved with everything) and checks the C11 operators of BlockNtfnsProps.tla on every transition. "
             "EVERY transition of the settled (client-visible) graph, built with the real 20-slot capacity and bursts "
             "of 10 events, is replayed against the real SubscriptionManager with a scripted NotificationSource "
             "(the handler is stepped by what the driver feeds it), each path ending in a drain to quiescence with "
             "every choice of one never-reading subscriber; in addition free-running executions (emitter, "
             "subscribers with fast / slow / stalled / never-reading consumers, concurrent cancels, Stop under "
             "load, more events than the 41 buffered slots) are recorded at linearisation points. TLC evaluates "
             "the Props operators on every observed trace: prefix of backlog ++ later events, complete at "
             "quiescence for every subscriber that reads, nothing after Cancel/Stop, closed after Cancel/Stop, no "
             "call ever blocks. The scripted source also re-organises (Disconnected events down to and below the "
             "tip a subscriber registered at, then replacement blocks), in the replay graphs (EmitD) and in half "
             "of the free runs. Two NewSubscription calls in flight together are replayed deterministically "
             "(Subscribe2) and occur in half of the free runs. All driver work runs in child processes; a panic "
             "in the manager's code becomes the step Crash=panic of the item in progress and is judged by Props.",
        note="Bounded: 2-3 subscribers (each subscribes once), <=3-5 bursts in the replay graph, <=3 events in the "
             "interleaving model; free runs 2-4 subscribers and up to 150 events. The source is scripted (backlog = "
             "heights h+1..tip, none for h=0, error above the tip, as blockManager's); a source that closes its "
             "channel or blocks in NotificationsSinceHeight is not modelled. A Cancel() that returns while Stop() "
             "is running is judged when Stop() returns. Trailing surplus deliveries are looked for only briefly "
             "after quiescence."
             " The per-subscriber queue (lnd/queue.ConcurrentQueue) is itself specified (specs/ConcQueue: one action per arm of its goroutine's select, overflow list, producer/consumer schedules with the consumer stalled for whole segments) and bound to the real queue by TLC-judged settled-step traces; long-stall free runs push thousands of events past a subscriber that does not read.",
        design="4 C11", technique="TLA+ spec + TLC exhaustive (interleaving model) + spec-to-code replay of every "
                                  "transition of the settled graph + TLC-judged free-running traces"),
}

PROPS = {
    "C11": ["InOrderNoGapNoDup", "NothingAfterCancelOrStop", "NeverBlocks", "NothingAfterClose",
            "CompleteAtQuiescence", "ClosedAfterCancelOrStop", "ClosedOnlyAfterCancelOrStop"],
}

CODE_VERSION = json.load(open(os.path.join(SPEC, "code_version.json")))

# replay graphs (Eager): real capacity 20, bursts of Scale events
REPLAY = {
    "quick": [dict(NSubs=2, MaxEvents=2, Cap=20, Scale=10, Eager=True, Reorg=True),
              # one subscriber, 42 events: channel (20) + forwarder (1) + queue buffer (20) + overflow list
              dict(NSubs=1, MaxEvents=2, Cap=20, Scale=21, Eager=True, Reorg=False),
              # one subscriber, three bursts with re-organisations: blocks are disconnected down to (and
              # below) the tip the subscriber registered at and replaced (Emit, Subscribe, EmitD, Emit)
              dict(NSubs=1, MaxEvents=3, Cap=20, Scale=10, Eager=True, Reorg=True)],
    "thorough": [dict(NSubs=2, MaxEvents=3, Cap=20, Scale=10, Eager=True, Reorg=True),
                 dict(NSubs=2, MaxEvents=2, Cap=20, Scale=21, Eager=True, Reorg=False),
                 dict(NSubs=3, MaxEvents=1, Cap=20, Scale=21, Eager=True, Reorg=False)],
}
# interleaving model (fine-grained): capacity 2, single events
FINE = {
    "quick": dict(NSubs=2, MaxEvents=2, Cap=2, Scale=1, Eager=False, Reorg=False),
    "thorough": dict(NSubs=2, MaxEvents=3, Cap=2, Scale=1, Eager=False, Reorg=False),
}
FREE = {
    "quick": dict(runs=150, min_events=10, max_events=70),
    "thorough": dict(runs=1500, min_events=10, max_events=150),
}
# long stalls: a few free runs with thousands of events, so that a subscriber that stops reading (or never reads)
# falls thousands of events behind ("however slowly the subscriber reads"; a bounded queue in place of the
# unbounded one shows as a blocked emission / a starved second subscriber)
LONG = {
    "quick": dict(runs=8, min_events=1500, max_events=3000),
    "thorough": dict(runs=12, min_events=2500, max_events=6000),
}
# Stop() under load (saturating source that runs ahead, fast consumers): a large batch, screened by the
# driver (see TestVerifBlockNtfnsFree), because the window of the shutdown gap is ~1e-5 per run
STRESS = {
    "quick": dict(runs=3000, screen=50, min_events=20, max_events=60),
    "thorough": dict(runs=450000, screen=1500, min_events=20, max_events=60),
}
WALKS = {"quick": 0, "thorough": 3000}

ASSUMPTIONS = [
    "the NotificationSource is the driver's: events are numbered in emission order, the backlog for height h at tip k "
    "is h+1..k (none for h=0, an error for h>k), NotificationsSinceHeight returns at once and the channel is never closed",
    "an event counts as emitted when the handler goroutine has taken it from the source channel (one buffer slot; "
    "len==0 observed under the log mutex)",
    "free-running traces are linearised by one mutex: a step is logged after the call returned; a consumer's reads "
    "are recorded under the same mutex; a Cancel() returning while Stop() runs takes effect when Stop() returns",
    "a call or hand-over that does not complete within 10 s (normal: microseconds) is reported as blocked",
    "subscribers are interchangeable and subscribe at most once per run",
]


def label(act):
    op = act.get("op", "?")
    if op == "Subscribe":
        s = "Subscribe(s%d,h%d,k%d)" % (act.get("s", 0), act.get("h", 0), act.get("k", 0))
    elif op == "Subscribe2":
        s = "Subscribe2(s%d,h%d,s%d,h%d,k%d)" % (act.get("s", 0), act.get("h", 0), act.get("s2", 0),
                                                 act.get("h2", 0), act.get("k", 0))
    elif op in ("Emit", "EmitD"):
        s = "%s(%d)" % (op, act.get("k", 0))
    elif op == "Read":
        s = "Read(s%d)" % act.get("s", 0)
    elif op == "Cancel":
        s = "Cancel(s%d)" % act.get("s", 0)
    elif op == "Quiesce":
        s = "Quiesce(m%d)" % act.get("s", 0)
    else:
        s = op
    return s + "=" + str(act.get("res"))


def run(prop_id, tier, seed, replay=None):
    """Memory is kept flat: graphs are dropped once their paths are written, and
    the drivers' output is streamed through drift + TLC judging in chunks."""
    t0 = time.time()
    rng = random.Random(seed)
    sc = core.scratch("bn")
    try:
        extra = {}
        acc = _Acc(prop_id)
        graphs = []          # light summaries
        if replay:
            pf = os.path.join(sc, "paths.ndjson")
            family.paths_from_replay(replay, pf)
            tlc = family._NoTLC()
            pfs = [pf]
        else:
            # 1. design level: every interleaving of the fine-grained model
            fconsts = dict(FINE[tier]); fconsts.update(CODE_VERSION)
            inv = ["TypeOK", "HandlerNeverStuck", "StopProgress"]
            if CODE_VERSION.get("FixQuitGap"):
                inv.append("NoViolation")
            fine = core.run_tlc([SPEC], "BlockNtfns", fconsts, export=False, workers=8, invariants=inv,
                                workdir=os.path.join(sc, "tlc-fine"), timeout=3000, heap="6g")
            if not fine.ok:
                raise core.MachineryError("TLC on BlockNtfns (interleaving model) failed: %s\n%s" % (
                    fine.error, fine.stdout_tail[-3000:]))
            shutil.rmtree(os.path.join(sc, "tlc-fine"), ignore_errors=True)
            extra["interleaving_model"] = {"config": fconsts, "states": fine.distinct,
                                           "states_generated": fine.generated, "depth": fine.depth,
                                           "wall_s": round(fine.wall, 1), "invariants": inv}
            # 2. replay graphs
            runs, pfs = [fine], []
            for ci, rc_ in enumerate(REPLAY[tier]):
                consts = dict(rc_); consts.update(CODE_VERSION)
                t = core.run_tlc([SPEC], "BlockNtfns", consts, workers=1, invariants=["TypeOK", "NoViolation"],
                                 workdir=os.path.join(sc, "tlc%d" % ci), timeout=3000, heap="6g")
                if not t.ok:
                    raise core.MachineryError("TLC on BlockNtfns (replay graph %s) failed: %s\n%s" % (
                        consts, t.error, t.stdout_tail[-3000:]))
                gi = core.Graph.load(t)
                shutil.rmtree(os.path.join(sc, "tlc%d" % ci), ignore_errors=True)
                pi, ui = core.edge_cover(gi, rng)
                if WALKS[tier] and ci == 0:
                    pi += core.random_walks(gi, WALKS[tier], 14, rng)
                pfi = os.path.join(sc, "paths%d.ndjson" % ci)
                core.write_paths(gi, pi, pfi)
                graphs.append(dict(config=consts, states=t.distinct, edges=len(gi.edges),
                                   violating_edges=sum(1 for e in gi.edges if e[4]), paths=len(pi),
                                   tlc_wall_s=round(t.wall, 1), edges_only_reachable_through_model_violation=ui))
                runs.append(t)
                pfs.append(pfi)
                del gi, pi
                gc.collect()
            tlc = _Agg(runs)
            extra["replay_graphs"] = graphs
        tp = time.time()
        binary = family.build_overlay_test(PKG, [DRIVER], os.path.join(sc, "blockntfns.test"))
        for ci, pfi in enumerate(pfs):
            ofn = os.path.join(sc, "obs%d.ndjson" % ci)
            run_driver(binary, "TestVerifBlockNtfnsReplay", pfi, ofn, sc, {})
            acc.consume(ofn, "g%d-" % ci, pfi)
            os.remove(ofn)
        n_replayed = acc.n_traces
        if not replay:
            fc = FREE[tier]
            ofn = os.path.join(sc, "free.ndjson")
            run_driver(binary, "TestVerifBlockNtfnsFree", pfs[0], ofn, sc,
                       {"VERIF_SEED": str(seed), "VERIF_FREE_RUNS": str(fc["runs"]),
                        "VERIF_FREE_MIN_EVENTS": str(fc["min_events"]), "VERIF_FREE_MAX_EVENTS": str(fc["max_events"])})
            fs = _FreeStats()
            acc.consume(ofn, "free-", None, fs)
            os.remove(ofn)
            extra["free_running"] = fs.summary()
            lc = LONG[tier]
            ofn = os.path.join(sc, "long.ndjson")
            run_driver(binary, "TestVerifBlockNtfnsFree", pfs[0], ofn, sc,
                       {"VERIF_SEED": str(seed + 7919), "VERIF_FREE_RUNS": str(lc["runs"]),
                        "VERIF_FREE_MIN_EVENTS": str(lc["min_events"]), "VERIF_FREE_MAX_EVENTS": str(lc["max_events"])})
            ls = _FreeStats()
            acc.consume(ofn, "long-", None, ls)
            os.remove(ofn)
            extra["free_running_long_stalls"] = ls.summary()
            stc = STRESS[tier]
            ts = time.time()
            ofn = os.path.join(sc, "stress.ndjson")
            run_driver(binary, "TestVerifBlockNtfnsFree", pfs[0], ofn, sc,
                       {"VERIF_SEED": str(seed), "VERIF_FREE_RUNS": str(stc["runs"]),
                        "VERIF_FREE_MIN_EVENTS": str(stc["min_events"]), "VERIF_FREE_MAX_EVENTS": str(stc["max_events"]),
                        "VERIF_FREE_PROFILE": "stop", "VERIF_FREE_SCREEN": str(stc["screen"])})
            n0 = acc.n_traces
            acc.consume(ofn, "stop-", None)
            os.remove(ofn)
            extra["stop_under_load"] = {
                "runs_executed": stc["runs"], "runs_judged_by_tlc": acc.n_traces - n0,
                "screen": "every %d-th run, plus every run with a non-consecutive receive sequence, a blocked "
                          "call, no quiescence or a driver error" % stc["screen"],
                "wall_s": round(time.time() - ts, 1)}
        extra["phase_wall_s"] = {"model": round(tp - t0, 1), "drivers_and_judging": round(time.time() - tp, 1),
                                 "judge": round(acc.judge_wall, 1)}
        if acc.not_executed:
            extra["paths_not_executed_after_many_deviations"] = acc.not_executed
        if acc.crashes:
            extra["panics_of_the_code_under_test"] = acc.crashes
        if acc.stopped_early:
            extra["judging_stopped_early"] = True
        if os.environ.get("VERIF_VERBOSE"):
            print("phases", extra["phase_wall_s"], file=sys.stderr)
        verdict = {"violations": acc.violations, "known": acc.known_seen, "n_lines": acc.n_lines,
                   "wall": acc.judge_wall, "raw": acc.raw}
        g = _LightGraph(sum(x["edges"] for x in graphs), sum(x["violating_edges"] for x in graphs)) if graphs else None
        rc = family.finish(prop_id, tier, seed, t0, tlc, g, range(sum(x["paths"] for x in graphs) if graphs else 1),
                           acc.light, verdict, (acc.d_steps, acc.d_paths, acc.d_samples), extra,
                           ASSUMPTIONS, label=label)
        if not replay:
            # the unbounded per-subscriber queue itself (lnd/queue.ConcurrentQueue, modelled above as a FIFO):
            # specs/ConcQueue bound to the real queue (notes/smallstructs.md)
            from . import concqueue
            rc2, cov2 = concqueue.run_slice("C11", tier, seed)
            concqueue.merge_evidence("C11", cov2)
            rc = max(rc, rc2)
        return rc
    finally:
        shutil.rmtree(sc, ignore_errors=True)


def run_driver(binary, test, pf, out, sc, env_extra):
    """family.run_driver without loading the output into memory."""
    env = core.go_env()
    env.update({"VERIF_PATHS": pf, "VERIF_OUT": out, "VERIF_SCRATCH": sc})
    env.update(env_extra)
    p = subprocess.run([binary, "-test.run", "^" + test + "$", "-test.count=1", "-test.timeout", "7200s"],
                       cwd=sc, env=env, stdout=subprocess.PIPE, stderr=subprocess.STDOUT, text=True)
    if p.returncode != 0 or not os.path.exists(out):
        raise core.MachineryError("driver failed rc=%d:\n%s" % (p.returncode, p.stdout[-6000:]))


class _Agg:
    def __init__(self, runs):
        self.generated = sum(r.generated for r in runs)
        self.distinct = sum(r.distinct for r in runs)
        self.depth = max(r.depth for r in runs)
        self.wall = sum(r.wall for r in runs)


class _LightGraph:
    """What family.finish reads of a graph: len(edges) and edge[4] (violating)."""
    def __init__(self, n, nviol):
        self.edges = _Edges(n, nviol)


class _Edges:
    def __init__(self, n, nviol):
        self.n, self.nviol = n, nviol

    def __len__(self):
        return self.n

    def __iter__(self):
        for i in range(self.n):
            yield (0, None, 0, None, i < self.nviol)


class _Acc:
    """Streams driver output: drift against the model's prediction, TLC judging
    in chunks, light bookkeeping for the evidence file."""
    def __init__(self, prop_id, max_lines=60000):
        self.prop_id, self.max_lines = prop_id, max_lines
        self.known = core.load_known()
        self.violations, self.known_seen = [], {}
        self.n_lines = self.raw = self.n_traces = 0
        self.judge_wall = 0.0
        self.d_steps = self.d_paths = 0
        self.d_samples = []
        self.light = []
        self.not_executed = self.crashes = 0
        self.stopped_early = False

    def consume(self, fn, prefix, paths_file, stats=None):
        offs = {}
        pfh = None
        if paths_file:
            pfh = open(paths_file, "rb")
            pos = 0
            for line in pfh:
                m = re.match(rb'\{"id": ?(\d+)', line)
                offs[int(m.group(1))] = pos
                pos += len(line)
        chunk, n = [], 0
        for line in open(fn):
            t = json.loads(line)
            if (t.get("info") or "").startswith("not executed"):
                self.not_executed += 1
                continue
            if pfh is not None and not t.get("error") and t["id"] in offs:
                pfh.seek(offs[t["id"]])
                self.drift_one(json.loads(pfh.readline()), t, prefix)
            t["id"] = prefix + str(t["id"])
            if t["steps"] and t["steps"][-1]["act"]["op"] == "Crash":
                self.crashes += 1
            if stats:
                stats.add(t)
            self.n_traces += 1
            lt = {"steps": range(len(t["steps"]))}
            if t.get("error"):
                lt["error"] = t["error"]
            if len(self.light) < 3:
                lt = {"steps": [{"act": s["act"], "obs": s["obs"]} for s in t["steps"]], "init_obs": t.get("init_obs")}
                if t.get("error"):
                    lt["error"] = t["error"]
            self.light.append(lt)
            if t.get("error"):
                continue
            chunk.append(t)
            n += len(t["steps"]) + 1
            if n >= self.max_lines:
                self.judge(chunk)
                chunk, n = [], 0
        if chunk:
            self.judge(chunk)
        if pfh:
            pfh.close()

    def judge(self, part):
        if len(self.violations) >= 10:
            # the verdict is in; further chunks would only add examples
            self.stopped_early = True
            return
        v = family.judge([SPEC], "BlockNtfnsProps", PROPS[self.prop_id], self.prop_id, part, label=label,
                         known=self.known)
        self.violations += v["violations"]
        for k, e in v["known"].items():
            if k in self.known_seen:
                self.known_seen[k]["count"] += e["count"]
            else:
                self.known_seen[k] = e
        self.n_lines += v["n_lines"]
        self.judge_wall += v["wall"]
        self.raw += v["raw"]

    def drift_one(self, e, t, prefix):
        """Same comparison as family.drift, for one path."""
        if e.get("init_obs") is not None and t.get("init_obs") != e["init_obs"]:
            self.d_paths += 1
            if len(self.d_samples) < 5:
                self.d_samples.append({"trace": prefix + str(t["id"]), "step": 0, "what": "initial observables differ",
                                       "model": e["init_obs"], "code": t.get("init_obs")})
            return
        for i, s in enumerate(t["steps"]):
            if i >= len(e["steps"]):
                # a step the model path does not have (Crash)
                self.d_paths += 1
                if len(self.d_samples) < 5:
                    self.d_samples.append({"trace": prefix + str(t["id"]), "step": i + 1,
                                           "what": "extra step " + label(s["act"])})
                return
            m = e["steps"][i]
            self.d_steps += 1
            if s["act"] != m["act"] or s["obs"] != m["obs"]:
                self.d_paths += 1
                if len(self.d_samples) < 5:
                    self.d_samples.append({"trace": prefix + str(t["id"]), "step": i + 1,
                                           "labels": [label(x["act"]) for x in t["steps"][:i + 1]],
                                           "model_act": m["act"], "code_act": s["act"],
                                           "model_obs": m["obs"], "code_obs": s["obs"]})
                return


class _FreeStats:
    def __init__(self):
        self.runs = self.steps = self.max_events = self.stop = self.cancel = self.over = self.quiesced = 0
        self.overlap = self.reorg_below_reg = 0

    def add(self, t):
        self.runs += 1
        self.steps += len(t["steps"])
        if t["steps"]:
            self.max_events = max(self.max_events, t["steps"][-1]["obs"]["emitted"])
            self.quiesced += t["steps"][-1]["act"]["op"] == "Quiesce"
        self.stop += any(s["act"]["op"] == "Stop" for s in t["steps"])
        self.cancel += any(s["act"]["op"] == "Cancel" for s in t["steps"])
        self.over += overflowed(t)
        ops = [s["act"]["op"] for s in t["steps"]]
        self.overlap += any(ops[i] == "Subscribe" and ops[i + 1] == "Subscribe" for i in range(len(ops) - 1))
        self.reorg_below_reg += "Subscribe" in ops and "EmitD" in ops[ops.index("Subscribe"):]

    def summary(self):
        return {"runs": self.runs, "steps": self.steps, "max_events": self.max_events, "runs_with_stop": self.stop,
                "runs_with_cancel": self.cancel, "runs_overflowing_41_slots": self.over,
                "runs_with_back_to_back_registrations": self.overlap,
                "runs_with_reorg_after_a_registration": self.reorg_below_reg, "quiesced": self.quiesced}


def overflowed(t):
    """Did some subscriber of this run have more than 41 undelivered events
    (20 channel slots + forwarder + 20 queue slots) at some step?"""
    reg = {}
    for s in t["steps"]:
        a, o = s["act"], s["obs"]
        if a["op"] == "Subscribe" and a["res"] == "ok":
            reg[a["s"]] = (len(a["bl"]), a["k"])
        if a["op"] == "Subscribe2" and a["res"] == "ok":
            reg[a["s"]] = (len(a["bl"]), a["k"])
            reg[a["s2"]] = (len(a["bl2"]), a["k"])
        for sid, (nbl, k) in reg.items():
            owed = nbl + max(0, o["emitted"] - k)
            if o["sub"][sid - 1] == 1 and owed - len(o["recv"][sid - 1]) > 41:
                return True
    return False
