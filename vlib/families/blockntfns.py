"""BlockNtfns family: C11 (each subscriber sees every block event once, in
order, from its start; slow / cancelling subscribers do not affect others;
closed after Cancel / Stop)."""
import json, os, random, shutil, sys, time
from .. import core, family

SPEC = os.path.join(core.VERIF, "specs", "BlockNtfns")
DRIVER = os.path.join(core.VERIF, "harness", "overlay", "blockntfns", "zz_verif_blockntfns_test.go")
PKG = os.path.join(core.REPO, "blockntfns")

READY = True
PROPERTIES = ["C11"]

MANIFEST = {
    "C11": dict(
        engine="BlockNtfns",
        text="specs/BlockNtfns models the handler goroutine of blockntfns.SubscriptionManager (one action per select "
             "arm: registration with backlog, cancel, event fan-out, quit), per subscriber the unbounded "
             "ConcurrentQueue, the forwarding goroutine and the bounded notification channel, consumers, Cancel and "
             "the stages of Stop, with Go's random choice among ready select arms after m.quit is closed made "
             "explicit. TLC explores every interleaving of the fine-grained model (forwarder and Stop stages "
             "interleaved with everything) and checks the C11 operators of BlockNtfnsProps.tla on every transition. "
             "EVERY transition of the settled (client-visible) graph, built with the real 20-slot capacity and bursts "
             "of 10 events, is replayed against the real SubscriptionManager with a scripted NotificationSource "
             "(the handler is stepped by what the driver feeds it), each path ending in a drain to quiescence with "
             "every choice of one never-reading subscriber; in addition free-running executions (emitter, "
             "subscribers with fast / slow / stalled / never-reading consumers, concurrent cancels, Stop under "
             "load, more events than the 41 buffered slots) are recorded at linearisation points. TLC evaluates "
             "the Props operators on every observed trace: prefix of backlog ++ later events, complete at "
             "quiescence for every subscriber that reads, nothing after Cancel/Stop, closed after Cancel/Stop, no "
             "call ever blocks.",
        note="Bounded: 2-3 subscribers (each subscribes once), <=3-5 bursts in the replay graph, <=3 events in the "
             "interleaving model; free runs 2-4 subscribers and up to 150 events. The source is scripted (backlog = "
             "heights h+1..tip, none for h=0, error above the tip, as blockManager's); a source that closes its "
             "channel or blocks in NotificationsSinceHeight is not modelled. A Cancel() that returns while Stop() "
             "is running is judged when Stop() returns. Trailing surplus deliveries are looked for only briefly "
             "after quiescence.",
        design="4 C11", technique="TLA+ spec + TLC exhaustive (interleaving model) + spec-to-code replay of every "
                                  "transition of the settled graph + TLC-judged free-running traces"),
}

PROPS = {
    "C11": ["InOrderNoGapNoDup", "NothingAfterCancelOrStop", "NeverBlocks", "NothingAfterClose",
            "CompleteAtQuiescence", "ClosedAfterCancelOrStop", "ClosedOnlyAfterCancelOrStop"],
}

CODE_VERSION = json.load(open(os.path.join(SPEC, "code_version.json")))

# replay graphs (Eager): real capacity 20, bursts of Scale events
REPLAY = {
    "quick": [dict(NSubs=2, MaxEvents=2, Cap=20, Scale=10, Eager=True),
              # one subscriber, 42 events: channel (20) + forwarder (1) + queue buffer (20) + overflow list
              dict(NSubs=1, MaxEvents=2, Cap=20, Scale=21, Eager=True)],
    "thorough": [dict(NSubs=2, MaxEvents=3, Cap=20, Scale=10, Eager=True),
                 dict(NSubs=2, MaxEvents=2, Cap=20, Scale=21, Eager=True),
                 dict(NSubs=3, MaxEvents=1, Cap=20, Scale=21, Eager=True)],
}
# interleaving model (fine-grained): capacity 2, single events
FINE = {
    "quick": dict(NSubs=2, MaxEvents=2, Cap=2, Scale=1, Eager=False),
    "thorough": dict(NSubs=2, MaxEvents=3, Cap=2, Scale=1, Eager=False),
}
FREE = {
    "quick": dict(runs=150, min_events=10, max_events=70),
    "thorough": dict(runs=1500, min_events=10, max_events=150),
}
# Stop() under load (saturating source that runs ahead, fast consumers): a large batch, screened by the
# driver (see TestVerifBlockNtfnsFree), because the window of the shutdown gap is ~1e-5 per run
STRESS = {
    "quick": dict(runs=3000, screen=50, min_events=20, max_events=60),
    "thorough": dict(runs=450000, screen=1500, min_events=20, max_events=60),
}
WALKS = {"quick": 0, "thorough": 3000}

ASSUMPTIONS = [
    "the NotificationSource is the driver's: events are numbered in emission order, the backlog for height h at tip k "
    "is h+1..k (none for h=0, an error for h>k), NotificationsSinceHeight returns at once and the channel is never closed",
    "an event counts as emitted when the handler goroutine has taken it from the source channel (one buffer slot; "
    "len==0 observed under the log mutex)",
    "free-running traces are linearised by one mutex: a step is logged after the call returned; a consumer's reads "
    "are recorded under the same mutex; a Cancel() returning while Stop() runs takes effect when Stop() returns",
    "a call or hand-over that does not complete within 10 s (normal: microseconds) is reported as blocked",
    "subscribers are interchangeable and subscribe at most once per run",
]


def label(act):
    op = act.get("op", "?")
    if op == "Subscribe":
        s = "Subscribe(s%d,h%d,k%d)" % (act.get("s", 0), act.get("h", 0), act.get("k", 0))
    elif op == "Emit":
        s = "Emit(%d)" % act.get("k", 0)
    elif op == "Read":
        s = "Read(s%d)" % act.get("s", 0)
    elif op == "Cancel":
        s = "Cancel(s%d)" % act.get("s", 0)
    elif op == "Quiesce":
        s = "Quiesce(m%d)" % act.get("s", 0)
    else:
        s = op
    return s + "=" + str(act.get("res"))


def run(prop_id, tier, seed, replay=None):
    t0 = time.time()
    rng = random.Random(seed)
    sc = core.scratch("bn")
    try:
        pf = os.path.join(sc, "paths.ndjson")
        extra = {}
        if replay:
            family.paths_from_replay(replay, pf)
            tlc, g, paths, unreach = family._NoTLC(), None, [0], 0
        else:
            # 1. design level: every interleaving of the fine-grained model
            fconsts = dict(FINE[tier]); fconsts.update(CODE_VERSION)
            inv = ["TypeOK", "HandlerNeverStuck", "StopProgress"]
            if CODE_VERSION.get("FixQuitGap"):
                inv.append("NoViolation")
            fine = core.run_tlc([SPEC], "BlockNtfns", fconsts, export=False, workers=8, invariants=inv,
                                workdir=os.path.join(sc, "tlc-fine"), timeout=3000, heap="12g")
            if not fine.ok:
                raise core.MachineryError("TLC on BlockNtfns (interleaving model) failed: %s\n%s" % (
                    fine.error, fine.stdout_tail[-3000:]))
            shutil.rmtree(os.path.join(sc, "tlc-fine"), ignore_errors=True)
            extra["interleaving_model"] = {"config": fconsts, "states": fine.distinct,
                                           "states_generated": fine.generated, "depth": fine.depth,
                                           "wall_s": round(fine.wall, 1), "invariants": inv}
            # 2. replay graphs
            graphs = []
            for ci, rc_ in enumerate(REPLAY[tier]):
                consts = dict(rc_); consts.update(CODE_VERSION)
                t = core.run_tlc([SPEC], "BlockNtfns", consts, workers=1, invariants=["TypeOK", "NoViolation"],
                                 workdir=os.path.join(sc, "tlc%d" % ci), timeout=3000, heap="12g")
                if not t.ok:
                    raise core.MachineryError("TLC on BlockNtfns (replay graph %s) failed: %s\n%s" % (
                        consts, t.error, t.stdout_tail[-3000:]))
                gi = core.Graph.load(t)
                pi, ui = core.edge_cover(gi, rng)
                if WALKS[tier] and ci == 0:
                    pi += core.random_walks(gi, WALKS[tier], 14, rng)
                pfi = os.path.join(sc, "paths%d.ndjson" % ci)
                core.write_paths(gi, pi, pfi)
                shutil.rmtree(os.path.join(sc, "tlc%d" % ci), ignore_errors=True)
                graphs.append(dict(consts=consts, tlc=t, g=gi, paths=pi, unreach=ui, pf=pfi))
            tlc, g, paths = _Agg([fine] + [x["tlc"] for x in graphs]), _AggGraph([x["g"] for x in graphs]), \
                [p for x in graphs for p in x["paths"]]
            extra["replay_graphs"] = [dict(config=x["consts"], states=x["tlc"].distinct, edges=len(x["g"].edges),
                                           paths=len(x["paths"]), tlc_wall_s=round(x["tlc"].wall, 1),
                                           edges_only_reachable_through_model_violation=x["unreach"])
                                      for x in graphs]
            pfs = [x["pf"] for x in graphs]
        tp = time.time()
        binary = family.build_overlay_test(PKG, [DRIVER], os.path.join(sc, "blockntfns.test"))
        observed, dr = [], [0, 0, []]
        for ci, pfi in enumerate([pf] if replay else pfs):
            obs_i, log = family.run_driver(binary, "TestVerifBlockNtfnsReplay", pfi,
                                           os.path.join(sc, "obs%d.ndjson" % ci), sc)
            n_all = len(obs_i)
            obs_i = [t for t in obs_i if not (t.get("info") or "").startswith("not executed")]
            if len(obs_i) < n_all:
                extra["paths_not_executed_after_many_deviations"] = \
                    extra.get("paths_not_executed_after_many_deviations", 0) + n_all - len(obs_i)
            d = family.drift(pfi, obs_i, label=label)
            dr = [dr[0] + d[0], dr[1] + d[1], (dr[2] + d[2])[:5]]
            for t in obs_i:
                t["id"] = "g%d-%d" % (ci, t["id"])
            observed += obs_i
        dr = tuple(dr)
        free = []
        if not replay:
            fc = FREE[tier]
            free, flog = family.run_driver(binary, "TestVerifBlockNtfnsFree", pfs[0], os.path.join(sc, "free.ndjson"), sc,
                                           env_extra={"VERIF_SEED": str(seed), "VERIF_FREE_RUNS": str(fc["runs"]),
                                                      "VERIF_FREE_MIN_EVENTS": str(fc["min_events"]),
                                                      "VERIF_FREE_MAX_EVENTS": str(fc["max_events"])})
            for t in free:
                t["id"] = "free-%d" % t["id"]
            extra["free_running"] = {
                "runs": len(free), "steps": sum(len(t["steps"]) for t in free),
                "max_events": max([t["steps"][-1]["obs"]["emitted"] for t in free if t["steps"]] or [0]),
                "runs_with_stop": sum(1 for t in free if any(s["act"]["op"] == "Stop" for s in t["steps"])),
                "runs_with_cancel": sum(1 for t in free if any(s["act"]["op"] == "Cancel" for s in t["steps"])),
                "runs_overflowing_41_slots": sum(1 for t in free if overflowed(t)),
                "quiesced": sum(1 for t in free if t["steps"] and t["steps"][-1]["act"]["op"] == "Quiesce"),
            }
            stc = STRESS[tier]
            ts = time.time()
            stress, slog = family.run_driver(binary, "TestVerifBlockNtfnsFree", pfs[0], os.path.join(sc, "stress.ndjson"),
                                             sc, env_extra={"VERIF_SEED": str(seed), "VERIF_FREE_RUNS": str(stc["runs"]),
                                                            "VERIF_FREE_MIN_EVENTS": str(stc["min_events"]),
                                                            "VERIF_FREE_MAX_EVENTS": str(stc["max_events"]),
                                                            "VERIF_FREE_PROFILE": "stop",
                                                            "VERIF_FREE_SCREEN": str(stc["screen"])})
            for t in stress:
                t["id"] = "stop-%d" % t["id"]
            extra["stop_under_load"] = {
                "runs_executed": stc["runs"], "runs_judged_by_tlc": len(stress),
                "screen": "every %d-th run, plus every run with a non-consecutive receive sequence, a blocked "
                          "call, no quiescence or a driver error" % stc["screen"],
                "wall_s": round(time.time() - ts, 1)}
            free += stress
        extra["phase_wall_s"] = {"model": round(tp - t0, 1), "drivers": round(time.time() - tp, 1)}
        tj = time.time()
        verdict = judge_all(prop_id, observed + free)
        extra["phase_wall_s"]["judge"] = round(time.time() - tj, 1)
        if os.environ.get("VERIF_VERBOSE"):
            print("phases", extra["phase_wall_s"], file=sys.stderr)
        rc = family.finish(prop_id, tier, seed, t0, tlc, g, paths, observed + free, verdict, dr, extra,
                           ASSUMPTIONS, label=label)
        return rc
    finally:
        shutil.rmtree(sc, ignore_errors=True)


class _Agg:
    def __init__(self, runs):
        self.generated = sum(r.generated for r in runs)
        self.distinct = sum(r.distinct for r in runs)
        self.depth = max(r.depth for r in runs)
        self.wall = sum(r.wall for r in runs)


class _AggGraph:
    def __init__(self, gs):
        self.edges = [e for g in gs for e in g.edges]


def overflowed(t):
    """Did some subscriber of this run have more than 41 undelivered events
    (20 channel slots + forwarder + 20 queue slots) at some step?"""
    reg = {}
    for s in t["steps"]:
        a, o = s["act"], s["obs"]
        if a["op"] == "Subscribe" and a["res"] == "ok":
            reg[a["s"]] = (a["h"], a["k"])
        for sid, (h, k) in reg.items():
            owed = (k - h if h and h < k else 0) + max(0, o["emitted"] - k)
            if o["sub"][sid - 1] == 1 and owed - len(o["recv"][sid - 1]) > 41:
                return True
    return False


def judge_all(prop_id, traces, max_lines=60000):
    """ObsCheck in chunks of at most max_lines trace lines (free-running
    traces are long; one JVM per chunk)."""
    known = core.load_known()
    total = {"violations": [], "known": {}, "n_lines": 0, "wall": 0.0, "raw": 0}
    chunks, cur, n = [], [], 0
    for t in traces:
        ln = len(t["steps"]) + 1
        if cur and n + ln > max_lines:
            chunks.append(cur)
            cur, n = [], 0
        cur.append(t)
        n += ln
    if cur:
        chunks.append(cur)
    for part in chunks:
        v = family.judge([SPEC], "BlockNtfnsProps", PROPS[prop_id], prop_id, part, label=label, known=known)
        total["violations"] += v["violations"]
        for k, e in v["known"].items():
            if k in total["known"]:
                total["known"][k]["count"] += e["count"]
            else:
                total["known"][k] = e
        total["n_lines"] += v["n_lines"]
        total["wall"] += v["wall"]
        total["raw"] += v["raw"]
        if len(total["violations"]) >= 10:
            # the verdict is in; the remaining chunks would only add examples
            total["judging_stopped_early"] = True
            break
    return total
