"""LRU family: C16 (cache/lru: capacity, one consistent map under concurrency,
LRU order, failed operations leave the cache usable)."""
import json, os, random, shutil, sys, time
from concurrent.futures import ThreadPoolExecutor
from .. import core, family

SPEC = os.path.join(core.VERIF, "specs", "LRU")
DRIVER = os.path.join(core.VERIF, "harness", "overlay", "lru", "zz_verif_lru_test.go")
PKG = os.path.join(core.REPO, "cache", "lru")      # module /repo/cache: build inside it

READY = True
PROPERTIES = ["C16"]

MANIFEST = {
    "C16": dict(
        engine="LRU",
        text="Exhaustive TLC exploration of specs/LRU: threads executing Put/Get/LoadAndDelete/Len/Size/Range as the "
             "code's step sequence between the verif yield points of lru.go (Lock + index access, list/size update with "
             "the evict loop + index update, Unlock; every error exit; a value whose Size() starts failing), for 2 threads "
             "x 2 operations and 3 x 1 (quick), additionally 2 x 3, 3 x 2 and 3 x 3 (thorough) over 2-3 keys, value sizes 1-2, "
             "capacity 2-4, and all sequential histories of <= 4 (quick) / <= 6 (thorough) operations incl. 3-key "
             "configurations in which eviction has a choice of victim, a Put evicting 2-3 entries with the failing value "
             "anywhere in eviction order, and instances scaled so that the capacity is math.MaxUint64 / 2^64-2. Configurations with a cache created "
             "WithDeleteCallback make the callback a yield point inside the locked section, and start calls while "
             "another call is inside its locked section: the real goroutine must park on the mutex and go on only when "
             "the holder unlocks (a call that gets in is run to completion at once and judged). EVERY transition is replayed on the real lru.Cache "
             "by a scheduler that releases exactly one real goroutine per model step at the hooks; after each step "
             "Len/Size/Range/RangeFILO and ll/index/size are projected (zero drift on the unchanged tree). LRUProps.tla "
             "(capacity, size/len exactness, index and list one map, linearizability of every returned result against an "
             "atomic sequential LRU, LRU order, usable after a failed call) is evaluated by TLC. Plus 400 / 12000 "
             "free-running histories of 3 real goroutines (no scheduling; call/return logged) judged for "
             "linearizability by TLC.",
        note="Bounded: <=3 threads, <=2-3 operations per thread, 2-3 keys, 2-3 values, one or two poisoned values. "
             "Interleavings at yield-point granularity, not instruction granularity; on code whose locking differs from "
             "the specification the scheduler only reports drift and the free-running histories are what exposes races "
             "(self-test: unlocked index access re-introduced in Put or LoadAndDelete is reported within 400 histories). "
             "Range/RangeFILO are observed as single steps; data races are out of scope (C18). A mutex leak is recognised "
             "from the goroutine dump (call parked in Lock/RLock of the cache mutex while no parked goroutine holds it), "
             "not by waiting. A replayed trace that equals its model path step by step (same results, same observables) "
             "takes the value of LRUProps!Viol that TLC computed for exactly that sequence while exporting the graph; "
             "every other trace, a random sample of those, and all free-running histories are judged by separate TLC "
             "runs on the observed data.",
        design="4 C16", technique="TLA+ spec + TLC exhaustive + scheduler-driven replay of every interleaving on real "
                                  "goroutines + TLC-judged observed traces + linearizability of free-running histories"),
}

PROPS = {
    "C16": ["CapacityRespected", "LenExact", "SizeExact", "NoDupKeys", "Bijection", "Linearizable",
            "LookupLatest", "LRUOrder", "UsableAfterFailure"],
}

CODE_VERSION = json.load(open(os.path.join(SPEC, "code_version.json")))

ALL = '{"Put","Get","Del","Len","Size","Range"}'
PGD = '{"Put","Get","Del"}'
PGDL = '{"Put","Get","Del","Len"}'
PGDS = '{"Put","Get","Del","Size"}'


MAX3 = "6148914691236517205"     # 3 * MAX3 = math.MaxUint64
HALF2 = "9223372036854775807"    # 2 * HALF2 = 2^64 - 2
P62 = "4611686018427387904"      # 2^62: 4 * P62 wraps to exactly 0


def cfg(name, NT, OpsPer, Cap, sizes, inits, kinds, poison=0, maxel=8, nk=2, scale="1", cb=False, waits=False):
    return dict(name=name,
                consts=dict(NT=NT, OpsPer=OpsPer, NK=nk, Cap=Cap, MaxEl=maxel, MaxPoison=poison,
                            Scale='"%s"' % scale, Callback=cb, Waits=waits),
                defs=dict(Sizes=sizes, InitLists=inits, OpKinds=kinds))


def configs(tier):
    # The model of the code before 81bf7f7 (FixLocked = FALSE: index access outside the lock, four steps per
    # Put) has ~60 times more states for the same constants; it gets smaller configurations.
    fixed = CODE_VERSION.get("FixLocked")
    if tier == "quick":
        if fixed:
            return [
                cfg("seq4", 1, 4, 2, "<<1,2,3>>", "{<<>>}", ALL, poison=1),
                cfg("seqp", 1, 3, 2, "<<1,1,2>>", "{<<<<2,2>>,<<1,1>>>>}", ALL, poison=1),
                # three keys: the only configurations in which eviction has a choice of victim
                cfg("seqk3", 1, 4, 2, "<<1,2>>", "{<<>>, <<<<2,1>>,<<1,1>>>>}", PGD, nk=3),
                cfg("seqk3c3", 1, 3, 3, "<<1,2>>", "{<<<<3,1>>,<<2,1>>,<<1,1>>>>, <<<<1,1>>,<<2,2>>>>}", ALL, poison=1, nk=3),
                # a Put that evicts two or three entries with the failing value anywhere in eviction order
                # (three values of size 1 that can be poisoned separately)
                cfg("seqev", 1, 2, 3, "<<1,1,1,3>>", "{<<<<3,3>>,<<2,2>>,<<1,1>>>>}", ALL, poison=1, nk=3),
                # sizes and capacity near 2^64 (capacity = math.MaxUint64): the abstract LRU is the same,
                # the code's uint64 arithmetic must not wrap
                cfg("seqmax", 1, 3, 3, "<<1,2,3>>", "{<<>>, <<<<1,2>>>>}", PGDS, nk=3, scale=MAX3),
                cfg("c2x2", 2, 2, 2, "<<1,2>>", "{<<>>, <<<<1,1>>>>, <<<<2,1>>,<<1,1>>>>}", ALL, poison=1),
                cfg("c3x1", 3, 1, 3, "<<1,2>>", "{<<>>, <<<<1,1>>>>, <<<<2,2>>,<<1,1>>>>}", ALL, poison=1),
                # cache WithDeleteCallback, the callback is a yield point inside the locked section; calls
                # started while another one is inside its locked section must wait for the mutex
                cfg("cbw2k2", 2, 2, 2, "<<1,2>>", "{<<<<2,1>>,<<1,1>>>>}", PGD, cb=True, waits=True),
                cfg("cbw3", 3, 1, 2, "<<1,2>>", "{<<<<2,1>>,<<1,1>>>>}", PGDL, nk=3, cb=True, waits=True),
            ]
        return [
            cfg("seq4", 1, 4, 2, "<<1,2,3>>", "{<<>>}", ALL, poison=1),
            cfg("c2x2", 2, 2, 2, "<<1,2>>", "{<<<<1,1>>>>}", PGD),
            cfg("c3x1", 3, 1, 3, "<<1,2>>", "{<<>>, <<<<1,1>>>>}", PGD),
        ]
    if fixed:
        return [
            cfg("seq6", 1, 6, 2, "<<1,2,3>>", "{<<>>}", ALL, poison=1),
            cfg("seq5c3", 1, 5, 3, "<<1,2>>", "{<<>>, <<<<2,2>>,<<1,1>>>>}", ALL, poison=2),
            cfg("seqp", 1, 4, 2, "<<1,1,2>>", "{<<<<2,2>>,<<1,1>>>>, <<<<1,1>>,<<2,2>>>>}", ALL, poison=1),
            cfg("seqk3", 1, 6, 2, "<<1,2>>", "{<<>>, <<<<2,1>>,<<1,1>>>>}", PGD, nk=3),
            cfg("seqk3c3", 1, 4, 3, "<<1,2>>", "{<<<<3,1>>,<<2,1>>,<<1,1>>>>, <<<<1,1>>,<<2,2>>>>}", ALL, poison=1, nk=3),
            cfg("seqev", 1, 3, 3, "<<1,1,1,3>>", "{<<<<3,3>>,<<2,2>>,<<1,1>>>>, <<<<1,1>>,<<2,2>>>>}", ALL, poison=2, nk=3),
            cfg("seqev4", 1, 2, 4, "<<1,1,2,4>>", "{<<<<3,3>>,<<2,2>>,<<1,1>>>>}", ALL, poison=1, nk=3),
            cfg("seqmax", 1, 5, 3, "<<1,2,3>>", "{<<>>, <<<<1,2>>>>}", PGDS, nk=3, scale=MAX3),
            cfg("seqhalf", 1, 5, 2, "<<1,2>>", "{<<>>}", ALL, poison=1, nk=3, scale=HALF2),
            cfg("seqp62", 1, 4, 3, "<<1,2,3>>", "{<<<<2,1>>,<<1,2>>>>}", PGDS, nk=3, scale=P62),
            cfg("c2x2max", 2, 2, 3, "<<1,2>>", "{<<<<2,2>>,<<1,1>>>>}", PGDS, scale=MAX3),
            cfg("c2x2", 2, 2, 2, "<<1,2>>", "{<<>>, <<<<1,1>>>>, <<<<2,1>>,<<1,1>>>>}", ALL, poison=1),
            cfg("c2x2k3", 2, 2, 2, "<<1,2>>", "{<<<<2,1>>,<<1,1>>>>}", PGDL, nk=3),
            cfg("c2x3", 2, 3, 3, "<<1,2>>", "{<<<<2,2>>,<<1,1>>>>}", PGD),
            cfg("c3x1", 3, 1, 3, "<<1,2>>", "{<<>>, <<<<1,1>>>>, <<<<2,2>>,<<1,1>>>>}", ALL, poison=1),
            cfg("c3x1k3", 3, 1, 2, "<<1,2>>", "{<<<<2,1>>,<<1,1>>>>}", ALL, poison=1, nk=3),
            cfg("c3x2", 3, 2, 2, "<<1,2>>", "{<<>>, <<<<1,1>>>>}", PGDL, poison=1, maxel=10),
            cfg("c3x2c3", 3, 2, 3, "<<1,2>>", "{<<<<2,2>>,<<1,1>>>>}", PGD, maxel=10),
            cfg("c3x2k3", 3, 2, 2, "<<1,2>>", "{<<<<2,1>>,<<1,1>>>>}", PGD, nk=3, maxel=10),
            cfg("c3x2all", 3, 2, 3, "<<1,2>>", "{<<>>, <<<<2,2>>,<<1,1>>>>}", ALL, poison=1, maxel=10),
            cfg("c3x3", 3, 3, 2, "<<1,2>>", "{<<<<1,1>>>>}", '{"Put","Del"}', maxel=12),
            # caches WithDeleteCallback (callback = yield point inside the locked section) and calls that
            # must wait for the mutex; cbw2m: one Put evicts three entries (three callbacks); cbw3p: a
            # failing Size() among the victims; c3x1w: waiting calls without a callback
            cfg("cbw2k2", 2, 2, 2, "<<1,2>>", "{<<<<2,1>>,<<1,1>>>>}", PGD, cb=True, waits=True),
            cfg("cbw2", 2, 2, 2, "<<1,2>>", "{<<<<2,1>>,<<1,1>>>>}", PGD, nk=3, cb=True, waits=True),
            cfg("cbw3", 3, 1, 2, "<<1,2>>", "{<<<<2,1>>,<<1,1>>>>}", PGDL, nk=3, cb=True, waits=True),
            cfg("cbw2m", 2, 2, 3, "<<1,3>>", "{<<<<3,1>>,<<2,1>>,<<1,1>>>>}", PGD, nk=3, cb=True, waits=True),
            cfg("cbw3p", 3, 1, 3, "<<1,1,3>>", "{<<<<3,1>>,<<2,2>>,<<1,1>>>>}", PGD, nk=3, cb=True, waits=True,
                poison=1),
            cfg("c3x1w", 3, 1, 3, "<<1,2>>", "{<<>>, <<<<1,1>>>>, <<<<2,2>>,<<1,1>>>>}", ALL, poison=1, waits=True),
        ]
    return [
        cfg("seq6", 1, 6, 2, "<<1,2,3>>", "{<<>>}", ALL, poison=1),
        cfg("c2x2", 2, 2, 2, "<<1,2>>", "{<<>>, <<<<1,1>>>>}", PGD),
        cfg("c3x1", 3, 1, 3, "<<1,2>>", "{<<>>, <<<<1,1>>>>}", PGDL),
        cfg("c3x2", 3, 2, 2, "<<1,2>>", "{<<<<1,1>>>>}", '{"Put","Del"}', maxel=10),
    ]


FREE = {
    # (two batches each: plain sizes, and sizes/capacity scaled so that the capacity is math.MaxUint64)
    "quick": [dict(traces=300, nt=3, ops=3, rounds=2, cap=2, sizes=[1, 1, 2], nk=3, poison=True, scale="1", cb=1,
                   kinds=["Put", "Put", "Get", "Del", "Len", "Size"]),
              dict(traces=100, nt=3, ops=3, rounds=2, cap=3, sizes=[1, 1, 2, 3], nk=3, poison=True, scale=MAX3, cb=1,
                   kinds=["Put", "Put", "Get", "Del", "Len", "Size"])],
    "thorough": [dict(traces=9000, nt=3, ops=4, rounds=3, cap=3, sizes=[1, 1, 2, 3], nk=3, poison=True, scale="1", cb=1,
                      kinds=["Put", "Put", "Get", "Del", "Len", "Size"]),
                 dict(traces=3000, nt=3, ops=4, rounds=3, cap=3, sizes=[1, 1, 2, 3], nk=3, poison=True, scale=MAX3, cb=1,
                      kinds=["Put", "Put", "Get", "Del", "Len", "Size"])],
}

ASSUMPTIONS = [
    "interleavings are enumerated at the granularity of the verif yield points of lru.go (after the index access, "
    "before/after the end of the locked section, after the index Store); the code between two yield points runs "
    "without interference in the scheduled replay",
    "a value's Size() is constant, except that it may start failing (for good) while no call is running",
    "Range / RangeFILO / RangeFIFO are observed as atomic steps; their unlocked iteration concurrent with a writer "
    "is a data race and out of scope (C18)",
    "a call is 'blocked for ever' when the goroutine dump shows it parked in Lock/RLock of the cache mutex and no "
    "goroutine of the run is inside a locked section",
    "free-running histories: call/return events are ordered by a logging mutex (intervals are only widened)",
    "sizes near 2^64 are reached by multiplying every size and the capacity by one factor (Scale, e.g. capacity = "
    "math.MaxUint64); the abstract LRU works in units, a reported size that is not a multiple of the factor is "
    "NOTMULT; sizes that are not multiples of a common factor are not enumerated",
]

BATCH = 40000        # replayed paths per driver run

RES = {-1: "nf", -3: "err", -5: "wait", -7: "blocked", -9: "panic"}


def label(act):
    op = act.get("op", "?")
    if op == "Init":
        return "Init"
    if op == "Setup":
        return "Setup(%s)" % ",".join("k%d=v%d" % (k, v) for k, v in act.get("rr", []))
    if op == "Poison":
        return "Poison(v%d)" % act.get("v", 0)
    if op == "Snap":
        return "Snap"
    if op == "Put":
        args = "k%d,v%d" % (act["k"], act["v"])
    elif op in ("Get", "Del"):
        args = "k%d" % act["k"]
    else:
        args = ""
    s = "T%d.%s(%s).%s" % (act.get("t", 0), op, args, act.get("step", "?"))
    res = act.get("res", 0)
    if act.get("ret") == 1 or res in (-7, -5):
        if op == "Range" and res == 0:
            s += "=" + "".join(str(x) for x in act.get("rr", []))
        else:
            s += "=" + RES.get(res, str(res))
    if act.get("w"):
        s += "+T%d.acq" % act["w"]
        if act.get("wret") == 1:
            s += "=" + RES.get(act.get("wres"), str(act.get("wres")))
    return s


# --------------------------------------------------------------------------
class _Sum:
    """Totals over several TLC runs, shaped like core.TLCRun / core.Graph for family.finish."""
    def __init__(self):
        self.generated = self.distinct = self.depth = 0
        self.wall = 0.0
        self.edges = []


def load_graph(run):
    """core.Graph.load with interned action / observable objects (the graphs
    here have several 100k edges)."""
    g = core.Graph()
    for line in open(run.inits_path):
        d = json.loads(line)
        g.inits.append((g.node(d["init"]), d["obs"]))
    seen = set()
    pool = {}

    def intern(o):
        k = json.dumps(o, sort_keys=True, separators=(",", ":"))
        v = pool.get(k)
        if v is None:
            pool[k] = v = o
        return k, v
    for line in open(run.edges_path):
        d = json.loads(line)
        f, t = g.node(d["from"]), g.node(d["to"])
        ak, a = intern(d["act"])
        key = (f, ak, t)
        if key in seen:
            continue
        seen.add(key)
        g.out[f].append(len(g.edges))
        g.edges.append((f, a, t, intern(d["obs"])[1], intern(d.get("viol", []))[1]))
    return g


def run_model(c, wd, workers):
    consts = dict(c["consts"])
    consts.update(CODE_VERSION)
    defs = c["defs"]
    extra = "\n".join("MC_%s == %s" % (k, v) for k, v in defs.items())
    cfgx = "CONSTANTS\n" + "\n".join("  %s <- MC_%s" % (k, k) for k in defs)
    tlc = core.run_tlc([SPEC], "LRU", consts, cfg_extra=cfgx, extra_defs=extra, workers=workers,
                       invariants=["TypeOK", "PoolOK"], workdir=wd, timeout=3000, heap="6g")
    if not tlc.ok:
        raise core.MachineryError("TLC on LRU (%s) failed: %s\n%s" % (c["name"], tlc.error, tlc.stdout_tail[-3000:]))
    if tlc.n_edges != tlc.generated - tlc.n_inits:
        raise core.MachineryError("TLC on LRU (%s): exported %d edges, generated %d states" % (
            c["name"], tlc.n_edges, tlc.generated))
    return tlc


def conforms(t, e):
    if t.get("error") or t.get("init_obs") != e.get("init_obs") or len(t["steps"]) != len(e["steps"]):
        return False
    for s, m in zip(t["steps"], e["steps"]):
        if s.get("note") or s["act"] != m["act"] or s["obs"] != m["obs"]:
            return False
    return True


def split_observed(exp, observed):
    """A trace that equals its model path step by step (same actions with the
    same results, same observables) was already judged by TLC with exactly
    these inputs while the graph was exported (edge attribute viol = the value
    of LRUProps!Viol on that step).  Returns (nonconforming, clean, violating)
    where violating = [(trace, first violating step (1-based), names)]."""
    need, clean, violating = [], [], []
    for t in observed:
        if t.get("error"):
            continue
        e = exp[t["id"]]
        if not conforms(t, e):
            need.append(t)
            continue
        fv = next((i for i, m in enumerate(e["steps"]) if m["viol"]), None)
        if fv is None:
            clean.append(t)
        else:
            violating.append((t, fv + 1, list(e["steps"][fv]["viol"])))
    return need, clean, violating


def classify(prop_id, violating, known, verdict):
    """family.judge's classification applied to verdicts TLC computed at export time."""
    names_of = set(PROPS[prop_id])
    for t, step, names in violating:
        mine = [n for n in names if n in names_of]
        if not mine:
            continue
        labels = [label(s["act"]) for s in t["steps"][:step]]
        unmatched = []
        for n in mine:
            k = core.match_known(known, prop_id, n, labels)
            if k:
                verdict["known"].setdefault(k["id"], {"entry": k, "count": 0, "example": labels})
                verdict["known"][k["id"]]["count"] += 1
            else:
                unmatched.append(n)
        if unmatched:
            verdict["violations"].append({"trace": t["id"], "step": step, "props": unmatched, "labels": labels,
                                          "observed": t})


def judge_parallel(prop_id, traces, known, verdict, chunk_lines=30000, par=6):
    """TLC (ObsCheck) on observed traces that are not covered by the export-time
    verdicts: identical traces are judged once, the rest is split over several
    TLC processes.  Results are classified into `verdict`."""
    uniq, mult = {}, {}
    for t in traces:
        if t.get("error") or not t.get("steps"):
            continue
        key = json.dumps([t.get("init_obs")] + [[s["act"], s["obs"]] for s in t["steps"]], sort_keys=True)
        if key in uniq:
            mult[uniq[key]["id"]] += 1
        else:
            uniq[key] = t
            mult[t["id"]] = 1
    todo = list(uniq.values())
    chunks, cur, n = [], [], 0
    for t in todo:
        cur.append(t)
        n += len(t["steps"]) + 1
        if n >= chunk_lines:
            chunks.append(cur)
            cur, n = [], 0
    if cur:
        chunks.append(cur)
    lines = 0
    viol = []
    with ThreadPoolExecutor(max_workers=par) as ex:
        for v, nl, _ in ex.map(lambda c: core.obs_check([SPEC], "LRUProps", c), chunks):
            viol += v
            lines += nl
    by_trace = {}
    for (t, i, name) in viol:
        by_trace.setdefault(t, {}).setdefault(i, []).append(name)
    by_id = {t["id"]: t for t in todo}
    violating = []
    for t, steps in sorted(by_trace.items()):
        first = min(steps)
        violating.append((by_id[t], first, sorted(steps[first])))
    classify(prop_id, violating, known, verdict)
    verdict["n_lines"] += lines
    return len(todo), lines


def replay_paths(binary, sc, pf, of, n, waits):
    """Runs the replay driver on the paths of pf.  Configurations with waiting calls identify a call
    parked on the mutex by goroutine dumps, which stop the whole Go process: those are replayed by
    several driver processes with few path workers each."""
    procs = 4 if waits and n > 2000 else 1
    if procs == 1:
        obs, _ = family.run_driver(binary, "TestVerifLRUReplay", pf, of, sc)
        return obs
    lines = open(pf).read().splitlines(True)
    per = (len(lines) + procs - 1) // procs
    parts = []
    for i in range(procs):
        sub = pf + ".%d" % i
        open(sub, "w").writelines(lines[i * per:(i + 1) * per])
        parts.append((sub, of + ".%d" % i))
    nw = str(max(2, (os.cpu_count() or 8) // procs))
    with ThreadPoolExecutor(max_workers=procs) as ex:
        res = list(ex.map(lambda p: family.run_driver(binary, "TestVerifLRUReplay", p[0], p[1], sc,
                                                      env_extra={"VERIF_WORKERS": nw})[0], parts))
    obs = []
    for r, (sub, o) in zip(res, parts):
        obs += r
        os.remove(sub)
        os.remove(o)
    open(of, "w").close()
    return obs


def free_run(binary, sc, tier, seed, first_id):
    obs, cfgs = [], []
    for i, c0 in enumerate(FREE[tier]):
        c = dict(c0)
        if os.environ.get("VERIF_LRU_NOFREE"):               # development aid
            c["traces"] = 0
        c.update(seed=seed, first_id=first_id + len(obs))
        out = os.path.join(sc, "free%d.ndjson" % i)
        o, log = family.run_driver(binary, "TestVerifLRUFree", "", out, sc,
                                   env_extra={"VERIF_LRU_FREE": json.dumps(c)})
        obs += o
        cfgs.append(c)
    return obs, {"batches": cfgs}


def _log(t0, *a):
    if os.environ.get("VERIF_VERBOSE"):
        print("[lru %6.1fs]" % (time.time() - t0), *a, file=sys.stderr, flush=True)


def run(prop_id, tier, seed, replay=None):
    t0 = time.time()
    rng = random.Random(seed)
    sc = core.scratch("lru")
    try:
        binary = None

        def build():
            return family.build_overlay_test(PKG, [DRIVER], os.path.join(sc, "lru.test"))
        tot = _Sum()
        observed, npaths, unreach_tot = [], 0, 0
        per_cfg = {}
        if replay:
            pf = os.path.join(sc, "paths.ndjson")
            rec = json.load(open(replay))["trace"]
            if any(s["act"].get("step") in ("call", "ret") for s in rec["steps"]):
                # a free-running history: its schedule cannot be forced again; the recorded
                # history is judged again (and the check itself re-runs histories with this seed)
                rec["id"] = 0
                verdict = family.judge([SPEC], "LRUProps", PROPS[prop_id], prop_id, [rec], label=label)
                return family.finish(prop_id, tier, seed, t0, family._NoTLC(), None, [0], [rec], verdict, (0, 0, []),
                                     {"mode": "re-judged free-running history " + replay}, ASSUMPTIONS, label=label)
            family.paths_from_replay(replay, pf)
            binary = build()
            observed, _ = family.run_driver(binary, "TestVerifLRUReplay", pf, os.path.join(sc, "obs.ndjson"), sc)
            verdict = family.judge([SPEC], "LRUProps", PROPS[prop_id], prop_id, observed, label=label)
            dr = family.drift(pf, observed, label=label)
            return family.finish(prop_id, tier, seed, t0, family._NoTLC(), None, [0], observed, verdict, dr,
                                 {"mode": "replay of " + replay}, ASSUMPTIONS, label=label)
        cfgs = configs(tier)
        only = os.environ.get("VERIF_LRU_ONLY")          # development aid: subset of configurations
        if only:
            cfgs = [c for c in cfgs if c["name"] in only.split(",")]
        ncpu = os.cpu_count() or 4
        par = min(len(cfgs), 4)
        workers = max(2, min(8, ncpu // par))
        with ThreadPoolExecutor(max_workers=par + 1) as ex:
            fb = ex.submit(build)
            futs = [ex.submit(run_model, c, os.path.join(sc, "tlc-" + c["name"]), workers) for c in cfgs]
            binary = fb.result()
            tlcs = [f.result() for f in futs]
        _log(t0, "tlc done", [(c["name"], t.distinct, t.generated, round(t.wall, 1)) for c, t in zip(cfgs, tlcs)])
        next_id = 0
        dsteps = ddrift = 0
        dsamples = []
        need, clean_samp, violating = [], [], []
        n_clean = 0
        ns = 150 if tier == "quick" else 600
        stubs = {}
        for c, tlc in zip(cfgs, tlcs):
            g = load_graph(tlc)
            paths, unreach = core.edge_cover(g, rng)
            if tier == "thorough":
                paths += core.random_walks(g, 500, 24, rng)
            # path ids are unique over all configurations; large configurations are replayed in
            # batches so that at most BATCH observed traces are held in memory
            init_obs = {n: o for n, o in g.inits}
            nd_cfg = 0
            for b0 in range(0, len(paths), BATCH):
                pf = os.path.join(sc, "paths-%s-%d.ndjson" % (c["name"], b0))
                exp = {}
                with open(pf, "w") as f:
                    for p in paths[b0:b0 + BATCH]:
                        steps = [{"act": g.edges[e][1], "obs": g.edges[e][3], "viol": g.edges[e][4]} for e in p]
                        d = {"id": next_id, "init_obs": init_obs.get(g.edges[p[0]][0]), "steps": steps}
                        exp[next_id] = d
                        f.write(json.dumps(d, separators=(",", ":")) + "\n")
                        next_id += 1
                of = os.path.join(sc, "obs-%s-%d.ndjson" % (c["name"], b0))
                obs_c = replay_paths(binary, sc, pf, of, len(exp), bool(c["consts"].get("Waits")))
                ns_, nd, smp = family.drift(pf, obs_c, label=label)
                dsteps += ns_
                ddrift += nd
                nd_cfg += nd
                dsamples += [dict(s, config=c["name"]) for s in smp][:3]
                need_c, clean_c, viol_c = split_observed(exp, obs_c)
                need += need_c
                violating += viol_c
                n_clean += len(clean_c)
                keep = rng.sample(clean_c, min(ns, len(clean_c)))
                clean_samp += keep
                # traces that equal a violation-free model path are not needed any more: keep their shape only
                keep_ids = {t["id"] for t in keep}
                clean_ids = {t["id"] for t in clean_c}
                for i, t in enumerate(obs_c):
                    if len(observed) + i >= 3 and t["id"] in clean_ids and t["id"] not in keep_ids:
                        n = len(t["steps"])
                        obs_c[i] = {"id": t["id"], "steps": stubs.setdefault(n, [None] * n)}
                observed += obs_c
                os.remove(pf)
                os.remove(of)
                del exp, obs_c, need_c, clean_c, viol_c
            nd = nd_cfg
            _log(t0, c["name"], "replayed", len(paths), "paths")
            npaths += len(paths)
            unreach_tot += unreach
            tot.generated += tlc.generated
            tot.distinct += tlc.distinct
            tot.depth = max(tot.depth, tlc.depth)
            tot.wall += tlc.wall
            nviol = sum(1 for e in g.edges if e[4])
            tot.edges += [(0, None, 0, None, e[4]) for e in g.edges]
            per_cfg[c["name"]] = dict(consts=c["consts"], defs=c["defs"], states=tlc.distinct,
                                      transitions=len(g.edges), model_violating_edges=nviol, paths=len(paths),
                                      tlc_wall_s=round(tlc.wall, 1), drift_paths=nd)
            shutil.rmtree(os.path.join(sc, "tlc-" + c["name"]), ignore_errors=True)
            del g

        free_obs, free_cfg = free_run(binary, sc, tier, seed, next_id)
        _log(t0, "free-running done", len(free_obs), "need", len(need), "clean", n_clean, "violating", len(violating))
        # cross-check sample of the verdicts taken from the export
        samp_c = rng.sample(clean_samp, min(ns, len(clean_samp)))
        samp_v = rng.sample(violating, min(ns, len(violating)))
        samp_vt = [dict(t, steps=t["steps"][:step]) for (t, step, _) in samp_v]
        known = core.load_known()
        verdict = {"violations": [], "known": {}, "n_lines": 0, "wall": 0.0}
        n_uniq, _ = judge_parallel(prop_id, need + free_obs, known, verdict)
        _log(t0, "judged off-path + free", verdict["n_lines"], "lines", n_uniq, "distinct traces")
        chk = core.obs_check([SPEC], "LRUProps", samp_c + samp_vt)
        _log(t0, "cross-check done", chk[1], "lines")
        got = {}
        for (t, i, name) in chk[0]:
            got.setdefault(t, {}).setdefault(i, set()).add(name)
        for t in samp_c:
            if t["id"] in got:
                raise core.MachineryError("trace %d equals a violation-free model path but the separate TLC run "
                                          "reports %s" % (t["id"], got[t["id"]]))
        for (t, step, names) in samp_v:
            g1 = got.get(t["id"], {})
            if not g1 or min(g1) != step or g1[step] != set(names):
                raise core.MachineryError("trace %d: export-time verdict %s at step %d, separate TLC run %s" % (
                    t["id"], names, step, g1))
        classify(prop_id, violating, known, verdict)
        verdict["n_lines"] += chk[1]
        verdict["violations"].sort(key=lambda v: (len(v["labels"]), v["trace"]))
        classes = {}
        for v in verdict["violations"]:
            c = classes.setdefault(",".join(v["props"]), {"count": 0, "shortest": " ".join(v["labels"])})
            c["count"] += 1
        for k, c in sorted(classes.items()):
            _log(t0, "violation class", k, c["count"], "e.g.", c["shortest"][:300])
        extra = {"configs": per_cfg, "code_version": CODE_VERSION,
                 "edges_only_reachable_through_model_violation": unreach_tot,
                 "verdicts": dict(
                     traces_equal_to_model_path_judged_at_export=n_clean + len(violating),
                     of_which_violating=len(violating),
                     traces_off_model_path_judged_separately=len(need),
                     cross_checked_by_separate_tlc_run=len(samp_c) + len(samp_vt),
                     free_running_histories_judged_separately=len(free_obs)),
                 "violation_classes": classes,
                 "free_running": dict(free_cfg, histories=len(free_obs),
                                      events=sum(len(t["steps"]) for t in free_obs))}
        return family.finish(prop_id, tier, seed, t0, tot, tot, list(range(npaths)), observed + free_obs, verdict,
                             (dsteps, ddrift, dsamples), extra, ASSUMPTIONS, label=label)
    finally:
        shutil.rmtree(sc, ignore_errors=True)
