"""WorkManager family: C12 (each query batch gets exactly one verdict; success
means all answered; unanswered requests are re-issued to the best-ranked free
peer; a finished batch never blocks later batches or shutdown)."""
import json, os, random, shutil, sys, time
from .. import core, family

SPEC = os.path.join(core.VERIF, "specs", "WorkManager")
DRIVER = os.path.join(core.VERIF, "harness", "overlay", "query", "zz_verif_workmanager_test.go")
DRIVER_W = os.path.join(core.VERIF, "harness", "overlay", "query", "zz_verif_workmanager_worker_test.go")
DRIVER_F = os.path.join(core.VERIF, "harness", "overlay", "query", "zz_verif_workmanager_free_test.go")
DRIVER_M = os.path.join(core.VERIF, "harness", "overlay", "query", "zz_verif_workmanager_many_test.go")
PKG = os.path.join(core.REPO, "query")

READY = True
PROPERTIES = ["C12"]

MANIFEST = {
    "C12": dict(
        engine="WorkManager",
        text="Exhaustive TLC exploration of specs/WorkManager/WorkManager.tla (dispatcher loop with one action per "
             "select arm incl. the blocking hand-off, work heap, currentBatches, currentQueries, workers[addr].activeJob, "
             "peerRanking scores, timers as nondeterministic events, workers as processes, peers keyed by address "
             "that disconnect and reconnect under the same address, errChan of capacity one) in several small "
             "configurations; EVERY transition of every configuration is replayed against the real peerWorkManager "
             "(scripted Workers via Config.NewWorker, peers through ConnectedPeers, the real peerRanking, idle wakes "
             "posted on progressWakes, real hard deadlines, Stop from every settled state) using the dispatcher's "
             "trace hooks as step and quiescence signal, and the clauses of WorkManagerProps.tla (at most one verdict, "
             "exactly one after Stop, success only if every handler was satisfied, every error has its cause, "
             "re-issue to the available peer with the best score AND with the best record as the trace itself shows it "
             "(successes / failures accounted so far), Query/Stop/result hand-back never block, no panic) are "
             "evaluated by TLC on the observed traces. The real worker.Run is replayed against Worker.tla (mock Peer, "
             "virtual time in a testing/synctest bubble: half-timeout ticks with unrelated / progressing messages in "
             "between, unbuffered results channel, quit closed while a result is being handed back to nobody). The repository's own work-manager tests are re-run with the hooks recording; "
             "their executions are judged by the same operators and validated against TraceWorkManager.tla. "
             "Many-batch executions: the real dispatcher with 1..40 batches in flight, real idle (AfterFunc) and hard "
             "timers inside a testing/synctest bubble (virtual time): up to 40 idle windows running out in the same "
             "instant / staggered, while the dispatcher is in its main select, in the hand-off select (worker slow to "
             "take the job) or inside OnMaxTries, mass cancellation, connects / disconnects meanwhile, a later batch, "
             "Stop with many batches pending; 'idle window g of batch b has elapsed' is logged at quiescence as the "
             "environment step IdleElapsed, the execution is judged by the same operators (IdleTimeoutEndsBatch: a "
             "batch whose current idle window has elapsed has its result once everything is at rest) and validated "
             "against TraceWorkManager.tla.",
        note="Bounded: <=2 addresses, <=3 peer objects, <=2 batches x <=2 requests, NumRetries {0,1,2} x NoRetryMax {no,yes}, "
             "<=2-3 failures per history. Trusts TLC, the scripted worker's adherence to the Worker contract (checked "
             "on worker.Run separately, not in composition), and that environment events arrive while the dispatcher "
             "is settled (races inside the microsecond hand-off window are not scheduled). The meaning of a retry cap "
             "(n attempts in total) is conformance (drift), not a verdict; an idle-timeout verdict is accepted only "
             "for the wake of the batch's CURRENT idle window (a wake of a window in which a success was accounted "
             "must be dropped), and after the hard deadline the next accounted result must end the batch. Hangs are "
             "reported after 1.5 s (normal step < 1 ms) with a goroutine dump.",
        design="4 C12", technique="TLA+ spec + TLC exhaustive + spec-to-code replay of every transition + trace "
                                  "validation of recorded executions + TLC-judged observed traces"),
}

PROPS = {
    "C12": ["AtMostOneVerdict", "SuccessMeansAllAnswered", "ErrorHasCause", "AllAnsweredGetsVerdict",
            "QueryReturns", "ResultAccepted", "StopReturns", "NoPanic", "OneVerdictAfterStop",
            "PrefersBetterRanked", "PrefersBetterRecord", "ReissueWhenAvailable", "HardDeadlineEndsBatch",
            "IdleTimeoutEndsBatch"],
}
# the worker's part of C12 (specs/WorkManager/Worker.tla, WorkerProps.tla)
WPROPS = ["WorkerOneResultPerJob", "WorkerSuccessMeansFinished", "WorkerResultNamesCause",
          "WorkerTimeoutAfterQuiet", "WorkerLeavesOnlyOnDisconnect", "WorkerNoSendForCanceledJob",
          "WorkerStopReturns", "WorkerTimeoutWhenQuiet"]
WCONF = {"quick": dict(MaxJobs=2, MaxMsgs=3, MaxTicks=3), "thorough": dict(MaxJobs=3, MaxMsgs=4, MaxTicks=4)}
WOFF = 10000000      # trace ids of the worker part

CODE_VERSION = json.load(open(os.path.join(SPEC, "code_version.json")))

BASE = dict(NAddr=2, MaxConn=2, MaxBatch=1, MaxReq=2, Retries="{2}", NoMaxes="{0}", Hards="{0}", Progs="{0}",
            MaxFail=1, MaxExit=0, MaxCancel=0, MaxStale=0, MaxOk=2)

def cfg(**kw):
    c = dict(BASE)
    c.update(kw)
    return c

# Several small exhaustive configurations ("slices") instead of one product:
# each one finishes in seconds and EVERY transition of each is replayed.
SLICES = {
    # "unlimited retries" is always NumRetries(0) + NoRetryMax(): the cap that must have no effect is the
    # one that would end a batch on its first failure.
    "quick": [
        # same-address reconnects (<=3 peer objects of ONE address), 2 batches, unlimited retries, idle exit
        ("reconnect1", cfg(NAddr=1, MaxConn=3, MaxBatch=2, Retries="{0}", NoMaxes="{1}", MaxExit=1)),
        # two addresses, failures/disconnects move the ranking, idle exit
        ("rank2", cfg(Retries="{0}", NoMaxes="{1}", MaxFail=2, MaxExit=1)),
        # retry caps 0, 1 and 2 (a cap of 0 alone is a real limit), caller cancellation
        ("retry1", cfg(Retries="{0,1,2}", MaxFail=2, MaxCancel=1)),
        # two batches in flight on two peers
        ("two", cfg(MaxBatch=2, MaxReq=1, Retries="{1}", MaxCancel=1)),
        # hard and idle timeouts on/off, stale and late wakes; NumRetries {0,2} x NoRetryMax {no,yes}
        # (unlimited retries + hard deadline + failing results: only the deadline can end such a batch)
        ("timersA", cfg(NAddr=1, MaxConn=1, Retries="{0,2}", NoMaxes="{0,1}", Hards="{0,1}", Progs="{0,1}",
                        MaxFail=2, MaxStale=1)),
        ("timersB", cfg(NAddr=1, MaxConn=1, MaxBatch=2, MaxReq=1, Hards="{1}", Progs="{1}", MaxStale=1)),
    ],
    "thorough": [
        ("reconnect1", cfg(NAddr=1, MaxConn=3, MaxBatch=2, Retries="{0}", NoMaxes="{1}", MaxExit=1)),
        ("reconnect2", cfg(MaxConn=3, MaxBatch=2, Retries="{0}", NoMaxes="{1}", MaxExit=1)),
        ("rank2", cfg(Retries="{0}", NoMaxes="{1}", MaxFail=2, MaxExit=1)),
        ("retry2", cfg(MaxBatch=2, Retries="{1,2}", MaxFail=2)),
        # the full option product NumRetries {0,1,2} x NoRetryMax {no,yes}
        ("retry1", cfg(Retries="{0,1,2}", NoMaxes="{0,1}", MaxFail=3, MaxCancel=1)),
        ("cancel2", cfg(MaxBatch=2, MaxCancel=1)),
        ("timers1", cfg(Retries="{2}", NoMaxes="{0,1}", Hards="{0,1}", Progs="{0,1}", MaxFail=2, MaxStale=1)),
        ("timersA", cfg(NAddr=1, MaxConn=1, Retries="{0,2}", NoMaxes="{0,1}", Hards="{0,1}", Progs="{0,1}",
                        MaxFail=2, MaxStale=1)),
        ("timersB", cfg(NAddr=1, MaxConn=1, MaxBatch=2, MaxReq=2, Hards="{1}", Progs="{1}", MaxStale=1)),
        ("timersC", cfg(Hards="{1}", Progs="{1}", MaxStale=1, MaxCancel=1)),
        # three addresses competing by rank; four peer objects of one address; three requests per batch
        ("three", cfg(NAddr=3, MaxConn=3, Retries="{0}", NoMaxes="{1}", MaxFail=2, MaxExit=1)),
        ("reconnect4", cfg(NAddr=1, MaxConn=4, MaxBatch=2, Retries="{0}", NoMaxes="{1}", MaxExit=1)),
        ("req3", cfg(MaxReq=3, MaxFail=2, MaxOk=3, MaxCancel=1)),
    ],
}
# Design-level run (thorough only): a configuration too large to export and replay is model-checked with
# the property as an invariant (no model transition violates a clause, the dispatcher is never stuck).
DESIGN_CFG = cfg(MaxBatch=2, Hards="{0,1}", Progs="{0,1}", MaxStale=1)
FREE_RUNS = {"quick": 150, "thorough": 2000}          # free-running executions with real workers
MANY_RUNS = {"quick": 40, "thorough": 600}            # many-batch executions (1..40 batches) under virtual time
WALKS = {"quick": (0, 0), "thorough": (300, 24)}     # random walks per slice: (count, depth)

ASSUMPTIONS = [
    "workers behave like query/worker.go Run: while idle they are always ready to take a job, they take none "
    "while busy, they hand back exactly one result per job and return after a disconnect (this contract is "
    "checked separately on the real worker.Run, see worker_part in the evidence)",
    "the idle timer is represented by the wake it posts on progressWakes (posted by the driver, with the "
    "generation the model says); ProgressTimeout itself is an hour in replayed paths; real timers run in the "
    "repository's own tests, whose recorded dispatcher traces are validated against the same specification",
    "the hard deadline is a real time.After; 'expired' steps wait it out",
    "environment events arrive only while the dispatcher is settled (in its main select or stuck); the "
    "hand-off steps that follow an arm take microseconds and go first",
    "a hang is reported after %d ms without the expected dispatcher event (normal: < 1 ms), confirmed by a "
    "goroutine dump showing the dispatcher in its hand-off select" % 1500,
]


def label(act):
    op = act.get("op", "?")
    if op in ("Connect", "WorkerExit"):
        s = "%s(p%d#%d)" % (op, act["a"], act["i"])
    elif op == "Query":
        s = "Query(b%d,n%d,r%d%s,h%d,p%d)" % (act["b"], act["n"], act["retr"], "u" if act.get("nomax") else "",
                                              act["hard"], act["prog"])
    elif op == "Dispatch":
        s = "Dispatch(j%d->p%d#%d)" % (act["j"], act["a"], act["i"])
    elif op == "Gone":
        s = "Gone(p%d)" % act["a"]
    elif op == "Result":
        s = "Result(p%d#%d,j%d,e%d)" % (act["a"], act["i"], act["j"], act["e"])
    elif op == "Wake":
        s = "Wake(b%d,g%d)" % (act["b"], act["g"])
    elif op in ("Cancel", "HardFire"):
        s = "%s(b%d)" % (op, act["b"])
    elif op == "IdleElapsed":
        s = "IdleElapsed(b%d,g%d)" % (act["b"], act["g"])
    else:
        s = op
    return s + "=" + str(act.get("res"))


def wlabel(act):
    return "W.%s(%d,%d)=%s" % (act.get("op"), act.get("x", 0), act.get("y", 0), act.get("res"))


def anylabel(act):
    return wlabel(act) if "x" in act else label(act)


def worker_part(tier, seed, sc, binary, replay_pf=None):
    """worker.Run against Worker.tla: model, edge cover, replay, judge."""
    pf = replay_pf or os.path.join(sc, "wpaths.ndjson")
    info = {}
    tlc = g = None
    if not replay_pf:
        tlc = core.run_tlc([SPEC], "Worker", WCONF[tier], workers=1, invariants=["TypeOK", "NoViolation"],
                           workdir=os.path.join(sc, "tlc-worker"), timeout=1200)
        if not tlc.ok:
            raise core.MachineryError("TLC on Worker failed: %s\n%s" % (tlc.error, tlc.stdout_tail[-3000:]))
        g = core.Graph.load(tlc)
        rng = random.Random("%d/worker" % seed)
        paths, _ = core.edge_cover(g, rng)
        core.write_paths(g, paths, pf)
        info = {"slice": "worker.Run", "constants": {k: str(v) for k, v in WCONF[tier].items()},
                "states": tlc.distinct, "transitions": len(g.edges), "model_violating_edges": 0,
                "paths": len(paths), "tlc_wall_s": round(tlc.wall, 1)}
    observed, log = family.run_driver(binary, "TestVerifWorkerReplay", pf, os.path.join(sc, "wobs.ndjson"), sc,
                                      timeout=1800)
    verdict = family.judge([SPEC], "WorkerProps", WPROPS, "C12", observed, label=wlabel)
    dr = family.drift(pf, observed, label=wlabel)
    for t in observed:
        t["id"] += WOFF
    for v in verdict["violations"]:
        v["trace"] += WOFF
    return tlc, g, observed, verdict, dr, info


def merge_verdicts(a, b):
    a["violations"] += b["violations"]
    a["n_lines"] += b["n_lines"]
    a["raw"] += b["raw"]
    for k, v in b["known"].items():
        if k in a["known"]:
            a["known"][k]["count"] += v["count"]
        else:
            a["known"][k] = v
    return a


TOFF = 20000000      # trace ids of recorded free-running executions
RES_NAMES = {0: "discard", 1: "cancel", 2: "maxtries", 4: "done", 6: "hardtimeout"}
NOACT = dict(op="", res="ok", a=0, i=0, b=0, k=0, j=0, e=0, n=0, retr=0, nomax=0, hard=0, prog=0, g=0)


def convert_trace(events, cap=1500):
    """Hook events of one dispatcher -> (steps [{act, obs}], n_addr).  Only what
    the events say is used: verdicts from the outcome codes logged next to the
    errChan sends, answers from nil results.  Unlogged environment steps that an
    event implies are inserted (WorkerExit before Gone, Cancel before a canceled
    result, HardFire before a hard-timeout outcome)."""
    amap, inst, batches, verd, ans, holder = {}, {}, [], [], [], {}
    steps = []
    free = any(e["ev"] == "Free" for e in events[:1])      # real workers, real handlers
    # executions under virtual time (many-batch driver): every event carries its time, BatchOpt the
    # durations of a batch's timers, Quiet marks quiescence, Got what a caller read from its channel
    real, bopt, win, wstart, told, last_disp = [], {}, {}, {}, set(), [None]
    OTHER_GOROUTINES = ("Answered", "Final", "Free", "Many", "BatchOpt", "Got", "Quiet")
    truth = set()                                           # (batch, request) whose handler said Finished
    exited = set()                                          # (addr, instance) that handed back a disconnect
    finals = {e["x"]: e for e in events if e["ev"] == "Final"}

    def real_verdicts():
        out = []
        for bi in range(len(batches)):
            f = finals.get(bi)
            if f is None:
                out.append(list(verd[bi]))
                continue
            ds = [int(c) - 1 for c in str(f["z"])] if f["z"] else []
            out.append(ds[:f["y"]])
        return out

    def job_of(j):
        for bi, b in enumerate(batches):
            if b["first"] <= j < b["first"] + b["n"]:
                return bi + 1, j - b["first"] + 1
        return 0, 0

    def disp_after(idx):
        for e in events[idx + 1:]:
            if e["ev"] in OTHER_GOROUTINES:      # logged by other goroutines
                continue
            if e["ev"] == "Wait":
                return 0
            return 1
        return 1

    def emit(idx, **kw):
        a = dict(NOACT)
        a.update(kw)
        steps.append({"act": a, "obs": {"verd": [list(v) for v in verd], "ans": [list(v) for v in ans],
                                        "score": [-1] * 0, "disp": disp_after(idx) if idx is not None else 1}})

    njobs = 0
    for idx, e in enumerate(events):
        ev = e["ev"]
        if ev in ("Quit", "Exit", "StopHang"):
            if finals:
                # what the callers really read from their channels, before and after Stop
                verd[:] = real_verdicts()
                emit(None, op="Stop", res="hang" if any(x["ev"] == "StopHang" for x in events) else "ok")
                steps[-1]["obs"]["disp"] = 3
            break
        if len(steps) >= cap:
            break
        if ev not in OTHER_GOROUTINES:
            last_disp[0] = ev
        if ev in ("Wait", "Offer", "Free", "Final", "Many"):
            continue
        if ev == "BatchOpt":
            bopt[e["x"]] = (e["y"] * 1000, e["z"] * 1000)
            continue
        if ev == "Got":
            while len(real) <= e["x"]:
                real.append([])
            real[e["x"]].append(e["y"])
            continue
        if ev == "Quiet":
            # Everything has come to rest at (virtual) time e["t"].  Which timers have run out by now?
            # (x = 1: the dispatcher is inside a callback of its configuration, e.g. OnMaxTries)
            disp = 0 if last_disp[0] == "Wait" and e["x"] == 0 else 1
            # what the callers hold: a result the dispatcher logged counts only if the caller has read one
            rv = [list(verd[bi]) if bi < len(real) and real[bi] else [] for bi in range(len(batches))]
            for bi, b in enumerate(batches):
                pt, ht = bopt.get(bi, (0, 0))
                # the hard deadline has passed (time.After channel ready), dispatcher in its main select
                if (ht and disp == 0 and not b["hardx"] and not verd[bi] and b["hard"]
                        and e["t"] >= b["t0"] + ht):
                    b["hardx"] = True
                    emit(None, op="HardFire", b=bi + 1)
                    steps[-1]["obs"]["disp"] = disp
                # the idle window the batch is in has fully elapsed
                if pt and b["prog"] and e["t"] >= wstart[bi] + pt and (not rv[bi] or (bi, win[bi]) not in told):
                    told.add((bi, win[bi]))
                    emit(None, op="IdleElapsed", b=bi + 1, g=win[bi])
                    steps[-1]["obs"]["disp"] = disp
                    steps[-1]["obs"]["verd"] = rv
            continue
        if ev == "Answered":
            truth.add((e["x"] + 1, e["y"] + 1))
            continue
        if ev == "QueryBlocked":
            emit(None, op="Query", res="blocked", b=len(batches) + 1, n=1)
            continue
        if ev == "NewBatch":
            z = e["z"]
            retr, nomax = z & 255, (1 if z & 256 else 0)
            b = dict(n=e["y"], first=njobs + 1, retr=retr, nomax=nomax, hard=1 if z & 512 else 0, prog=1 if z & 1024 else 0,
                     cancel=False, hardx=False, t0=e.get("t", 0))
            win[len(batches)], wstart[len(batches)] = 1, e.get("t", 0)
            njobs += b["n"]
            batches.append(b)
            verd.append([])
            ans.append([0] * b["n"])
            emit(idx, op="Query", b=len(batches), n=b["n"], retr=retr, nomax=nomax, hard=b["hard"], prog=b["prog"])
        elif ev == "Connect":
            a = amap.setdefault(e["addr"], len(amap) + 1)
            inst[a] = inst.get(a, 0) + 1
            emit(idx, op="Connect", a=a, i=inst[a])
        elif ev == "Dispatch":
            a = amap.get(e["addr"], 0)
            j = e["x"] + 1
            b, k = job_of(j)
            holder[j] = (a, inst.get(a, 0))
            emit(idx, op="Dispatch", a=a, i=inst.get(a, 0), j=j, b=b, k=k)
        elif ev == "Gone":
            a = amap.get(e["addr"], 0)
            if (a, inst.get(a, 0)) not in exited:
                emit(None, op="WorkerExit", a=a, i=inst.get(a, 0))
                steps[-1]["obs"]["disp"] = 1
            emit(idx, op="Gone", a=a)
        elif ev == "Result":
            a = amap.get(e["addr"], 0)
            j = e["x"] + 1
            b, k = job_of(j)
            h = holder.get(j)
            i = h[1] if h and h[0] == a else inst.get(a, 0)
            err = e["err"] if e["err"] in (0, 1, 2, 3) else 4
            z = e["z"]
            if err == 3 and b and not batches[b - 1]["cancel"] and not batches[b - 1].get("icancel"):
                batches[b - 1]["cancel"] = True
                emit(None, op="Cancel", b=b)
                steps[-1]["obs"]["disp"] = 0
            yb = e["y"] + 1
            if z == 6 and 1 <= yb <= len(batches) and not batches[yb - 1]["hardx"]:
                batches[yb - 1]["hardx"] = True
                emit(None, op="HardFire", b=yb)
                steps[-1]["obs"]["disp"] = 0
            if err == 0 and b and (not free or (b, k) in truth):
                ans[b - 1][k - 1] = 1
            if z == 6 and 1 <= yb <= len(batches):
                batches[yb - 1]["icancel"] = True
            if 1 <= yb <= len(verd):
                if z == 1:
                    verd[yb - 1].append(3)
                elif z == 2:
                    verd[yb - 1].append(err)
                elif z == 4:
                    verd[yb - 1].append(0)
                elif z == 6:
                    verd[yb - 1].append(1)
            if err == 2:
                exited.add((a, i))
            res = RES_NAMES.get(z) or ("progress" if err == 0 else "requeue")
            if res == "progress" and (yb - 1) in win:
                # :643 the idle timer is re-armed: the next window starts now
                win[yb - 1] += 1
                wstart[yb - 1] = e.get("t", 0)
            emit(idx, op="Result", res=res, a=a, i=i, j=j, b=b, k=k, e=err)
        elif ev == "Wake":
            b = e["x"] + 1
            if e["z"] == 2 and 1 <= b <= len(verd):
                verd[b - 1].append(1)
                batches[b - 1]["icancel"] = True
            emit(idx, op="Wake", res=["nobatch", "stale", "timeout"][e["z"]], b=b, g=e["y"])
    n_addr = max(1, len(amap))
    for st in steps:
        st["obs"]["score"] = [-1] * n_addr
    return steps, n_addr


def tla_seq(xs):
    return "<<" + ", ".join(str(x) for x in xs) + ">>"


def validate_traces(traces, sc):
    """TLC: which of the recorded event streams are behaviours of WorkManager.tla
    (TraceWorkManager.tla)?  traces: list of step lists.  Returns per-trace
    (accepted, consumed, length)."""
    import subprocess
    wd = os.path.join(sc, "tracecheck")
    os.makedirs(wd, exist_ok=True)
    for f in os.listdir(SPEC):
        if f.endswith(".tla"):
            shutil.copy(os.path.join(SPEC, f), wd)
    starts, ends, n = [], [], 0
    n_addr = 1
    with open(os.path.join(wd, "trace.ndjson"), "w") as f:
        for steps in traces:
            starts.append(n + 1)
            for st in steps:
                f.write(json.dumps(st["act"], separators=(",", ":")) + "\n")
                n += 1
                n_addr = max(n_addr, st["act"]["a"])
            ends.append(n)
    if n == 0:
        return []
    open(os.path.join(wd, "MCT.tla"), "w").write(
        "---- MODULE MCT ----\nEXTENDS TraceWorkManager\nStartsV == %s\nEndsV == %s\n====\n" % (
            tla_seq(starts), tla_seq(ends)))
    big = 100000000
    consts = dict(NAddr=n_addr, MaxConn=big, MaxBatch=big, MaxReq=big, Retries="{0}", NoMaxes="{0}", Hards="{0}", Progs="{0}",
                  MaxFail=big, MaxExit=big, MaxCancel=big, MaxStale=big, MaxOk=big, FixStaleWorker=CODE_VERSION["FixStaleWorker"],
                  )
    cfg = ["INIT TInit", "NEXT TStep", "CONSTANTS"]
    cfg += ["  %s = %s" % (k, core.tla_value(v)) for k, v in consts.items()]
    cfg += ["  Starts <- StartsV", "  Ends <- EndsV"]
    cfg += ["CONSTRAINT HighWater", "POSTCONDITION Written", "CHECK_DEADLOCK FALSE"]
    open(os.path.join(wd, "MCT.cfg"), "w").write("\n".join(cfg) + "\n")
    env = dict(os.environ)
    env.pop("JAVA_TOOL_OPTIONS", None)
    p = subprocess.run(["timeout", "900", "java", "-XX:+UseParallelGC", "-Xss64m", "-cp", core.TLA_CP, "tlc2.TLC",
                        "-workers", "1", "-metadir", os.path.join(wd, "meta"), "-noGenerateSpecTE", "MCT.tla"],
                       cwd=wd, stdout=subprocess.PIPE, stderr=subprocess.STDOUT, text=True, env=env)
    hwf = os.path.join(wd, "hw.json")
    if not os.path.exists(hwf):
        raise core.MachineryError("trace validation TLC failed rc=%d\n%s" % (p.returncode, p.stdout[-3000:]))
    hw = json.load(open(hwf))
    out = []
    for t in range(len(traces)):
        consumed = hw[t] - starts[t]
        out.append((hw[t] == ends[t] + 1, consumed, len(traces[t])))
    shutil.rmtree(wd, ignore_errors=True)
    return out


def recorded_part(sc, binary, prop_id, tests="^TestWorkManager", env_extra=None, off=TOFF, tag="rec"):
    """Free-running executions recorded by the dispatcher hooks (the repository's
    own work-manager tests, or the family's free-running runs with real workers):
    every recorded execution is (a) judged by WorkManagerProps like a replayed
    trace and (b) validated against the specification (TraceWorkManager.tla)."""
    import subprocess
    rec = os.path.join(sc, tag + ".ndjson")
    env = core.go_env()
    env["VERIF_TRACE_OUT"] = rec
    env.update(env_extra or {})
    p = subprocess.run([binary, "-test.run", tests, "-test.count=1", "-test.timeout", "300s"],
                       cwd=PKG, env=env, stdout=subprocess.PIPE, stderr=subprocess.STDOUT, text=True)
    info = {"tests_exit": p.returncode}
    if not os.path.exists(rec):
        raise core.MachineryError("recording the repository's tests failed rc=%d\n%s" % (p.returncode, p.stdout[-2000:]))
    observed, lens = [], []
    for line in open(rec):
        d = json.loads(line)
        steps, n_addr = convert_trace(d["events"])
        if not steps:
            continue
        observed.append({"id": off + d["id"], "init_obs": {"verd": [], "ans": [], "score": [-1] * n_addr, "disp": 0},
                         "steps": steps})
        lens.append(len(d["events"]))
    verdict = family.judge([SPEC], "WorkManagerProps", PROPS[prop_id], prop_id, observed, label=label)
    os.remove(rec)
    acc = validate_traces([t["steps"] for t in observed], sc)
    rejected = [{"trace": observed[x]["id"], "accepted_steps": c, "of": n,
                 "next": label(observed[x]["steps"][c]["act"]) if c < n else None}
                for x, (ok, c, n) in enumerate(acc) if not ok]
    info.update({"recorded_traces": len(observed), "recorded_events": sum(lens),
                 "steps_judged": sum(len(t["steps"]) for t in observed),
                 "accepted_by_TraceWorkManager": sum(1 for a in acc if a[0]),
                 "rejected_by_TraceWorkManager": rejected})
    return observed, verdict, info


class _Agg:
    """Sum of several TLC runs / graphs, shaped like what family.finish reads."""
    def __init__(self):
        self.generated = self.distinct = self.depth = 0
        self.wall = 0.0
        self.edges = []


def model_paths(tier, seed, sc, pf):
    """Runs TLC on every slice (in parallel), writes the merged path file.
    Returns (agg, n_paths, per-slice info, unreachable)."""
    from concurrent.futures import ThreadPoolExecutor
    slices = SLICES[tier]

    def one(item):
        name, consts = item
        c = dict(consts)
        c.update(CODE_VERSION)
        tlc = core.run_tlc([SPEC], "WorkManager", c, workers=1, invariants=["TypeOK"],
                           workdir=os.path.join(sc, "tlc-" + name), timeout=3000)
        if not tlc.ok:
            raise core.MachineryError("TLC on WorkManager[%s] failed: %s\n%s" % (
                name, tlc.error, tlc.stdout_tail[-3000:]))
        g = core.Graph.load(tlc)
        rng = random.Random("%d/%s" % (seed, name))
        paths, unreach = core.edge_cover(g, rng)
        nw, depth = WALKS[tier]
        if nw:
            paths += core.random_walks(g, nw, depth, rng)
        fn = os.path.join(sc, "paths-%s.ndjson" % name)
        core.write_paths(g, paths, fn)
        shutil.rmtree(os.path.join(sc, "tlc-" + name), ignore_errors=True)
        return name, c, tlc, g, len(paths), unreach, fn

    with ThreadPoolExecutor(max_workers=min(8, len(slices))) as ex:
        res = list(ex.map(one, slices))
    agg = _Agg()
    info, n, unreach_all = [], 0, 0
    with open(pf, "w") as out:
        for name, c, tlc, g, np_, unreach, fn in res:
            agg.generated += tlc.generated
            agg.distinct += tlc.distinct
            agg.depth = max(agg.depth, tlc.depth)
            agg.wall += tlc.wall
            agg.edges += g.edges
            unreach_all += unreach
            for line in open(fn):
                d = json.loads(line)
                d["id"] = n
                n += 1
                out.write(json.dumps(d, separators=(",", ":")) + "\n")
            os.remove(fn)
            info.append({"slice": name, "constants": {k: str(v) for k, v in c.items()},
                         "states": tlc.distinct, "transitions": len(g.edges),
                         "model_violating_edges": sum(1 for e in g.edges if e[4]),
                         "paths": np_, "tlc_wall_s": round(tlc.wall, 1)})
    return agg, n, info, unreach_all


def judge_parallel(observed, prop_id, chunks=8):
    """family.judge on chunks of the observed traces, in parallel (one TLC each)."""
    from concurrent.futures import ThreadPoolExecutor
    if len(observed) < 200:
        chunks = 1
    parts = [observed[i::chunks] for i in range(chunks)]
    parts = [p for p in parts if p]
    known = core.load_known()

    def one(part):
        return family.judge([SPEC], "WorkManagerProps", PROPS[prop_id], prop_id, part, label=label, known=known)

    with ThreadPoolExecutor(max_workers=len(parts) or 1) as ex:
        res = list(ex.map(one, parts))
    out = {"violations": [], "known": {}, "n_lines": 0, "wall": 0.0, "raw": 0}
    for r in res:
        out["violations"] += r["violations"]
        out["n_lines"] += r["n_lines"]
        out["wall"] = max(out["wall"], r["wall"])
        out["raw"] += r["raw"]
        for k, v in r["known"].items():
            if k in out["known"]:
                out["known"][k]["count"] += v["count"]
            else:
                out["known"][k] = v
    out["violations"].sort(key=lambda v: v["trace"])
    return out


def run(prop_id, tier, seed, replay=None):
    t0 = time.time()
    sc = core.scratch("wm")
    try:
        binary = family.build_overlay_test(PKG, [DRIVER, DRIVER_W, DRIVER_F, DRIVER_M], os.path.join(sc, "query.test"))
        pf = os.path.join(sc, "paths.ndjson")
        extra = {}
        if replay:
            family.paths_from_replay(replay, pf)
            agg, n_paths, unreach = family._NoTLC(), 1, 0
            graph = None
            if "x" in json.load(open(replay))["trace"]["steps"][0]["act"]:
                _, _, observed, verdict, dr, _ = worker_part(tier, seed, sc, binary, replay_pf=pf)
                return family.finish(prop_id, tier, seed, t0, agg, None, [0], observed, verdict, dr,
                                     {}, ASSUMPTIONS, label=anylabel)
        else:
            agg, n_paths, info, unreach = model_paths(tier, seed, sc, pf)
            graph = agg
            extra["slices"] = info
        observed, log = family.run_driver(binary, "TestVerifWorkManagerReplay", pf,
                                          os.path.join(sc, "obs.ndjson"), sc, timeout=3000)
        verdict = judge_parallel(observed, prop_id)
        dr = family.drift(pf, observed, label=label)
        if not replay:
            wtlc, wg, wobs, wverdict, wdr, winfo = worker_part(tier, seed, sc, binary)
            agg.generated += wtlc.generated
            agg.distinct += wtlc.distinct
            agg.wall += wtlc.wall
            agg.edges += wg.edges
            n_paths += len(wobs)
            extra["slices"].append(winfo)
            observed = observed + wobs
            verdict = merge_verdicts(verdict, wverdict)
            dr = (dr[0] + wdr[0], dr[1] + wdr[1], dr[2] + wdr[2])
            try:
                robs, rverdict, rinfo = recorded_part(sc, binary, prop_id)
                observed = observed + robs
                n_paths += len(robs)
                verdict = merge_verdicts(verdict, rverdict)
                rej = rinfo["rejected_by_TraceWorkManager"]
                dr = (dr[0] + rinfo["steps_judged"], dr[1] + len(rej),
                      dr[2] + [{"trace": r["trace"], "step": r["accepted_steps"] + 1,
                                "what": "recorded execution of the repository's tests is not a behaviour of "
                                        "WorkManager.tla at " + str(r["next"])} for r in rej[:3]])
                extra["repo_tests_traced"] = rinfo
                fobs, fverdict, finfo = recorded_part(
                    sc, binary, prop_id, tests="^TestVerifWorkManagerFree$", off=2 * TOFF, tag="free",
                    env_extra={"VERIF_FREE_N": str(FREE_RUNS[tier]), "VERIF_SEED": str(seed)})
                observed = observed + fobs
                n_paths += len(fobs)
                verdict = merge_verdicts(verdict, fverdict)
                rej = finfo["rejected_by_TraceWorkManager"]
                dr = (dr[0] + finfo["steps_judged"], dr[1] + len(rej),
                      dr[2] + [{"trace": r["trace"], "step": r["accepted_steps"] + 1,
                                "what": "free-running execution (real workers) is not a behaviour of "
                                        "WorkManager.tla at " + str(r["next"])} for r in rej[:3]])
                extra["free_running"] = finfo
            except core.MachineryError as e:
                # the repository's tests could not be recorded (they may be broken by the change under
                # test): the replay verdicts stand on their own
                extra["repo_tests_traced"] = {"error": str(e)[:500]}
        if not replay:
            try:
                # 1..40 batches in flight at once, real idle / hard timers under virtual time (synctest)
                mobs, mverdict, minfo = recorded_part(
                    sc, binary, prop_id, tests="^TestVerifWorkManagerMany$", off=3 * TOFF, tag="many",
                    env_extra={"VERIF_MANY_N": str(MANY_RUNS[tier]), "VERIF_SEED": str(seed)})
                observed = observed + mobs
                n_paths += len(mobs)
                verdict = merge_verdicts(verdict, mverdict)
                rej = minfo["rejected_by_TraceWorkManager"]
                dr = (dr[0] + minfo["steps_judged"], dr[1] + len(rej),
                      dr[2] + [{"trace": r["trace"], "step": r["accepted_steps"] + 1,
                                "what": "many-batch execution (virtual time) is not a behaviour of "
                                        "WorkManager.tla at " + str(r["next"])} for r in rej[:3]])
                minfo["max_batches_in_one_execution"] = max(
                    [sum(1 for st in t["steps"] if st["act"]["op"] == "Query") for t in mobs] or [0])
                minfo["idle_windows_elapsed_judged"] = sum(
                    1 for t in mobs for st in t["steps"] if st["act"]["op"] == "IdleElapsed")
                extra["many_batches"] = minfo
            except core.MachineryError as e:
                extra["many_batches"] = {"error": str(e)[:500]}
                print("many-batch executions could not be recorded (not a verdict): %s" % str(e)[:300],
                      file=sys.stderr)
        if tier == "thorough" and not replay and CODE_VERSION.get("FixStaleWorker"):
            c = dict(DESIGN_CFG)
            c.update(CODE_VERSION)
            d = core.run_tlc([SPEC], "WorkManager", c, export=False, workers=8, timeout=2400,
                             invariants=["TypeOK", "NoViolation", "NeverBlocked"],
                             workdir=os.path.join(sc, "tlc-design"))
            extra["design_level"] = {"constants": {k: str(v) for k, v in c.items()}, "states": d.distinct,
                                     "states_generated": d.generated, "depth": d.depth,
                                     "invariants": ["TypeOK", "NoViolation", "NeverBlocked"],
                                     "result": "holds" if d.ok else (d.error or "failed"),
                                     "wall_s": round(d.wall, 1)}
            if not d.ok:
                print("model-level: the design-level configuration did not pass (%s); not a verdict" % d.error,
                      file=sys.stderr)
        extra.update({"code_version": CODE_VERSION,
                      "edges_only_reachable_through_model_violation": unreach,
                      "hangs_observed": sum(1 for t in observed for s in t["steps"] if s.get("dump"))})
        return family.finish(prop_id, tier, seed, t0, agg, graph, [0] * n_paths, observed, verdict, dr,
                             extra, ASSUMPTIONS, label=anylabel)
    finally:
        shutil.rmtree(sc, ignore_errors=True)
