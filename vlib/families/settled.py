"""Settled steps: the part of a fine-grained (one action per select arm) TLC graph that can be OBSERVED on code whose
goroutines cannot be scheduled from outside.  Shared by the ConcQueue and BatchWriter slices (helper, no check).

The fine graph interleaves environment actions (act.op == "Env", exactly one party field differs from "none") with
the component's own arms (any other act.op).  On the real code the driver can only make environment parties act and
then wait until every goroutine is blocked (testing/synctest), so what it sees are SETTLED states (no arm enabled,
obs.settled == 1) connected by steps "these parties acted at once, then the arms ran until none was enabled".

  macro_graph(fine, parties)   every such step the model allows: from every settled state, for every non-empty set of
                               party commands (at most one per party, each enabled when it is issued), every settled
                               state reachable by issuing exactly these commands in any order interleaved with any
                               arms; returned as a core.Graph whose edges carry act = {"op": "Step", <party>: <cmd>}
  Validator                    checks an observed run step by step against the macro graph, tracking the SET of model
                               states that agree with everything observed (observables do not always determine the
                               state, e.g. which of two ready arms the goroutine took shows only later)
"""
import itertools, json, os
from .. import core, family


class Fine:
    def __init__(self):
        self.ids = {}
        self.state = []     # node -> State record
        self.obs = []       # node -> Obs record
        self.out = []       # node -> [(act, to, viol)]
        self.inits = []

    def node(self, st, obs=None):
        k = json.dumps(st, sort_keys=True, separators=(",", ":"))
        n = self.ids.get(k)
        if n is None:
            n = len(self.state)
            self.ids[k] = n
            self.state.append(st)
            self.obs.append(obs)
            self.out.append([])
        elif obs is not None and self.obs[n] is None:
            self.obs[n] = obs
        return n

    @classmethod
    def load(cls, run):
        f = cls()
        for line in open(run.inits_path):
            d = json.loads(line)
            f.inits.append(f.node(d["init"], d["obs"]))
        seen = set()
        for line in open(run.edges_path):
            d = json.loads(line)
            a, b = f.node(d["from"]), f.node(d["to"], d["obs"])
            key = (a, json.dumps(d["act"], sort_keys=True), b)
            if key in seen:
                continue
            seen.add(key)
            f.out[a].append((d["act"], b, d.get("viol", [])))
        return f

    def n_edges(self):
        return sum(len(o) for o in self.out)


def _cmd(act, parties):
    """(party, command) of an Env action."""
    for p in parties:
        if act.get(p, "none") != "none":
            return (p, act[p])
    raise core.MachineryError("Env action without a party: %r" % (act,))


def macro_graph(fine, parties, max_parties=None, allow=None):
    """allow(combo) -> bool restricts which sets of commands may act at once (combo: dict party -> command)."""
    settled = [o is not None and o.get("settled") == 1 for o in fine.obs]
    g = core.Graph()
    gid = {}

    def gnode(n):
        if n not in gid:
            gid[n] = g.node(fine.state[n])
        return gid[n]

    for n in fine.inits:
        if not settled[n]:
            raise core.MachineryError("an initial state is not settled")
        g.inits.append((gnode(n), fine.obs[n]))
        g.init_state[gnode(n)] = fine.state[n]
    fine_of = {}
    nondet = 0
    # only what settled runs from the initial states reach
    work, done = list(fine.inits), set(fine.inits)
    while work:
        n = work.pop()
        avail = {}
        for act, to, v in fine.out[n]:
            if act["op"] == "Env":
                p, c = _cmd(act, parties)
                avail.setdefault(p, set()).add(c)
        choices = [[None] + sorted(avail.get(p, ())) for p in parties]
        for combo in itertools.product(*choices):
            cmds = frozenset((p, c) for p, c in zip(parties, combo) if c is not None)
            if not cmds or (max_parties and len(cmds) > max_parties):
                continue
            if allow and not allow(dict(cmds)):
                continue
            # every settled state reachable by issuing exactly these commands, arms in between
            ends, seen, stack = {}, set(), [(n, cmds, False)]
            while stack:
                x, rem, bad = stack.pop()
                if (x, rem, bad) in seen:
                    continue
                seen.add((x, rem, bad))
                if not rem and settled[x]:
                    ends[x] = ends.get(x, True) and bad
                    continue
                for act, to, v in fine.out[x]:
                    if act["op"] == "Env":
                        c = _cmd(act, parties)
                        if c in rem:
                            stack.append((to, rem - {c}, bad or bool(v)))
                    else:
                        stack.append((to, rem, bad or bool(v)))
            act = {"op": "Step"}
            for p in parties:
                act[p] = dict(cmds).get(p, "none")
            if len(ends) > 1:
                nondet += 1
            a = gnode(n)
            for e, bad in sorted(ends.items()):
                b = gnode(e)
                g.out[a].append(len(g.edges))
                g.edges.append((a, act, b, fine.obs[e], ["ModelViolation"] if bad else []))
                fine_of[b] = e
                if e not in done:
                    done.add(e)
                    work.append(e)
        fine_of[gnode(n)] = n
    g.nondeterministic_steps = nondet
    g.fine_of = fine_of
    return g


class Validator:
    """Is an observed run a run of the macro graph?"""

    def __init__(self, g, strip=()):
        self.g = g
        self.strip = strip
        self.by_obs = {}
        self.node_obs = {}
        for n, o in g.inits:
            self.node_obs[n] = o
        for (f, a, t, o, v) in g.edges:
            self.node_obs[t] = o
        for n, o in self.node_obs.items():
            self.by_obs.setdefault(self.key(o), set()).add(n)
        self.succ = {}
        for i, (f, a, t, o, v) in enumerate(g.edges):
            self.succ.setdefault((f, self.key(a)), []).append(i)
        self.edges_seen = set()
        self.ambiguous = 0

    def key(self, o):
        if self.strip and isinstance(o, dict):
            o = {k: v for k, v in o.items() if k not in self.strip}
        return json.dumps(o, sort_keys=True, separators=(",", ":"))

    def check(self, trace, predicted=None):
        """Returns (steps validated, None) or (steps validated before, description of the step that is not a step
        of the model).  predicted: the model path the driver was given (to count allowed-but-different outcomes)."""
        cur = set(self.by_obs.get(self.key(trace["init_obs"]), ()))
        if not cur:
            return 0, {"step": 0, "what": "initial observables are no state of the model", "code": trace["init_obs"]}
        alt = 0
        for i, s in enumerate(trace["steps"]):
            ak, ok = self.key(s["act"]), self.key(s["obs"])
            nxt, possible = set(), set()
            for n in cur:
                for ei in self.succ.get((n, ak), ()):
                    t, o = self.g.edges[ei][2], self.g.edges[ei][3]
                    possible.add(self.key(o))
                    if self.key(o) == ok:
                        nxt.add(t)
                        self.edges_seen.add(ei)
            if not nxt:
                return i, {"step": i + 1, "act": s["act"], "code_obs": s["obs"],
                           "model_allows": [json.loads(x) for x in sorted(possible)][:4],
                           "what": "no step of the model" if possible else "the model has no such step in this state"}
            if len(nxt) > 1:
                self.ambiguous += 1
            if predicted is not None and i < len(predicted) and self.key(predicted[i]["obs"]) != ok:
                alt += 1
            cur = nxt
        self.alt = getattr(self, "alt", 0) + alt
        return len(trace["steps"]), None


def stall_walks(g, n, depth, rng, party="c", seg=(3, 12), late=None, late_after=0.75):
    """Walks in which one party (the consumer) does nothing for whole segments and is the only one to act in the
    segments in between.  Steps for which late(act) holds (shutting the component down) are not taken before
    late_after * depth steps were made, so that the walks get long."""
    paths = []
    for _ in range(n):
        node = rng.choice(g.inits)[0]
        path, stalled, left = [], True, rng.randint(*seg)
        for k in range(depth):
            outs = g.out[node]
            if late and k < late_after * depth:
                outs = [ei for ei in outs if not late(g.edges[ei][1])] or outs
            if not outs:
                break
            if stalled:
                pref = [ei for ei in outs if g.edges[ei][1].get(party, "none") == "none"]
            else:
                pref = [ei for ei in outs if g.edges[ei][1].get(party, "none") != "none"
                        and all(v == "none" or k2 in ("op", party) for k2, v in g.edges[ei][1].items())]
            ei = rng.choice(pref or outs)
            path.append(ei)
            if g.edges[ei][4]:
                break
            node = g.edges[ei][2]
            left -= 1
            if left <= 0 or not pref:
                stalled, left = not stalled, rng.randint(*seg)
        if path:
            paths.append(path)
    return paths


def run_graph(spec_dirs, props_module, prop_names, prop_id, binary, test_name, g, paths, sc, name, seed, label, what):
    """Runs the paths of a settled graph on the real code, judges the observed steps (TLC, Props) and validates them
    against the graph.  Returns (observed, verdict, (steps validated, runs with a step that is no step of the model,
    samples), info)."""
    pf = os.path.join(sc, "%s.paths.ndjson" % name)
    core.write_paths(g, paths, pf)
    observed, _ = family.run_driver(binary, test_name, pf, os.path.join(sc, "%s.obs.ndjson" % name), sc,
                                    timeout=2400, env_extra={"VERIF_SEED": str(seed)})
    errs = [t["error"] for t in observed if t.get("error")]
    if errs:
        raise core.MachineryError("%s driver: %d paths ended in a driver error, e.g. %s" % (what, len(errs), errs[0][:800]))
    verdict = family.judge(spec_dirs, props_module, prop_names, prop_id, observed, label=label)
    val = Validator(g)
    pred = {}
    for line in open(pf):
        d = json.loads(line)
        pred[d["id"]] = d["steps"]
    n_steps = n_drift = 0
    samples = []
    for t in observed:
        k, bad = val.check(t, pred.get(t["id"]))
        n_steps += k
        if bad:
            n_drift += 1
            if len(samples) < 5:
                bad["trace"] = t["id"]
                bad["labels"] = [label(s["act"]) for s in t["steps"][:bad["step"]]]
                samples.append(bad)
    info = dict(paths=len(observed), steps=sum(len(t["steps"]) for t in observed),
                cut=sum(1 for t in observed if t.get("cut")), leaked=sum(1 for t in observed if t.get("leaked")),
                alt=getattr(val, "alt", 0), edges_seen=len(val.edges_seen), ambiguous=val.ambiguous)
    return observed, verdict, (n_steps, n_drift, samples), info


def replay_saved(spec_dirs, props_module, prop_names, prop_id, binary, test_name, replay_file, label, copies=40):
    """Re-executes the schedule of a saved violation `copies` times (the outcome of a step in which several parties
    act at once is the code's choice) and judges every run.  Returns the exit code."""
    sc = core.scratch("rp")
    try:
        tr = json.load(open(replay_file))["trace"]
        steps = [{"act": s["act"], "obs": s["obs"], "viol": []} for s in tr["steps"]]
        pf = os.path.join(sc, "paths.ndjson")
        with open(pf, "w") as f:
            for i in range(copies):
                f.write(json.dumps({"id": i, "init_obs": tr.get("init_obs"), "steps": steps}) + "\n")
        observed, _ = family.run_driver(binary, test_name, pf, os.path.join(sc, "obs.ndjson"), sc,
                                        env_extra={"VERIF_SEED": "1"})
        errs = [t["error"] for t in observed if t.get("error")]
        if errs:
            raise core.MachineryError("replay: driver error: %s" % errs[0][:800])
        verdict = family.judge(spec_dirs, props_module, prop_names, prop_id, observed, label=label)
        for v in verdict["violations"][:3]:
            print("VIOLATION property=%s replay=%s" % (prop_id, replay_file))
            print("  violated: %s at step %d of: %s" % (",".join(v["props"]), v["step"], " ".join(v["labels"])))
        print("replay: %d of %d executions of the schedule violated the property" % (len(verdict["violations"]), copies))
        return 1 if verdict["violations"] else 0
    finally:
        import shutil
        shutil.rmtree(sc, ignore_errors=True)
