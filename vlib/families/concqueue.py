"""ConcQueue: the unbounded concurrent FIFO queue (slice of the BlockNtfns / Shutdown families).

Not a registered check of its own: `run_slice(prop_id, tier, seed)` is called by the checks of C11 (and C17), which
merge the coverage it returns into their evidence with `merge_evidence`.

Two implementations of the same select loop are bound to specs/ConcQueue/ConcQueue.tla:

  lnd        github.com/lightningnetwork/lnd/queue v1.0.1 ConcurrentQueue: THE queue behind every block
             subscription (blockntfns/manager.go:29 ntfnQueue, :212 queue.NewConcurrentQueue(20)); driver compiled
             into package blockntfns                                                    -> C11
  chanutils  /repo/chanutils/queue.go ConcurrentQueue[T]: the queue inside chanutils.BatchWriter (its only user);
             has the extra closed-input exit (HasCloseIn)                               -> C17 (BatchWriter)

  model    ConcQueue.tla, one action per select arm, environment (producer, consumer, owner) acting at any moment;
           TLC explores it exhaustively (invariants: the Props clauses hold on every transition, items are conserved,
           `settled` is exactly "no arm enabled") and exports every transition
  paths    settled.py derives the SETTLED steps (a set of parties acts at once, arms run until none is enabled) with
           every outcome the interleavings allow; every settled step is covered by a path, plus walks in which the
           consumer is stalled for whole segments
  replay   harness/overlay/chanutils/zz_verif_concqueue_test.go in testing/synctest bubbles: the parties of a step
           are started without waiting for one another, then synctest.Wait(): "the send has not completed", "the
           consumer is parked", "Stop has not returned" are exact observations, not timeouts
  judge    ConcQueueProps.tla on the OBSERVED steps (TLC); drift = an observed step that is no settled step of the
           model (trace validation against the set of outcomes the model allows)
"""
import json, os, random, shutil, sys, time
from .. import core, family
from . import settled

READY = False          # a slice, not a property owner: bin/vcheck must not register it
PROPERTIES = []

SPEC = os.path.join(core.VERIF, "specs", "ConcQueue")
DRIVER = os.path.join(core.VERIF, "harness", "overlay", "chanutils", "zz_verif_concqueue_test.go")
IMPL = {
    "chanutils": dict(pkg=os.path.join(core.REPO, "chanutils"), pkgname="chanutils", close_in=True,
                      adapter=os.path.join(core.VERIF, "harness", "overlay", "chanutils", "zz_verif_concqueue_impl_test.go")),
    "lnd": dict(pkg=os.path.join(core.REPO, "blockntfns"), pkgname="blockntfns", close_in=False,
                adapter=os.path.join(core.VERIF, "harness", "overlay", "blockntfns", "zz_verif_concqueue_impl_test.go")),
}
PARTIES = ("p", "c", "s")

CLAUSES = ["FifoPrefix", "SendNeverBlocksWhileRunning", "NoneDropped", "NothingAfterStop", "StopReturns"]
# C11: "in emission order with none dropped, however slowly the subscriber reads ... One subscriber's slowness ...
# never delays ... another [the handler's send into a subscriber's queue completes] ... after cancellation or
# shutdown its channel is closed [blockntfns closes it after ntfnQueue.Stop() returned] and nothing further is sent".
# C17: Stop returns; for the BatchWriter's queue also the order / no-loss clauses its own contract (items handed to
# PutItems in order, at most once) rests on.
PROPS = {"C11": CLAUSES, "C17": CLAUSES}
# which implementation a property rests on: block subscriptions use lnd/queue, BatchWriter uses chanutils
VARIANTS = {"C11": ["lnd"], "C17": ["chanutils"]}

CONFIGS = {
    "quick": dict(bufs=[0, 1, 3], MaxSend=8, walks=150, stall=150, depth=30),
    "thorough": dict(bufs=[0, 1, 3], MaxSend=12, walks=1500, stall=1500, depth=60),
}
# thorough: long runs (up to 40 items) on the graph of one buffer size at a time
LONG = dict(bufs=[[0], [3]], MaxSend=40, stall=400, depth=140, seg=(4, 40))

ASSUMPTIONS = [
    "one producer, one consumer and one owner (Start/Stop) per queue, as in blockntfns (handler goroutine -> "
    "ntfnQueue -> forwarding goroutine) and in BatchWriter (AddItem callers are serialised by the unbuffered ChanIn)",
    "testing/synctest: when synctest.Wait() returns every goroutine of the bubble is durably blocked, so a send / "
    "receive / Stop that has not completed then stays blocked until the environment acts again",
    "Start after Stop and a send after the producer closed ChanIn are not part of the model",
]


def label(act):
    if act.get("op") != "Step":
        return act.get("op", "?")
    return "Step(%s)" % ",".join(act[p] for p in PARTIES if act.get(p, "none") != "none")


def _tlc(bufs, max_send, close_in, wd):
    tlc = core.run_tlc([SPEC], "ConcQueue", dict(MaxSend=max_send, HasCloseIn=close_in),
                       cfg_extra="CONSTANT Bufs <- BufSet", extra_defs="BufSet == {%s}" % ", ".join(map(str, bufs)),
                       invariants=["TypeOK", "NoViolation", "SettledIsExact", "Conservation"], workers=1,
                       workdir=wd, timeout=2400, heap="4g")
    if not tlc.ok:
        raise core.MachineryError("TLC on ConcQueue failed: %s\n%s" % (tlc.error, tlc.stdout_tail[-3000:]))
    return tlc


def build(variant, sc):
    im = IMPL[variant]
    common = DRIVER
    if im["pkgname"] != "chanutils":
        # the shared driver, compiled into the package that can see the other implementation
        src = open(DRIVER).read()
        if src.count("\npackage chanutils\n") != 1:
            raise core.MachineryError("cannot rewrite the package clause of %s" % DRIVER)
        d = os.path.join(sc, "src-" + variant)
        os.makedirs(d, exist_ok=True)
        common = os.path.join(d, os.path.basename(DRIVER))
        open(common, "w").write(src.replace("\npackage chanutils\n", "\npackage %s\n" % im["pkgname"]))
    return family.build_overlay_test(im["pkg"], [common, im["adapter"]], os.path.join(sc, "cq-%s.test" % variant))


def _run_graph(prop_id, variant, binary, g, paths, sc, name, seed):
    return settled.run_graph([SPEC], "ConcQueueProps", PROPS[prop_id], prop_id, binary, "TestVerifConcQueueReplay",
                             g, paths, sc, name, seed, label, "ConcQueue (%s)" % variant)


def _late(act):
    return act.get("s") == "Stop" or act.get("p") == "CloseIn"


def _explore(bufs, max_send, close_in, wd):
    tlc = _tlc(bufs, max_send, close_in, wd)
    fine = settled.Fine.load(tlc)
    g = settled.macro_graph(fine, PARTIES)
    shutil.rmtree(wd, ignore_errors=True)
    return tlc, fine, g


def run_slice(prop_id, tier, seed, variants=None):
    """Returns (rc, coverage): rc 0 held, 1 violation (VIOLATION lines printed); machinery problems raise
    core.MachineryError."""
    t0 = time.time()
    rng = random.Random(seed)
    cfg = CONFIGS["thorough" if tier == "thorough" else "quick"]
    sc = core.scratch("cq")
    try:
        rc, per, tot = 0, {}, dict(states=0, transitions=0, traces=0, viol=0, drift=0, tlc=0.0)
        samples, known_seen = [], {}
        for variant in (variants or VARIANTS[prop_id]):
            im = IMPL[variant]
            binary = build(variant, sc)
            runs = []
            tlc, fine, g = _explore(cfg["bufs"], cfg["MaxSend"], im["close_in"], os.path.join(sc, "tlc-" + variant))
            paths, unreach = core.edge_cover(g, rng, max_len=200)
            n_cover = len(paths)
            paths += core.random_walks(g, cfg["walks"], cfg["depth"], rng)
            paths += settled.stall_walks(g, cfg["stall"], cfg["depth"], rng, late=_late)
            runs.append(("exh", tlc, fine, g, paths, dict(bufs=cfg["bufs"], MaxSend=cfg["MaxSend"])))
            if tier == "thorough":
                for bufs in LONG["bufs"]:
                    tl2, f2, g2 = _explore(bufs, LONG["MaxSend"], im["close_in"],
                                           os.path.join(sc, "tlc-%s-long%d" % (variant, bufs[0])))
                    p2, _ = core.edge_cover(g2, rng, max_len=200)
                    p2 += settled.stall_walks(g2, LONG["stall"], LONG["depth"], rng, seg=LONG["seg"], late=_late)
                    runs.append(("long-buf%d" % bufs[0], tl2, f2, g2, p2, dict(bufs=bufs, MaxSend=LONG["MaxSend"])))
            vinfo = dict(implementation={"lnd": "github.com/lightningnetwork/lnd/queue.ConcurrentQueue (blockntfns ntfnQueue)",
                                         "chanutils": "chanutils.ConcurrentQueue[T] (BatchWriter)"}[variant], graphs={})
            for name, tl, fn, gg, pp, c in runs:
                observed, verdict, dr, info = _run_graph(prop_id, variant, binary, gg, pp, sc, "%s-%s" % (variant, name), seed)
                for kid, k in sorted(verdict["known"].items()):
                    print("KNOWN-FINDING: property=%s %s [%s; seen on %d replayed traces, e.g. %s]" % (
                        prop_id, k["entry"]["what_fails"], kid, k["count"], " ".join(k["example"])))
                    known_seen[kid] = known_seen.get(kid, 0) + k["count"]
                for v in verdict["violations"][:5]:
                    fnm = core.save_replay(prop_id, {"property": prop_id, "slice": "concqueue", "implementation": variant,
                                                     "props": v["props"], "step": v["step"], "labels": v["labels"],
                                                     "trace": v["observed"]})
                    print("VIOLATION property=%s replay=%s" % (prop_id, fnm))
                    print("  violated: %s at step %d of (%s, buffer %s): %s" % (
                        ",".join(v["props"]), v["step"], vinfo["implementation"].split(" ")[0],
                        v["observed"]["init_obs"].get("buf"), " ".join(v["labels"])))
                    rc = 1
                if dr[1]:
                    print("drift: %d of %d ConcQueue runs (%s, %s) made a step the model does not have (not a verdict)" % (
                        dr[1], len(observed), variant, name), file=sys.stderr)
                vinfo["graphs"][name] = dict(
                    config=c, fine_states=tl.distinct, fine_transitions=fn.n_edges(),
                    settled_states=len(gg.out), settled_steps=len(gg.edges),
                    settled_steps_with_several_outcomes=gg.nondeterministic_steps,
                    model_violating_steps=sum(1 for e in gg.edges if e[4]),
                    paths=info["paths"], replayed_steps=info["steps"], paths_cut_short=info["cut"],
                    paths_leaving_a_goroutine_blocked_for_good=info["leaked"],
                    settled_steps_observed_on_the_code=info["edges_seen"],
                    outcomes_other_than_predicted_but_allowed=info["alt"],
                    steps_with_several_model_states_matching=info["ambiguous"],
                    longest_path=max([len(t["steps"]) for t in observed] + [0]),
                    most_items=max([t["steps"][-1]["obs"]["nsent"] for t in observed if t["steps"]] + [0]),
                    judged_lines_by_tlc=verdict["n_lines"], drift={"paths": dr[1], "steps_validated": dr[0], "samples": dr[2]},
                    new_violations=len(verdict["violations"]), tlc_wall_s=round(tl.wall, 1))
                if name == "exh":
                    vinfo["graphs"][name]["cover_paths"] = n_cover
                    vinfo["graphs"][name]["steps_only_reachable_through_model_violation"] = unreach
                tot["states"] += tl.distinct
                tot["transitions"] += fn.n_edges()
                tot["traces"] += len(observed)
                tot["viol"] += len(verdict["violations"])
                tot["drift"] += dr[1]
                tot["tlc"] += tl.wall
                if len(samples) < 4:
                    t = observed[len(observed) // 2]
                    samples.append({"implementation": variant, "path": [label(s["act"]) for s in t["steps"]],
                                    "last_obs": t["steps"][-1]["obs"] if t["steps"] else t.get("init_obs")})
            per[variant] = vinfo
        cov = {
            "states": tot["states"], "transitions": tot["transitions"], "traces_validated_against_impl": tot["traces"],
            "implementations": per, "new_violations": tot["viol"], "known_findings_seen": known_seen,
            "drift": {"paths": tot["drift"]}, "tlc_wall_s": round(tot["tlc"], 1), "wall_s": round(time.time() - t0, 1),
            "samples": samples, "assumptions": ASSUMPTIONS,
        }
        return rc, cov
    finally:
        shutil.rmtree(sc, ignore_errors=True)


def is_my_replay(replay_file):
    try:
        return json.load(open(replay_file)).get("slice") == "concqueue"
    except Exception:
        return False


def run_replay(prop_id, replay_file):
    """Re-executes a saved violation of this slice on the working tree (bin/vcheck <id> --replay <file>)."""
    variant = json.load(open(replay_file)).get("implementation", "lnd")
    sc = core.scratch("cq")
    try:
        return settled.replay_saved([SPEC], "ConcQueueProps", PROPS[prop_id], prop_id, build(variant, sc),
                                    "TestVerifConcQueueReplay", replay_file, label)
    finally:
        shutil.rmtree(sc, ignore_errors=True)


def merge_evidence(prop_id, cov, rc=0, key="unbounded_queue_slice_concqueue"):
    """Adds this slice's measured coverage to the evidence file the calling check has just written."""
    fn = os.path.join(os.environ.get("VERIF_EVIDENCE_DIR", os.path.join(core.VERIF, "evidence")), prop_id + ".json")
    ev = json.load(open(fn))
    c = ev["coverage"]
    c[key] = {k: v for k, v in cov.items() if k not in ("samples", "assumptions")}
    c["states"] += cov["states"]
    c["transitions"] += cov["transitions"]
    c["traces_validated_against_impl"] += cov["traces_validated_against_impl"]
    c["samples"] = list(c.get("samples", [])) + cov["samples"][:2]
    ev["assumptions"] = list(ev.get("assumptions", [])) + [a for a in cov.get("assumptions", []) if a not in ev.get("assumptions", [])]
    ev["violations"] = ev.get("violations", 0) + cov["new_violations"]
    ev["wall_s"] = round(ev.get("wall_s", 0) + cov["wall_s"], 2)
    json.dump(ev, open(fn + ".tmp", "w"), indent=1)
    os.replace(fn + ".tmp", fn)
    return rc


if __name__ == "__main__":
    # python3 -m vlib.families.concqueue C11 quick 1 [variant,...]
    pid = sys.argv[1] if len(sys.argv) > 1 else "C11"
    tier = sys.argv[2] if len(sys.argv) > 2 else "quick"
    seed = int(sys.argv[3]) if len(sys.argv) > 3 else 1
    try:
        rc, cov = run_slice(pid, tier, seed, variants=sys.argv[4].split(",") if len(sys.argv) > 4 else None)
    except core.MachineryError as e:
        print("MACHINERY ERROR:", e, file=sys.stderr)
        sys.exit(2)
    except Exception:
        import traceback
        traceback.print_exc()
        sys.exit(2)
    json.dump(cov, sys.stdout, indent=1)
    print()
    sys.exit(rc)
