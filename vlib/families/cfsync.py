"""CFSync family: C03 (committed filter headers track the header chain and
resist false filter headers)."""
import itertools, json, os, random, shutil, sys, time
from .. import core, family

SPEC = os.path.join(core.VERIF, "specs", "CFSync")
DRIVER = os.path.join(core.VERIF, "harness", "overlay", "neutrino", "zz_verif_cfsync_test.go")
RACE_DRIVER = os.path.join(core.VERIF, "harness", "overlay", "neutrino", "zz_verif_cfsync_race_test.go")
HOOK = os.path.join(core.VERIF, "harness", "overlay", "chainsync", "zz_verif_cfsync_hook.go")
PKG = core.REPO

READY = True
PROPERTIES = ["C03"]

MANIFEST = {
    "C03": dict(
        engine="CFSync",
        text="Exhaustive TLC exploration of specs/CFSync (cfHandler's loop, getCheckpts, resolveConflict with its "
             "getcfheaders / getcfilters / GetBlock gates, the batched checkpointed fetch with answers delivered in "
             "any order by any unbanned peer and first-interval trimming, the at-tip fetch; rollBackToHeight and new "
             "header batches interleaved wherever the handler waits) over a set of scenarios: a behaviour for each "
             "of 3 peers (honest; truthful but unreliable/silent; lying at height k in checkpoints only, in "
             "checkpoints without serving cfheaders, with a different PrevFilterHeader, consistently with a filter "
             "that omits a script / does not hash to the advertised value / is not served / has an extra element, "
             "in cfheaders only, in the filter only), initial tips, a hard-coded checkpoint. EVERY transition is "
             "replayed against the real blockManager functions on real headerfs stores holding a mined 2-3.5k "
             "header chain (queryAllPeers, QueryDispatcher, GetBlock, BanPeer scripted as gates; real blocks and "
             "GCS filters at the disputed heights) and the clauses of CFSyncProps.tla (not ahead, belongs to its "
             "block, append only as successor, equals hard-coded checkpoints, dispute: honest value committed, "
             "liars banned, honest peer not banned) are evaluated by TLC on the observed stores and ban calls. "
             "Where the code leaves the model the handler is left to run on and is still judged. A second model "
             "(specs/CFSync/CFRace.tla) has rollBackToHeight and writeCFHeadersMsg as two processes at store-call "
             "granularity with the mutex as in the code; TLC enumerates every interleaving (and those of the variant "
             "without the mutex, replayed as schedules), and the two REAL functions are run in two goroutines with "
             "both store interfaces gated, one store call per step, mutex waits recognised from goroutine dumps, both "
             "stores projected and judged after every step.",
        note="Bounded: checkpoint interval 2 model heights (= 1000 real blocks), <=7 model heights, 3 peers, one "
             "lie height per liar, <=2 reorganisations; 14 fixed scenarios plus scenarios sampled by VERIF_SEED "
             "(not every assignment). cfHandler's loop glue (lines 528-742) is re-implemented by the driver from "
             "the real in-memory tips (its sleeps make running it per path too slow), so changes inside that loop "
             "are not executed. In the main model a reorganisation falls only where the handler waits for the network "
             "/ sleeps; store-call interleavings are explored only for rollBackToHeight vs writeCFHeadersMsg (3-4 "
             "block chain). Panics and honest peers banned without any false answer in "
             "play are counted in the evidence, not judged (no clause of C03); liveness belongs to C04."
             " Free-running slice (vlib/families/cfsync_free.py): the REAL, unmodified cfHandler goroutine runs in a testing/synctest bubble (virtual clock) against scripted peers, re-orgs and header batches at seeded moments; every recorded execution is judged by the same CFSyncProps clauses and validated line by line against CFSync.tla (CFTrace.tla), so the loop's own glue (tip snapshots, cached checkpoint lists, re-checks after a dispute) is executed, which the step-by-step replay re-implements in the driver.",
        design="4 C03", technique="TLA+ spec + TLC exhaustive + spec-to-code replay of every transition with gates + "
                                  "TLC-judged observed traces"),
}

PROPS = {
    "C03": ["NotAhead", "BelongsToBlock", "AppendOnlySuccessor", "EqualsHardcoded",
            "DisputeCommitsHonest", "HonestNotBanned", "HonestNotBannedInFetch", "LiarsBanned",
            "SelfContradictingLiarBanned", "BlockProvenLiarBanned"],
    # judged only on the CFRace slice, on behalf of the BlockManager family (run_race)
    "C19": ["EventsFollowChainOrder"],
}

CODE_VERSION = json.load(open(os.path.join(SPEC, "code_version.json")))
# switch of the second model (CFRace.tla): filterHeaderStoreMtx of b56652a
RACE_MUTEX = CODE_VERSION.pop("RaceMutex", True)

ASSUMPTIONS = [
    "an honest peer (kind H) answers every broadcast in time with the true data of the chain the request names "
    "(also for a stop hash on a branch that was just disconnected); kind T answers truthfully or not at all",
    "a lying peer lies at one height k (per chain) and is consistent from there on; it answers every query except "
    "where its kind says otherwise; banned peers are disconnected and answer nothing more",
    "block headers are current (BlockHeadersSynced() = true) while the filter headers sync; no hard-coded block "
    "checkpoints; a reorganisation never goes below a hard-coded filter-header checkpoint",
    "rollBackToHeight and a new headers batch run while the handler is parked in a network wait (broadcast, "
    "GetBlock, dispatcher query, retry sleep), not between two store calls of one handler step",
    "the loop of cfHandler (which function is called next, with which lastHeight / cached checkpoint lists) is "
    "re-implemented by the driver line by line; the functions it calls are the real ones",
    "model height 2j = real height 1000j, 2j+1 = 1000j+e (e from the seed); a peer lying at model height k lies at "
    "one real height of that segment; only heights 1000j and 1000j+e occur as chain tips",
]

LIARS = ["CP", "CX", "PV", "OM", "OU", "OE", "NH", "NS", "EX", "OI", "HC", "FO", "SH", "SF"]


def scen_tla(asg, bt, ft, hard):
    a = ", ".join('[kind |-> "%s", k |-> %d]' % (k, h) for k, h in asg)
    return '[asg |-> <<%s>>, bt |-> %d, ft |-> %d, hard |-> %d]' % (a, bt, ft, hard)


def core_scenarios(maxh):
    """Scenarios every run contains (3 peers)."""
    H, T = ("H", 0), ("T", 0)
    S = [
        ([H, ("OM", 3), T], maxh, 1, 0),        # dispute resolved from the block; partial first interval
        ([H, ("NH", 1), H], 4, 0, 2),           # hard-coded checkpoint bans the liar
        ([H, ("NS", 4), ("EX", 4)], maxh, 0, 0),  # provable and unprovable lie at one height
        ([H, ("PV", 3), T], maxh, 2, 0),        # DESIGN 6 #17
        ([H, ("CP", 2), ("CX", 4)], maxh, 0, 0),
        ([H, ("HC", 5 if maxh >= 5 else 3), ("FO", 5 if maxh >= 5 else 3)], maxh, 3, 0),  # at-tip disputes
        ([H, ("OM", 2), ("NH", 2)], 3, 1, 0),   # two provable liars, one height
        ([H, ("OM", 1), T], 1, 0, 0),           # chain shorter than one interval
        ([H, H, H], maxh, 0, 0),                # no liar at all (reorganisations only)
        ([H, ("OM", 4), ("NH", 5)], 5, 3, 0),   # two disputed heights in one getcfheaders window
        ([H, ("OM", 3), H], 4, 0, 0),           # deep reorganisation below the disputed interval
        ([H, ("HC", 3), T], maxh, 1, 0),        # false batched answer against true checkpoints
        ([T, ("EX", 2), T], 4, 0, 2),           # only the liar answers: the hard-coded checkpoint decides
        ([H, ("HC", 1), H], 3, 2, 0),           # at the tip a liar with a false PrevFilterHeader
        ([H, ("OU", 3), ("OU", 3)], maxh, 3, 0),  # two liars whose filters omit the unparsable output script
        ([H, ("CP", 4), H], 4, 0, 0),           # false LAST checkpoint, tip exactly on its height (1001 hashes)
        ([H, ("OM", 3), ("SH", 2)], maxh, 0, 0),  # a shorter (correct) checkpoint list; the lie lies beyond its end
        ([H, ("OM", 2), H], 4, 0, 0),           # dispute with the tip exactly 2000 above its start: request = cap
        ([T, ("SF", 0), T], 1, 1, 0),           # at the tip only a peer whose cfheaders answer is too short answers
        ([H, ("OI", 3), ("OM", 3)], maxh, 1, 0),  # a filter omitting a SPENT script (not provable) next to a provable lie
        ([H, ("OE", 3), T], maxh, 1, 0),        # the EMPTY filter, advertised consistently: one honest against one liar
        ([H, ("OE", 2), ("OM", 2)], 3, 1, 0),   # empty filter and a filter omitting one script at one height
    ]
    return S


def sample_scenarios(rng, n, maxh, np_):
    out = []
    while len(out) < n:
        asg = [("H", 0)]
        for _ in range(np_ - 1):
            r = rng.random()
            if r < 0.15:
                asg.append(("H", 0))
            elif r < 0.3:
                asg.append(("T", 0))
            else:
                asg.append((rng.choice(LIARS), rng.randint(1, maxh)))
        if len([a for a in asg if a[0] == "OE"]) != len({a[1] for a in asg if a[0] == "OE"}):
            continue  # two empty-filter liars at one height advertise the SAME false value (collusion: not modelled)
        rng.shuffle(asg)
        bt = rng.choice([maxh, maxh, maxh - 1, maxh - 2, rng.randint(1, maxh)])
        ft = rng.randint(0, min(bt, 3))
        hard = 0
        if rng.random() < 0.25 and bt >= 2:
            hard = rng.choice([h for h in range(2, bt + 1, 2)])
        out.append((asg, bt, ft, hard))
    return out


# A tier is a list of phases; each phase is one exhaustive TLC run (constants,
# scenarios = core + sampled) whose every transition is replayed.
CONFIGS = {
    "quick": [
        dict(consts=dict(NP=3, CPI=2, MaxH=5, MaxSteps=9, MaxReorgs=1, MaxRb=3, MaxExt=1, MaxExtN=2,
                         RbDepths="{1, 3}", EnvFree=False, EnvLean=True),
             core=True, sampled=2, walks=0),
    ],
    "thorough": [
        # longer chain (3.5 intervals), every rollback depth, new headers at every wait
        dict(consts=dict(NP=3, CPI=2, MaxH=7, MaxSteps=9, MaxReorgs=1, MaxRb=3, MaxExt=2, MaxExtN=2,
                         RbDepths="{1, 2, 3}", EnvFree=False, EnvLean=False),
             core=True, sampled=8, walks=1500),
        # a second reorganisation
        dict(consts=dict(NP=3, CPI=2, MaxH=5, MaxSteps=8, MaxReorgs=2, MaxRb=2, MaxExt=2, MaxExtN=1,
                         RbDepths="{1, 2}", EnvFree=False, EnvLean=True),
             core=True, sampled=2, walks=0),
    ],
}


def label(act):
    s = act.get("op", "?")
    if s in ("GetCheckpts", "RCfh", "RFlt", "UCfh", "UFlt"):  # GetCheckpts = the answers to GcSend
        s += "(%s)" % ",".join(str(x) for x in act.get("rs", []))
    elif s == "CPDeliver":
        s += "(%d,p%d)" % (act.get("j", 0), act.get("p", 0))
    elif s in ("Rollback", "Extend", "RBlk", "UBlk", "Recv"):
        s += "(%d)" % act.get("n", 0)
    return s + "=" + str(act.get("res"))


def my_drift(pf, observed):
    """family.drift plus paths the driver stopped without a recorded deviating step."""
    n_steps, n_drift, samples = family.drift(pf, observed, label=label)
    exp = {}
    for line in open(pf):
        d = json.loads(line)
        exp[d["id"]] = d
    for t in observed:
        if t.get("error") or not t.get("stopped"):
            continue
        e = exp[t["id"]]
        k = len(t["steps"])
        deviates = k > 0 and (k > len(e["steps"]) or t["steps"][-1]["act"] != e["steps"][k - 1]["act"]
                              or t["steps"][-1]["obs"] != e["steps"][k - 1]["obs"])
        init_dev = t.get("init_obs") != e.get("init_obs")
        if not deviates and not init_dev:
            n_drift += 1
            if len(samples) < 5:
                samples.append({"trace": t["id"], "step": k + 1, "what": t["stopped"],
                                "labels": [label(x["act"]) for x in e["steps"][:k + 1]]})
    return n_steps, n_drift, samples


def race_scenarios(tier, bts=None):
    bts = bts or ((3,) if tier == "quick" else (3, 4))
    out = []
    for bt in bts:
        for ft in range(1, bt):
            for e in range(ft + 1, bt + 1):
                for h in range(0, bt):
                    out.append("[bt |-> %d, ft |-> %d, e |-> %d, h |-> %d]" % (bt, ft, e, h))
    return out


def all_maximal_paths(g, limit=200000):
    """Every path from an initial state to a state without successors (the graph is acyclic)."""
    out = []
    for n0, _ in g.inits:
        stack = [(n0, [])]
        while stack:
            n, path = stack.pop()
            outs = g.out[n]
            if not outs:
                if path:
                    out.append(path)
                    if len(out) > limit:
                        raise core.MachineryError("too many schedules")
                continue
            for ei in outs:
                stack.append((g.edges[ei][2], path + [ei]))
    return out


def race_phase(tier, rng, sc, first_id):
    """CFRace.tla: rollBackToHeight against writeCFHeadersMsg at store-call / event-delivery granularity.
    (a) the model with the mutex as in the code: every transition replayed as a prediction;
    (b) the variant without the mutex: EVERY schedule with at most 1 (thorough: 2) unforced context
        switches, replayed as schedules only.
    Returns (path lines, number of predicted paths, info, edges, totals)."""
    scen = race_scenarios(tier)
    lines, info, edges, tot = [], {}, [], _Sum()
    n_pred = 0
    runs = [(RACE_MUTEX, 99, scen), (not RACE_MUTEX, 1, scen)]
    if tier != "quick":
        # two context switches only on the shorter chain (22 000 schedules otherwise)
        runs.append((not RACE_MUTEX, 2, race_scenarios(tier, (3,))))
    for ri, (mutex, maxcs, rscen) in enumerate(runs):
        predicted = mutex == RACE_MUTEX
        defs = "RScenSet == {%s}" % ", ".join(rscen)
        tlc = core.run_tlc([SPEC], "CFRace", dict(Mutex=mutex, MaxCS=maxcs), workers=1,
                           invariants=["TypeOK"] + (["NoViolation"] if mutex else []),
                           cfg_extra="CONSTANT RScen <- RScenSet", extra_defs=defs,
                           workdir=os.path.join(sc, "race%d" % ri), timeout=900)
        if not tlc.ok:
            raise core.MachineryError("TLC on CFRace failed: %s\n%s" % (tlc.error, tlc.stdout_tail[-3000:]))
        g = core.Graph.load(tlc)
        pp = core.edge_cover(g, rng)[0] if predicted else all_maximal_paths(g)
        tmp = os.path.join(sc, "racepaths%d.ndjson" % ri)
        core.write_paths(g, pp, tmp)
        for line in open(tmp):
            d = json.loads(line)
            d["id"] = first_id + len(lines)
            # behaviours of the variant that is NOT the code are schedules only
            d["sched"] = not predicted
            lines.append(json.dumps(d, separators=(",", ":")))
        if predicted:
            n_pred = len(pp)
            edges = g.edges
            tot.generated, tot.distinct, tot.depth, tot.wall = tlc.generated, tlc.distinct, tlc.depth, tlc.wall
        info["mutex_%s_cs%d" % (str(mutex).lower(), maxcs)] = {
            "states": tlc.distinct, "edges": len(g.edges), "paths": len(pp), "max_context_switches": maxcs,
            "model_violating_edges": sum(1 for e in g.edges if e[4]), "predicts_the_code": predicted}
        shutil.rmtree(os.path.join(sc, "race%d" % ri), ignore_errors=True)
    info["scenarios"] = len(scen)
    return lines, n_pred, info, edges, tot


def run_driver_retry(binary, test, pf, out, sc, **kw):
    """runtime.Stack(all) of Go 1.25 can crash (SIGSEGV in runtime.(*unwinder).next) when another thread is
    inside a system call; that is a fault of the machinery, not of the code under test: run again."""
    for attempt in range(3):
        try:
            return family.run_driver(binary, test, pf, out, sc, **kw)
        except core.MachineryError as e:
            if attempt == 2 or not ("SIGSEGV" in str(e) or "unwinder" in str(e) or "\ngs  " in str(e)):
                raise
            print("driver: Go runtime crashed while dumping goroutines, running it again", file=sys.stderr)


def run_race_driver(binary, rpf, out, sc):
    return run_driver_retry(binary, "TestVerifCFRaceReplay", rpf, out, sc, timeout=3600)


def race_drift(lines, observed):
    """Predicted (code-shaped) paths: step results and observables must match; steps the driver
    added to run the goroutines to their end are not part of the path."""
    exp = {}
    for l in lines:
        d = json.loads(l)
        exp[d["id"]] = d
    n_steps = n_drift = skipped = 0
    samples = []
    for t in observed:
        e = exp[t["id"]]
        if t.get("error"):
            continue
        steps = [s for s in (t["steps"] or []) if not s.get("note")]
        skipped += sum(1 for s in steps if s["act"]["res"].startswith("skip"))
        if e["sched"]:
            continue
        bad = None
        if t.get("init_obs") != e["init_obs"] or len(steps) != len(e["steps"]):
            bad = 0
        else:
            for i, (a, b) in enumerate(zip(steps, e["steps"])):
                n_steps += 1
                if a["act"] != b["act"] or a["obs"] != b["obs"]:
                    bad = i + 1
                    break
        if bad is not None:
            n_drift += 1
            if len(samples) < 5:
                samples.append({"trace": t["id"], "step": bad, "what": "CFRace path",
                                "labels": [label(x["act"]) for x in steps[:max(bad, 1)]],
                                "model": e["steps"][bad - 1] if bad else e["init_obs"],
                                "code": steps[bad - 1] if bad and bad <= len(steps) else t.get("init_obs")})
    return n_steps, n_drift, samples, skipped


RACE_ASSUMPTIONS = [
    "rollBackToHeight and writeCFHeadersMsg each run in one goroutine; a step is one store call of blockManagerCfg."
    "BlockHeaders / RegFilterHeaders, or one event taken from the unbuffered blockNtfnChan by the only receiver",
    "a goroutine waiting for a mutex inside one of the two functions, or blocked sending a block event, is "
    "recognised from two agreeing goroutine dumps",
    "one chain of 3-4 blocks (block id = height); the cfheaders message and the rollback target are chosen per "
    "scenario; behaviours of the model variant without the mutex are replayed as schedules only",
]


def run_race(prop_id, tier, seed, replay=None):
    """The CFRace slice alone (rollBackToHeight against writeCFHeadersMsg at store-call and event-delivery
    granularity), judged with the clauses PROPS[prop_id].  Prints KNOWN-FINDING / VIOLATION lines for prop_id
    and returns (exit code, coverage dict) - for checks of other families that want to merge it
    (C19: EventsFollowChainOrder).  replay: a saved trace of this slice (its init_obs has "rsc")."""
    t0 = time.time()
    rng = random.Random(seed)
    sc = core.scratch("cfr")
    evdir = core.scratch("cfrev")
    old = os.environ.get("VERIF_EVIDENCE_DIR")
    try:
        if replay:
            pf = os.path.join(sc, "replay.ndjson")
            family.paths_from_replay(replay, pf)
            d = json.loads(open(pf).readline())
            d["sched"] = True
            lines, info, tot = [json.dumps(d)], {}, _Sum()
        else:
            lines, n_pred, info, edges, tot = race_phase(tier, rng, sc, 0)
            tot.edges = edges
        binary = family.build_overlay_test(
            PKG, [DRIVER, RACE_DRIVER], os.path.join(sc, "neutrino.test"),
            extra_overlay={os.path.join(core.REPO, "chainsync", os.path.basename(HOOK)): HOOK})
        rpf = os.path.join(sc, "racepaths.ndjson")
        open(rpf, "w").write("\n".join(lines) + "\n")
        robs, _ = run_race_driver(binary, rpf, os.path.join(sc, "raceobs.ndjson"), sc)
        for t in robs:
            t["steps"] = t["steps"] or []
        rd = race_drift(lines, robs)
        info.update({"replayed_paths": len(robs), "replayed_steps": sum(len(t["steps"]) for t in robs),
                     "schedule_commands_not_applicable": rd[3]})
        verdict = family.judge([SPEC], "CFSyncProps", PROPS[prop_id], prop_id, robs, label=label)
        os.environ["VERIF_EVIDENCE_DIR"] = evdir
        rc = family.finish(prop_id, tier, seed, t0, tot, tot if not replay else None, [[0]] * len(lines), robs,
                           verdict, rd[:3], {"race_slice": info, "race_mutex": RACE_MUTEX},
                           RACE_ASSUMPTIONS, label=label)
        cov = json.load(open(os.path.join(evdir, prop_id + ".json")))["coverage"]
        return rc, cov
    finally:
        if old is None:
            os.environ.pop("VERIF_EVIDENCE_DIR", None)
        else:
            os.environ["VERIF_EVIDENCE_DIR"] = old
        shutil.rmtree(sc, ignore_errors=True)
        shutil.rmtree(evdir, ignore_errors=True)


class _Sum:
    """Totals over the phases, in the shape family.finish expects."""
    def __init__(self):
        self.generated = self.distinct = self.depth = 0
        self.wall = 0.0
        self.edges = []


def run(prop_id, tier, seed, replay=None):
    from . import cfsync_free
    if replay and cfsync_free.is_free_replay(replay):      # a saved trace of the free-running slice
        return cfsync_free.run_replay(prop_id, tier, seed, replay)
    t0 = time.time()
    rng = random.Random(seed)
    sc = core.scratch("cfs")
    try:
        pf = os.path.join(sc, "paths.ndjson")
        scen_all, phase_info = [], []
        maxh = 5
        replay_race = []
        if replay:
            family.paths_from_replay(replay, pf)
            tot, g, paths, unreach = family._NoTLC(), None, [0], 0
            for line in open(pf):
                d = json.loads(line)
                maxh = max([maxh, len(d["init_obs"]["B"]) - 1] + [len(x["obs"]["B"]) - 1 for x in d["steps"]])
                if "rsc" in d["init_obs"]:      # a trace of the CFRace slice: replayed as a schedule
                    d["sched"] = True
                    replay_race = [json.dumps(d)]
        else:
            tot, unreach, paths = _Sum(), 0, []
            g = tot
            with open(pf, "w") as out:
                for pi, ph in enumerate(CONFIGS[tier]):
                    consts = dict(ph["consts"])
                    consts.update(CODE_VERSION)
                    maxh = max(maxh, consts["MaxH"])
                    scen = (core_scenarios(consts["MaxH"]) if ph["core"] else []) + \
                        sample_scenarios(rng, ph["sampled"], consts["MaxH"], consts["NP"])
                    defs = "ScenSet == {%s}" % ",\n  ".join(scen_tla(*s) for s in scen)
                    tlc = core.run_tlc([SPEC], "CFSync", consts, workers=1, invariants=["TypeOK"],
                                       cfg_extra="CONSTANT Scen <- ScenSet", extra_defs=defs,
                                       workdir=os.path.join(sc, "tlc%d" % pi), timeout=3000, heap="8g")
                    if not tlc.ok:
                        raise core.MachineryError("TLC on CFSync failed: %s\n%s" % (tlc.error, tlc.stdout_tail[-3000:]))
                    gp = core.Graph.load(tlc)
                    pp, un = core.edge_cover(gp, rng)
                    if ph["walks"]:
                        pp += core.random_walks(gp, ph["walks"], 14, rng)
                    tmp = os.path.join(sc, "paths%d.ndjson" % pi)
                    core.write_paths(gp, pp, tmp)
                    for line in open(tmp):
                        d = json.loads(line)
                        d["id"] += len(paths)
                        out.write(json.dumps(d, separators=(",", ":")) + "\n")
                    paths += pp
                    unreach += un
                    tot.generated += tlc.generated
                    tot.distinct += tlc.distinct
                    tot.depth = max(tot.depth, tlc.depth)
                    tot.wall += tlc.wall
                    tot.edges += gp.edges
                    scen_all += scen
                    phase_info.append({"config": consts, "scenarios": len(scen), "states": tlc.distinct,
                                       "edges": len(gp.edges), "paths": len(pp), "tlc_wall_s": round(tlc.wall, 1)})
                    shutil.rmtree(os.path.join(sc, "tlc%d" % pi), ignore_errors=True)
        race_lines, race_info = replay_race, {}
        if not replay:
            race_lines, n_pred, race_info, r_edges, r_tot = race_phase(tier, rng, sc, len(paths))
            tot.generated += r_tot.generated
            tot.distinct += r_tot.distinct
            tot.wall += r_tot.wall
            tot.edges += r_edges
            paths += [[0]] * len(race_lines)
        binary = family.build_overlay_test(
            PKG, [DRIVER, RACE_DRIVER], os.path.join(sc, "neutrino.test"),
            extra_overlay={os.path.join(core.REPO, "chainsync", os.path.basename(HOOK)): HOOK})
        if replay_race:
            observed = []
            open(pf, "w").close()
        else:
            observed, log = run_driver_retry(binary, "TestVerifCFSyncReplay", pf, os.path.join(sc, "obs.ndjson"), sc,
                                             env_extra={"VERIF_SEED": str(seed), "VERIF_CFS_MAXH": str(maxh)},
                                             timeout=7200)
        dr = my_drift(pf, observed)
        if race_lines:
            rpf = os.path.join(sc, "racepaths.ndjson")
            open(rpf, "w").write("\n".join(race_lines) + "\n")
            robs, _ = run_race_driver(binary, rpf, os.path.join(sc, "raceobs.ndjson"), sc)
            rd = race_drift(race_lines, robs)
            for t in robs:
                t["steps"] = t["steps"] or []
            race_info.update({"replayed_paths": len(robs), "replayed_steps": sum(len(t["steps"]) for t in robs),
                              "schedule_commands_not_applicable": rd[3]})
            dr = (dr[0] + rd[0], dr[1] + rd[1], (dr[2] + rd[2])[:5])
            observed = observed + robs
        verdict = family.judge([SPEC], "CFSyncProps", PROPS[prop_id], prop_id, observed, label=label)
        panics = sum(1 for t in observed for s in t["steps"] if s["act"].get("res") == "panic")
        hb = sum(1 for t in observed for i, s in enumerate(t["steps"])
                 if any(a["kind"] == "H" and s["obs"]["ban"][q] == 1 and
                        (t["steps"][i - 1]["obs"] if i else t["init_obs"])["ban"][q] == 0
                        for q, a in enumerate(s["obs"]["asg"])))
        rc = family.finish(prop_id, tier, seed, t0, tot, g, paths, observed, verdict, dr,
                           {"phases": phase_info, "race_slice": race_info, "code_version": CODE_VERSION,
                            "scenarios": len(scen_all),
                            "scenario_list": [scen_tla(*s) for s in scen_all][:60],
                            "edges_only_reachable_through_model_violation": unreach,
                            "replayed_steps_where_the_code_panicked": panics,
                            "replayed_steps_banning_an_honest_peer": hb,
                            "paths_rerun_for_map_order_choice": sum(1 for t in observed if t.get("tries", 1) > 1)},
                           ASSUMPTIONS, label=label)
        if not replay:
            # the REAL cfHandler loop, free-running under virtual time (cfsync_free.py, notes/cfsync.md section 13)
            rc2, cov2 = cfsync_free.run_slice(prop_id, tier, seed)
            cfsync_free.merge_evidence(prop_id, cov2)
            rc = 1 if 1 in (rc, rc2) else max(rc, rc2)
        return rc
    finally:
        shutil.rmtree(sc, ignore_errors=True)
