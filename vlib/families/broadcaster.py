"""Broadcaster + SendTx family: C15 (accepted transactions are rebroadcast in
dependency order until confirmed; broadcast verdict; Stop / MarkAsConfirmed /
Broadcast always return).

Two specifications, two drivers, one verdict:

  specs/Broadcaster/Broadcaster.tla  pushtx.Broadcaster        harness/overlay/pushtx/zz_verif_broadcaster_test.go
  specs/Broadcaster/SendTx.tla       ChainService.sendTransaction  harness/overlay/neutrino/zz_verif_sendtx_test.go

Unlike the HeaderStore family the code under test makes choices the driver
cannot force (Go map iteration order inside wtxmgr.DependencySort, ties in the
reject statistics), so the replay is ADAPTIVE: the Go walker
(zz_verif_broadcaster_walker_test.go) gets the whole TLC graph, plans paths that
cover every transition, and after every input follows the model transition
that matches what the real code did; a step no transition matches is drift.
"""
import concurrent.futures, hashlib, json, os, random, re, shutil, tempfile, time
from collections import Counter
from .. import core, family

SPEC = os.path.join(core.VERIF, "specs", "Broadcaster")
OVL = os.path.join(core.VERIF, "harness", "overlay")
DRV_B = os.path.join(OVL, "pushtx", "zz_verif_broadcaster_test.go")
WALKER = os.path.join(OVL, "pushtx", "zz_verif_broadcaster_walker_test.go")
DRV_S = os.path.join(OVL, "neutrino", "zz_verif_sendtx_test.go")
PKG_B = os.path.join(core.REPO, "pushtx")
PKG_S = core.REPO

READY = True
PROPERTIES = ["C15"]

MANIFEST = {
    "C15": dict(
        engine="Broadcaster",
        text="Two TLA+ specifications explored exhaustively by TLC and bound to the real code by adaptive replay of EVERY "
             "transition. Broadcaster.tla: request handler, rebroadcast goroutine (semaphore, private copy, Kahn queue of "
             "wtxmgr.DependencySort with map-order batches), callers of Broadcast/MarkAsConfirmed/Stop, over every "
             "dependency graph of the transactions, every outcome of the Config.Broadcast callback (accepted, mempool, "
             "confirmed, reject classes, custom-mapped errors), block events, ticks, confirmations from callers and from "
             "peers, and Stop at every quiescent point. The real pushtx.Broadcaster is driven inside testing/synctest "
             "bubbles (Config.Broadcast is a gate, the subscription channel is fed by the driver, ticks by the fake clock); "
             "after every input the code runs to quiescence, the observables are read, and TLC evaluates the operators of "
             "BroadcasterProps.tla on the observed traces (rebroadcast content and order, trigger starts a rebroadcast, "
             "hang detection with goroutine dump). SendTx.tla: the reply bookkeeping and verdict of sendTransaction for "
             "every order of getdata / reject(class) / repeated getdata or reject / unrelated reject / silence of "
             "<= 4 peers, the reject timeout and several thresholds; replayed on the real sendTransaction + queryAllPeers with fake ServerPeers.",
        note="Bounded: <=3 transactions, <=5 calls/events per history, <=4 peers. Observations are taken at quiescence "
             "only (inputs racing with a step in flight are not replayed). While the handler is inside a callback at most "
             "one other party waits for it. The statement's 'replying peer' / 'share' are read as generously as the words "
             "allow (see SendTxProps.tla). Trusts TLC, testing/synctest, and the call-stack test that tells handler "
             "callbacks from rebroadcast callbacks.",
        design="4 C15", technique="TLA+ specs + TLC exhaustive + adaptive spec-to-code replay of every transition in "
                                  "synctest bubbles + TLC-judged observed traces"),
}

PROPS = {
    "C15": ["TriggerStartsRebroadcast", "RejectedNeverRebroadcast", "NotAfterConfirmed", "ParentsFirst",
            "RebroadcastComplete", "MarkConfirmedReturns", "StopReturns", "BroadcastReturns",
            "FailOnlyIfAllRejectedOrThreshold", "RejectedByEveryReplierNotAccepted", "ThresholdReachedNotAccepted"],
}

CODE_VERSION = json.load(open(os.path.join(SPEC, "code_version.json")))

CONFIGS = {
    "quick": dict(
        # MayClose: the block subscription may close its channel at any quiescent point (counted among the MaxOps)
        B=dict(NTx=2, MaxOps=5, MaxM=2, MaxWait=3, Outs='{"ok","mempool","xmempool","invalid"}',
               ROuts='{"ok","confirmed","invalid"}', MayClose=True),
        S=dict(NP=3, Thrs="{60}", Codes="{1,2}", MaxDelay=1, MaxX=0, MaxDup=1),
        # messages about another hash (reject, getdata), two peers
        S2=dict(NP=2, Thrs="{50,60}", Codes="{1,2,4}", MaxDelay=1, MaxX=2, MaxDup=1),
        # exact threshold boundary: 5 peers, 3 of 5 invalid = the default 60 % (float32(0.6) > 0.6)
        S3=dict(NP=5, MinNP=5, Ordered=True, Thrs="{60}", Codes="{1}", MaxDelay=0, MaxX=0, MaxDup=0),
        # reject messages as (wire reject code) x (reason: each string error.go lists, an unlisted one, the empty one):
        # two peers one after the other at threshold 50 %, so that ONE reject decides the verdict either way
        S4=dict(NP=2, MinNP=2, Ordered=True, Thrs="{50}", Codes="{}", MaxDelay=1, MaxX=0, MaxDup=0, Msgs="{%s}" % ",".join(str(i) for i in range(1, 41))),
        # rescan slice: the rescan finds the tx in a block, relevant by input / by output only / both / not at all
        C=dict(NTx=2, MaxOps=4, MaxM=2, MaxWait=3, Outs='{"ok","invalid"}', ROuts='{"ok"}',
               Rels='{"spend","pay","both","neither"}'),
        # a rebroadcast attempt of one transaction may also end in a hard error (neither mempool nor confirmed):
        # the round goes on with the other transactions
        BF=dict(NTx=2, MaxOps=5, MaxM=2, MaxWait=3, Outs='{"ok","mempool","invalid"}', ROuts='{"ok","confirmed","invalid"}',
                MayClose=True),
        walks=0, depth=0, keep=10, tries=8),
    "thorough": dict(
        B=dict(NTx=3, MaxOps=5, MaxM=1, MaxWait=3, Outs='{"ok","mempool","invalid"}', ROuts='{"ok","confirmed"}'),
        S=dict(NP=4, Thrs="{50,60,100}", Codes="{1,2,3,4,5}", MaxDelay=1, MaxX=0, MaxDup=0),
        # repeated messages (second getdata / second reject, also of another class) and unrelated rejects
        S2=dict(NP=3, Thrs="{60}", Codes="{1,2,4}", MaxDelay=1, MaxX=1, MaxDup=2),
        S3=dict(NP=5, MinNP=5, Ordered=True, Thrs="{60}", Codes="{1,2}", MaxDelay=1, MaxX=0, MaxDup=0),
        # the reject-message product with three peers in any order, two thresholds, a repeated message
        S4=dict(NP=3, MinNP=2, Ordered=False, Thrs="{50,60}", Codes="{}", MaxDelay=1, MaxX=0, MaxDup=1,
                Msgs="{1,9,17,25,26,27,28,29,30,31,32,33,40}"),
        C=dict(NTx=2, MaxOps=5, MaxM=2, MaxWait=3, Outs='{"ok","invalid"}', ROuts='{"ok","confirmed"}',
               Rels='{"spend","pay","both","neither"}'),
        BF=dict(NTx=3, MaxOps=5, MaxM=2, MaxWait=3, Outs='{"ok","mempool","invalid"}', ROuts='{"ok","confirmed","invalid"}'),
        walks=4000, depth=14, keep=20, tries=60,
        # a second, smaller Broadcaster graph with every outcome class
        B2=dict(NTx=2, MaxOps=5, MaxM=2, MaxWait=3,
                Outs='{"ok","mempool","xmempool","confirmed","invalid","fee","unknown","plain"}',
                ROuts='{"ok","mempool","confirmed","xconfirmed","invalid","plain"}', MayClose=True)),
}

ASSUMPTIONS = [
    "observations are taken when every goroutine of the component and every API caller is blocked "
    "(testing/synctest); an input that races with a step in flight is explored in the model's small steps "
    "(Settle) but reaches the real code only at quiescent points",
    "a call is reported as hung when it has not returned although no Config.Broadcast gate is held and the fake "
    "clock was advanced by 5 minutes (normal duration 0); the goroutine dump is kept in the trace",
    "while the request handler is inside a callback at most one other party waits for it (a MarkAsConfirmed "
    "caller, a buffered tick or a rebroadcast's confirmation report); Stop may come at any quiescent point",
    "handler callbacks and rebroadcast callbacks are told apart by the call stack of the Config.Broadcast invocation",
    "after the block subscription's channel was closed the handler never blocks (its closed-channel arm is always "
    "ready); the package logger's Warn is gated and released up to 256 times per quiescence: Go's select chooses "
    "uniformly among ready arms, so a ready arm is missed that often with probability < 1e-20",
    "what a reject message (wire code, reason) says - invalid / has it / refusal - is taken from bitcoind and btcd "
    "(SendTxProps.tla: InvAll, InvSome, Hard), not from pushtx/error.go",
    "sendTransaction: 'replying peer' = a peer whose first message about the tx was getdata; 'rejected' / 'calls it "
    "invalid' = sent such a reject at any time; share = invalid rejecters / replying peers",
    "transaction ids are interchangeable only up to the dependency graph; every graph over <= NTx transactions "
    "with parents of i among 1..i-1 is explored",
]


def label(act):
    op = act.get("op", "?")
    if op in ("BcastCall", "MarkCall"):
        s = "%s(%s)" % (op, act.get("tx"))
    elif op in ("HRelease", "RbRelease", "Mined"):
        s = "%s(%s,%s)" % (op, act.get("tx"), act.get("out"))
    elif op == "Msg":
        k = act.get("kind")
        s = "Msg(p%s,%s%s%s)" % (act.get("p"), k, act.get("code") if k == "R" else "",
                                 "/m%s" % act.get("m") if act.get("m") else "")
    else:
        s = op
    return s + "=" + str(act.get("res"))


class _G:
    """What family.finish needs of a graph."""
    def __init__(self):
        self.edges = []


def compact(tlc, out_fn):
    """Streams TLC's edge dump into the compact graph file of the Go walker.
    Returns (graph stub, nodes, Counter of model-violated clause names)."""
    ids = {}

    def nid(st):
        k = hashlib.blake2b(json.dumps(st, sort_keys=True, separators=(",", ":")).encode(), digest_size=12).digest()
        n = ids.get(k)
        if n is None:
            n = len(ids)
            ids[k] = n
        return n

    g = _G()
    names = Counter()
    seen = set()
    with open(out_fn, "w") as f:
        for line in open(tlc.inits_path):
            d = json.loads(line)
            f.write(json.dumps({"init": nid(d["init"]), "obs": d["obs"]}, separators=(",", ":")) + "\n")
        for line in open(tlc.edges_path):
            d = json.loads(line)
            fr, to = nid(d["from"]), nid(d["to"])
            key = hashlib.blake2b(("%d|%d|" % (fr, to) + json.dumps(d["act"], sort_keys=True)).encode(),
                                  digest_size=12).digest()
            if key in seen:
                continue
            seen.add(key)
            v = d.get("viol", [])
            for n in v:
                names[n] += 1
            g.edges.append((None, None, None, None, 1 if v else 0))
            f.write(json.dumps({"f": fr, "t": to, "a": d["act"], "o": d["obs"], "v": bool(v)},
                               separators=(",", ":")) + "\n")
    return g, len(ids), names


def model(module, consts, wd, invariants):
    tlc = core.run_tlc([SPEC], module, consts, workers=1, invariants=invariants, workdir=wd, timeout=3000,
                       heap="3g")
    if not tlc.ok:
        raise core.MachineryError("TLC on %s failed: %s\n%s" % (module, tlc.error, tlc.stdout_tail[-3000:]))
    gf = os.path.join(wd, "graph.ndjson")
    g, nodes, names = compact(tlc, gf)
    os.remove(tlc.edges_path)
    return tlc, g, gf, names


def model_fine(consts, wd):
    """Small-step semantics of Broadcaster.tla (inputs at any moment, any number of waiters): model-level
    check of the structural invariants and of NoStuck. Nothing is exported or replayed."""
    inv = ["TypeOK", "SemInv", "SortedInv"] + (["NoStuck"] if consts["FixMarkQuit"] else [])
    tlc = core.run_tlc([SPEC], "Broadcaster", dict(consts, Fine=True), workers=8, export=False, invariants=inv,
                       workdir=wd, timeout=3000, heap="4g")
    if not tlc.ok:
        raise core.MachineryError("TLC on Broadcaster (small steps) failed: %s\n%s" % (tlc.error,
                                                                                       tlc.stdout_tail[-3000:]))
    return tlc


DRV_B_ENV = os.path.join(OVL, "pushtx", "zz_verif_broadcaster_env_test.go")
DRV_S_ENV = os.path.join(OVL, "neutrino", "zz_verif_broadcaster_env_test.go")


def build_b(sc):
    return family.build_overlay_test(PKG_B, [DRV_B, DRV_B_ENV, WALKER], os.path.join(sc, "pushtx.test"))


def _as_neutrino(src_file, sc):
    out = os.path.join(sc, os.path.basename(src_file))
    src = open(src_file).read()
    src2 = re.sub(r"(?m)^package pushtx$", "package neutrino", src, count=1)
    if src2 == src:
        raise core.MachineryError("%s: package clause not found" % src_file)
    open(out, "w").write(src2)
    return out


def build_s(sc):
    """Root-package binary: the SendTx driver, and the Broadcaster driver once more (same source, package clause
    rewritten) with the root-package environment that adds the rescan slice (real extractBlockMatches)."""
    return family.build_overlay_test(PKG_S, [DRV_S, DRV_S_ENV, _as_neutrino(WALKER, sc), _as_neutrino(DRV_B, sc)],
                                     os.path.join(sc, "neutrino.test"))


def drive(binary, test, sc, tag, seed, graph=None, paths=None, walks=0, depth=0, keep=1, tries=24):
    out = os.path.join(sc, "obs-%s.ndjson" % tag)
    stats = os.path.join(sc, "stats-%s.json" % tag)
    env = {"VERIF_SEED": str(seed), "VERIF_STATS": stats, "VERIF_WALKS": str(walks), "VERIF_DEPTH": str(depth),
           "VERIF_KEEP": str(keep), "VERIF_TRIES": str(tries)}
    if graph:
        env["VERIF_GRAPH"] = graph
    observed, log = family.run_driver(binary, test, paths or "", out, sc, env_extra=env, timeout=7000)
    st = json.load(open(stats)) if os.path.exists(stats) else {}
    for t in observed:
        t["id"] = "%s-%d" % (tag, t["id"])
    return observed, st


def judge_chunked(props_module, prop_id, observed, chunk=3000, par=4):
    """family.judge on chunks of traces (TLC's JSON trace table grows badly with the file size), in parallel."""
    chunks = [observed[i:i + chunk] for i in range(0, len(observed), chunk)]
    out = {"violations": [], "known": {}, "n_lines": 0, "wall": 0.0, "raw": 0}
    known = core.load_known()
    with concurrent.futures.ThreadPoolExecutor(max_workers=par) as ex:
        for v in ex.map(lambda c: family.judge([SPEC], props_module, PROPS[prop_id], prop_id, c, label=label,
                                               known=known), chunks):
            out["violations"] += v["violations"]
            for kid, e in v["known"].items():
                if kid in out["known"]:
                    out["known"][kid]["count"] += e["count"]
                else:
                    out["known"][kid] = e
            out["n_lines"] += v["n_lines"]
            out["wall"] += v["wall"]
            out["raw"] += v["raw"]
    return out


def paths_from_replay(replay_file, pf):
    """A saved observed trace as a one-path input of the strict mode of the driver. A step with a note is a
    real input whose outcome no model transition matched (kept); steps of the epilogue are re-created by
    the driver (dropped)."""
    tr = json.load(open(replay_file))["trace"]
    steps = [{"act": s["act"], "obs": s["obs"], "viol": []} for s in tr["steps"]
             if not str(s.get("note", "")).startswith("after the code left the model")]
    with open(pf, "w") as f:
        f.write(json.dumps({"id": 0, "init_obs": tr.get("init_obs"), "steps": steps}) + "\n")


def drift_of(observed):
    n_steps = sum(len(t["steps"]) for t in observed)
    n_drift, samples = 0, []
    for t in observed:
        for i, s in enumerate(t["steps"]):
            if s.get("note"):
                n_drift += 1
                if len(samples) < 5:
                    samples.append({"trace": t["id"], "step": i + 1,
                                    "labels": [label(x["act"]) for x in t["steps"][:i + 1]],
                                    "code_obs": s["obs"], "what": s["note"][:600]})
                break
    return n_steps, n_drift, samples


class _T:
    pass


def run(prop_id, tier, seed, replay=None):
    t0 = time.time()
    cfg = CONFIGS[tier]
    sc = core.scratch("br")
    # TLC's edge dumps of the thorough graphs are gigabytes: on disk, not in tmpfs (memory)
    big = tempfile.mkdtemp(prefix="br-tlc-", dir="/tmp") if tier == "thorough" else sc
    try:
        fams = {"b": ("Broadcaster", "BroadcasterProps", "TestVerifBroadcasterReplay"),
                "s": ("SendTx", "SendTxProps", "TestVerifSendTxReplay"),
                # rescan-to-broadcaster slice: the Broadcaster spec with Mined(tx, class), driven in package neutrino
                "c": ("Broadcaster", "BroadcasterProps", "TestVerifBroadcasterReplay")}
        builders = {"b": build_b, "s": build_s}
        binof = {"b": "b", "s": "s", "c": "s"}
        observed = {}
        stats = {}
        tlcs, graphs, mviol = {}, {}, Counter()
        if replay:
            rtr = json.load(open(replay))["trace"]
            k = "s" if rtr.get("fam", "broadcaster") == "sendtx" else "b"
            if any(s["act"].get("op") == "Mined" for s in rtr["steps"]):
                k = "c"
            pf = os.path.join(sc, "paths.ndjson")
            paths_from_replay(replay, pf)
            binary = builders[binof[k]](sc)
            observed[k], stats[k] = drive(binary, fams[k][2], sc, k, seed, paths=pf)
            run_keys = [k]
        else:
            # the model itself must satisfy the property once the code version says "repaired"
            binv = ["TypeOK", "Quiescent", "SemInv", "SortedInv", "IdleServes"] + (
                ["NoViolation"] if CODE_VERSION["FixMarkQuit"] else [])
            sinv = ["TypeOK"] + (["NoViolation"] if CODE_VERSION["FixRejectFromReplier"] else [])
            bconst = dict(FixMarkQuit=CODE_VERSION["FixMarkQuit"], Fine=False, Rels="{}", MayClose=False)
            sconst = dict(FixRejectFromReplier=CODE_VERSION["FixRejectFromReplier"], MinNP=1, Ordered=False, Msgs="{}")
            runs = {}
            for key in ("B", "B2", "C"):
                if key in cfg:
                    runs[key.lower()] = ("Broadcaster", dict(bconst, **cfg[key]), binv)
            for key in ("S", "S2", "S3", "S4"):
                if key in cfg:
                    runs[key.lower()] = ("SendTx", dict(sconst, **cfg[key]), sinv)
            with concurrent.futures.ThreadPoolExecutor(max_workers=3 if tier == "thorough" else 6) as ex:
                fb = {k: ex.submit(builders[k], sc) for k in ("b", "s")}
                fm = {k: ex.submit(model, v[0], v[1], os.path.join(big, "tlc-" + k), v[2]) for k, v in runs.items()}
                ff = ex.submit(model_fine, dict(dict(MayClose=False), **dict(cfg["BF"], FixMarkQuit=CODE_VERSION["FixMarkQuit"],
                                                                            Rels="{}")),
                               os.path.join(big, "tlc-fine"))
                bins = {k: f.result() for k, f in fb.items()}
                models = {k: f.result() for k, f in fm.items()}
                tlcs["b-small-steps"] = ff.result()
            run_keys = list(runs)
            for k in run_keys:
                tlc, g, gf, names = models[k]
                tlcs[k], graphs[k] = tlc, g
                mviol.update(names)
                fk = k[0]
                observed[k], stats[k] = drive(bins[binof[fk]], fams[fk][2], sc, k, seed, graph=gf,
                                              walks=cfg["walks"] if k in ("b", "s") else 0, depth=cfg["depth"],
                                              keep=cfg["keep"], tries=cfg["tries"])
                os.remove(gf)

        verdict = {"violations": [], "known": {}, "n_lines": 0, "wall": 0.0, "raw": 0}
        for k in run_keys:
            v = judge_chunked(fams[k[0]][1], prop_id, observed[k])
            verdict["violations"] += v["violations"]
            for kid, e in v["known"].items():
                if kid in verdict["known"]:
                    verdict["known"][kid]["count"] += e["count"]
                else:
                    verdict["known"][kid] = e
            verdict["n_lines"] += v["n_lines"]
            verdict["wall"] += v["wall"]
            verdict["raw"] += v["raw"]
        all_obs = [t for k in run_keys for t in observed[k]]
        cut = [k for k in run_keys if stats[k].get("aborted")]
        if cut and not verdict["violations"]:
            raise core.MachineryError("replay of %s was cut short (goroutines of the code under test left blocked for "
                                      "good in %s paths) and no property violation was recorded" % (
                                          cut, [stats[k].get("abandoned_bubbles") for k in cut]))
        dr = drift_of(all_obs)
        n_paths = sum(s.get("paths", 0) for s in stats.values()) or len(all_obs)
        n_steps = sum(s.get("steps", 0) for s in stats.values()) or dr[0]
        dr = (n_steps, dr[1], dr[2])

        tl = _T()
        tl.generated = sum(t.generated for t in tlcs.values())
        tl.distinct = sum(t.distinct for t in tlcs.values())
        tl.depth = max([t.depth for t in tlcs.values()] or [0])
        tl.wall = sum(t.wall for t in tlcs.values())
        g = _G()
        for x in graphs.values():
            g.edges += x.edges
        if replay:
            g = None
        extra = {"states": max(1, sum(t.distinct for k, t in tlcs.items() if k != "b-small-steps")),
                 "traces_validated_against_impl": n_paths, "replayed_paths": n_paths, "replayed_steps": n_steps,
                 "traces_judged_again_by_tlc_on_observed_values": len(all_obs),
                 "config": {k: v for k, v in cfg.items() if k in ("B", "S", "B2", "S2", "S3", "S4", "C", "BF")}, "code_version": CODE_VERSION,
                 "replay_stats": stats,
                 "edges_not_hit_because_the_code_chose_otherwise": sum(s.get("not_hit_scheduling", 0) for s in stats.values()),
                 "edges_only_reachable_through_model_violation": sum(
                     s.get("unreachable_without_model_violation_or_drift", 0) for s in stats.values()),
                 "model_violations_by_clause": dict(mviol),
                 "tlc_per_model": {k: {"distinct": t.distinct, "generated": t.generated, "wall_s": round(t.wall, 1)}
                                   for k, t in tlcs.items()}}
        # mix the sample traces of both drivers
        all_obs.sort(key=lambda t: (int(str(t["id"]).rsplit("-", 1)[-1]), str(t["id"])))
        return family.finish(prop_id, tier, seed, t0, tl, g, all_obs, all_obs, verdict, dr, extra, ASSUMPTIONS,
                             label=label)
    finally:
        shutil.rmtree(sc, ignore_errors=True)
        shutil.rmtree(big, ignore_errors=True)
