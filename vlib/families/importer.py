"""Import family: C14 (header import leaves the stores equal to the file, or
consistent on failure), plus the import crash points of C08 reported as extra
clauses ("ImportCrash*") of the same check."""
import json, os, random, resource, shutil, time
from .. import core, family

SPEC = os.path.join(core.VERIF, "specs", "Import")
DRIVER = os.path.join(core.VERIF, "harness", "overlay", "chainimport", "zz_verif_import_test.go")
PKG = os.path.join(core.REPO, "chainimport")
# overlay-only helper compiled into package headerfs (nothing is added to /repo): lets the driver wrap the
# stores' flat files so that a crash can fall INSIDE a store call of the importer
HOOK = os.path.join(core.VERIF, "harness", "overlay", "chainimport", "zz_verif_import_headerfs_hook.go")
HOOK_AT = os.path.join(core.REPO, "headerfs", "zz_verif_import_hook.go")
# overlay-only setter of the CFSync family for the unexported table of hard-coded filter-header checkpoints
# (package chainsync): gives the driver's test networks a checkpoint at a chosen height
CKHOOK = os.path.join(core.VERIF, "harness", "overlay", "chainsync", "zz_verif_cfsync_hook.go")
CKHOOK_AT = os.path.join(core.REPO, "chainsync", "zz_verif_cfsync_hook.go")

READY = True
PROPERTIES = ["C14"]

MANIFEST = {
    "C14": dict(
        engine="Import",
        text="Exhaustive TLC exploration of specs/Import (the stages of chainimport's Import() as separate actions over "
             "a model of the two headerfs stores: flat file by position, shared hash->height bucket, tip keys) over every "
             "configuration inside the bounds: file start height, length, write batch size, heights of the two target "
             "stores (equal / block store ahead / filter store ahead), the height at which the file leaves the stored or "
             "the valid chain and how (other valid branch, bad proof of work, bad difficulty bits, old timestamp, "
             "non-connecting header, the filter file alone differing from a height on - every position incl. exactly the tip), "
             "a hard-coded filter-header checkpoint at any height of the file, an already cancelled context, "
             "file-level damage (wrong network magic in one or "
             "both files, truncated mid-header, no headers, fewer filter headers, different start heights), and an injected "
             "error or a crash before/after every store call of writeHeadersToTargetStores; and, as a second, small "
             "configuration space, a testnet-like chain-parameter set (ReduceMinDifficulty, no retarget inside the universe): "
             "store chain with hard difficulty bits, file starting at height >= 1 that contains 1-2 late minimum-difficulty "
             "blocks followed by an on-time block which must return to the difficulty of the last ancestor that is not a "
             "minimum-difficulty block - an ancestor on the other side of the store/file boundary when that block is the "
             "first or second header of the file - and either does (valid) or wrongly stays at the limit bits. EVERY path of that graph is "
             "replayed against the real code: real headerfs stores on disk, real files written with "
             "AddHeadersImportMetadata, block headers mined for a regtest-like chain (independent ground truth: btcd's "
             "header rules over the full ancestor slice), the public NewHeadersImport(...).Import, faults injected by "
             "wrapping the store interfaces handed to the importer. After the import, a second import, a probe append and "
             "(after a crash) reopening, TLC evaluates the clauses of ImportProps.tla on what the stores answer.",
        note="Bounded (quick: start<=2, len<=4, batch<=3, store heights<=3, one deviation at a time; thorough: start<=4, "
             "len<=6, batch<=4, store heights<=5, two deviations). Trusts TLC, the projection of the read API to ids, the "
             "ground-truth oracle for header validity (btcd's rules over the full ancestor slice; regtest-like chain without "
             "retargeting, and a testnet-like one with the minimum-difficulty exception but no retarget inside the universe). The divergence-region code (one store ahead and the file extends past the shorter one) is "
             "unreachable with real headerfs stores (the continuity check compares the connecting header with the block TIP) "
             "and is therefore modelled but never replayed. Also carries the import crash points of C08 as clauses "
             "ImportCrash* (crash before / after / inside every store call of the import: torn file write, between file and "
             "index step), reported under C14. Store read errors, the HTTP source and cancellation in the middle of an import "
             "are not covered.",
        design="4 C14", technique="TLA+ spec + TLC exhaustive + spec-to-code replay of every path + TLC-judged observed traces"),
}

PROPS = {
    "C14": ["SuccessMeansEqual", "SuccessChainValid", "SuccessAgreesWithFile", "SuccessFilterCheckpoint",
            "SecondImportNoop",
            "FailureLeavesUsable", "FailureLeavesConsistent", "FailureNothingUnvalidated",
            # the import crash points of C08 (see notes/importer.md)
            "ImportCrashStoresOpen", "ImportCrashContentLegal", "ImportCrashNoTornEntry",
            "ImportCrashFilterNotAhead", "ImportCrashAppendReadable"],
}

CODE_VERSION = json.load(open(os.path.join(SPEC, "code_version.json")))

# Each tier: the regtest-like configuration space (Testnet=False) and, as a separate small TLC run, the
# testnet-like one (Testnet=True: ReduceMinDifficulty rules, hard-bits store chain, 1..MaxLate late
# minimum-difficulty blocks followed by an on-time block inside the file that is valid or wrongly "easybits";
# start height >= 1, no other deviation, no fault).  The paths of both graphs are replayed and judged together.
CONFIGS = {
    ("C14", "quick"): [
        dict(MaxStart=2, MaxLen=4, MaxBatch=3, MaxStoreH=3, MaxH=5, MaxAnom=1, MaxFaults=2, WithCrash=True,
             Testnet=False, MaxLate=0),
        dict(MaxStart=2, MaxLen=4, MaxBatch=3, MaxStoreH=3, MaxH=5, MaxAnom=1, MaxFaults=0, WithCrash=False,
             Testnet=True, MaxLate=2),
    ],
    ("C14", "thorough"): [
        dict(MaxStart=4, MaxLen=6, MaxBatch=4, MaxStoreH=5, MaxH=8, MaxAnom=2, MaxFaults=2, WithCrash=True,
             Testnet=False, MaxLate=0),
        dict(MaxStart=4, MaxLen=6, MaxBatch=4, MaxStoreH=5, MaxH=8, MaxAnom=1, MaxFaults=0, WithCrash=False,
             Testnet=True, MaxLate=3),
    ],
}

ASSUMPTIONS = [
    "header validity ground truth = btcd CheckBlockHeaderSanity/Context over the complete ancestor slice plus the "
    "PrevBlock link, for a regtest-like chain (no retargeting) and for a testnet-like chain (ReduceMinDifficulty; the "
    "retarget interval of 2016 blocks is never reached); each invalid kind breaks exactly one rule; the generator's own "
    "statement of the difficulty rule is cross-checked against btcd for every header it builds",
    "filter headers cannot be validated by an import (no filters): 'validated' for them means 'is the file's entry of "
    "that height'",
    "store errors are injected at the BlockHeaderStore / FilterHeaderStore interface (the call returns an error and "
    "leaves the store untouched, which is what C07 establishes for the stores themselves)",
    "a crash is process death between two store calls (before or after the k-th mutating call); crash points inside "
    "a store call are covered by the HeaderStore family",
    "'usable' after a failure = both tips readable, every height up to the tip readable and indexed at its height, "
    "and a subsequent append of one block + one filter header reads back",
]


def label(act):
    op = act.get("op", "?")
    c = act.get("cfg") or {}
    if op == "Begin":
        dev = c.get("kind", "none")
        if dev != "none":
            dev += "@%d" % c.get("x", -1)
        if c.get("fy", -1) >= 0:
            dev += "+fy@%d" % c["fy"]
        if c.get("fk", "none") != "none":
            dev += "+" + c["fk"]
        if c.get("ck", -1) >= 0:
            dev += "+ck@%d" % c["ck"]
        if c.get("cx", 0):
            dev += "+cancelled"
        if c.get("rsrc", "none") != "none":
            dev += "+read%s@%d(%s)" % (c["rsrc"], c.get("rk", -1), c.get("rkind"))
        if c.get("lt", -1) >= 0:
            dev += "+testnet:late@%d" % c["lt"] + ("x%d" % c["ln"] if c.get("ln", 1) != 1 else "")
        return "Begin(s=%d,n=%d,bs=%d,B=%d,F=%d,%s)" % (c.get("s", -1), c.get("n", -1), c.get("bs", -1),
                                                       c.get("hB", -1), c.get("hF", -1), dev)
    s = op
    if act.get("run", 1) == 2:
        s += "2"
    if op in ("WriteB", "WriteF"):
        s += "(%s)" % ",".join("%d@%d" % (h[0], h[1]) for h in act.get("hs", []))
    elif op == "RollbackB":
        s += "(%d)" % act.get("n", 0)
    inj = act.get("inj", "none")
    if inj not in ("none", "", None):
        s += "[%s%s]" % (inj, act.get("sn") if inj == "cw" else "")
    return s + "=" + str(act.get("res"))


class LeanGraph(core.Graph):
    """core.Graph with act/obs kept as compact JSON strings (obs interned): the thorough graph has a
    million edges whose labels carry the whole configuration; as dicts they need ~5 GB."""

    @classmethod
    def load(cls, run):
        g = cls()
        pool = {}

        def intern(o):
            t = json.dumps(o, separators=(",", ":"))
            return pool.setdefault(t, t)

        for line in open(run.inits_path):
            d = json.loads(line)
            g.inits.append((g.node(d["init"]), intern(d["obs"])))
        seen = set()
        g.ops = {}
        for line in open(run.edges_path):
            d = json.loads(line)
            f, t = g.node(d["from"]), g.node(d["to"])
            a = json.dumps(d["act"], sort_keys=True, separators=(",", ":"))
            key = (f, a, t)
            if key in seen:
                continue
            seen.add(key)
            g.out[f].append(len(g.edges))
            g.edges.append((f, a, t, intern(d["obs"]), tuple(d.get("viol", []))))
            k = "%s/%s" % (d["act"]["op"], d["act"]["res"])
            g.ops[k] = g.ops.get(k, 0) + 1
        return g


def write_chunks(graphs, sc, chunk):
    """Writes the paths of all (graph, paths) pairs, numbered consecutively, into files of at most `chunk`
    paths."""
    files, f, i = [], None, 0
    for g, paths in graphs:
        init_obs = {n: o for n, o in g.inits}
        for p in paths:
            if i % chunk == 0:
                if f:
                    f.close()
                files.append(os.path.join(sc, "paths-%d.ndjson" % len(files)))
                f = open(files[-1], "w")
            start = g.edges[p[0]][0]
            steps = ",".join('{"act":%s,"obs":%s,"viol":%s}' % (g.edges[e][1], g.edges[e][3],
                                                              json.dumps(list(g.edges[e][4]))) for e in p)
            f.write('{"id":%d,"init_obs":%s,"steps":[%s]}\n' % (i, init_obs.get(start, "null"), steps))
            i += 1
    if f:
        f.close()
    return files


class _Merged:
    """What family.finish reads from a TLC run and a graph, summed over the configuration spaces."""
    def __init__(self):
        self.generated = self.distinct = self.depth = self.n_inits = 0
        self.wall = 0.0
        self.edges = []
        self.ops = {}

    def add(self, tlc, g):
        self.generated += tlc.generated
        self.distinct += tlc.distinct
        self.depth = max(self.depth, tlc.depth)
        self.wall += tlc.wall
        self.n_inits += getattr(tlc, "n_inits", 0) or len(g.inits)
        self.edges.extend((0, 0, 0, 0, e[4]) for e in g.edges)     # finish() counts them and their viol sets
        for k, v in g.ops.items():
            self.ops[k] = self.ops.get(k, 0) + v


CHUNK = 20000   # paths per driver run / ObsCheck run (bounds the memory of the check, not its coverage)


def run(prop_id, tier, seed, replay=None):
    t0 = time.time()
    rng = random.Random(seed)
    spaces = [dict(c, **CODE_VERSION) for c in CONFIGS[(prop_id, tier)]]
    consts = spaces[0]
    sc = core.scratch("imp")
    # the JVMs of this check (TLC, ObsCheck per chunk) need < 2 GB; without a cap they grow to a quarter of the
    # machine's memory, next to the other checks
    os.environ.setdefault("_JAVA_OPTIONS", "-Xmx3g")
    phases = {"model_and_cover_s": 0.0, "build_s": 0.0, "replay_s": 0.0, "judge_s": 0.0}
    try:
        if replay:
            pf = os.path.join(sc, "paths.ndjson")
            family.paths_from_replay(replay, pf)
            tlc, g, paths, unreach, files = family._NoTLC(), None, [0], 0, [pf]
        else:
            merged, graphs, paths, unreach, per_space = _Merged(), [], [], 0, []
            for k, cs in enumerate(spaces):
                t1 = time.time()
                tlc = core.run_tlc([SPEC], "Import", cs, workers=1, invariants=["TypeOK"],
                                   workdir=os.path.join(sc, "tlc"), timeout=3000, heap="3g")
                if not tlc.ok:
                    raise core.MachineryError("TLC on Import (%s) failed: %s\n%s" % (
                        "testnet-like" if cs["Testnet"] else "regtest-like", tlc.error, tlc.stdout_tail[-3000:]))
                gk = LeanGraph.load(tlc)
                shutil.rmtree(os.path.join(sc, "tlc"), ignore_errors=True)
                pk, un = core.edge_cover(gk, rng)
                unreach += un
                graphs.append((gk, pk))
                paths += pk
                merged.add(tlc, gk)
                per_space.append({"rules": "testnet-like" if cs["Testnet"] else "regtest-like",
                                  "configurations": len(gk.inits), "states": tlc.distinct, "edges": len(gk.edges),
                                  "paths": len(pk), "tlc_wall_s": round(tlc.wall, 1),
                                  "model_and_cover_wall_s": round(time.time() - t1, 1)})
            files = write_chunks(graphs, sc, CHUNK)
            del graphs
            tlc = g = merged
            phases["model_and_cover_s"] = round(time.time() - t0, 1)
        t1 = time.time()
        binary = family.build_overlay_test(PKG, [DRIVER], os.path.join(sc, "chainimport.test"),
                                           extra_overlay={HOOK_AT: HOOK, CKHOOK_AT: CKHOOK})
        phases["build_s"] = round(time.time() - t1, 1)
        verdict = {"violations": [], "known": {}, "n_lines": 0, "wall": 0.0, "raw": 0}
        dr = [0, 0, []]
        slim = []      # what finish() needs of the observed traces, without their observations
        for k, pf in enumerate(files):
            of = os.path.join(sc, "obs-%d.ndjson" % k)
            t1 = time.time()
            observed, log = family.run_driver(binary, "TestVerifImportReplay", pf, of, sc,
                                              env_extra={"VERIF_SEED": str(seed)})
            phases["replay_s"] = round(phases["replay_s"] + time.time() - t1, 1)
            t1 = time.time()
            v = family.judge([SPEC], "ImportProps", PROPS[prop_id], prop_id, observed, label=label)
            phases["judge_s"] = round(phases["judge_s"] + time.time() - t1, 1)
            verdict["violations"] += v["violations"]
            for kid, kv in v["known"].items():
                if kid in verdict["known"]:
                    verdict["known"][kid]["count"] += kv["count"]
                else:
                    verdict["known"][kid] = kv
            verdict["n_lines"] += v["n_lines"]
            verdict["wall"] += v["wall"]
            verdict["raw"] += v["raw"]
            d = family.drift(pf, observed, label=label)
            dr[0] += d[0]
            dr[1] += d[1]
            dr[2] = (dr[2] + d[2])[:5]
            for t in observed:
                keep = len(slim) < 3 or t.get("error")
                slim.append({"id": t["id"], "error": t.get("error"), "init_obs": t.get("init_obs") if keep else None,
                             "steps": t["steps"] if keep else [None] * len(t["steps"])})
            del observed
            os.remove(of)
            os.remove(pf)
        extra = {"config": consts, "config_testnet_like": spaces[1] if len(spaces) > 1 else None,
                 "configuration_spaces": None if replay else per_space, "phases": phases,
                 "edges_only_reachable_through_model_violation": unreach,
                 "configurations": tlc.n_inits if hasattr(tlc, "n_inits") else 0,
                 "replay_chunks": len(files),
                 "check_process_maxrss_mb": resource.getrusage(resource.RUSAGE_SELF).ru_maxrss // 1024,
                 "children_maxrss_mb": resource.getrusage(resource.RUSAGE_CHILDREN).ru_maxrss // 1024}
        if g is not None:
            extra["model_edges_by_action"] = g.ops
        return family.finish(prop_id, tier, seed, t0, tlc, g, paths, slim, verdict, tuple(dr), extra,
                             ASSUMPTIONS, label=label)
    finally:
        shutil.rmtree(sc, ignore_errors=True)
