"""Header universes for the BlockManager family: one JSON object is the single
source for both Universe.tla (abstract tree TLC explores) and the Go driver
(which mines concrete headers with exactly these properties)."""
import itertools, json


def _mk(headers, checkpoints, npeers, start_heights, inv_ids, max_cf, max_batch, extra_batches=(),
        params=None, batch_filter=None, init_chains=((0,),), batches=None):
    ids = {h["id"]: h for h in headers}
    for h in headers:
        h.setdefault("kind", "ok")
        h.setdefault("work", 1)
        h.setdefault("gap", 0)
        h.setdefault("run", 1)      # > 1: the id stands for a RUN of that many consecutive real headers (see long())
        h["height"] = 0 if h["id"] == 0 else ids[h["parent"]]["height"] + 1
    children = {}
    for h in headers:
        if h["id"] != 0:
            children.setdefault(h["parent"], []).append(h["id"])
    # all connected paths (downwards) of length 1..max_batch, not containing genesis
    explicit = batches
    batches = []

    def walk(path):
        if 1 <= len(path) <= max_batch:
            batches.append(list(path))
        if len(path) == max_batch:
            return
        for c in children.get(path[-1], []):
            walk(path + [c])
    for h in headers:
        if h["id"] != 0:
            walk([h["id"]])
    if batch_filter:
        batches = [b for b in batches if batch_filter(b)]
    if explicit is not None:
        batches = [list(b) for b in explicit]
    for b in extra_batches:
        batches.append(list(b))
    return {"init_chains": [list(c) for c in init_chains], "headers": headers, "checkpoints": checkpoints, "npeers": npeers,
            "start_heights": start_heights, "inv_ids": inv_ids, "max_cf": max_cf,
            "batches": batches, "max_batch_len": max([len(b) for b in batches] + [1]), "params": params or {"retarget_blocks": 2016, "reduce_min_difficulty": True}}


def quick():
    H = [
        {"id": 0, "parent": -1, "work": 2},
        {"id": 1, "parent": 0, "work": 2},
        {"id": 2, "parent": 1, "work": 2},           # checkpoint (height 2)
        {"id": 3, "parent": 2, "work": 1},
        {"id": 4, "parent": 3, "work": 1},
        {"id": 5, "parent": 1, "work": 2},           # fork below / at the checkpoint height
        {"id": 6, "parent": 5, "work": 2},
        {"id": 7, "parent": 3, "work": 1},           # tie with 4
        {"id": 8, "parent": 7, "work": 1},           # 7,8 heavier than 4
        {"id": 9, "parent": 3, "work": 2},           # one header, heavier than 4
        {"id": 10, "parent": 4, "work": 1, "kind": "badpow"},
        {"id": 11, "parent": 10, "work": 1},         # valid child of an invalid header
        {"id": 12, "parent": 2, "work": 2},          # fork exactly at the checkpoint, heavier than 3
    ]
    return _mk(H, {2: 2}, 2, [0, 6], [4, 8], 2, 3, extra_batches=[[1, 3], [2, 2]])


def small():
    """Smaller universe for the every-change tier."""
    H = [
        {"id": 0, "parent": -1, "work": 2},
        {"id": 1, "parent": 0, "work": 2},
        {"id": 2, "parent": 1, "work": 2},           # checkpoint (height 2)
        {"id": 3, "parent": 2, "work": 1},
        {"id": 4, "parent": 1, "work": 2},           # fork below the checkpoint
        {"id": 5, "parent": 4, "work": 2},
        {"id": 6, "parent": 2, "work": 2},           # fork at the checkpoint, heavier than 3
        {"id": 7, "parent": 3, "work": 1, "kind": "badpow"},
        {"id": 8, "parent": 7, "work": 1},
        {"id": 9, "parent": 2, "work": 1},           # tie with 3
        {"id": 10, "parent": 3, "work": 2},          # hard-bits child of an easy-bits parent (ancestor walk)
        {"id": 11, "parent": 3, "work": 1, "kind": "badbits"},   # too easy for its timestamp
        {"id": 12, "parent": 6, "work": 2, "kind": "badtime"},   # not after the median time, on a fork
        {"id": 13, "parent": 10, "work": 1, "kind": "future"},   # too far in the future
    ]
    return _mk(H, {2: 2}, 2, [0, 5], [3], 2, 3, extra_batches=[[1, 3]])


def u1():
    """Main quick universe: two checkpoints (heights 1 and 3), forks below / at / above them,
    tie, heavier-by-one, a 2-deep reorganisation, one invalid header of every kind."""
    H = [
        {"id": 0, "parent": -1, "work": 2},
        {"id": 1, "parent": 0, "work": 2},           # checkpoint at height 1
        {"id": 2, "parent": 1, "work": 1},
        {"id": 3, "parent": 2, "work": 1},           # checkpoint at height 3
        {"id": 4, "parent": 3, "work": 1},
        {"id": 5, "parent": 1, "work": 2},           # fork from checkpoint 1 ...
        {"id": 6, "parent": 5, "work": 2},           # ... missing checkpoint 3
        {"id": 7, "parent": 0, "work": 2},           # alternative at checkpoint height 1
        {"id": 8, "parent": 7, "work": 2},
        {"id": 9, "parent": 3, "work": 1},           # tie with 4
        {"id": 10, "parent": 9, "work": 1},          # 9,10 heavier than 4
        {"id": 11, "parent": 3, "work": 2},          # heavier than 4 by one unit
        {"id": 12, "parent": 4, "work": 1},          # main chain continues 4,12
        {"id": 13, "parent": 11, "work": 2},         # 11,13 heavier than 4,12: 2-deep reorg
        {"id": 14, "parent": 4, "work": 1, "kind": "badpow"},
        {"id": 15, "parent": 14, "work": 1},         # valid child of an invalid header
        {"id": 16, "parent": 4, "work": 1, "kind": "badbits"},
        {"id": 17, "parent": 12, "work": 2, "kind": "badtime"},  # timestamp == median time past
        {"id": 18, "parent": 4, "work": 2},          # hard bits after an easy-bits parent
        {"id": 19, "parent": 18, "work": 1, "kind": "future"},
    ]
    B = [[i] for i in (1, 2, 3, 4, 5, 6, 7, 9, 11, 12, 13, 14, 15, 16, 17, 18, 19)] + [
        [1, 2], [2, 3], [1, 2, 3], [2, 3, 4], [3, 4], [4, 12], [3, 4, 12],
        [5, 6], [1, 5, 6], [1, 5], [7, 8], [9, 10], [3, 9, 10], [11, 13], [3, 11, 13], [4, 11],
        [12, 17], [4, 14, 15], [14, 15], [4, 16], [18, 19], [4, 18], [1, 3], [4, 4],
        []]                                          # an empty headers message
    u = _mk(H, {1: 1, 3: 3}, 2, [0, 7], [4, 13], 2, 3, batches=B,
            init_chains=[(0,), (0, 1), (0, 1, 2, 3), (0, 1, 2, 3, 4), (0, 1, 2, 3, 4, 12)])
    # peer 2 may also connect without SFNodeNetwork: connected, heard, never a sync CANDIDATE
    u["light_peers"] = [2]
    u["light_start"] = [7]
    u["light_first_only"] = True
    return u


def u1l():
    """u1 with the full non-candidate dimension (thorough tier): either peer may connect without
    SFNodeNetwork, with either advertised height."""
    u = u1()
    u["light_peers"] = [1, 2]
    u["light_start"] = list(u["start_heights"])
    return u


def deep():
    """A 5-header fork whose last header violates median-time-past only with respect to its
    TRUE ancestors (timestamp == median of the 6 real ancestors): validation of a reorg
    branch must use the branch's own headers as context."""
    H = [
        {"id": 0, "parent": -1, "work": 2},
        {"id": 1, "parent": 0, "work": 1},
        {"id": 2, "parent": 1, "work": 1},
        {"id": 3, "parent": 2, "work": 1},
        {"id": 4, "parent": 3, "work": 1},
        {"id": 5, "parent": 1, "work": 1},           # fork from 1 ...
        {"id": 6, "parent": 5, "work": 1},
        {"id": 7, "parent": 6, "work": 1},
        {"id": 8, "parent": 7, "work": 1},
        {"id": 9, "parent": 8, "work": 2, "kind": "badtime"},   # ... 5th header not after the median time
        {"id": 10, "parent": 8, "work": 1},          # valid alternative: 5..8,10 heavier than 2,3,4
        {"id": 11, "parent": 4, "work": 1},
        # a second fork whose last header is dated BEFORE its parent but after the median time of its
        # own ancestors (valid); judged against the old chain's timestamps it would look too old
        {"id": 12, "parent": 1, "work": 2, "gap": 10},
        {"id": 13, "parent": 12, "work": 2, "gap": 10},
        {"id": 14, "parent": 13, "work": 2, "gap": 10},
        {"id": 15, "parent": 14, "work": 2, "gap": -11},
    ]
    B = [[5, 6, 7, 8, 9], [5, 6, 7, 8, 10], [5, 6, 7, 8], [5, 6, 7], [9], [10], [2, 3, 4], [11], [4, 11],
         [1, 5, 6, 7, 8, 9], [1, 5, 6, 7, 8, 10], [5], [6, 7, 8, 9],
         [12, 13, 14, 15], [1, 12, 13, 14, 15], [12, 13, 14], [15]]
    return _mk(H, {}, 2, [0, 7], [4], 2, 6, batches=B, init_chains=[(0, 1), (0, 1, 2, 3, 4), (0, 1, 2, 3)])


def retarget():
    """Retarget every 4 blocks (no min-difficulty rule): difficulties follow from the timestamps,
    so the work of each header is computed by the generator (auto_work) before TLC runs."""
    H = [
        {"id": 0, "parent": -1},
        {"id": 1, "parent": 0, "gap": 10}, {"id": 2, "parent": 1, "gap": 10}, {"id": 3, "parent": 2, "gap": 10},
        {"id": 4, "parent": 3, "gap": 10},           # first header at a retarget height
        {"id": 5, "parent": 4, "gap": 10}, {"id": 6, "parent": 5, "gap": 10},
        {"id": 7, "parent": 3, "gap": 15},           # other block at the retarget height (same required bits)
        {"id": 8, "parent": 7, "gap": 10},
        {"id": 9, "parent": 3, "gap": 10, "kind": "badbits"},   # retarget not applied
        {"id": 10, "parent": 2, "gap": 40},          # slower branch: easier target after the retarget
        {"id": 11, "parent": 10, "gap": 10}, {"id": 12, "parent": 11, "gap": 10},
        {"id": 13, "parent": 6, "gap": 10},
        {"id": 14, "parent": 8, "gap": 10}, {"id": 15, "parent": 14, "gap": 10},   # 7,8,14,15: longer fork
        {"id": 16, "parent": 9, "gap": 10},          # valid child of the header that skipped the retarget
    ]
    B = [[4], [4, 5], [5, 6], [3, 4, 5], [7], [7, 8], [3, 7, 8], [2, 3, 7, 8], [9], [3, 9], [10, 11, 12], [10], [11, 12],
         [13], [7, 8, 14], [7, 8, 14, 15], [3, 7, 8, 14, 15], [6, 13], [1, 3], [9, 16], [3, 9, 16]]
    u = _mk(H, {}, 2, [0, 9], [4], 2, 5, batches=B,
            init_chains=[(0, 1, 2, 3), (0, 1, 2, 3, 4), (0, 1, 2, 3, 4, 5, 6)],
            params={"retarget_blocks": 4, "reduce_min_difficulty": False})
    u["auto_work"] = True
    return u


def stale():
    """A chain whose first headers are days old (initial sync of an old chain): the client is not
    current until it reaches a header younger than 24 h, so headers and invs from peers other than
    the sync peer are ignored until then; no checkpoints."""
    H = [
        {"id": 0, "parent": -1, "work": 2, "recent": False},
        {"id": 1, "parent": 0, "work": 2, "recent": False},
        {"id": 2, "parent": 1, "work": 2, "recent": False},
        {"id": 3, "parent": 2, "work": 1, "gap": 3300},   # 55 h after its parent: the first recent header
        {"id": 4, "parent": 3, "work": 2},
        {"id": 5, "parent": 2, "work": 2, "recent": False},   # old fork 5,6: heavier than 3 alone
        {"id": 6, "parent": 5, "work": 2, "recent": False},
        {"id": 7, "parent": 1, "work": 2, "recent": False},   # old fork at height 2 (tie)
    ]
    B = [[1], [2], [1, 2], [3], [2, 3], [3, 4], [4], [5], [5, 6], [2, 5, 6], [1, 2, 3], [7], [6]]
    u = _mk(H, {}, 2, [0, 4], [3, 6], 2, 3, batches=B, init_chains=[(0,), (0, 1, 2), (0, 1, 2, 3)])
    u["base_hours_ago"] = 72
    return u


def cpalt():
    """Checkpoint failure and what follows: a VALID header that is not the checkpoint arrives at the
    second checkpoint's height (the store is rolled back to the first checkpoint without a new tip being
    published), then the same range is replayed - also inside a message that is abandoned half-way
    (invalid last header) - and extended.  Small, so four messages are explored."""
    H = [
        {"id": 0, "parent": -1, "work": 2},
        {"id": 1, "parent": 0, "work": 2},           # checkpoint at height 1
        {"id": 2, "parent": 1, "work": 1},
        {"id": 3, "parent": 2, "work": 1},           # checkpoint at height 3
        {"id": 4, "parent": 3, "work": 1},
        {"id": 5, "parent": 2, "work": 1},           # valid, at the checkpoint height, not the checkpoint
        {"id": 6, "parent": 2, "work": 1, "kind": "badpow"},
        {"id": 7, "parent": 1, "work": 1, "kind": "badbits"},
    ]
    B = [[2], [3], [4], [5], [6], [2, 3], [2, 5], [2, 6], [1, 2], [3, 4], [2, 3, 4], [1, 2, 6], [7], [1, 7]]
    return _mk(H, {1: 1, 3: 3}, 2, [0, 4], [3], 2, 3, batches=B,
               init_chains=[(0, 1), (0, 1, 2), (0, 1, 2, 3)])


def cpdeep():
    """Checkpoint failure with a DEEP rollback: checkpoints at heights 1 and 5, so a valid header that is not the
    checkpoint, arriving at height 5 on top of a stored chain, makes handleHeadersMsg roll the stores back to the
    previous checkpoint through up to three stored blocks (rollBackToHeight called from the checkpoint-mismatch
    path, whose error is logged and the client carries on).  Used with the store-rollback fault kinds."""
    H = [
        {"id": 0, "parent": -1, "work": 2},
        {"id": 1, "parent": 0, "work": 2},           # checkpoint at height 1
        {"id": 2, "parent": 1, "work": 1},
        {"id": 3, "parent": 2, "work": 1},
        {"id": 4, "parent": 3, "work": 1},
        {"id": 5, "parent": 4, "work": 1},           # checkpoint at height 5
        {"id": 6, "parent": 5, "work": 1},
        {"id": 7, "parent": 4, "work": 1},           # valid, at the checkpoint height, not the checkpoint
        {"id": 8, "parent": 4, "work": 1, "kind": "badpow"},
    ]
    B = [[2], [3], [4], [5], [7], [8], [2, 3], [3, 4], [4, 5], [4, 7], [3, 4, 7], [2, 3, 4], [5, 6], [4, 5, 6], [1, 2]]
    return _mk(H, {1: 1, 5: 5}, 2, [0, 6], [4], 2, 3, batches=B,
               init_chains=[(0, 1), (0, 1, 2, 3), (0, 1, 2, 3, 4)])


def long():
    """Long stored chain (C19: the backlog of a subscriber that is thousands of blocks behind).  One id of the trunk
    stands for a RUN of consecutive real headers (`run`; the id's own header is the last of the run): the model and
    the Props keep counting in ids ("exactly the committed ids above k"), the driver writes / reads real headers and
    folds a run back into its id only if all of its headers appear, in order.  Trunk ids end at the real heights
    1, 500, 2000, 2001, 2500, 4000, 4001, 4500; stored chains end at 2000, 2001, 4000, 4001, 4500; every run boundary
    is a height the backlog is requested from after every step, so the distances from the filter-header tip are
    0, 1, 499, 500, 1499, 1500, 1501, 1999, 2000, 2001, 2499, 2500, 3500, 3501, 3999, 4000, 4499 and, once the live
    headers 9, 10 (4501, 4502) or the branches 11 / 12-13 are on top, each of the tip-4500 ones + 1 and + 2 (4001,
    4002, 2002, ...).  The trunk is written straight into the stores (initial chain, ImportReset); messages carry
    single headers only.  Work of a trunk id is nominal (no fork starts below the trunk's end).  No retarget inside
    the chain, inner headers 5 s apart (all younger than 24 h)."""
    ends = [1, 500, 2000, 2001, 2500, 4000, 4001, 4500]
    H = [{"id": 0, "parent": -1, "work": 2}]
    prev = 0
    for i, e in enumerate(ends):
        H.append({"id": i + 1, "parent": i, "work": 2, "run": e - prev})
        prev = e
    H += [
        {"id": 9, "parent": 8, "work": 1},           # live: 4501
        {"id": 10, "parent": 9, "work": 1},          # 4502
        {"id": 11, "parent": 8, "work": 2},          # heavier than 9 alone (1-deep reorganisation), tie with 9,10
        {"id": 12, "parent": 8, "work": 2},
        {"id": 13, "parent": 12, "work": 2},         # 12,13 heavier than 9,10: 2-deep reorganisation
    ]
    B = [[9], [9, 10], [11], [12, 13]]
    u = _mk(H, {}, 1, [0, 11], [], 2, 2, batches=B,
            init_chains=[tuple(range(0, 4)), tuple(range(0, 5)), tuple(range(0, 7)), tuple(range(0, 8)),
                         tuple(range(0, 9))],
            params={"retarget_blocks": 1000000, "reduce_min_difficulty": True})
    u["run_gap_s"] = 5
    u["init_full_only"] = True      # the stored chains come with all their filter headers
    return u


def _mtp(ts):
    """Median time past as the consensus rule defines it: median (element len/2 of the sorted list) of the timestamps
    of the up to 11 last headers of `ts` (the ancestors of the header being judged, oldest first)."""
    w = sorted(ts[-11:])
    return w[len(w) // 2]


def zigzag(n_mono=5, n_trunk=13):
    """TIMESTAMP-PROFILE class: a stored chain whose timestamps are legal but not monotone.  After a monotone prefix
    the trunk alternates between a HIGH header (10 min after the latest timestamp so far) and a LOW one (one minute
    after its own median time past: the lowest legal value), so a stored tip at an even height is dated before most
    of its 11 predecessors and one at an odd height after all of them.  Stored chains end on a low tip (0..n-1) and
    on a high tip (0..n-2); the in-memory list is re-seeded with that tip alone (start, Restart, DonePeer of the sync
    peer, ImportReset), then
      a, b    on the LOW tip: a valid, b = child of a dated exactly at the median time past of its TRUE ancestors
              (invalid).  Any ancestor walk that reads the tip's timestamp in place of older ancestors' sees a lower
              median (asserted below for the every-second-ancestor substitution) and lets b in;
      c       valid sibling of b, one minute after the true median (tightest valid);
      d, e    mirror, on the HIGH tip: d valid and dated before the tip, e = child of d, one minute after its true
              median: valid, but at or below the median of a walk that over-weights the tip (asserted) - a wrong
              walk refuses it (drift / completeness, not ChainValid);
      f       child of b's valid sibling: a third header after the re-seed.
    All timestamps are computed here (minutes after the genesis header) with this module's own median; the driver
    turns the gaps into real headers and cross-checks each against btcd's CheckBlockHeaderContext over a full slice."""
    assert n_trunk % 2 == 1 and n_trunk >= n_mono + 8
    ts = {0: 0}
    H = [{"id": 0, "parent": -1, "work": 2}]
    chain_of = {0: [0]}

    def add(parent, t=None, kind="ok"):
        i = len(H)
        anc = [ts[x] for x in chain_of[parent]]
        m = _mtp(anc)
        if kind == "badtime":
            t = m                                   # what the driver's generator does for this kind
        assert (t > m) == (kind == "ok"), (i, t, m)
        gap = t - ts[parent]
        assert gap != 0
        # min-difficulty rule: more than 20 min after the parent = easy bits (work class 1), else the last hard bits
        H.append({"id": i, "parent": parent, "gap": gap, "work": 1 if gap > 20 else 2, "kind": kind})
        ts[i] = t
        chain_of[i] = chain_of[parent] + [i]
        return i

    for h in range(1, n_trunk):
        anc = [ts[x] for x in chain_of[h - 1]]
        if h < n_mono:
            add(h - 1, ts[h - 1] + 10)
        elif h % 2 == 1:
            add(h - 1, max(anc) + 10)               # high
        else:
            add(h - 1, _mtp(anc) + 1)               # low: the lowest legal timestamp
    lo, hi = n_trunk - 1, n_trunk - 2
    assert sum(1 for x in chain_of[lo][-11:-1] if ts[x] > ts[lo]) >= 5      # low tip: before most predecessors
    assert all(ts[x] < ts[hi] for x in chain_of[hi][:-1])

    def aliased(parent, tip):
        """median of a walk from `parent` that, below the stored tip, reads the tip again at every second step"""
        c = chain_of[parent]
        k = c.index(tip)
        seen = [ts[x] for x in c[k:]][::-1]         # parent .. tip, newest first
        below = c[:k][::-1]                         # tip-1, tip-2, ... newest first
        for j, x in enumerate(below):
            seen.append(ts[x] if j % 2 == 0 else ts[tip])
        w = sorted(seen[:11])
        return w[len(w) // 2]

    a = add(lo, ts[lo] + 10)
    b = add(a, kind="badtime")
    assert aliased(a, lo) < ts[b] <= _mtp([ts[x] for x in chain_of[a]])
    c = add(a, ts[b] + 1)
    d = add(hi, _mtp([ts[x] for x in chain_of[hi]]) + 1)
    assert ts[d] < ts[hi]
    e = add(d, _mtp([ts[x] for x in chain_of[d]]) + 1)
    assert ts[e] <= aliased(d, hi)
    f = add(c, ts[c] + 10)
    B = [[lo], [a], [b], [c], [a, b], [d], [e], [f]]
    u = _mk(H, {}, 1, [n_trunk + 2], [], 1, 2, batches=B,
            init_chains=[tuple(range(0, n_trunk)), tuple(range(0, n_trunk - 1))])
    u["init_full_only"] = True
    u["profile_minutes"] = [ts[i] for i in range(len(H))]
    return u


UNIVERSES = {"zigzag": zigzag, "long": long, "cpdeep": cpdeep, "u1l": u1l, "cpalt": cpalt, "quick": quick, "small": small, "u1": u1, "deep": deep, "retarget": retarget, "stale": stale}


def tla(u):
    hs = sorted(u["headers"], key=lambda h: h["id"])
    n = len(hs)
    assert [h["id"] for h in hs] == list(range(n))
    seq = lambda xs: "<<" + ", ".join(str(x) for x in xs) + ">>"
    cps = u["checkpoints"]
    cpid = " [] ".join("h = %d -> %d" % (int(h), i) for h, i in cps.items())
    out = ["---- MODULE Universe ----", "EXTENDS Integers, Sequences",
           "NIds == %d" % n,
           "ParentOf == " + seq(h["parent"] for h in hs),
           "HeightOf == " + seq(h["height"] for h in hs),
           "WorkOf == " + seq(h["work"] for h in hs),
           "ValidH == " + seq("TRUE" if h["kind"] == "ok" else "FALSE" for h in hs),
           "RecentH == " + seq("TRUE" if h.get("recent", True) else "FALSE" for h in hs),
           "CpHeights == {" + ", ".join(str(int(h)) for h in cps) + "}",
           "CpId(h) == " + ("CASE " + cpid + " [] OTHER -> -7" if cps else "-7"),
           "MaxHeight == %d" % max(h["height"] for h in hs),
           "NPeers == %d" % u["npeers"],
           # peers that may also connect WITHOUT offering SFNodeNetwork (not sync candidates)
           "LightPeers == {" + ", ".join(str(x) for x in u.get("light_peers", [])) + "}",
           "LightStart == {" + ", ".join(str(x) for x in u.get("light_start", u["start_heights"])) + "}",
           "LightFirstOnly == " + ("TRUE" if u.get("light_first_only") else "FALSE"),
           "StartHeights == {" + ", ".join(str(x) for x in u["start_heights"]) + "}",
           "InvIds == {" + ", ".join(str(x) for x in u["inv_ids"]) + "}",
           "MaxCF == %d" % u["max_cf"],
           "Batches == <<" + ", ".join(seq(b) for b in u["batches"]) + ">>",
           # TRUE: every initial chain comes with all its filter headers (universes with runs: filter headers of a
           # run are written the way the block headers are, by import, never by a cfheaders message)
           "InitFullOnly == " + ("TRUE" if u.get("init_full_only") else "FALSE"),
           # number of real headers an id stands for (documentation: the model counts in ids, the driver folds)
           "RunOf == " + seq(h.get("run", 1) for h in hs),
           "InitChains == <<" + ", ".join(seq(c) for c in u["init_chains"]) + ">>",
           "MainChain == " + seq(u.get("main_chain") or max(u["init_chains"], key=len)),
           "===="]
    return "\n".join(out) + "\n"
