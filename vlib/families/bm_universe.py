"""Header universes for the BlockManager family: one JSON object is the single
source for both Universe.tla (abstract tree TLC explores) and the Go driver
(which mines concrete headers with exactly these properties)."""
import itertools, json


def _mk(headers, checkpoints, npeers, start_heights, inv_ids, max_cf, max_batch, extra_batches=(),
        params=None, batch_filter=None):
    ids = {h["id"]: h for h in headers}
    for h in headers:
        h.setdefault("kind", "ok")
        h.setdefault("work", 1)
        h["height"] = 0 if h["id"] == 0 else ids[h["parent"]]["height"] + 1
    children = {}
    for h in headers:
        if h["id"] != 0:
            children.setdefault(h["parent"], []).append(h["id"])
    # all connected paths (downwards) of length 1..max_batch, not containing genesis
    batches = []

    def walk(path):
        if 1 <= len(path) <= max_batch:
            batches.append(list(path))
        if len(path) == max_batch:
            return
        for c in children.get(path[-1], []):
            walk(path + [c])
    for h in headers:
        if h["id"] != 0:
            walk([h["id"]])
    if batch_filter:
        batches = [b for b in batches if batch_filter(b)]
    for b in extra_batches:
        batches.append(list(b))
    return {"headers": headers, "checkpoints": checkpoints, "npeers": npeers,
            "start_heights": start_heights, "inv_ids": inv_ids, "max_cf": max_cf,
            "batches": batches, "params": params or {"retarget_blocks": 2016, "reduce_min_difficulty": True}}


def quick():
    H = [
        {"id": 0, "parent": -1, "work": 2},
        {"id": 1, "parent": 0, "work": 2},
        {"id": 2, "parent": 1, "work": 2},           # checkpoint (height 2)
        {"id": 3, "parent": 2, "work": 1},
        {"id": 4, "parent": 3, "work": 1},
        {"id": 5, "parent": 1, "work": 2},           # fork below / at the checkpoint height
        {"id": 6, "parent": 5, "work": 2},
        {"id": 7, "parent": 3, "work": 1},           # tie with 4
        {"id": 8, "parent": 7, "work": 1},           # 7,8 heavier than 4
        {"id": 9, "parent": 3, "work": 2},           # one header, heavier than 4
        {"id": 10, "parent": 4, "work": 1, "kind": "badpow"},
        {"id": 11, "parent": 10, "work": 1},         # valid child of an invalid header
        {"id": 12, "parent": 2, "work": 2},          # fork exactly at the checkpoint, heavier than 3
    ]
    return _mk(H, {2: 2}, 2, [0, 6], [4, 8], 2, 3, extra_batches=[[1, 3], [2, 2]])


def small():
    """Smaller universe for the every-change tier."""
    H = [
        {"id": 0, "parent": -1, "work": 2},
        {"id": 1, "parent": 0, "work": 2},
        {"id": 2, "parent": 1, "work": 2},           # checkpoint (height 2)
        {"id": 3, "parent": 2, "work": 1},
        {"id": 4, "parent": 1, "work": 2},           # fork below the checkpoint
        {"id": 5, "parent": 4, "work": 2},
        {"id": 6, "parent": 2, "work": 2},           # fork at the checkpoint, heavier than 3
        {"id": 7, "parent": 3, "work": 1, "kind": "badpow"},
        {"id": 8, "parent": 7, "work": 1},
        {"id": 9, "parent": 2, "work": 1},           # tie with 3
    ]
    return _mk(H, {2: 2}, 2, [0, 5], [3], 2, 3, extra_batches=[[1, 3]])


UNIVERSES = {"quick": quick, "small": small}


def tla(u):
    hs = sorted(u["headers"], key=lambda h: h["id"])
    n = len(hs)
    assert [h["id"] for h in hs] == list(range(n))
    seq = lambda xs: "<<" + ", ".join(str(x) for x in xs) + ">>"
    cps = u["checkpoints"]
    cpid = " [] ".join("h = %d -> %d" % (int(h), i) for h, i in cps.items())
    out = ["---- MODULE Universe ----", "EXTENDS Integers, Sequences",
           "NIds == %d" % n,
           "ParentOf == " + seq(h["parent"] for h in hs),
           "HeightOf == " + seq(h["height"] for h in hs),
           "WorkOf == " + seq(h["work"] for h in hs),
           "ValidH == " + seq("TRUE" if h["kind"] == "ok" else "FALSE" for h in hs),
           "RecentH == " + seq("TRUE" if h.get("recent", True) else "FALSE" for h in hs),
           "CpHeights == {" + ", ".join(str(int(h)) for h in cps) + "}",
           "CpId(h) == " + ("CASE " + cpid + " [] OTHER -> -7" if cps else "-7"),
           "MaxHeight == %d" % max(h["height"] for h in hs),
           "NPeers == %d" % u["npeers"],
           "StartHeights == {" + ", ".join(str(x) for x in u["start_heights"]) + "}",
           "InvIds == {" + ", ".join(str(x) for x in u["inv_ids"]) + "}",
           "MaxCF == %d" % u["max_cf"],
           "Batches == <<" + ", ".join(seq(b) for b in u["batches"]) + ">>",
           "===="]
    return "\n".join(out) + "\n"
