"""HeaderList: headerlist.BoundedMemoryChain, the in-memory header window of blockManager (slice of the
BlockManager family).

Not a registered check of its own: `run_slice(prop_id, tier, seed)` is called by the checks of C02 (and may be
called by C01), which merge the coverage it returns into their evidence with `merge_evidence`.

  model    specs/HeaderList/HeaderList.tla: the ring as the code keeps it (slots whose prev / ancestor fields are
           pointers to SLOTS, headPtr, tailPtr, len), PushBack and ResetHeaderState transcribed line by line,
           Node.Ancestor with its skip pointers; explored exhaustively by TLC for every capacity of the tier
  replay   harness/overlay/headerlist/zz_verif_headerlist_test.go: EVERY transition is replayed on the real
           structure; after every call Back(), Front(), the Prev() chain from Back(), Back().Ancestor(t) for
           every t and the structure's own fields are recorded
  judge    HeaderListProps.tla on the OBSERVED traces (abstract state: the plain sequence of everything pushed
           since the last reset)
  thorough larger capacities and longer histories, plus walks over behaviours produced by `tlc -simulate`
"""
import json, os, random, shutil, sys, time
from .. import core, family

READY = False          # a slice, not a property owner: bin/vcheck must not register it
PROPERTIES = []

SPEC = os.path.join(core.VERIF, "specs", "HeaderList")
DRIVER = os.path.join(core.VERIF, "harness", "overlay", "headerlist", "zz_verif_headerlist_test.go")
PKG = os.path.join(core.REPO, "headerlist")

CLAUSES = ["BackIsLastPushed", "PrevChainExact", "FrontIsOldestRetained", "ResetLeavesOne", "AncestorIsPrevWalk"]
# C02: "any fork depth inside the in-memory window" (the Prev walk of the work comparison, Back() as the
# header every new one must connect to); C01: the window new headers are validated against and the
# skip-list ancestor lookup behind the retarget / median-time context.
PROPS = {"C01": CLAUSES, "C02": CLAUSES}

CONFIGS = {
    "quick": dict(caps=[1, 2, 3, 4], bases=[0, 4], rel=[1, 2], MaxOps=10, MaxResets=2),
    "thorough": dict(caps=[1, 2, 3, 4, 5, 6], bases=[0, 4, 5], rel=[1, 2, 3], MaxOps=12, MaxResets=3),
}
LONG = dict(caps=[2, 3, 5, 7, 8], bases=[0, 3, 12], rel=[1, 2, 5], MaxOps=40, MaxResets=6,
            num=1500, depth=41, walks=4000)

ASSUMPTIONS = [
    "headerlist.BoundedMemoryChain is used by one goroutine at a time (blockManager's handler); heights are "
    "the ones blockManager passes: any height at a reset, Back().Height+1 at every push",
    "a header is identified by its Nonce; Back()/Front()/Prev()/Ancestor() are read after every call, "
    "Ancestor for every target height from 0 to Back().Height+1",
]


def label(act):
    op = act.get("op", "?")
    if op == "Init":
        return "Init"
    return "%s(h%d)=%s" % (op, act.get("h", 0), act.get("res"))


def _tlc(cfg, sc, name, simulate=None, seed=1):
    defs = "CapsSet == {%s}\nBasesSet == {%s}\nRelSet == {%s}" % (
        ", ".join(map(str, cfg["caps"])), ", ".join(map(str, cfg["bases"])), ", ".join(map(str, cfg["rel"])))
    kw = {}
    if simulate:
        kw = dict(simulate="num=%d" % cfg["num"], view=None,
                  extra_java=["-depth", str(cfg["depth"]), "-seed", str(seed)])
    tlc = core.run_tlc([SPEC], "HeaderList", dict(MaxOps=cfg["MaxOps"], MaxResets=cfg["MaxResets"]),
                       cfg_extra="CONSTANT Caps <- CapsSet\nCONSTANT Bases <- BasesSet\nCONSTANT RelDepths <- RelSet",
                       extra_defs=defs, invariants=["TypeOK"], workers=1,
                       workdir=os.path.join(sc, name), timeout=1500, **kw)
    if not tlc.ok:
        raise core.MachineryError("TLC on HeaderList failed: %s\n%s" % (tlc.error, tlc.stdout_tail[-3000:]))
    return tlc


def _replay_and_judge(prop_id, binary, g, paths, sc, name):
    pf = os.path.join(sc, name + ".paths.ndjson")
    core.write_paths(g, paths, pf)
    observed, _ = family.run_driver(binary, "TestVerifHeaderListReplay", pf, os.path.join(sc, name + ".obs.ndjson"), sc,
                                    timeout=1500)
    # after several calls that did not return the driver stops running paths (each hung call keeps a core busy)
    observed = [t for t in observed if not (t.get("hung") or "").startswith("not run")]
    verdict = family.judge([SPEC], "HeaderListProps", PROPS[prop_id], prop_id, observed, label=label)
    dr = family.drift(pf, observed, label=label)
    return observed, verdict, dr


def run_slice(prop_id, tier, seed):
    """Returns (rc, coverage): rc 0 held, 1 violation (VIOLATION lines printed); machinery problems raise
    core.MachineryError."""
    t0 = time.time()
    rng = random.Random(seed)
    cfg = CONFIGS["thorough" if tier == "thorough" else "quick"]
    sc = core.scratch("hl")
    try:
        tlc = _tlc(cfg, sc, "tlc")
        g = core.Graph.load(tlc)
        paths, unreach = core.edge_cover(g, rng)
        if tier == "thorough":
            paths += core.random_walks(g, 3000, cfg["MaxOps"], rng)
        binary = family.build_overlay_test(PKG, [DRIVER], os.path.join(sc, "headerlist.test"))
        t1 = time.time()
        observed, verdict, dr = _replay_and_judge(prop_id, binary, g, paths, sc, "exh")
        parts = [("exhaustive", g, observed, verdict, dr, cfg)]
        sim = None
        if tier == "thorough":
            tl2 = _tlc(LONG, sc, "tlcsim", simulate=True, seed=seed)
            g2 = core.Graph.load(tl2)
            p2 = core.sim_walks(g2, LONG["walks"], LONG["depth"], rng)
            o2, v2, d2 = _replay_and_judge(prop_id, binary, g2, p2, sc, "long")
            parts.append(("long", g2, o2, v2, d2, LONG))
            sim = dict(config={k: LONG[k] for k in ("caps", "bases", "rel", "MaxOps", "MaxResets")},
                       behaviours_simulated=LONG["num"], states=len(g2.out), transitions=len(g2.edges),
                       walks_replayed=len(o2), longest_walk=max([len(t["steps"]) for t in o2] + [0]),
                       replayed_steps=sum(len(t["steps"]) for t in o2), judged_lines_by_tlc=v2["n_lines"],
                       drift_paths=d2[1], new_violations=len(v2["violations"]))
        t_rep = time.time() - t1

        rc, n_viol, n_drift, n_steps_cmp, dsamples, hung, errs = 0, 0, 0, 0, [], 0, []
        known_seen = {}
        for name, gg, obs, ver, d, c in parts:
            for kid, k in sorted(ver["known"].items()):
                print("KNOWN-FINDING: property=%s %s [%s; seen on %d replayed traces, e.g. %s]" % (
                    prop_id, k["entry"]["what_fails"], kid, k["count"], " ".join(k["example"])))
                known_seen[kid] = known_seen.get(kid, 0) + k["count"]
            for v in ver["violations"][:5]:
                fn = core.save_replay(prop_id, {"property": prop_id, "slice": "headerlist", "props": v["props"],
                                                "step": v["step"], "labels": v["labels"], "trace": v["observed"]})
                print("VIOLATION property=%s replay=%s" % (prop_id, fn))
                print("  violated: %s at step %d of (BoundedMemoryChain, capacity %s): %s" % (
                    ",".join(v["props"]), v["step"], v["observed"]["init_obs"].get("cap"), " ".join(v["labels"])))
                rc = 1
            n_viol += len(ver["violations"])
            n_drift += d[1]
            n_steps_cmp += d[0]
            dsamples += d[2][:3]
            hung += sum(1 for t in obs if t.get("hung"))
            errs += [t["error"] for t in obs if t.get("error")]
        if errs:
            raise core.MachineryError("HeaderList driver: %d paths ended in a driver error, e.g. %s" % (len(errs), errs[0][:800]))
        if n_drift:
            print("drift: %d replayed HeaderList paths left the model's prediction (not a verdict)" % n_drift, file=sys.stderr)
        by_cap = {}
        for t in observed:
            c = str(t["init_obs"]["cap"])
            by_cap[c] = by_cap.get(c, 0) + 1
        all_obs = [t for p in parts for t in p[2]]
        cov = {
            "states": tlc.distinct + (len(parts[1][1].out) if sim else 0),
            "transitions": len(g.edges) + (len(parts[1][1].edges) if sim else 0),
            "traces_validated_against_impl": len(all_obs),
            "replayed_paths": len(all_obs), "replayed_steps": sum(len(t["steps"]) for t in all_obs),
            "every_transition_replayed": unreach == 0, "paths_by_capacity": by_cap,
            "model_violating_edges": sum(1 for e in g.edges if e[4]),
            "judged_lines_by_tlc": sum(p[3]["n_lines"] for p in parts),
            "drift": {"paths": n_drift, "steps_compared": n_steps_cmp, "samples": dsamples[:5]},
            "paths_with_a_call_that_did_not_return_or_panicked": hung,
            "known_findings_seen": known_seen, "new_violations": n_viol,
            "config": {k: cfg[k] for k in ("caps", "bases", "rel", "MaxOps", "MaxResets")},
            "tlc_wall_s": round(tlc.wall, 1), "tlc_depth": tlc.depth, "replay_and_judge_wall_s": round(t_rep, 1),
            "wall_s": round(time.time() - t0, 1),
            "samples": [{"path": [label(s["act"]) for s in t["steps"]],
                         "last_obs": t["steps"][-1]["obs"] if t["steps"] else t.get("init_obs")} for t in observed[-2:]],
            "assumptions": ASSUMPTIONS,
        }
        if sim:
            cov["long_histories_tlc_simulate"] = sim
        return rc, cov
    finally:
        shutil.rmtree(sc, ignore_errors=True)


def is_my_replay(replay_file):
    try:
        return json.load(open(replay_file)).get("slice") == "headerlist"
    except Exception:
        return False


def run_replay(prop_id, replay_file):
    """Re-executes a saved violation of this slice on the working tree (bin/vcheck <id> --replay <file>)."""
    sc = core.scratch("hl")
    try:
        pf = os.path.join(sc, "paths.ndjson")
        family.paths_from_replay(replay_file, pf)
        binary = family.build_overlay_test(PKG, [DRIVER], os.path.join(sc, "headerlist.test"))
        observed, _ = family.run_driver(binary, "TestVerifHeaderListReplay", pf, os.path.join(sc, "obs.ndjson"), sc)
        verdict = family.judge([SPEC], "HeaderListProps", PROPS[prop_id], prop_id, observed, label=label)
        for v in verdict["violations"]:
            print("VIOLATION property=%s replay=%s" % (prop_id, replay_file))
            print("  violated: %s at step %d of: %s" % (",".join(v["props"]), v["step"], " ".join(v["labels"])))
        return 1 if verdict["violations"] else 0
    finally:
        shutil.rmtree(sc, ignore_errors=True)


def merge_evidence(prop_id, cov, rc=0, key="header_window_slice_headerlist"):
    """Adds this slice's measured coverage to the evidence file the calling check has just written."""
    fn = os.path.join(os.environ.get("VERIF_EVIDENCE_DIR", os.path.join(core.VERIF, "evidence")), prop_id + ".json")
    ev = json.load(open(fn))
    c = ev["coverage"]
    c[key] = {k: v for k, v in cov.items() if k not in ("samples", "assumptions")}
    c["states"] += cov["states"]
    c["transitions"] += cov["transitions"]
    c["traces_validated_against_impl"] += cov["traces_validated_against_impl"]
    c["samples"] = list(c.get("samples", [])) + cov["samples"][:2]
    ev["assumptions"] = list(ev.get("assumptions", [])) + [a for a in cov.get("assumptions", []) if a not in ev.get("assumptions", [])]
    ev["violations"] = ev.get("violations", 0) + cov["new_violations"]
    ev["wall_s"] = round(ev.get("wall_s", 0) + cov["wall_s"], 2)
    json.dump(ev, open(fn + ".tmp", "w"), indent=1)
    os.replace(fn + ".tmp", fn)
    return rc


if __name__ == "__main__":
    # python3 -m vlib.families.headerlist C02 quick 1
    pid = sys.argv[1] if len(sys.argv) > 1 else "C02"
    tier = sys.argv[2] if len(sys.argv) > 2 else "quick"
    seed = int(sys.argv[3]) if len(sys.argv) > 3 else 1
    try:
        rc, cov = run_slice(pid, tier, seed)
    except core.MachineryError as e:
        print("MACHINERY ERROR:", e, file=sys.stderr)
        sys.exit(2)
    except Exception:
        import traceback
        traceback.print_exc()
        sys.exit(2)
    json.dump(cov, sys.stdout, indent=1)
    print()
    sys.exit(rc)
