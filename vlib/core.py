"""Shared machinery for the model-based checks (see DESIGN.md section 2).

Pipeline of one check:

  1. model    TLC explores <Family>.tla exhaustively inside the bounds of the
              chosen configuration; every transition is exported as a JSON line
              (state, action label, successor, observables, properties the
              MODEL violates on that transition).
  2. paths    a set of paths from the initial states covering every exported
              transition is computed (never continuing past a transition on
              which the model itself violates a property).
  3. replay   a Go driver executes every path against the real code built from
              /repo's working tree and records what the code did and what its
              public API answers after every step.
  4. judge    TLC evaluates the property operators of <Family>Props.tla on the
              OBSERVED traces (ObsCheck).  Only this step produces verdicts.
  5. drift    observed vs. model-predicted observables (informational).
"""
import json, os, re, shutil, subprocess, sys, tempfile, time, hashlib, random

VERIF = os.path.dirname(os.path.dirname(os.path.abspath(__file__)))
REPO = os.environ.get("VERIF_REPO", "/repo")
TLA_CP = "/opt/veriftools/tla/tla2tools.jar:/opt/veriftools/tla/CommunityModules-deps.jar"


class MachineryError(Exception):
    pass


def scratch(prefix="vf"):
    base = "/dev/shm" if os.path.isdir("/dev/shm") and os.access("/dev/shm", os.W_OK) else None
    return tempfile.mkdtemp(prefix=prefix + "-", dir=base)


def go_env():
    env = dict(os.environ)
    env["GOFLAGS"] = "-mod=mod"
    env["GOPROXY"] = "off"
    env.pop("GOSUMDB", None)
    env.pop("GOTOOLCHAIN", None)
    return env


# --------------------------------------------------------------------------
# TLC
# --------------------------------------------------------------------------
def tla_value(v):
    if isinstance(v, bool):
        return "TRUE" if v else "FALSE"
    if isinstance(v, int):
        return str(v)
    if isinstance(v, str):
        return v  # raw TLA+ expression
    raise ValueError(v)


class TLCRun:
    def __init__(self):
        self.generated = 0
        self.distinct = 0
        self.depth = 0
        self.ok = False
        self.error = None
        self.wall = 0.0
        self.stdout_tail = ""
        self.edges_path = None
        self.n_edges = 0
        self.n_inits = 0
        self.cmd = ""


def run_tlc(spec_dirs, module, constants, cfg_extra="", export=True, workers=1,
            timeout=1800, workdir=None, extra_defs="", invariants=(), properties=(),
            simulate=None, heap=None, view="View", deadlock=False, keep=False, extra_java=()):
    """Runs TLC on `module` with a generated MC wrapper. If export, every
    transition is written to <workdir>/edges.ndjson and initial states to
    inits.ndjson."""
    wd = workdir or scratch("tlc")
    os.makedirs(wd, exist_ok=True)
    for d in spec_dirs:
        for f in os.listdir(d):
            if f.endswith(".tla"):
                shutil.copy(os.path.join(d, f), wd)
    mc = ["---- MODULE MC ----", "EXTENDS %s" % module]
    if export:
        mc.append('EdgeDump == PrintT(ToJson([from |-> State, act |-> act\', to |-> State\', '
                  'obs |-> Obs\', viol |-> viol\']))')
        mc.append('InitDump == (act.op = "Init") => PrintT(ToJson([init |-> State, obs |-> Obs]))')
    mc.append(extra_defs)
    mc.append("====")
    open(os.path.join(wd, "MC.tla"), "w").write("\n".join(mc) + "\n")
    cfg = ["INIT Init", "NEXT Next"]
    if constants:
        cfg.append("CONSTANTS")
        for k, v in constants.items():
            cfg.append("  %s = %s" % (k, tla_value(v)))
    if view:
        cfg.append("VIEW %s" % view)
    if export:
        cfg.append("ACTION_CONSTRAINT EdgeDump")
        cfg.append("INVARIANT InitDump")
    for i in invariants:
        cfg.append("INVARIANT %s" % i)
    for p in properties:
        cfg.append("PROPERTY %s" % p)
    cfg.append("CHECK_DEADLOCK %s" % ("TRUE" if deadlock else "FALSE"))
    cfg.append(cfg_extra)
    open(os.path.join(wd, "MC.cfg"), "w").write("\n".join(cfg) + "\n")

    java = ["java", "-XX:+UseParallelGC"]
    if heap:
        java.append("-Xmx%s" % heap)
    java += ["-Xss64m", "-cp", TLA_CP, "tlc2.TLC", "-workers", str(workers),
             "-metadir", os.path.join(wd, "meta"), "-noGenerateSpecTE"]
    if simulate:
        java += ["-simulate", simulate]
    java += list(extra_java)
    java += ["MC.tla"]
    r = TLCRun()
    r.cmd = " ".join(java[3:])
    r.workdir = wd
    t0 = time.time()
    edges = open(os.path.join(wd, "edges.ndjson"), "w") if export else None
    inits = open(os.path.join(wd, "inits.ndjson"), "w") if export else None
    tail = []
    env = dict(os.environ)
    env.pop("JAVA_TOOL_OPTIONS", None)
    p = subprocess.Popen(["timeout", str(timeout)] + java, cwd=wd, stdout=subprocess.PIPE,
                         stderr=subprocess.STDOUT, text=True, env=env)
    for line in p.stdout:
        if line.startswith('"{'):
            try:
                s = json.loads(line)
            except Exception:
                tail.append(line)
                continue
            if s.startswith('{"init"') or '"init":' in s[:12]:
                inits.write(s + "\n")
                r.n_inits += 1
            else:
                edges.write(s + "\n")
                r.n_edges += 1
            continue
        tail.append(line)
        if len(tail) > 400:
            del tail[:200]
        m = re.search(r"(\d+) states generated, (\d+) distinct states found", line)
        if m:
            r.generated, r.distinct = int(m.group(1)), int(m.group(2))
        m = re.search(r"depth of the complete state graph search is (\d+)", line)
        if m:
            r.depth = int(m.group(1))
    rc = p.wait()
    if edges:
        edges.close()
        inits.close()
        r.edges_path = os.path.join(wd, "edges.ndjson")
        r.inits_path = os.path.join(wd, "inits.ndjson")
    r.wall = time.time() - t0
    r.stdout_tail = "".join(tail)
    r.rc = rc
    if rc == 124:
        r.error = "timeout"
    elif "Model checking completed. No error has been found" in r.stdout_tail or \
            (simulate and rc == 0):
        r.ok = True
    else:
        m = re.search(r"Error: (.*)", r.stdout_tail)
        r.error = m.group(1) if m else "tlc rc=%d" % rc
    return r


# --------------------------------------------------------------------------
# Graph and path cover
# --------------------------------------------------------------------------
class Graph:
    def __init__(self):
        self.ids = {}
        self.inits = []      # (node, obs)
        self.init_state = {} # node -> exported State record of an initial state
        self.out = {}        # node -> list of edge idx
        self.edges = []      # (from, act, to, obs, viol)

    def node(self, st):
        k = json.dumps(st, sort_keys=True, separators=(",", ":"))
        k = hashlib.blake2b(k.encode(), digest_size=12).digest()
        n = self.ids.get(k)
        if n is None:
            n = len(self.ids)
            self.ids[k] = n
            self.out[n] = []
        return n

    @classmethod
    def load(cls, run):
        g = cls()
        for line in open(run.inits_path):
            d = json.loads(line)
            n = g.node(d["init"])
            g.inits.append((n, d["obs"]))
            g.init_state[n] = d["init"]
        seen = set()
        for line in open(run.edges_path):
            d = json.loads(line)
            f, t = g.node(d["from"]), g.node(d["to"])
            key = (f, json.dumps(d["act"], sort_keys=True), t)
            if key in seen:
                continue
            seen.add(key)
            g.out[f].append(len(g.edges))
            g.edges.append((f, d["act"], t, d["obs"], d.get("viol", [])))
        return g


def edge_cover(g, rng=None, max_len=64):
    """Greedy cover of all edges by paths from initial states. A path is a list
    of edge indices. Paths never continue past a model-violating edge."""
    covered = [False] * len(g.edges)
    # BFS tree from inits over non-violating edges: shortest way to each node
    parent = {}
    order = []
    from collections import deque
    dq = deque()
    for n, _ in g.inits:
        if n not in parent:
            parent[n] = None
            dq.append(n)
    while dq:
        n = dq.popleft()
        order.append(n)
        for ei in g.out[n]:
            f, a, t, o, v = g.edges[ei]
            if v:
                continue
            if t not in parent:
                parent[t] = ei
                dq.append(t)

    def prefix(n):
        p = []
        while parent[n] is not None:
            ei = parent[n]
            p.append(ei)
            n = g.edges[ei][0]
        p.reverse()
        return p

    paths = []
    for n in order:
        outs = list(g.out[n])
        if rng:
            rng.shuffle(outs)
        for ei in outs:
            if covered[ei]:
                continue
            path = prefix(n)
            cur = ei
            while True:
                path.append(cur)
                covered[cur] = True
                f, a, t, o, v = g.edges[cur]
                if v or len(path) >= max_len:
                    break
                nxt = [e for e in g.out[t] if not covered[e]]
                if not nxt:
                    break
                cur = rng.choice(nxt) if rng else nxt[0]
            for e in path:
                covered[e] = True
            paths.append(path)
    unreachable = sum(1 for c in covered if not c)
    return paths, unreachable


def random_walks(g, n, depth, rng):
    paths = []
    for _ in range(n):
        node = rng.choice(g.inits)[0]
        path = []
        for _ in range(depth):
            outs = g.out[node]
            if not outs:
                break
            ei = rng.choice(outs)
            path.append(ei)
            if g.edges[ei][4]:
                break
            node = g.edges[ei][2]
        if path:
            paths.append(path)
    return paths


def sim_walks(g, n, depth, rng):
    """Walks over a graph exported by `tlc -simulate`: TLC prints ALL successors of
    every state a behaviour visits, so visited states have out-edges and the
    others are leaves. A walk prefers successors that were themselves visited
    (i.e. follows the simulated behaviours, branching where they meet) and ends
    with one step into a leaf."""
    paths = []
    for _ in range(n):
        node = rng.choice(g.inits)[0]
        path = []
        for _ in range(depth):
            outs = g.out[node]
            if not outs:
                break
            inner = [ei for ei in outs if g.out[g.edges[ei][2]] and not g.edges[ei][4]]
            ei = rng.choice(inner) if inner and rng.random() < 0.9 else rng.choice(outs)
            path.append(ei)
            if g.edges[ei][4]:
                break
            node = g.edges[ei][2]
        if path:
            paths.append(path)
    return paths


def write_paths(g, paths, fn):
    init_obs = {n: o for n, o in g.inits}
    with open(fn, "w") as f:
        for i, p in enumerate(paths):
            start = g.edges[p[0]][0]
            steps = [{"act": g.edges[e][1], "obs": g.edges[e][3], "viol": g.edges[e][4]} for e in p]
            f.write(json.dumps({"id": i, "init_obs": init_obs.get(start),
                                "init": g.init_state.get(start), "steps": steps},
                               separators=(",", ":")) + "\n")


# --------------------------------------------------------------------------
# Judging observed traces with TLC (ObsCheck)
# --------------------------------------------------------------------------
OBSCHECK = r'''---- MODULE ObsCheck ----
EXTENDS %(props)s, TLC, Json, IOUtils
Trace == ndJsonDeserialize("obs.ndjson")
RECURSIVE S2S(_)
S2S(S) == IF S = {} THEN <<>> ELSE LET x == CHOOSE y \in S : TRUE IN <<x>> \o S2S(S \ {x})
SetToSeq0(S) == S2S(S)
VARIABLES l, a, prev, bad
ovars == <<l, a, prev, bad>>
OInit == l = 1 /\ a = AbsInit /\ prev = Trace[1].obs /\ bad = {}
Step ==
  /\ l <= Len(Trace)
  /\ LET e == Trace[l] IN
     IF e.i = 0
     THEN /\ a' = AbsInit /\ prev' = e.obs
          /\ bad' = bad \cup (IF l > 1 THEN {<<Trace[l-1].t, Trace[l-1].i, n>> : n \in EndViol(a, prev)} ELSE {})
     ELSE LET a2 == AbsNext(a, e.act, e.obs)
              v  == Viol(a, prev, e.act, a2, e.obs)
          IN  /\ a' = a2 /\ prev' = e.obs
              /\ bad' = bad \cup {<<e.t, e.i, n>> : n \in v}
  /\ l' = l + 1
Done ==
  /\ l = Len(Trace) + 1
  /\ LET fin == bad \cup {<<Trace[l-1].t, Trace[l-1].i, n>> : n \in EndViol(a, prev)}
     IN JsonSerialize("viol.json", [n |-> Len(Trace), viol |-> SetToSeq0(fin)])
  /\ l' = l + 1 /\ UNCHANGED <<a, prev, bad>>
ONext == Step \/ Done
====
'''


def obs_check(spec_dirs, props_module, traces, timeout=1800):
    """traces: list of dicts {id, init_obs, steps:[{act, obs}]} as observed on
    the real code. Returns list of (trace id, step index, property name)."""
    wd = scratch("obs")
    try:
        for d in spec_dirs:
            for f in os.listdir(d):
                if f.endswith(".tla"):
                    shutil.copy(os.path.join(d, f), wd)
        n = 0
        with open(os.path.join(wd, "obs.ndjson"), "w") as f:
            for t in traces:
                f.write(json.dumps({"t": t["id"], "i": 0, "act": {"op": "Init"}, "obs": t["init_obs"]},
                                   separators=(",", ":")) + "\n")
                n += 1
                for i, s in enumerate(t["steps"]):
                    f.write(json.dumps({"t": t["id"], "i": i + 1, "act": s["act"], "obs": s["obs"]},
                                       separators=(",", ":")) + "\n")
                    n += 1
        if n == 0:
            return [], 0, 0.0
        src = OBSCHECK % {"props": props_module}
        open(os.path.join(wd, "ObsCheck.tla"), "w").write(src)
        open(os.path.join(wd, "ObsCheck.cfg"), "w").write(
            "INIT OInit\nNEXT ONext\nCHECK_DEADLOCK FALSE\n")
        t0 = time.time()
        env = dict(os.environ)
        env.pop("JAVA_TOOL_OPTIONS", None)
        p = subprocess.run(["timeout", str(timeout), "java", "-XX:+UseParallelGC", "-Xss256m", "-cp", TLA_CP,
                            "tlc2.TLC", "-workers", "1", "-metadir", os.path.join(wd, "meta"),
                            "-noGenerateSpecTE", "ObsCheck.tla"], cwd=wd, stdout=subprocess.PIPE,
                           stderr=subprocess.STDOUT, text=True, env=env)
        vf = os.path.join(wd, "viol.json")
        if p.returncode != 0 or not os.path.exists(vf):
            raise MachineryError("ObsCheck TLC failed rc=%d\n%s" % (p.returncode, p.stdout[-3000:]))
        d = json.load(open(vf))
        if d["n"] != n:
            raise MachineryError("ObsCheck consumed %d of %d lines" % (d["n"], n))
        return [tuple(x) for x in d["viol"]], n, time.time() - t0
    finally:
        shutil.rmtree(wd, ignore_errors=True)


# --------------------------------------------------------------------------
# Known findings
# --------------------------------------------------------------------------
def load_known():
    fn = os.path.join(VERIF, "known_findings.json")
    if not os.path.exists(fn):
        return []
    return json.load(open(fn))


def default_label(act):
    s = act.get("op", "?")
    stop = act.get("stop", "none")
    if stop not in ("none", "", None):
        s += "[%s%s]" % (stop, act.get("sn", ""))
    if "res" in act:
        s += "=" + str(act["res"])
    return s


def match_known(known, prop_id, name, labels):
    """labels: list of action labels of the trace up to and including the
    violating step. Returns the matching known entry (status known) or None."""
    text = " ".join(labels)
    for k in known:
        if k.get("status") != "known" or k.get("property") != prop_id:
            continue
        if name not in k.get("props", []):
            continue
        if re.search(k["pattern"], text):
            return k
    return None


# --------------------------------------------------------------------------
# Evidence
# --------------------------------------------------------------------------
def write_evidence(prop_id, tier, seed, level, coverage, assumptions, wall, violations):
    evdir = os.environ.get("VERIF_EVIDENCE_DIR", os.path.join(VERIF, "evidence"))
    os.makedirs(evdir, exist_ok=True)
    ev = {"property_id": prop_id, "tier": tier, "seed": seed, "level": level,
          "coverage": coverage, "assumptions": assumptions, "wall_s": round(wall, 2),
          "violations": violations}
    fn = os.path.join(evdir, prop_id + ".json")
    tmp = fn + ".tmp"
    json.dump(ev, open(tmp, "w"), indent=1)
    os.replace(tmp, fn)
    return fn


def save_replay(prop_id, obj):
    d = os.environ.get("VERIF_REPLAY_DIR", os.path.join(VERIF, "replays"))
    os.makedirs(d, exist_ok=True)
    h = hashlib.sha1(json.dumps(obj, sort_keys=True).encode()).hexdigest()[:10]
    fn = os.path.join(d, "%s-%s.json" % (prop_id, h))
    json.dump(obj, open(fn, "w"), indent=1)
    return fn
