--------------------------- MODULE BlockQueryProps ---------------------------
(***************************************************************************)
(* Property C06 ("a block is returned only if it is the requested,         *)
(* internally valid block") stated over OBSERVABLES only: the value        *)
(* ChainService.GetBlock returns, the contents of BlockCache, the ban      *)
(* store, and the Progress value the response handler hands back to the    *)
(* dispatcher.  Evaluated by TLC on the model's transitions and on every   *)
(* step of every trace observed on the real code.                          *)
(*                                                                         *)
(* Blocks 1..nb are in the header store, nb+1 is a hash it does not know.  *)
(*   obs.ret      RUN (no call returned yet / call in flight), ERR (error),*)
(*                b (returned a block whose header hash is block b's,      *)
(*                whose transactions reproduce that header's merkle root   *)
(*                and whose witness commitment is valid - all three        *)
(*                recomputed by the harness, not by the code under test),  *)
(*                G (returned anything else).                              *)
(*   obs.cache[b] 0 absent, 1 block b (same three checks) under b's key,   *)
(*                G anything else; obs.cx entries under other keys.        *)
(*   obs.banned[p] 1 if the ban store reports peer p banned.               *)
(*   obs.fut[b]   1 if the STORED header of block b is dated more than two *)
(*                hours ahead of the node's clock (an input class, constant *)
(*                along a trace; the harness built the store that way).    *)
(*                The statement quantifies over every stream of responses  *)
(*                for a hash the client has a header for, so every clause  *)
(*                below applies to such a target unchanged.  What the      *)
(*                client does with the INTACT block of such a target       *)
(*                (the code rejects it on the header's timestamp and bans  *)
(*                the sender) is not judged: the statement neither demands *)
(*                that a valid block be returned nor forbids that ban.     *)
(* act = [op, tgt, k, b, p, res]:                                          *)
(*   HeaderLookup (start of GetBlock(tgt); res err if the header is not    *)
(*   known), CacheLookup (hit | miss), Submit, Resp (response of class k   *)
(*   from peer p; res = the handler's Progress: "none" (not finished, not  *)
(*   progressed), "prog", "fin" (finished, progressed), "finnp"), Verdict  *)
(*   (k = ok | err), Return (res ok | err | panic).                        *)
(*   Response classes: "intact" the requested block; "other" block b # tgt *)
(*   (b = nb+1: a block the store does not know), intact; "sibling" the    *)
(*   requested block with exactly ONE header field changed (version,       *)
(*   previous block, merkle root, timestamp, bits or nonce; proof of work  *)
(*   still valid; transactions, witness commitment untouched) - another    *)
(*   header hash, hence another block; "mutated" one                       *)
(*   transaction altered, "added" a transaction added, "removed" one       *)
(*   removed, "stripped" witness data stripped, "forged" witness           *)
(*   commitment / witness data forged - all five under the REQUESTED       *)
(*   header; "nonblock" not a block message; "dup" the previous message    *)
(*   once more (from peer p).                                              *)
(***************************************************************************)
EXTENDS Integers, Sequences, FiniteSets

RUN == -9
ERR == -3
G   == -2

Invalid == {"mutated", "added", "removed", "stripped", "forged"}
Ignored == {"other", "sibling", "nonblock"}
Fin     == {"fin", "finnp"}

AbsInit == [tgt |-> RUN, last |-> [k |-> "none", b |-> 0]]

Eff(a, act) == IF act.k = "dup" THEN a.last ELSE [k |-> act.k, b |-> act.b]

AbsNext(a, act, o2) ==
  CASE act.op = "HeaderLookup" -> [tgt |-> act.tgt, last |-> [k |-> "none", b |-> 0]]
    [] act.op = "Resp"         -> [a EXCEPT !.last = Eff(a, act)]
    [] OTHER                   -> a

Viol(a, o, act, a2, o2) ==
  LET nb  == Len(o2.cache)
      e   == Eff(a, act)
      isR == act.op = "Resp"
  IN
  \* "A response that carries the requested header but fails these checks is
  \*  discarded and its sender banned"
  (IF isR /\ e.k \in Invalid /\ o2.banned[act.p] # 1
   THEN {"InvalidSenderBanned"} ELSE {})
  \cup
  \* "any other response is ignored"
  (IF isR /\ e.k \in Ignored /\ (o2.banned # o.banned \/ o2.cache # o.cache)
   THEN {"OthersIgnored"} ELSE {})
  \cup
  \* "the request is retried with other peers": a rejected response must not
  \* finish the request in the dispatcher's eyes
  (IF isR /\ e.k \in (Invalid \cup Ignored) /\ act.res \in Fin
   THEN {"RejectedNotFinished"} ELSE {})
  \cup
  \* nothing but the requested, intact block is ever cached
  (IF \/ \E i \in 1..nb : o2.cache[i] \notin {0, 1}
      \/ o2.cx # 0
      \/ \E i \in 1..nb : o2.cache[i] # 0 /\ o.cache[i] = 0 /\ i # a2.tgt
   THEN {"OnlyIntactCached"} ELSE {})
  \cup
  \* "Every block the client returns for a hash has exactly that header hash,
  \*  a transaction list that reproduces the header's merkle root, and a valid
  \*  witness commitment ... the call reports failure rather than return
  \*  anything else"
  (IF act.op = "Return" /\ ~(o2.ret = ERR \/ (o2.ret = a.tgt /\ a.tgt >= 1 /\ a.tgt <= nb))
   THEN {"ReturnedIsRequested"} ELSE {})
  \cup
  (IF act.res = "panic" THEN {"FailsCleanly"} ELSE {})
  \cup
  \* "the call fails rather than return ..." / "the call reports failure rather
  \*  than return anything else": every GetBlock call comes back, with a
  \* result or with an error.  res = "hang": the call had neither reached its
  \* next step nor returned when a wall-clock bound far above anything the
  \* scenario can legitimately take expired (the goroutine dump is in the step).
  (IF act.res = "hang" THEN {"CallReturns"} ELSE {})

EndViol(a, o) == {}
=============================================================================
