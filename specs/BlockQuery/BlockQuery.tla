------------------------------ MODULE BlockQuery ------------------------------
(***************************************************************************)
(* Implementation-shaped model of ChainService.GetBlock (query.go:799) and *)
(* its response handler (closure at :842).                                 *)
(*                                                                         *)
(* State: cache (BlockCache: set of blocks held), banned (ban store),      *)
(* found (foundBlock # nil), last (the previous response, for "dup"), the  *)
(* call's pc / tgt / val, ret (what the last call returned), ncalls.       *)
(* Calls are sequential (GetBlock has no shared state besides the cache    *)
(* and the ban store); within a call:                                      *)
(*   HeaderLookup :806  BlockHeaders.FetchHeader + hash comparison         *)
(*   CacheLookup  :825  BlockCache.Get                                     *)
(*   Submit       :925  workManager.Query                                  *)
(*   Resp         :842  one step per response: type checks, hash equality, *)
(*                      CheckBlockSanity, ValidateWitnessCommitment, ban   *)
(*   Verdict      :927  error channel; foundBlock check; BlockCache.Put    *)
(*                      (:943; same goroutine, nothing can intervene)      *)
(*   Return             the caller sees the result                         *)
(*                                                                         *)
(* Target classes: blocks of Fut (a subset of Known) are blocks whose      *)
(* STORED header carries a timestamp more than two hours ahead of the      *)
(* node's adjusted time (the header store does not look at timestamps; the *)
(* header was within the limit on the clock it was synced with).  The      *)
(* handler's CheckBlockSanity (:868) runs the HEADER checks first          *)
(* (btcd validate.go checkBlockHeaderSanity: ErrTimeTooNew) and only then  *)
(* looks at the transactions, so for such a target EVERY response under    *)
(* the requested header - the intact block included - is rejected and its  *)
(* sender banned; the call can only fail.  That is the code as it is; the  *)
(* Props say nothing about the intact response to such a target.           *)
(***************************************************************************)
EXTENDS Integers, Sequences, FiniteSets, TLC, Json, BlockQueryProps

CONSTANTS NB,        \* blocks 1..NB are known to the header store
          NP,        \* peers 1..NP
          MaxCalls,  \* GetBlock calls per history
          MaxResp,   \* responses per call (0 = unbounded)
          Fut        \* known blocks whose stored header is dated > 2 h in the future

VARIABLES cache, banned, pc, tgt, found, last, val, ret, ncalls, nresp, abs, act, viol

vars == <<cache, banned, pc, tgt, found, last, val, ret, ncalls, nresp, abs, act, viol>>

Known   == 1..NB
Unknown == NB + 1
Peers   == 1..NP
None    == [k |-> "none", b |-> 0]

Obs == [ret    |-> ret,
        cache  |-> [i \in 1..NB |-> IF i \in cache THEN 1 ELSE 0],
        cx     |-> 0,
        fut    |-> [i \in 1..NB |-> IF i \in Fut THEN 1 ELSE 0],
        banned |-> [p \in 1..NP |-> IF p \in banned THEN 1 ELSE 0]]

A(op, k, b, p, res) == [op |-> op, tgt |-> tgt', k |-> k, b |-> b, p |-> p, res |-> res]

Finish(a) ==
  /\ act'  = a
  /\ abs'  = AbsNext(abs, a, Obs')
  /\ viol' = Viol(abs, Obs, a, abs', Obs')

HeaderLookup(t) ==
  /\ pc = "idle" /\ ncalls < MaxCalls
  /\ tgt' = t /\ found' = FALSE /\ last' = None /\ ret' = RUN /\ nresp' = 0
  /\ UNCHANGED <<cache, banned, ncalls>>
  /\ IF t = Unknown
     THEN /\ pc' = "ret" /\ val' = ERR
          /\ Finish(A("HeaderLookup", "", 0, 0, "err"))
     ELSE /\ pc' = "cachel" /\ val' = RUN
          /\ Finish(A("HeaderLookup", "", 0, 0, "ok"))

CacheLookup ==
  /\ pc = "cachel"
  /\ UNCHANGED <<cache, banned, tgt, found, last, ret, ncalls, nresp>>
  /\ IF tgt \in cache
     THEN /\ pc' = "ret" /\ val' = tgt
          /\ Finish(A("CacheLookup", "", 0, 0, "hit"))
     ELSE /\ pc' = "submit" /\ UNCHANGED val
          /\ Finish(A("CacheLookup", "", 0, 0, "miss"))

Submit ==
  /\ pc = "submit" /\ pc' = "query"
  /\ UNCHANGED <<cache, banned, tgt, found, last, val, ret, ncalls, nresp>>
  /\ Finish(A("Submit", "", 0, 0, "ok"))

Resp(k, b, p) ==
  LET e == IF k = "dup" THEN last ELSE [k |-> k, b |-> b]
  IN
  /\ pc = "query"
  /\ (MaxResp = 0 \/ nresp < MaxResp)
  /\ nresp' = IF MaxResp = 0 THEN 0 ELSE nresp + 1
  /\ CASE k = "dup"   -> last # None /\ b = last.b
       [] k = "other" -> b \in (Known \cup {Unknown}) \ {tgt}
       [] k = "nonblock" -> b = 0
       [] OTHER -> b = tgt
  /\ last' = e
  /\ UNCHANGED <<cache, pc, tgt, val, ret, ncalls>>
  /\ CASE e.k = "intact" /\ tgt \notin Fut ->
            /\ found' = TRUE /\ UNCHANGED banned
            /\ Finish(A("Resp", k, b, p, "fin"))
       [] e.k = "intact" /\ tgt \in Fut ->
            \* CheckBlockSanity fails on the header's timestamp: :879 BanPeer, noProgress
            /\ banned' = banned \cup {p} /\ UNCHANGED found
            /\ Finish(A("Resp", k, b, p, "none"))
       [] e.k \in Invalid ->
            /\ banned' = banned \cup {p} /\ UNCHANGED found
            /\ Finish(A("Resp", k, b, p, "none"))
       [] OTHER ->
            /\ UNCHANGED <<banned, found>>
            /\ Finish(A("Resp", k, b, p, "none"))

Verdict(v) ==
  /\ pc = "query" /\ pc' = "ret"
  /\ IF v = "ok" /\ found
     THEN cache' = cache \cup {tgt} /\ val' = tgt
     ELSE UNCHANGED cache /\ val' = ERR
  /\ UNCHANGED <<banned, tgt, found, last, ret, ncalls, nresp>>
  /\ Finish(A("Verdict", v, 0, 0, "ok"))

Return ==
  /\ pc = "ret" /\ pc' = "idle"
  /\ ret' = val /\ ncalls' = ncalls + 1
  /\ UNCHANGED <<cache, banned, tgt, found, last, val, nresp>>
  /\ Finish(A("Return", "", 0, 0, IF val = ERR THEN "err" ELSE "ok"))

Classes == {"intact", "other", "sibling", "mutated", "added", "removed", "stripped", "forged", "dup", "nonblock"}

Init ==
  /\ cache = {} /\ banned = {} /\ pc = "idle" /\ tgt = RUN /\ found = FALSE /\ last = None
  /\ val = RUN /\ ret = RUN /\ ncalls = 0 /\ nresp = 0
  /\ abs = AbsInit
  /\ act = [op |-> "Init", tgt |-> RUN, k |-> "", b |-> 0, p |-> 0, res |-> "ok"]
  /\ viol = {}

Next ==
  \/ \E t \in Known \cup {Unknown} : HeaderLookup(t)
  \/ CacheLookup \/ Submit
  \/ \E k \in Classes, b \in 0..(NB + 1), p \in Peers : Resp(k, b, p)
  \/ \E v \in {"ok", "err"} : Verdict(v)
  \/ Return

Spec == Init /\ [][Next]_vars

ASSUME Fut \subseteq Known

TypeOK == cache \subseteq Known /\ cache \cap Fut = {} /\ banned \subseteq Peers /\ ncalls \in 0..MaxCalls
NoViolation == viol = {}

State == [cache |-> cache, banned |-> banned, pc |-> pc, tgt |-> tgt, found |-> found,
          last |-> last, val |-> val, ret |-> ret, ncalls |-> ncalls, nresp |-> nresp]
View == <<cache, banned, pc, tgt, found, last, val, ret, ncalls, nresp, abs>>
=============================================================================
