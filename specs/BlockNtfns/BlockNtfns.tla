------------------------------ MODULE BlockNtfns ------------------------------
(***************************************************************************)
(* Implementation-shaped model of neutrino's blockntfns.SubscriptionManager*)
(* (blockntfns/manager.go) together with lnd's queue.ConcurrentQueue that  *)
(* every subscriber owns.                                                  *)
(*                                                                         *)
(* Code state is ONE record c (so that the steps can be written as plain   *)
(* operators and composed):                                                *)
(*   emitted   events the handler has taken from ntfnSource.Notifications()*)
(*             (events are numbered 1,2,.. in emission order = their id)   *)
(*   chain     the source's chain: chain[i] = id of the Connected event    *)
(*             of the block now at height i.  A Connected event extends    *)
(*             it, a Disconnected event (EmitD) removes its last block.    *)
(*             NotificationsSinceHeight(h) answers the Connected events of *)
(*             the blocks at heights h+1..tip of the chain as it is THEN.  *)
(*   quit      m.quit is closed (Stop was called)                          *)
(*   hpc       handler goroutine: "run" (at its select), "wait" (inside    *)
(*             handleCancelSubscription -> sub.cancel(), waiting for the   *)
(*             forwarder of hwait to exit), "done" (returned)              *)
(*   stopst    Stop(): 0 not called, 1 quit closed / waiting for handler,  *)
(*             2 cancelling every registered subscriber, 3 returned        *)
(*   regd      m.subscribers                                               *)
(*   cst[s]    client: 0 no call yet, 1 holds a Subscription, 2 its        *)
(*             Cancel() returned, 3 NewSubscription failed                 *)
(*   queue[s]  sub.ntfnQueue (unbounded FIFO: chanIn, overflow, chanOut)   *)
(*   fwd[s]    forwarding goroutine of NewSubscription: -2 not started,    *)
(*             0 waiting on ChanOut, n>0 holding event n (blocked on       *)
(*             ntfnChan<-), -1 returned                                    *)
(*   ch[s]     sub.ntfnChan buffer (capacity Cap; 20 in the code)          *)
(*   chclosed[s], squit[s]   ntfnChan / sub.quit closed                    *)
(*   recv[s], seen[s]        the consumer: what it read, saw the close     *)
(*                                                                         *)
(* One action per select arm of subscriptionHandler (:157):                *)
(*   Subscribe  newSubscriptions arm -> handleNewSubscription (:278):      *)
(*              backlog from NotificationsSinceHeight queued, registered   *)
(*   Cancel     cancelSubscriptions arm -> handleCancelSubscription (:319) *)
(*              up to wg.Wait() in cancel() (:37); HCancelDone = the close *)
(*   Emit       Notifications() arm -> notifySubscribers (:336)            *)
(*   HQuit      quit arm                                                   *)
(* forwarder (:220): FwdTake (ChanOut arm), FwdDeliver (ntfnChan<- arm),   *)
(* FwdExit (sub.quit / m.quit arms); consumer: Read; Stop (:130):          *)
(* StopCall (close quit), StopCancelAll, StopClose(s), StopRet.            *)
(*                                                                         *)
(* Go's select picks at random among ready arms.  Once m.quit is closed    *)
(* every select that lists it may take it: the handler may still serve any *)
(* arm before it returns, notifySubscriber (:345) may skip a delivery, the *)
(* forwarder may deliver or drop.  Those choices are explicit parameters.  *)
(*                                                                         *)
(* Eager = TRUE gives the REPLAY graph: every client-visible action is     *)
(* followed by Settle (all internal steps run to completion), which is     *)
(* what a sequential driver that waits for the pipeline to settle sees.    *)
(* Eager = FALSE interleaves every internal step with everything (design-  *)
(* level exhaustive check).  Scale: one model Emit is a burst of Scale     *)
(* events and one Read takes Scale items, so that the replay graph can use *)
(* the real capacity (Cap = 20, Scale = 10) with few model steps.          *)
(*                                                                         *)
(* FixQuitGap: behaviour after the repair of the shutdown gap (a delivery  *)
(* skipped because of m.quit ends the handler; see notes/blockntfns.md).   *)
(***************************************************************************)
EXTENDS Integers, Sequences, FiniteSets, TLC, Json, BlockNtfnsProps

CONSTANTS NSubs, MaxEvents, Cap, Scale, Eager, FixQuitGap,
          Reorg   \* the source may also emit Disconnected events (re-organisations)

VARIABLES c, abs, act, viol

vars == <<c, abs, act, viol>>
Subs == 1..NSubs

Min(a, b) == IF a < b THEN a ELSE b

----------------------------------------------------------------------------
\* Observables: what the driver reads back.
ObsOf(x) ==
  [emitted |-> x.emitted,
   stopped |-> IF x.stopst = 3 THEN 1 ELSE 0,
   sub     |-> x.cst,
   recv    |-> x.recv,
   closed  |-> [s \in Subs |-> IF x.seen[s] THEN 1 ELSE 0],
   len     |-> [s \in Subs |-> IF x.cst[s] \in {1, 2} THEN Len(x.ch[s]) ELSE 0]]

Obs == ObsOf(c)

----------------------------------------------------------------------------
\* Internal steps (goroutines the clients do not control).
FwdExitEn(x, s) == x.fwd[s] >= 0 /\ (x.squit[s] \/ x.quit)
FwdExit(x, s)   == [x EXCEPT !.fwd[s] = -1]

FwdTakeEn(x, s) == x.fwd[s] = 0 /\ Len(x.queue[s]) > 0
FwdTake(x, s)   == [x EXCEPT !.fwd[s] = Head(x.queue[s]), !.queue[s] = Tail(x.queue[s])]

FwdDelEn(x, s)  == x.fwd[s] > 0 /\ Len(x.ch[s]) < Cap /\ ~x.chclosed[s]
FwdDel(x, s)    == [x EXCEPT !.ch[s] = Append(@, x.fwd[s]), !.fwd[s] = 0]

HCancelDoneEn(x) == x.hpc = "wait" /\ x.fwd[x.hwait] = -1
HCancelDone(x)   == [x EXCEPT !.chclosed[x.hwait] = TRUE, !.hpc = "run", !.hwait = 0]

HQuitEn(x) == x.hpc = "run" /\ x.quit
HQuit(x)   == [x EXCEPT !.hpc = "done"]

StopCancelAllEn(x) == x.stopst = 1 /\ x.hpc = "done"
StopCancelAll(x)   == [x EXCEPT !.stopst = 2,
                                !.squit = [s \in Subs |-> x.squit[s] \/ s \in x.regd]]

StopCloseEn(x, s) == x.stopst = 2 /\ s \in x.regd /\ x.fwd[s] = -1 /\ ~x.chclosed[s]
StopClose(x, s)   == [x EXCEPT !.chclosed[s] = TRUE]

StopRetEn(x) == x.stopst = 2 /\ \A s \in x.regd : x.chclosed[s]
StopRet(x)   == [x EXCEPT !.stopst = 3]

\* All internal steps to completion.  A forwarder whose quit channel is
\* closed exits first: from a settled state it is either idle with an empty
\* queue or blocked on a full channel, so it has nothing else it could do.
RECURSIVE Settle(_)
Settle(x) ==
  IF \E s \in Subs : FwdExitEn(x, s)
  THEN Settle(FwdExit(x, CHOOSE s \in Subs : FwdExitEn(x, s)))
  ELSE IF \E s \in Subs : FwdDelEn(x, s)
  THEN Settle(FwdDel(x, CHOOSE s \in Subs : FwdDelEn(x, s)))
  ELSE IF \E s \in Subs : FwdTakeEn(x, s)
  THEN Settle(FwdTake(x, CHOOSE s \in Subs : FwdTakeEn(x, s)))
  ELSE IF HCancelDoneEn(x) THEN Settle(HCancelDone(x))
  ELSE IF HQuitEn(x) THEN Settle(HQuit(x))
  ELSE IF StopCancelAllEn(x) THEN Settle(StopCancelAll(x))
  ELSE IF \E s \in Subs : StopCloseEn(x, s)
  THEN Settle(StopClose(x, CHOOSE s \in Subs : StopCloseEn(x, s)))
  ELSE IF StopRetEn(x) THEN Settle(StopRet(x))
  ELSE x

----------------------------------------------------------------------------
\* Client-visible steps.
Heights(x) == {Scale * i : i \in 0..((Len(x.chain) \div Scale) + 1)}

\* What the source answers to NotificationsSinceHeight(h) (nothing for h = 0).
BacklogOf(x, h) == IF h = 0 \/ h >= Len(x.chain) THEN <<>>
                   ELSE SubSeq(x.chain, h + 1, Len(x.chain))

\* All subsequences of a sequence (which backlog entries survive when
\* notifySubscriber races with a closed m.quit).
RECURSIVE SubSeqs(_)
SubSeqs(q) == IF q = <<>> THEN {<<>>}
              ELSE LET r == SubSeqs(Tail(q))
                   IN  r \cup {<<Head(q)>> \o t : t \in r}

SubscribeEn(x, s) == x.cst[s] = 0 /\ ~x.quiesced /\ (x.hpc = "run" \/ x.quit)

\* res, and for res = "ok" the backlog entries that reached the queue.
SubscribeChoices(x, h) ==
  LET bl == BacklogOf(x, h)
  IN  (IF x.hpc = "run" /\ h > Len(x.chain) THEN {<<"err", <<>>>>} ELSE {})
      \cup (IF x.hpc = "run" /\ h <= Len(x.chain)
            THEN (IF x.quit /\ ~FixQuitGap THEN {<<"ok", q>> : q \in SubSeqs(bl)}
                  ELSE {<<"ok", bl>>})
            ELSE {})
      \cup (IF x.quit THEN {<<"stopped", <<>>>>} ELSE {})

SubscribeF(x, s, ch) ==
  IF ch[1] = "ok"
  THEN [x EXCEPT !.cst[s] = 1, !.queue[s] = ch[2], !.fwd[s] = 0, !.regd = @ \cup {s}]
  ELSE [x EXCEPT !.cst[s] = 3]

EmitEn(x) == x.hpc = "run" /\ x.emitted < MaxEvents * Scale /\ ~x.quiesced
EmitTargets(x) == IF x.quit THEN SUBSET x.regd ELSE {x.regd}
\* kind "C": Scale Connected events extending the chain; kind "D": Scale
\* Disconnected events removing its last Scale blocks.
EmitDEn(x) == Reorg /\ EmitEn(x) /\ Len(x.chain) >= Scale
EmitF(x, D, kind) ==
  [x EXCEPT !.emitted = @ + Scale,
            !.chain = IF kind = "C" THEN @ \o Range(x.emitted + 1, x.emitted + Scale)
                      ELSE SubSeq(@, 1, Len(@) - Scale),
            !.queue = [s \in Subs |-> IF s \in D
                                      THEN x.queue[s] \o Range(x.emitted + 1, x.emitted + Scale)
                                      ELSE x.queue[s]],
            !.hpc = IF FixQuitGap /\ D # x.regd THEN "done" ELSE "run"]

CancelEn(x, s) == x.cst[s] \in {1, 2} /\ ~x.quiesced /\ (x.hpc = "run" \/ x.quit)
CancelWays(x) == (IF x.hpc = "run" THEN {"handler"} ELSE {}) \cup (IF x.quit THEN {"quit"} ELSE {})
CancelF(x, s, way) ==
  IF way = "handler" /\ s \in x.regd
  THEN [x EXCEPT !.cst[s] = 2, !.regd = @ \ {s}, !.squit[s] = TRUE, !.hpc = "wait", !.hwait = s]
  ELSE [x EXCEPT !.cst[s] = 2]

ReadEn(x, s) == /\ x.cst[s] \in {1, 2} /\ ~x.seen[s] /\ ~x.quiesced
                /\ (Len(x.ch[s]) >= 1 \/ x.chclosed[s])
ReadN(x, s)  == Min(Scale, Len(x.ch[s]))
ReadF(x, s)  ==
  IF Len(x.ch[s]) = 0 THEN [x EXCEPT !.seen[s] = TRUE]
  ELSE LET n == ReadN(x, s)
       IN  [x EXCEPT !.recv[s] = @ \o SubSeq(x.ch[s], 1, n),
                     !.ch[s] = SubSeq(@, n + 1, Len(@))]

StopEn(x) == x.stopst = 0 /\ ~x.quiesced
StopF(x)  == [x EXCEPT !.quit = TRUE, !.stopst = 1]

\* The driver declares quiescence: nothing is in flight that a random select
\* could still decide, and every consumer outside the mask reads until
\* nothing more arrives.
QuiesceEn(x) == /\ ~x.quiesced /\ x.hpc # "wait" /\ x.stopst \in {0, 3}
                /\ \A s \in Subs : (x.squit[s] \/ x.quit) => x.fwd[s] < 0
Masks == {0} \cup {2 ^ (s - 1) : s \in Subs}
QuiesceF(x, mask) ==
  LET dr(s)    == x.cst[s] \in {1, 2} /\ ~x.seen[s] /\ ~Bit(mask, s)
      items(s) == x.ch[s] \o (IF x.fwd[s] > 0 THEN <<x.fwd[s]>> ELSE <<>>)
                         \o (IF x.fwd[s] >= 0 THEN x.queue[s] ELSE <<>>)
  IN  [x EXCEPT !.quiesced = TRUE,
                !.recv  = [s \in Subs |-> IF dr(s) THEN x.recv[s] \o items(s) ELSE x.recv[s]],
                !.ch    = [s \in Subs |-> IF dr(s) THEN <<>> ELSE x.ch[s]],
                !.queue = [s \in Subs |-> IF dr(s) /\ x.fwd[s] >= 0 THEN <<>> ELSE x.queue[s]],
                !.fwd   = [s \in Subs |-> IF dr(s) /\ x.fwd[s] > 0 THEN 0 ELSE x.fwd[s]],
                !.seen  = [s \in Subs |-> IF dr(s) THEN x.chclosed[s] ELSE x.seen[s]]]

----------------------------------------------------------------------------
Act3(op, s, h, bl, s2, h2, bl2, k, res) ==
  [op |-> op, s |-> s, h |-> h, bl |-> bl, s2 |-> s2, h2 |-> h2, bl2 |-> bl2, k |-> k, res |-> res]
Act(op, s, h, k, res) == Act3(op, s, h, <<>>, 0, 0, <<>>, k, res)

Done(x) == IF Eager THEN Settle(x) ELSE x

Finish(x, a) ==
  /\ c'    = x
  /\ act'  = a
  /\ abs'  = AbsNext(abs, a, ObsOf(x))
  /\ viol' = Viol(abs, Obs, a, abs', ObsOf(x))

Subscribe(s) ==
  /\ SubscribeEn(c, s)
  /\ \E h \in Heights(c) : \E chc \in SubscribeChoices(c, h) :
       Finish(Done(SubscribeF(c, s, chc)),
              Act3("Subscribe", s, h, IF chc[1] = "ok" THEN BacklogOf(c, h) ELSE <<>>, 0, 0, <<>>,
                   IF c.hpc = "run" THEN c.emitted ELSE -1, chc[1]))

\* Two NewSubscription calls in flight at the same time: both clients are past
\* the assignment of their subscription id (manager.go:204) before the
\* handler has finished registering either; the handler serves s1, then s2.
Subscribe2(s1, s2) ==
  /\ s1 # s2 /\ SubscribeEn(c, s1) /\ SubscribeEn(c, s2) /\ c.hpc = "run" /\ ~c.quit
  /\ \E h1, h2 \in {h \in Heights(c) : h <= Len(c.chain)} :
       LET x1 == SubscribeF(c, s1, <<"ok", BacklogOf(c, h1)>>)
           x2 == SubscribeF(x1, s2, <<"ok", BacklogOf(c, h2)>>)
       IN  Finish(Done(x2), Act3("Subscribe2", s1, h1, BacklogOf(c, h1), s2, h2, BacklogOf(c, h2),
                                 c.emitted, "ok"))

Emit ==
  /\ EmitEn(c)
  /\ \E D \in EmitTargets(c) :
       Finish(Done(EmitF(c, D, "C")), Act("Emit", 0, 0, c.emitted + Scale, "ok"))

EmitD ==
  /\ EmitDEn(c)
  /\ \E D \in EmitTargets(c) :
       Finish(Done(EmitF(c, D, "D")), Act("EmitD", 0, 0, c.emitted + Scale, "ok"))

Cancel(s) ==
  /\ CancelEn(c, s)
  /\ \E way \in CancelWays(c) :
       Finish(Done(CancelF(c, s, way)), Act("Cancel", s, 0, 0, "ok"))

Read(s) ==
  /\ ReadEn(c, s)
  /\ LET n == ReadN(c, s)
     IN  Finish(Done(ReadF(c, s)),
                IF n = 0 THEN Act("Read", s, 1, 0, "closed")
                ELSE Act("Read", s, n, c.ch[s][n], "ok"))

Stop ==
  /\ StopEn(c)
  /\ Finish(Done(StopF(c)), Act(IF Eager THEN "Stop" ELSE "StopCall", 0, 0, 0, "ok"))

Quiesce ==
  /\ QuiesceEn(c)
  /\ \E mask \in Masks : Finish(QuiesceF(c, mask), Act("Quiesce", mask, 0, 0, "ok"))

Internal ==
  /\ ~Eager /\ ~c.quiesced
  /\ \/ \E s \in Subs : FwdExitEn(c, s) /\ Finish(FwdExit(c, s), Act("FwdExit", s, 0, 0, "ok"))
     \/ \E s \in Subs : FwdTakeEn(c, s) /\ Finish(FwdTake(c, s), Act("FwdTake", s, 0, 0, "ok"))
     \/ \E s \in Subs : FwdDelEn(c, s) /\ Finish(FwdDel(c, s), Act("FwdDeliver", s, 0, 0, "ok"))
     \/ HCancelDoneEn(c) /\ Finish(HCancelDone(c), Act("HCancelDone", c.hwait, 0, 0, "ok"))
     \/ HQuitEn(c) /\ Finish(HQuit(c), Act("HQuit", 0, 0, 0, "ok"))
     \/ StopCancelAllEn(c) /\ Finish(StopCancelAll(c), Act("StopCancelAll", 0, 0, 0, "ok"))
     \/ \E s \in Subs : StopCloseEn(c, s) /\ Finish(StopClose(c, s), Act("StopClose", s, 0, 0, "ok"))
     \/ StopRetEn(c) /\ Finish(StopRet(c), Act("Stop", 0, 0, 0, "ok"))

Init ==
  /\ c = [emitted |-> 0, chain |-> <<>>, quit |-> FALSE, hpc |-> "run", hwait |-> 0, stopst |-> 0,
          regd |-> {}, quiesced |-> FALSE,
          cst |-> [s \in Subs |-> 0],
          queue |-> [s \in Subs |-> <<>>], fwd |-> [s \in Subs |-> -2],
          ch |-> [s \in Subs |-> <<>>],
          chclosed |-> [s \in Subs |-> FALSE], squit |-> [s \in Subs |-> FALSE],
          recv |-> [s \in Subs |-> <<>>], seen |-> [s \in Subs |-> FALSE]]
  /\ abs = AbsInit
  /\ act = Act("Init", 0, 0, 0, "ok")
  /\ viol = {}

Next ==
  \/ \E s \in Subs : Subscribe(s)
  \/ \E s1, s2 \in Subs : Subscribe2(s1, s2)
  \/ Emit
  \/ EmitD
  \/ \E s \in Subs : Cancel(s)
  \/ \E s \in Subs : Read(s)
  \/ Stop
  \/ Quiesce
  \/ Internal

Spec == Init /\ [][Next]_vars

----------------------------------------------------------------------------
TypeOK ==
  /\ c.emitted \in 0..(MaxEvents * Scale)
  /\ c.hpc \in {"run", "wait", "done"}
  /\ c.stopst \in 0..3
  /\ c.regd \subseteq Subs
  /\ \A s \in Subs : /\ c.cst[s] \in 0..3
                     /\ c.fwd[s] \in (-2)..(MaxEvents * Scale)
                     /\ Len(c.ch[s]) <= Cap

\* Design-level statement of C11 on the model.
NoViolation == viol = {}

\* The handler goroutine can always make its next step: it is never stuck
\* behind a subscriber (while it waits in cancel() the forwarder can exit).
HandlerNeverStuck ==
  c.hpc = "wait" => (c.fwd[c.hwait] = -1 \/ FwdExitEn(c, c.hwait))

\* Stop() always gets to return: each stage has an enabled successor.
StopProgress ==
  /\ c.stopst = 1 => (c.hpc = "done" \/ HQuitEn(c) \/ c.hpc = "wait")
  /\ c.stopst = 2 => \A s \in c.regd : c.chclosed[s] \/ c.fwd[s] = -1 \/ FwdExitEn(c, s)

State == [c |-> c, abs |-> abs]
View  == <<c, abs>>
=============================================================================
