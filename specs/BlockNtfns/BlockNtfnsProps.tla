--------------------------- MODULE BlockNtfnsProps ---------------------------
(***************************************************************************)
(* Property C11 of blockntfns.SubscriptionManager, stated over OBSERVABLES *)
(* only: what the clients of the manager can see (results of              *)
(* NewSubscription / Cancel / Stop, what each consumer has read from its   *)
(* Subscription.Notifications channel, whether it has seen it closed).     *)
(* The same operators are evaluated by TLC (a) on every transition of      *)
(* BlockNtfns.tla and (b) on every step of every trace observed on the     *)
(* real code (strict replays and free-running executions).                 *)
(*                                                                         *)
(* Events (Connected and Disconnected ones) are numbered 1,2,3,... in      *)
(* emission order; the number is the event's id (carried in the header     *)
(* nonce; the notification's height is the block height).  The scripted    *)
(* NotificationSource keeps the chain (a Connected event extends it, a     *)
(* Disconnected one removes its tip) and answers NotificationsSinceHeight  *)
(* (h) with the Connected events of the blocks at heights h+1..tip of the  *)
(* chain as it is at that moment (nothing for h = 0, as blockManager       *)
(* does); that answer is logged in the Subscribe step (bl).                *)
(*                                                                         *)
(*   obs = [emitted, stopped, sub, recv, closed, len]                      *)
(*         recv[s]   sequence of event numbers consumer s has read         *)
(*         closed[s] 1 once consumer s has read "channel closed"           *)
(*   act = [op, s, h, bl, s2, h2, bl2, k, res] (s2,h2,bl2: Subscribe2 only)*)
(*     Subscribe  s, h = requested height, bl = the backlog the source      *)
(*                answered (event ids), k = events emitted at that moment, *)
(*                res ok | err | stopped | blocked                         *)
(*     Subscribe2 two NewSubscription calls in flight together (s,h served  *)
(*                first, then s2,h2), k = the tip both were told, res ok   *)
(*     Emit       k = number of the last event of the burst, res ok|blocked*)
(*     EmitD      the same for a burst of Disconnected events (a re-org)   *)
(*     Read       s, h = items asked for, k = last item read,              *)
(*                res ok | closed | empty                                  *)
(*     Cancel     s, res ok | blocked      (logged when Cancel() returned) *)
(*     StopCall   logged before Stop() is called (absent in strict replays *)
(*                where Stop is one step)                                  *)
(*     Stop       res ok | blocked         (logged when Stop() returned)   *)
(*     Crash      res panic: the process died with a panic in the manager's  *)
(*                code (every call blocks forever, every subscriber loses  *)
(*                what it had not read); k = 1 for "send on closed channel"*)
(*     Quiesce    s = bit mask of the subscribers that do NOT drain; all   *)
(*                others have read until nothing more arrives              *)
(*     anything else (internal model steps) leaves the abstract state alone*)
(***************************************************************************)
EXTENDS Integers, Sequences, FiniteSets

Range(a, b) == [i \in 1..(b - a + 1) |-> a + i - 1]     \* <<a, ..., b>>, empty if b < a

IsPrefix(p, q) == Len(p) <= Len(q) /\ \A i \in 1..Len(p) : p[i] = q[i]

Bit(mask, s) == (mask \div (2 ^ (s - 1))) % 2 = 1

\* What subscriber r = [s, bl, k] is owed once n events have been emitted: the
\* backlog the source answered at registration (bl, the ids of the Connected
\* events of the blocks then at heights h+1..tip), then every event emitted
\* after the k events that had been emitted at registration.
ExpR(r, n) == r.bl \o Range(r.k + 1, n)

----------------------------------------------------------------------------
AbsInit == [emitted |-> 0,
            reg     |-> {},      \* {[s, bl, k]} successful registrations
            ended   |-> {},      \* {<<s, emitted when Cancel/Stop returned>>}
            stopping |-> 0,      \* Stop() has been called
            stopped |-> 0, quiesced |-> 0, skip |-> 0]

IsEnded(a, s) == \E e \in a.ended : e[1] = s
LimOf(a, s)   == IF IsEnded(a, s) THEN (CHOOSE e \in a.ended : e[1] = s)[2]
                 ELSE a.emitted

AbsNext(a, act, o2) ==
  CASE act.op = "Subscribe" /\ act.res = "ok" ->
         [a EXCEPT !.reg = @ \cup {[s |-> act.s, bl |-> act.bl, k |-> act.k]},
                   !.ended = IF a.stopped = 1 /\ ~IsEnded(a, act.s)
                             THEN @ \cup {<<act.s, a.emitted>>} ELSE @]
    [] act.op = "Subscribe2" /\ act.res = "ok" ->
         [a EXCEPT !.reg = @ \cup {[s |-> act.s, bl |-> act.bl, k |-> act.k],
                                   [s |-> act.s2, bl |-> act.bl2, k |-> act.k]},
                   !.ended = IF a.stopped = 1
                             THEN @ \cup {<<x, a.emitted>> : x \in {y \in {act.s, act.s2} : ~IsEnded(a, y)}}
                             ELSE @]
    [] act.op \in {"Emit", "EmitD"} ->
         [a EXCEPT !.emitted = IF act.k > @ THEN act.k ELSE @]
    [] act.op = "Cancel" /\ act.res = "ok" ->
         \* A Cancel() that returns while Stop() is running may have returned
         \* through the closed quit channel without having been served; the
         \* subscription then ends when Stop() returns, which is judged there.
         IF IsEnded(a, act.s) \/ (a.stopping = 1 /\ a.stopped = 0) THEN a
         ELSE [a EXCEPT !.ended = @ \cup {<<act.s, a.emitted>>}]
    [] act.op = "StopCall" ->
         [a EXCEPT !.stopping = 1]
    [] act.op = "Stop" /\ act.res = "ok" ->
         [a EXCEPT !.stopped = 1, !.stopping = 1,
                   !.ended = @ \cup {<<r.s, a.emitted>> : r \in {x \in a.reg : ~IsEnded(a, x.s)}}]
    [] act.op = "Quiesce" ->
         [a EXCEPT !.quiesced = 1, !.skip = act.s]
    [] OTHER -> a

----------------------------------------------------------------------------
\* Clauses that are decided when the driver has driven the system to
\* quiescence (every consumer outside the mask read until nothing came).
EndViol(a, o) ==
  IF a.quiesced # 1 THEN {}
  ELSE (IF \E r \in a.reg : /\ ~Bit(a.skip, r.s) /\ ~IsEnded(a, r.s)
                            /\ o.recv[r.s] # ExpR(r, a.emitted)
        THEN {"CompleteAtQuiescence"} ELSE {})
       \cup (IF \E r \in a.reg : /\ ~Bit(a.skip, r.s) /\ IsEnded(a, r.s)
                                 /\ o.closed[r.s] # 1
             THEN {"ClosedAfterCancelOrStop"} ELSE {})
       \cup (IF \E r \in a.reg : ~IsEnded(a, r.s) /\ o.closed[r.s] = 1
             THEN {"ClosedOnlyAfterCancelOrStop"} ELSE {})

Viol(a, o, act, a2, o2) ==
  (IF \E r \in a2.reg : ~IsPrefix(o2.recv[r.s], ExpR(r, a2.emitted))
   THEN {"InOrderNoGapNoDup"} ELSE {})
  \cup (IF \E r \in a2.reg : /\ IsPrefix(o2.recv[r.s], ExpR(r, a2.emitted))
                             /\ ~IsPrefix(o2.recv[r.s], ExpR(r, LimOf(a2, r.s)))
        THEN {"NothingAfterCancelOrStop"} ELSE {})
  \cup (IF act.res \in {"blocked", "panic"} THEN {"NeverBlocks"} ELSE {})
  \cup (IF act.res = "panic" /\ act.k = 1 THEN {"NothingAfterClose"} ELSE {})
  \cup (IF \E s \in 1..Len(o.closed) :
             o.closed[s] = 1 /\ (o2.recv[s] # o.recv[s] \/ o2.closed[s] # 1)
        THEN {"NothingAfterClose"} ELSE {})
  \cup (IF act.op = "Quiesce" THEN EndViol(a2, o2) ELSE {})
=============================================================================
