----------------------------- MODULE FilterQuery -----------------------------
(***************************************************************************)
(* Implementation-shaped model of ChainService.GetCFilter (query.go:691),  *)
(* prepareCFiltersQuery (:566) and cfiltersQuery.handleResponse (:450).    *)
(*                                                                         *)
(* Blocks are 0..BTip (the block header store), filter headers are         *)
(* committed for 0..ftip (ftip <= BTip, chosen in Init), block id BTip+1   *)
(* stands for a hash the header store does not know.  BestBlock() is the   *)
(* lower of the two tips, i.e. ftip.                                       *)
(*                                                                         *)
(* Shared state: cache (FilterCache: the set of blocks whose filter it     *)
(* ph: blocks for which the database holds a PLACEHOLDER (an empty value:   *)
(* "block known, no filter" - what FilterDatabase.PutFilters writes for a   *)
(* FilterData whose Filter is nil; FetchFilter answers (nil, nil) for it    *)
(* and GetCFilter goes on to the network; a later write of the real filter  *)
(* replaces it).  The client never writes one itself: it is a class of      *)
(* INITIAL database states (a database written through the exported API by  *)
(* another writer / an older version).                                      *)
(* holds - the code only ever stores verified filters, so a set of ids is  *)
(* enough for the MODEL; what the real cache holds is projected with a     *)
(* garbage marker, see FilterQueryProps), db (FilterDB), wq (items handed  *)
(* to filterBatchWriter and not yet written, a count per block), mtx       *)
(* (mtxCFilter holder).                                                    *)
(* Per caller c: pc, tgt/mode/cap (arguments of the call), lo/hi (height   *)
(* range of the request), pending (headerIndex: blocks still awaited), got *)
(* (targetFilter # nil), val (what the call is about to return).           *)
(*                                                                         *)
(* One action per step of the call between two points where another        *)
(* goroutine can interleave:                                               *)
(*   CacheLookup  :705  first FilterCache.Get                              *)
(*   DbLookup     :714  FilterDB.FetchFilter                               *)
(*   Lock         :724  mtxCFilter.Lock (single flight)                    *)
(*   CacheLookup2 :730  second FilterCache.Get under the mutex             *)
(*   Prepare      :566  range from (height, batch mode, cap, best height), *)
(*                      header ancestors, headerIndex                      *)
(*   Submit       :766  workManager.Query                                  *)
(*   Resp         :450  handleResponse, one step per peer response         *)
(*   Verdict      :770  the dispatcher's verdict on the error channel;     *)
(*                      targetFilter check; deferred Unlock                *)
(*   Return             the caller sees the result                         *)
(*   Flush              chanutils.BatchWriter writes its batch to the db   *)
(***************************************************************************)
EXTENDS Integers, Sequences, FiniteSets, TLC, Json, FilterQueryProps

CONSTANTS BTip,       \* height of the block header tip (>= 1)
          FTips,      \* set of filter-header tips to explore (each <= BTip, >= BTip - 2)
          NC,         \* number of concurrent callers (1 or 2)
          Modes1, Caps1, Targets1,   \* arguments caller 1 may use
          Modes2, Caps2, Targets2,   \* arguments caller 2 may use
          Persists,   \* subset of BOOLEAN: persistToDisk
          PHBlocks,   \* blocks that may carry a placeholder entry in the database at the start
          BadAll      \* TRUE: bad responses about every block; FALSE: only about requested blocks

VARIABLES cache, db, ph, wq, mtx, ftip, persist,
          pc, tgt, mode, cap, lo, hi, pending, got, val, ret,
          abs, act, viol

cvars == <<cache, db, ph, wq, mtx, ftip, persist, pc, tgt, mode, cap, lo, hi, pending, got, val, ret>>
vars  == <<cache, db, ph, wq, mtx, ftip, persist, pc, tgt, mode, cap, lo, hi, pending, got, val, ret,
           abs, act, viol>>

Callers == 1..NC
Blocks  == 0..BTip
Unknown == BTip + 1
BATCH   == 1000                 \* wire.MaxGetCFiltersReqRange

Bit(S)  == [i \in 1..(BTip + 1) |-> IF (i - 1) \in S THEN 1 ELSE 0]

Obs == [ret     |-> <<ret[1], IF NC >= 2 THEN ret[2] ELSE RUN>>,
        cache   |-> Bit(cache),
        db      |-> [i \in 1..(BTip + 1) |-> IF (i - 1) \in db THEN 1 ELSE IF (i - 1) \in ph THEN 2 ELSE 0],
        wq |-> [i \in 1..(BTip + 1) |-> wq[i - 1]],
        cx |-> 0, dx |-> 0, wx |-> 0,
        btip    |-> BTip, ftip |-> ftip,
        persist |-> IF persist THEN 1 ELSE 0]

\* prepareCFiltersQuery: start/stop height of the request.
RangeOf(h, m, cp) ==
  LET bs == IF cp > 0 /\ cp < BATCH THEN cp ELSE BATCH
      s0 == IF m = "rev" THEN h - bs + 1 ELSE h
      e0 == IF m = "fwd" THEN h + bs - 1 ELSE h
      s  == IF s0 < 1 THEN 1 ELSE s0
      e  == IF e0 > ftip THEN ftip ELSE e0
  IN  <<s, e>>

A(op, c, k, b, l, h, res) ==
  [op |-> op, c |-> c,
   tgt |-> IF c = 0 THEN RUN ELSE tgt'[c],
   m   |-> IF c = 0 THEN "" ELSE mode'[c],
   cap |-> IF c = 0 THEN 0 ELSE cap'[c],
   k |-> k, b |-> b, lo |-> l, hi |-> h, res |-> res]

Finish(a) ==
  /\ act'  = a
  /\ abs'  = AbsNext(abs, a, Obs')
  /\ viol' = Viol(abs, Obs, a, abs', Obs')

Release(c) == mtx' = IF mtx = c THEN 0 ELSE mtx

----------------------------------------------------------------------------
\* GetCFilter entry: the arguments are fixed and the cache is consulted.
CacheLookup(c, t, m, cp) ==
  /\ pc[c] = "idle"
  /\ (c = 2 => pc[1] # "idle")                 \* symmetry: caller 1 starts first
  /\ tgt' = [tgt EXCEPT ![c] = t] /\ mode' = [mode EXCEPT ![c] = m] /\ cap' = [cap EXCEPT ![c] = cp]
  /\ IF t \in cache
     THEN /\ pc' = [pc EXCEPT ![c] = "ret"] /\ val' = [val EXCEPT ![c] = t]
          /\ UNCHANGED <<ph, cache, db, wq, mtx, ftip, persist, lo, hi, pending, got, ret>>
          /\ Finish(A("CacheLookup", c, "", 0, RUN, RUN, "hit"))
     ELSE /\ pc' = [pc EXCEPT ![c] = "db"]
          /\ UNCHANGED <<ph, cache, db, wq, mtx, ftip, persist, lo, hi, pending, got, val, ret>>
          /\ Finish(A("CacheLookup", c, "", 0, RUN, RUN, "miss"))

DbLookup(c) ==
  /\ pc[c] = "db"
  /\ UNCHANGED <<ph, cache, db, wq, mtx, ftip, persist, tgt, mode, cap, lo, hi, pending, got, ret>>
  /\ IF tgt[c] \in db
     THEN /\ pc' = [pc EXCEPT ![c] = "ret"] /\ val' = [val EXCEPT ![c] = tgt[c]]
          /\ Finish(A("DbLookup", c, "", 0, RUN, RUN, "hit"))
     ELSE /\ pc' = [pc EXCEPT ![c] = "lock"] /\ UNCHANGED val
          /\ Finish(A("DbLookup", c, "", 0, RUN, RUN, "miss"))

Lock(c) ==
  /\ pc[c] = "lock" /\ mtx = 0
  /\ mtx' = c /\ pc' = [pc EXCEPT ![c] = "cache2"]
  /\ UNCHANGED <<ph, cache, db, wq, ftip, persist, tgt, mode, cap, lo, hi, pending, got, val, ret>>
  /\ Finish(A("Lock", c, "", 0, RUN, RUN, "ok"))

CacheLookup2(c) ==
  /\ pc[c] = "cache2"
  /\ UNCHANGED <<ph, cache, db, wq, ftip, persist, tgt, mode, cap, lo, hi, pending, got, ret>>
  /\ IF tgt[c] \in cache
     THEN /\ pc' = [pc EXCEPT ![c] = "ret"] /\ val' = [val EXCEPT ![c] = tgt[c]]
          /\ Release(c)
          /\ Finish(A("CacheLookup2", c, "", 0, RUN, RUN, "hit"))
     ELSE /\ pc' = [pc EXCEPT ![c] = "prep"] /\ UNCHANGED <<val, mtx>>
          /\ Finish(A("CacheLookup2", c, "", 0, RUN, RUN, "miss"))

\* prepareCFiltersQuery.  An unknown hash fails FetchHeader.  A start height
\* more than one above the stop height makes numFilters (uint32) wrap around
\* and the ancestor read return the wrong number of headers: an error.  start
\* = stop + 1 asks for zero filters and is submitted with an empty index.
Prepare(c) ==
  LET r == RangeOf(tgt[c], mode[c], cap[c])
      n == r[2] - r[1] + 1
  IN
  /\ pc[c] = "prep"
  /\ UNCHANGED <<ph, cache, db, wq, ftip, persist, tgt, mode, cap, got, ret>>
  /\ IF tgt[c] = Unknown \/ n < 0
     THEN /\ pc' = [pc EXCEPT ![c] = "ret"] /\ val' = [val EXCEPT ![c] = ERR]
          /\ Release(c) /\ UNCHANGED <<lo, hi, pending>>
          /\ Finish(A("Prepare", c, "", 0, RUN, RUN, "err"))
     ELSE /\ pc' = [pc EXCEPT ![c] = "submit"]
          /\ lo' = [lo EXCEPT ![c] = r[1]] /\ hi' = [hi EXCEPT ![c] = r[2]]
          /\ pending' = [pending EXCEPT ![c] = r[1]..r[2]]
          /\ UNCHANGED <<val, mtx>>
          /\ Finish(A("Prepare", c, "", 0, RUN, RUN, "ok"))

Submit(c) ==
  /\ pc[c] = "submit"
  /\ pc' = [pc EXCEPT ![c] = "query"]
  /\ got' = [got EXCEPT ![c] = FALSE]
  /\ UNCHANGED <<ph, cache, db, wq, mtx, ftip, persist, tgt, mode, cap, lo, hi, pending, val, ret>>
  /\ Finish(A("Submit", c, "", 0, lo[c], hi[c], "ok"))

\* handleResponse.  Only the true filter of a block still in headerIndex has
\* an effect.
Resp(c, k, b) ==
  LET inrange  == b >= lo[c] /\ b <= hi[c]
      accepted == inrange /\ b \notin pending[c]
  IN
  /\ pc[c] = "query"
  /\ CASE k = "true"  -> b \in Blocks /\ ~accepted
       [] k = "dup"   -> accepted
       [] k \in {"wrong", "malformed", "wrongtype"} -> b \in 1..BTip /\ (BadAll \/ inrange)
       [] k = "noncf" -> b = 0
       [] OTHER -> FALSE
  /\ UNCHANGED <<ph, db, mtx, ftip, persist, pc, tgt, mode, cap, lo, hi, val, ret>>
  /\ IF k = "true" /\ b \in pending[c]
     THEN /\ cache' = cache \cup {b}
          /\ wq' = IF persist THEN [wq EXCEPT ![b] = @ + 1] ELSE wq
          /\ pending' = [pending EXCEPT ![c] = @ \ {b}]
          /\ got' = [got EXCEPT ![c] = @ \/ b = tgt[c]]
          /\ Finish(A("Resp", c, k, b, lo[c], hi[c],
                      IF pending[c] \ {b} = {} THEN "fin" ELSE "prog"))
     ELSE /\ UNCHANGED <<cache, wq, pending, got>>
          /\ Finish(A("Resp", c, k, b, lo[c], hi[c], "none"))

Verdict(c, v) ==
  /\ pc[c] = "query"
  /\ pc' = [pc EXCEPT ![c] = "ret"]
  /\ val' = [val EXCEPT ![c] = IF v = "ok" /\ got[c] THEN tgt[c] ELSE ERR]
  /\ Release(c)
  /\ UNCHANGED <<ph, cache, db, wq, ftip, persist, tgt, mode, cap, lo, hi, pending, got, ret>>
  /\ Finish(A("Verdict", c, v, 0, lo[c], hi[c], "ok"))

Return(c) ==
  /\ pc[c] = "ret"
  /\ pc' = [pc EXCEPT ![c] = "done"]
  /\ ret' = [ret EXCEPT ![c] = val[c]]
  /\ UNCHANGED <<ph, cache, db, wq, mtx, ftip, persist, tgt, mode, cap, lo, hi, pending, got, val>>
  /\ Finish(A("Return", c, "", 0, RUN, RUN, IF val[c] = ERR THEN "err" ELSE "ok"))

Flush ==
  /\ \E b \in Blocks : wq[b] > 0
  /\ db' = db \cup {b \in Blocks : wq[b] > 0} /\ wq' = [b \in Blocks |-> 0]
  /\ ph' = ph \ {b \in Blocks : wq[b] > 0}        \* putFilter overwrites a placeholder
  /\ UNCHANGED <<cache, mtx, ftip, persist, pc, tgt, mode, cap, lo, hi, pending, got, val, ret>>
  /\ Finish(A("Flush", 0, "", 0, RUN, RUN, "ok"))

Classes == {"true", "dup", "wrong", "malformed", "wrongtype", "noncf"}

Init ==
  /\ ftip \in FTips /\ persist \in Persists
  /\ cache = {} /\ db = {0} /\ wq = [b \in Blocks |-> 0] /\ mtx = 0
  /\ ph \in {{}} \cup {{b} : b \in PHBlocks}
  /\ pc = [c \in Callers |-> "idle"]
  /\ tgt = [c \in Callers |-> RUN] /\ mode = [c \in Callers |-> ""] /\ cap = [c \in Callers |-> 0]
  /\ lo = [c \in Callers |-> RUN] /\ hi = [c \in Callers |-> RUN]
  /\ pending = [c \in Callers |-> {}] /\ got = [c \in Callers |-> FALSE]
  /\ val = [c \in Callers |-> RUN] /\ ret = [c \in Callers |-> RUN]
  /\ abs = AbsInit
  /\ act = [op |-> "Init", c |-> 0, tgt |-> RUN, m |-> "", cap |-> 0, k |-> "", b |-> 0,
            lo |-> RUN, hi |-> RUN, res |-> "ok"]
  /\ viol = {}

Next ==
  \/ \E t \in Targets1, m \in Modes1, cp \in Caps1 : CacheLookup(1, t, m, cp)
  \/ (NC >= 2 /\ \E t \in Targets2, m \in Modes2, cp \in Caps2 : CacheLookup(2, t, m, cp))
  \/ \E c \in Callers :
       \/ DbLookup(c) \/ Lock(c) \/ CacheLookup2(c) \/ Prepare(c) \/ Submit(c)
       \/ \E k \in Classes, b \in Blocks : Resp(c, k, b)
       \/ \E v \in {"ok", "err"} : Verdict(c, v)
       \/ Return(c)
  \/ Flush

Spec == Init /\ [][Next]_vars

----------------------------------------------------------------------------
TypeOK ==
  /\ cache \subseteq Blocks /\ db \subseteq Blocks /\ ph \subseteq Blocks /\ ph \cap db = {} /\ \A b \in Blocks : wq[b] \in 0..NC
  /\ mtx \in 0..NC
  /\ \A c \in Callers : pending[c] \subseteq Blocks

\* Design-level statement of C05 on the model.
NoViolation == viol = {}

\* Single flight: at most one caller is between Lock and Verdict.
SingleFlight ==
  Cardinality({c \in Callers : pc[c] \in {"cache2", "prep", "submit", "query"}}) <= 1

\* What the model stores is verified: only blocks whose filter header is committed.
StoredCommitted == (cache \cup db \cup {b \in Blocks : wq[b] > 0}) \subseteq 0..ftip

State == [cache |-> cache, db |-> db, ph |-> ph, wq |-> wq, mtx |-> mtx, ftip |-> ftip, persist |-> persist,
          pc |-> pc, tgt |-> tgt, mode |-> mode, cap |-> cap, lo |-> lo, hi |-> hi,
          pending |-> pending, got |-> got, val |-> val, ret |-> ret]
View == <<cache, db, ph, wq, mtx, ftip, persist, pc, tgt, mode, cap, lo, hi, pending, got, val, ret, abs>>
=============================================================================
