--------------------------- MODULE FilterQueryProps ---------------------------
(***************************************************************************)
(* Property C05 ("a compact filter is returned only if it matches the      *)
(* committed filter header") stated over OBSERVABLES only: the value       *)
(* ChainService.GetCFilter returns, the contents of FilterCache (Range),   *)
(* what FilterDB.FetchFilter answers for every block, and what the filter  *)
(* batch writer has been handed (its PutItems callback).  The same         *)
(* operators are evaluated by TLC (a) on every transition of               *)
(* FilterQuery.tla and (b) on every step of every trace observed on the    *)
(* real query.go code.                                                     *)
(*                                                                         *)
(* Encoding (integers only where Props compares):                          *)
(*   blocks are 0..btip (0 = genesis); block id btip+1 = a hash the header *)
(*   store does not know.                                                  *)
(*   obs.ret[c]   RUN (call of caller c not returned), ERR (returned an    *)
(*                error), b (returned a filter that, hashed with the       *)
(*                committed filter header of block b-1, gives the          *)
(*                committed filter header of block b, and equals the true  *)
(*                filter of b), G (returned anything else).                *)
(*   obs.cache[b+1], obs.db[b+1]   0 absent, 1 the true filter of block b  *)
(*                under b's key, G something else under b's key; db only:  *)
(*                2 a placeholder (empty value = "block known, no filter   *)
(*                stored"), which may be present from the start but is     *)
(*                never a filter: it must never appear and never be        *)
(*                returned.                                                *)
(*   obs.wq[b+1]  number of items for block b handed to the batch writer   *)
(*                and not yet written (G if an item is not b's true        *)
(*                filter).                                                 *)
(*   obs.cx, obs.dx, obs.wx   entries under keys that belong to no block   *)
(*                of the chain / wrong filter type.                        *)
(*   obs.btip, obs.ftip   tips of the block / filter header stores;        *)
(*                obs.persist 1 if persistToDisk.                          *)
(* act = [op, c, tgt, m, cap, k, b, lo, hi, res]:                          *)
(*   op in CacheLookup (start of the call of caller c for block tgt with   *)
(*   batch mode m and cap), DbLookup, Lock, CacheLookup2, Prepare, Submit  *)
(*   (lo..hi = the height range of the getcfilters request actually        *)
(*   handed to the dispatcher), Resp (one peer response of class k about   *)
(*   block b; res = the handler's Progress: "none" = not finished / not    *)
(*   progressed, "prog" = progressed, "fin" = finished), Verdict (k = ok | *)
(*   err: what the dispatcher reports on the error channel), Return,       *)
(*   Flush (the batch writer writes what it holds to the database).        *)
(*   Response classes k: "true" the true filter of block b, "dup" the same *)
(*   message again, "wrong" a well-formed filter that is not b's, under    *)
(*   b's hash, "malformed" undecodable / truncated bytes under b's hash,   *)
(*   "wrongtype" b's true filter labelled with another filter type,        *)
(*   "noncf" a message that is not a cfilter.                              *)
(***************************************************************************)
EXTENDS Integers, Sequences, FiniteSets

RUN == -9
ERR == -3
G   == -2

\* tgt, lo, hi: arguments / requested range of each caller's current call;
\* acc: blocks whose true filter the current query of that caller has been
\* given already (a second one is a duplicate); ver: blocks whose true filter
\* has been given, in range, to any query so far (the only filters the client
\* has had the means to verify).
AbsInit == [tgt |-> <<RUN, RUN>>, lo |-> <<RUN, RUN>>, hi |-> <<RUN, RUN>>,
            acc |-> <<{}, {}>>, ver |-> {}]

\* The one kind of response the statement allows to have an effect: the true
\* filter of a block that was asked for (in the requested range), whose filter
\* header is committed, seen for the first time in this query.
Valid(a, act, ftip) ==
  /\ act.op = "Resp"
  /\ act.k \in {"true", "dup"}
  /\ act.b >= 1 /\ act.b <= ftip
  /\ a.lo[act.c] # RUN
  /\ act.b >= a.lo[act.c] /\ act.b <= a.hi[act.c]
  /\ act.b \notin a.acc[act.c]

AbsNext(a, act, o2) ==
  CASE act.op = "CacheLookup" ->
         [tgt |-> [a.tgt EXCEPT ![act.c] = act.tgt],
          lo  |-> [a.lo EXCEPT ![act.c] = RUN],
          hi  |-> [a.hi EXCEPT ![act.c] = RUN],
          acc |-> [a.acc EXCEPT ![act.c] = {}],
          ver |-> a.ver]
    [] act.op = "Submit" ->
         [a EXCEPT !.lo = [a.lo EXCEPT ![act.c] = act.lo],
                   !.hi = [a.hi EXCEPT ![act.c] = act.hi]]
    [] Valid(a, act, o2.ftip) ->
         [a EXCEPT !.acc = [a.acc EXCEPT ![act.c] = @ \cup {act.b}],
                   !.ver = @ \cup {act.b}]
    [] OTHER -> a

Viol(a, o, act, a2, o2) ==
  LET n       == Len(o2.cache)
      valid   == Valid(a, act, o2.ftip)
      \* A response that is not the first true, solicited filter of its block
      \* must have no effect at all; any other step may store nothing but
      \* filters that were verifiable (given in range to some query) so far.
      allowed == IF act.op = "Resp" /\ ~valid THEN {}
                 ELSE {b + 1 : b \in a2.ver}
      newC    == {i \in 1..n : o2.cache[i] # 0 /\ o.cache[i] = 0}
      newW    == {i \in 1..n : o2.wq[i] # o.wq[i] /\ (o2.wq[i] > o.wq[i] \/ o2.wq[i] < 0)}
      newD    == {i \in 1..n : o2.db[i] \notin {0, 2} /\ o.db[i] \in {0, 2}}   \* a filter where there was none
      queued  == {i \in 1..n : o.wq[i] > 0}
  IN
  \* "Responses that are malformed, for another block or filter type,
  \*  unsolicited, duplicated or inconsistent with the committed header are
  \*  never ... cached or persisted"
  (IF ~(newC \subseteq allowed) \/ ~(newW \subseteq allowed)
      \/ ~(newD \subseteq (allowed \cup queued))
   THEN {"StoredOnlyVerified"} ELSE {})
  \cup
  \* cache and database hold nothing but true filters of blocks whose filter
  \* header is committed
  (IF \/ \E i \in 1..n : \/ o2.cache[i] \notin {0, 1}
                         \/ o2.db[i] \notin {0, 1, 2}
                         \/ (o2.db[i] = 2 /\ o.db[i] # 2)
                         \/ o2.wq[i] < 0
                         \/ (i - 1 > o2.ftip /\ (o2.cache[i] # 0 \/ o2.db[i] \in {1, G} \/ o2.wq[i] # 0))
      \/ o2.cx # 0 \/ o2.dx # 0 \/ o2.wx # 0
   THEN {"ContentsAreTrueFilters"} ELSE {})
  \cup
  \* "Every filter the client returns ... hashes together with the committed
  \*  filter header of the previous block to the committed filter header of
  \*  that block ... the call fails rather than return an unverified filter"
  (IF act.op = "Return"
      /\ ~ \/ o2.ret[act.c] = ERR
           \/ (o2.ret[act.c] = a.tgt[act.c] /\ a.tgt[act.c] >= 0 /\ a.tgt[act.c] <= o2.ftip)
   THEN {"ReturnedMatchesCommitted"} ELSE {})
  \cup
  (IF act.res = "panic" THEN {"FailsCleanly"} ELSE {})
  \cup
  \* "the call fails rather than return ..." / "the call reports failure rather
  \*  than return anything else": every GetCFilter call comes back, with a
  \* result or with an error.  res = "hang": the call had neither reached its
  \* next step nor returned when a wall-clock bound far above anything the
  \* scenario can legitimately take expired (the goroutine dump is in the step).
  (IF act.res = "hang" THEN {"CallReturns"} ELSE {})

EndViol(a, o) == {}
=============================================================================
