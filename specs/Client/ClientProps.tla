---------------------------- MODULE ClientProps ----------------------------
(***************************************************************************)
(* Property C04 (end-to-end convergence of the whole client) stated over   *)
(* OBSERVATIONS only: what ChainService.BestBlock / GetBlockHash /          *)
(* RegFilterHeaders / IsBanned / Peers answer, next to the state of the     *)
(* simulated network (which blocks exist, which chain is the honest one,    *)
(* which nodes are up).  The same operators are evaluated by TLC (a) on     *)
(* every transition of Client.tla and (b) on every step of every sample     *)
(* stream recorded from the real ChainService running against netsim.       *)
(*                                                                         *)
(* Universe.  A block is <<o, h>>: o = the branch that mined it, h = its    *)
(* height.  obs.br is the branch table, a sequence of records               *)
(*   [par |-> branch forked from (0 for branch 1), fork |-> height of the   *)
(*    last shared block (-1 for branch 1), tip |-> highest own height,      *)
(*    bad |-> first own height whose block is INVALID (0 = none)].          *)
(* Branch 1 is the initial honest chain and owns genesis; every Reorg of    *)
(* the honest chain and every liar's side chain is a new branch.  obs.hb is *)
(* the branch whose chain is the honest (most-work valid) chain now.        *)
(*                                                                         *)
(* Encoding (integers only where values are compared):                      *)
(*   -2 = a hash the universe does not know, -3 = the call returned an      *)
(*   error.                                                                 *)
(*   obs.best = <<o,h>> of BestBlock; obs.fh = block whose TRUE filter       *)
(*   header is what the filter-header store holds at best's height;         *)
(*   obs.htip = block-header store tip; obs.ftip = <<o,h,storeHeight>> of    *)
(*   the filter-header store tip; obs.byh = sparse <<height, owner>> pairs   *)
(*   from GetBlockHash for heights <= best's; obs.st = 1 if BestBlock        *)
(*   answered the same before and after those reads; obs.kind / obs.lk =     *)
(*   behaviour of each peer; obs.up = node accepts connections; obs.ban /    *)
(*   obs.conn = IsBanned / in Peers(); obs.cur = IsCurrent; obs.long = 1 if  *)
(*   the chain is long enough for filter-header checkpoints to matter.      *)
(* act = [op, res, p, n, d, why].  Environment ops: Up, Drop, Extend, Reorg, *)
(* Settle; client steps (hints for the driver, internal in the model):      *)
(* SyncHdr, FltBegin, FltEnd, SyncFlt, Reconnect, Ban; HsFail (p, n = stage: *)
(* a connection attempt that fails in the handshake), Inv (p announces the   *)
(* tip); Extend with p # 0: announced by p first; Sample (driver only,        *)
(* a stuttering step); Deadline with res converged | timeout | panic.       *)
(***************************************************************************)
EXTENDS Integers, Sequences, FiniteSets

UNK == -2
ERR == -3

Min(a, b) == IF a <= b THEN a ELSE b
Max(a, b) == IF a >= b THEN a ELSE b

\* The branch that mined the block at height h of the chain that ends in
\* branch b (UNK if that chain has no such height).
RECURSIVE OwnerAt(_, _, _)
OwnerAt(br, b, h) ==
  IF b < 1 \/ b > Len(br) \/ h < 0 THEN UNK
  ELSE IF h > br[b].tip THEN UNK
  ELSE IF h > br[b].fork THEN b
  ELSE OwnerAt(br, br[b].par, h)

\* Every block from genesis up to <<o,h>> passes validation.
RECURSIVE ChainOK(_, _, _)
ChainOK(br, o, h) ==
  /\ (br[o].bad = 0 \/ h < br[o].bad)
  /\ \/ br[o].par = 0
     \/ LET po == OwnerAt(br, br[o].par, br[o].fork)
        IN  po # UNK /\ ChainOK(br, po, br[o].fork)

\* <<o,h>> is a block of the universe on a fully valid chain from genesis.
ValidBlock(br, o, h) ==
  /\ o \in 1..Len(br)
  /\ h > br[o].fork /\ h <= br[o].tip
  /\ ChainOK(br, o, h)

HonestTip(o) == <<OwnerAt(o.br, o.hb, o.br[o.hb].tip), o.br[o.hb].tip>>

Converged(o) ==
  LET t == HonestTip(o)
  IN  /\ o.best = t /\ o.fh = t /\ o.htip = t
      /\ o.ftip = <<t[1], t[2], t[2]>>

CFLiar(k) == k \in {"cplie", "cfhlie", "cpprev"}

----------------------------------------------------------------------------
(* Abstract state: only what the clauses need from the HISTORY.             *)
(*  fhs = scope of the filter-header safety clause: 0 = no peer that serves *)
(*  filter headers was up yet, 1 = the honest peer was up before any peer   *)
(*  that lies about filter headers and the environment never dropped its    *)
(*  connection (so it takes part in every query and, by C03, every false    *)
(*  value is provably false), 2 = out of scope.                             *)
AbsInit == [fhs |-> 0]

AbsNext(abs, a, obs2) ==
  IF a.op = "Up" /\ a.p \in 1..Len(obs2.kind)
  THEN IF abs.fhs = 0 /\ obs2.kind[a.p] = "honest" THEN [abs EXCEPT !.fhs = 1]
       ELSE IF abs.fhs = 0 /\ CFLiar(obs2.kind[a.p]) THEN [abs EXCEPT !.fhs = 2]
       ELSE abs
  ELSE IF a.op = "Drop" /\ a.p \in 1..Len(obs2.kind) /\ obs2.kind[a.p] = "honest"
  THEN [abs EXCEPT !.fhs = 2]
  \* a connection attempt cut by the environment: the node is up but not connected.  For the honest peer that is
  \* a dropped connection (out of scope from here on); a liar that starts accepting before any honest peer was
  \* connected may be the only responder of a query.
  ELSE IF a.op = "HsFail" /\ a.p \in 1..Len(obs2.kind)
          /\ (obs2.kind[a.p] = "honest" \/ (abs.fhs = 0 /\ CFLiar(obs2.kind[a.p])))
  THEN [abs EXCEPT !.fhs = 2]
  ELSE abs

----------------------------------------------------------------------------
(* Clauses.                                                                 *)
(*                                                                         *)
(* "At no time on the way does it report a best block that is not on a      *)
(*  valid chain from genesis."                                              *)
BestOnValidChain(o) ==
  o.best[1] = ERR \/ ValidBlock(o.br, o.best[1], o.best[2])

(* heights/hashes from GetBlockHash are the chain of the reported best      *)
(* block (judged only on samples bracketed by two equal BestBlock answers). *)
BestHashesConsistent(o) ==
  (o.st = 1 /\ o.best[1] >= 1) =>
     \A i \in 1..Len(o.byh) :
        o.byh[i][2] = OwnerAt(o.br, o.best[1], o.byh[i][1])

(* "with matching block and filter headers": the filter header committed    *)
(* for the reported best block is the true one (in scope, see AbsNext).     *)
BestFilterHeaderTrue(abs, o) ==
  (abs.fhs = 1 /\ o.st = 1 /\ o.best[1] >= 1) => o.fh = o.best

(* "eventually reports that chain's tip as its best block, with matching    *)
(*  block and filter headers, and keeps doing so": judged at the Deadline    *)
(* step, which the driver takes only after every environment event is over, *)
(* every gate is open and a deadline far beyond every internal timer has    *)
(* passed (or the client converged and stayed converged for the hold time); *)
(* premise: the honest node is up.  A crash of the client is a failure to    *)
(* keep reporting.                                                          *)
ConvergesToHonestTip(a, o) ==
  (a.op = "Deadline" /\ Len(o.up) >= 1 /\ o.up[1] = 1) =>
     (a.res # "panic" /\ Converged(o))

Viol(abs, obs, a, abs2, obs2) ==
     (IF BestOnValidChain(obs2) THEN {} ELSE {"BestOnValidChain"})
  \cup (IF BestHashesConsistent(obs2) THEN {} ELSE {"BestHashesConsistent"})
  \cup (IF BestFilterHeaderTrue(abs2, obs2) THEN {} ELSE {"BestFilterHeaderTrue"})
  \cup (IF ConvergesToHonestTip(a, obs2) THEN {} ELSE {"ConvergesToHonestTip"})
  \* not part of C04, reported as drift only
  \cup (IF \E p \in 1..Len(obs2.kind) : obs2.kind[p] = "honest" /\ obs2.ban[p] = 1
        THEN {"DriftHonestBanned"} ELSE {})

\* clause names that are not part of C04
DriftNames == {"DriftHonestBanned"}
PropViol(abs, obs, a, abs2, obs2) == Viol(abs, obs, a, abs2, obs2) \ DriftNames

EndViol(abs, obs) == {}
=============================================================================
