------------------------------- MODULE Client -------------------------------
(***************************************************************************)
(* OBSERVER-LEVEL specification of the whole neutrino client against a     *)
(* network (property C04).  The ENVIRONMENT is explicit: an honest chain    *)
(* that extends and reorganises, peers with behaviours, connections that    *)
(* come up and are dropped.  The CLIENT is abstracted to what C01-C03        *)
(* guarantee: its block-header tip moves only along valid headers served by  *)
(* a connected peer and only to strictly more work (C01, C02); its           *)
(* filter-header tip follows the header chain, is rolled back with it, and   *)
(* holds true filter headers whenever an honest peer took part in the query  *)
(* (C03).  BestBlock = the block at the filter tip height on the header      *)
(* chain (neutrino.go BestBlock).                                            *)
(*                                                                         *)
(* The client steps double as HINTS for the driver: netsim parks the         *)
(* answers to getheaders (per peer), getcfcheckpt, getcfheaders and          *)
(* getcfilters/getdata behind gates; a SyncHdr(p) step of a path opens the   *)
(* header gate of peer p, FltBegin the checkpoint gate (the client then      *)
(* issues its checkpointed getcfheaders batch, which stays parked), FltEnd / *)
(* SyncFlt all filter gates.  Environment steps between them therefore fall  *)
(* exactly where the path puts them, e.g. a Reorg between FltBegin and       *)
(* FltEnd is a reorganisation during the checkpointed filter-header sync.    *)
(*                                                                         *)
(* Heights are in model units; the driver maps unit u to real height         *)
(* delta + U*u (U = 500 in "long" scenarios so that CPI = 2 units is         *)
(* wire.CFCheckptInterval = 1000 blocks, small otherwise).                   *)
(*                                                                         *)
(* Code-version switches (code_version.json): see the end of the header of   *)
(* each action that uses one.                                                *)
(***************************************************************************)
EXTENDS ClientProps, TLC, Json

CONSTANTS NPeers,        \* peers 1..NPeers, peer 1 is honest
          LiarOpts,      \* options <<kind, k>> for peers 2..NPeers
          InitLens,      \* initial lengths of the honest chain
          LongSet,       \* subset of {0, 1}
          MaxEv,         \* Drop/Extend/Reorg events per history
          MaxHs,         \* connection attempts that fail inside (or right after) the handshake, per history
          InvSplit,      \* the announcements of a new block may reach the client one follower at a time (Extend(n, q), Inv)
          MaxH,          \* bound on chain heights
          CPI,           \* filter checkpoint interval in model units
          FixCFStall,    \* a peer whose checkpoints contradict its own cfheaders is banned (no endless retry)
          FixCFPanic,    \* a checkpointed batch invalidated by a reorg is abandoned (no panic)
          FixFHReverify, \* false filter headers taken from a lone liar are rolled back once an honest peer contradicts them
          FixLastRequested, \* an announced block nobody delivered is requested again from a later announcer
          FixStaleSyncPeer \* a connected peer with more work is asked for headers even if it connected while the client was syncing from a shorter peer

VARIABLES br, hb, long,          \* universe: branch table, honest branch, long-chain mode
          kind, lk, pv,          \* per peer: behaviour, its parameter, own branch (0 = follows the honest chain)
          ps, bn,                \* per peer: "new" | "up" | "down", banned
          hdrb, hdrh,            \* client block-header tip = block <<hdrb, hdrh>>
          flt,                   \* client filter-header tip height (on the header chain)
          ffalse,                \* lowest height whose committed filter header is false (0 = none)
          cfq,                   \* in-flight checkpointed batch: <<branch, height>> of the header tip it was built for
          dead,                  \* the client process crashed
          sp, ask,               \* sync peer (0 = none); peers the client has sent a getheaders to besides the sync peer
          pend,                  \* followers whose inv for the current honest tip is still on its way (environment)
          req,                   \* peer that was sent the getheaders for the announced tip (blockManager.lastRequested), 0 = none
          nev, nhs, phase,
          abs, act, viol

evars == <<br, hb, long, kind, lk, pv, ps, bn>>
cvars == <<hdrb, hdrh, flt, ffalse, cfq, dead, sp, ask>>
ivars == <<pend, req>>
vars  == <<evars, cvars, ivars, nev, nhs, phase, abs, act, viol>>

Peers == 1..NPeers
NoQ   == <<0, 0>>

Act(op, res, p, n, d) == [op |-> op, res |-> res, p |-> p, n |-> n, d |-> d, why |-> ""]

HdrServer(k) == k \in {"honest", "nonet", "lighter", "lighterq", "invalid", "cplie", "cfhlie", "cpprev"}
CFServer(k)  == k \in {"honest", "nonet", "lighter", "invalid", "cplie", "cfhlie", "cpprev"}
\* kind "nonet": follows the honest chain and answers everything truthfully, but its version message does not
\* advertise NODE_NETWORK (witness and compact-filter bits kept, so OnVersion accepts it): it is a query peer and
\* announces blocks, but blockmanager.go isSyncCandidate refuses it: handleNewPeerMsg returns before the
\* getheaders / startSync, startSync never sees it in the candidate list.  It still BECOMES the sync peer when a
\* reorganisation it sent is accepted (handleHeadersMsg: b.syncPeer = hmsg.peer, whoever that is).
Truthful(k)  == k \in {"honest", "nonet"}
Candidate(k) == HdrServer(k) /\ k # "nonet"

LastCP(h) == (h \div CPI) * CPI

\* chain served by peer p: the branch and the highest VALID height on it
PChain(p) == IF pv[p] = 0 THEN hb ELSE pv[p]
PValidTip(p) == LET c == PChain(p) IN IF br[c].bad = 0 THEN br[c].tip ELSE br[c].bad - 1

\* height of the highest block shared by chain (b1 up to h1) and chain (b2 up to h2)
ForkH(b1, h1, b2, h2) ==
  LET m == Min(h1, h2)
      Same(h) == OwnerAt(br, b1, h) = OwnerAt(br, b2, h)
  IN  CHOOSE h \in 0..m : Same(h) /\ \A g \in (h+1)..m : ~Same(g)

\* peer p's chain contains the client's header tip block
HasHdr(p) == LET c == PChain(p) IN hdrh <= br[c].tip /\ OwnerAt(br, c, hdrh) = hdrb

HonestUp == \E p \in Peers : Truthful(kind[p]) /\ ps[p] = "up" /\ HasHdr(p)
CFUp     == \E p \in Peers : CFServer(kind[p]) /\ ps[p] = "up" /\ HasHdr(p)

\* height peer p announces (version message / later announcements)
PTip(p) == br[PChain(p)].tip

\* BlockHeadersSynced: no sync peer, or we are at least where it said it is
Cur == sp = 0 \/ hdrh >= PTip(sp)

\* startSync: the candidate with the highest announced block, none below ours
BestCand(up) ==
  LET c == {p \in Peers : up[p] = "up" /\ Candidate(kind[p]) /\ PTip(p) >= hdrh}
  IN  IF c = {} THEN 0
      ELSE CHOOSE p \in c : \A q \in c : PTip(q) < PTip(p) \/ (PTip(q) = PTip(p) /\ q >= p)

\* what a new peer p does to the sync-peer bookkeeping (handleNewPeerMsg)
NewPeerSP(p, up) ==
  IF ~Candidate(kind[p]) THEN <<sp, ask>>
  ELSE IF sp = 0 THEN <<BestCand(up), ask>>
  ELSE IF Cur /\ PTip(p) > hdrh THEN <<sp, ask \cup {p}>>
  ELSE <<sp, ask>>

\* what losing peer p does to it (handleDonePeerMsg)
DonePeerSP(p, up) ==
  IF sp = p THEN <<BestCand(up), ask \ {p}>> ELSE <<sp, ask \ {p}>>

\* first checkpoint height at or above a lie height
LieCP(k) == ((k + CPI - 1) \div CPI) * CPI

\* Code as it is (FixCFStall = FALSE): with checkpoint lists that disagree,
\* resolveConflict returns an error before anyone is banned when the liar's
\* cfheaders agree with everybody else's (cplie) or carry another
\* PrevFilterHeader (cpprev); the handler retries every 3 s with the same
\* cached lists, for ever, while the liar stays connected.
Stalled ==
  /\ ~FixCFStall /\ long = 1
  /\ \E q \in Peers :
        /\ ps[q] = "up" /\ kind[q] \in {"cplie", "cpprev"} /\ HasHdr(q)
        /\ lk[q] >= 1 /\ LieCP(lk[q]) <= LastCP(hdrh)
        /\ \E r \in Peers \ {q} : ps[r] = "up" /\ CFServer(kind[r]) /\ HasHdr(r)
                                   /\ ~(kind[r] = kind[q] /\ lk[r] = lk[q])

Obs ==
  LET bo == OwnerAt(br, hdrb, flt)
      fb == IF ffalse # 0 /\ flt >= ffalse THEN <<UNK, UNK>> ELSE <<bo, flt>>
  IN [br |-> br, hb |-> hb, long |-> long, kind |-> kind, lk |-> lk,
      up |-> [p \in Peers |-> IF ps[p] = "new" THEN 0 ELSE 1],
      best |-> <<bo, flt>>, fh |-> fb, htip |-> <<hdrb, hdrh>>,
      ftip |-> <<fb[1], fb[2], flt>>, byh |-> <<>>, st |-> 1, cur |-> 0,
      ban |-> [p \in Peers |-> IF bn[p] THEN 1 ELSE 0],
      conn |-> [p \in Peers |-> IF ps[p] = "up" THEN 1 ELSE 0]]

State == [br |-> br, hb |-> hb, long |-> long, kind |-> kind, lk |-> lk, pv |-> pv, ps |-> ps,
          bn |-> bn, hdrb |-> hdrb, hdrh |-> hdrh, flt |-> flt, ffalse |-> ffalse, cfq |-> cfq,
          dead |-> dead, sp |-> sp, ask |-> ask, pend |-> pend, req |-> req, nev |-> nev, nhs |-> nhs,
          phase |-> phase]

View == <<evars, cvars, ivars, nev, nhs, phase, abs>>

Finish(a) ==
  /\ act' = a
  /\ abs' = AbsNext(abs, a, Obs')
  /\ viol' = PropViol(abs, Obs, a, abs', Obs')

----------------------------------------------------------------------------
\* Initial states: behaviour assignment, chain length, side branches of the
\* peers that serve an own chain.
SideBranch(k, x, L) ==
  IF k \in {"lighter", "lighterq"} THEN [par |-> 1, fork |-> L - x, tip |-> L - 1, bad |-> 0]
  ELSE [par |-> 1, fork |-> L, tip |-> L + x, bad |-> L + 1]

RECURSIVE MkBr(_, _, _, _)
MkBr(ks, xs, L, p) ==      \* <<branches, pv>> for peers p..NPeers
  IF p > NPeers THEN <<<<>>, <<>>>>
  ELSE LET rest == MkBr(ks, xs, L, p + 1)
       IN IF ks[p] \in {"lighter", "lighterq", "invalid"}
          THEN <<<<SideBranch(ks[p], xs[p], L)>> \o rest[1], <<1>> \o rest[2]>>
          ELSE <<rest[1], <<0>> \o rest[2]>>

\* pv entries are 1 for "own branch" above; turn them into branch indices
RECURSIVE Number(_, _, _)
Number(s, i, next) ==
  IF i > Len(s) THEN <<>>
  ELSE IF s[i] = 1 THEN <<next>> \o Number(s, i + 1, next + 1)
       ELSE <<0>> \o Number(s, i + 1, next)

Init ==
  /\ \E L \in InitLens, lg \in LongSet, asg \in [2..NPeers -> LiarOpts] :
        LET ks == [p \in Peers |-> IF p = 1 THEN "honest" ELSE asg[p][1]]
            xs == [p \in Peers |-> IF p = 1 THEN 0 ELSE asg[p][2]]
            mk == MkBr(ks, xs, L, 1)
        IN  /\ \A p \in 2..NPeers : ks[p] \in {"lighter", "lighterq"} => xs[p] \in 1..L
            /\ kind = ks /\ lk = xs /\ long = lg
            /\ br = <<[par |-> 0, fork |-> -1, tip |-> L, bad |-> 0]>> \o mk[1]
            /\ pv = Number(mk[2], 1, 2)
  /\ hb = 1
  /\ ps = [p \in Peers |-> "new"] /\ bn = [p \in Peers |-> FALSE]
  /\ hdrb = 1 /\ hdrh = 0 /\ flt = 0 /\ ffalse = 0 /\ cfq = NoQ /\ dead = FALSE
  /\ sp = 0 /\ ask = {} /\ pend = {} /\ req = 0
  /\ nev = 0 /\ nhs = 0 /\ phase = "run"
  /\ abs = AbsInit /\ act = Act("Init", "ok", 0, 0, 0) /\ viol = {}

----------------------------------------------------------------------------
\* Environment.

\* node p starts accepting connections (the client has been dialling it
\* since its start: ConnectPeers)
Up(p) ==
  /\ phase = "run" /\ ps[p] = "new"
  /\ ps' = [ps EXCEPT ![p] = "up"]
  /\ LET r == NewPeerSP(p, ps') IN sp' = r[1] /\ ask' = r[2]
  /\ UNCHANGED <<br, hb, long, kind, lk, pv, bn, hdrb, hdrh, flt, ffalse, cfq, dead, ivars, nev, nhs, phase>>
  /\ Finish(Act("Up", "ok", p, 0, 0))

\* A connection attempt of the client to node p that FAILS at handshake stage st; the node serves later attempts
\* normally (the client's connection manager has to dial again: Reconnect).  Stages (netsim FailNext):
\*   1 the dial is refused                                  connmgr handleFailedConn, no peer object
\*   2 accepted, closed after the client's version          peer.start fails / negotiation ends; ChainService.
\*   3 the node's version arrives, closed before its verack   handleDonePeerMsg gets a peer that was never added
\*                                                            (neutrino.go:1482 list[sp.ID()] absent) and must still
\*                                                            give the request back: connManager.Disconnect (persistent
\*                                                            peer: redial) / Remove + NewConnReq
\*   4 version and verack arrive, closed right after         OnVerAck -> AddPeer -> handleAddPeerMsg + blockManager
\*                                                            NewPeer, then DonePeer: the sync-peer bookkeeping sees a
\*                                                            peer come and go
\* From "new" this is also the moment the node starts accepting (obs.up = 1); from "down" it is a failed redial.
HsFail(p, st) ==
  /\ phase = "run" /\ ps[p] \in {"new", "down"} /\ ~bn[p] /\ nhs < MaxHs
  /\ ps' = [ps EXCEPT ![p] = "down"]
  /\ nhs' = nhs + 1
  /\ IF st = 4
     THEN LET up1 == [ps EXCEPT ![p] = "up"]
              r1  == NewPeerSP(p, up1)
              \* DonePeerSP on the bookkeeping NewPeerSP left
              s2  == IF r1[1] = p THEN BestCand(ps') ELSE r1[1]
          IN  sp' = s2 /\ ask' = r1[2] \ {p}
     ELSE UNCHANGED <<sp, ask>>
  /\ UNCHANGED <<br, hb, long, kind, lk, pv, bn, hdrb, hdrh, flt, ffalse, cfq, dead, ivars, nev, phase>>
  /\ Finish(Act("HsFail", "ok", p, st, 0))

\* node p closes the connection (it keeps accepting: the client redials)
Drop(p) ==
  /\ phase = "run" /\ ps[p] = "up" /\ nev < MaxEv
  /\ ps' = [ps EXCEPT ![p] = "down"]
  /\ nev' = nev + 1
  /\ LET r == DonePeerSP(p, ps') IN sp' = r[1] /\ ask' = r[2]
  /\ pend' = pend \ {p}
  /\ UNCHANGED <<br, hb, long, kind, lk, pv, bn, hdrb, hdrh, flt, ffalse, cfq, dead, req, nhs, phase>>
  /\ Finish(Act("Drop", "ok", p, 0, 0))

\* followers of the honest chain announce a new tip by inv; the client asks
\* the announcer for headers if it is the sync peer or the client is current
Announce == {p \in Peers : pv[p] = 0 /\ ps[p] = "up" /\ HdrServer(kind[p]) /\ (p = sp \/ Cur)}

\* Extend(n, 0): every connected follower announces at once (netsim: in index order; the model lets every
\* announcer be asked - the code asks the first one only, known finding KF-CL-6).
\* Extend(n, q), q # 0: the announcement of follower q reaches the client FIRST, those of the other followers are
\* still on their way (pend; delivered by Inv).  handleInvMsg blockmanager.go:2621: q is sent a getheaders iff it is
\* the sync peer or the client is current (:2644, :2666) and the hash is remembered (:2698 lastRequested = req).
Followers == {p \in Peers : pv[p] = 0 /\ ps[p] = "up" /\ HdrServer(kind[p])}

Extend(n, q) ==
  /\ phase = "run" /\ nev < MaxEv /\ br[hb].tip + n <= MaxH
  /\ br' = [br EXCEPT ![hb].tip = @ + n]
  /\ nev' = nev + 1
  /\ IF q = 0
     THEN ask' = ask \cup Announce /\ pend' = {} /\ req' = 0
     ELSE /\ InvSplit /\ q \in Followers
          /\ pend' = Followers \ {q}
          /\ IF q \in Announce THEN ask' = ask \cup {q} /\ req' = q
                                ELSE ask' = ask /\ req' = 0
  /\ UNCHANGED <<hb, long, kind, lk, pv, ps, bn, hdrb, hdrh, flt, ffalse, cfq, dead, sp, nhs, phase>>
  /\ Finish(Act("Extend", "ok", q, n, 0))

\* the client's header tip is the current honest tip
AtHonestTip == hdrh = br[hb].tip /\ hdrb = OwnerAt(br, hb, hdrh)

\* the inv of follower p for the current honest tip arrives.  Code as it is (FixLastRequested = FALSE): a hash
\* that was already requested from somebody (lastRequested) is not requested again, whether or not that peer
\* is still there; otherwise p is asked iff it is the sync peer or there is none (the sync peer's recorded
\* height is only raised when the announced block is already known, so "current" w.r.t. a follower sync peer
\* means: p = sp here).
Inv(p) ==
  /\ phase \in {"run", "settle"} /\ p \in pend
  /\ pend' = pend \ {p}
  /\ IF ps[p] = "up" /\ ~AtHonestTip /\ (p = sp \/ sp = 0 \/ FixLastRequested) /\ (req = 0 \/ FixLastRequested)
     THEN ask' = ask \cup {p} /\ req' = p
     ELSE UNCHANGED <<ask, req>>
  /\ UNCHANGED <<evars, hdrb, hdrh, flt, ffalse, cfq, dead, sp, nev, nhs, phase>>
  /\ Finish(Act("Inv", "ok", p, 0, 0))

\* the honest chain drops d blocks and gets d+1 new ones (strictly more work)
Reorg(d) ==
  /\ phase = "run" /\ nev < MaxEv
  /\ d <= br[hb].tip /\ br[hb].tip + 1 <= MaxH
  /\ br' = Append(br, [par |-> hb, fork |-> br[hb].tip - d, tip |-> br[hb].tip + 1, bad |-> 0])
  /\ hb' = Len(br) + 1
  /\ nev' = nev + 1
  /\ ask' = ask \cup Announce /\ pend' = {} /\ req' = 0
  /\ UNCHANGED <<long, kind, lk, pv, ps, bn, hdrb, hdrh, flt, ffalse, cfq, dead, sp, nhs, phase>>
  /\ Finish(Act("Reorg", "ok", 0, d + 1, d))

\* no further environment events
Settle ==
  /\ phase = "run" /\ ps[1] # "new"
  /\ phase' = "settle"
  /\ UNCHANGED <<evars, cvars, ivars, nev, nhs>>
  /\ Finish(Act("Settle", "ok", 0, 0, 0))

----------------------------------------------------------------------------
\* Client (abstract).

Alive == phase \in {"run", "settle"} /\ ~dead

\* headers from peer p up to the valid tip of its chain; only to more work
\* Code as it is (FixStaleSyncPeer = FALSE): headers are only requested from
\* the sync peer, from a peer that connects or announces a block while the
\* client is current, and from a new sync peer after the old one went away.
\* A peer with more work that connected while the client was still syncing
\* from a shorter peer is never asked.
CanSyncHdr(p) ==
  /\ Alive /\ ps[p] = "up" /\ HdrServer(kind[p]) /\ kind[p] # "invalid"
  /\ PValidTip(p) > hdrh
  /\ FixStaleSyncPeer \/ p = sp \/ p \in ask

SyncHdr(p) ==
  /\ CanSyncHdr(p)
  /\ LET c == PChain(p)
         t == PValidTip(p)
         f == ForkH(hdrb, hdrh, c, t)
     IN  /\ hdrb' = OwnerAt(br, c, t) /\ hdrh' = t
         /\ flt' = Min(flt, f)
         /\ ffalse' = IF ffalse > Min(flt, f) THEN 0 ELSE ffalse
         \* a reorganisation makes the sender the sync peer, sync candidate or not
         /\ sp' = IF f < hdrh \/ (sp = 0 /\ Candidate(kind[p])) THEN p ELSE sp
  /\ ask' = ask \ {p}
  /\ UNCHANGED <<evars, cfq, dead, ivars, nev, nhs, phase>>
  /\ Finish(Act("SyncHdr", "ok", p, 0, 0))

\* A peer that serves an invalid header: the headers before it are taken (if
\* they are more work), the peer is disconnected (it may reconnect) and, if
\* it was the sync peer, another one is chosen.
CanKick(p) ==
  /\ Alive /\ ps[p] = "up" /\ kind[p] = "invalid"
  /\ p = sp \/ p \in ask

Kick(p) ==
  /\ CanKick(p)
  /\ LET c == PChain(p)
         t == PValidTip(p)
     IN  IF t > hdrh
         THEN LET f == ForkH(hdrb, hdrh, c, t)
              IN  /\ hdrb' = OwnerAt(br, c, t) /\ hdrh' = t
                  /\ flt' = Min(flt, f)
                  /\ ffalse' = IF ffalse > Min(flt, f) THEN 0 ELSE ffalse
         ELSE UNCHANGED <<hdrb, hdrh, flt, ffalse>>
  /\ ps' = [ps EXCEPT ![p] = "down"]
  \* startSync runs on the header tip as it is after this step
  /\ LET up == ps'
         c  == {q \in Peers : up[q] = "up" /\ Candidate(kind[q]) /\ PTip(q) >= hdrh'}
         bc == IF c = {} THEN 0
               ELSE CHOOSE q \in c : \A r \in c : PTip(r) < PTip(q) \/ (PTip(r) = PTip(q) /\ r >= q)
     IN  /\ sp' = IF sp = p THEN bc ELSE sp
         /\ ask' = ask \ {p}
  /\ UNCHANGED <<br, hb, long, kind, lk, pv, bn, cfq, dead, ivars, nev, nhs, phase>>
  /\ Finish(Act("Kick", "ok", p, 0, 0))

\* what committing the filter headers of heights flt+1..to leaves in ffalse:
\* with an honest peer among the responders the true values (C03), with
\* only liars possibly theirs
NewFalse(to) ==
  IF ffalse # 0 THEN {ffalse}
  ELSE IF HonestUp THEN {0}
  ELSE {0} \cup {lk[q] : q \in {r \in Peers : ps[r] = "up" /\ kind[r] = "cfhlie" /\ HasHdr(r)
                                              /\ lk[r] > flt /\ lk[r] <= to}}

CanFltBegin ==
  /\ Alive /\ cfq = NoQ /\ long = 1 /\ LastCP(hdrh) > flt /\ CFUp /\ ~Stalled
  /\ ~(ffalse # 0 /\ HonestUp)

\* the client got its checkpoints and sent the checkpointed getcfheaders batch
FltBegin ==
  /\ CanFltBegin
  /\ cfq' = <<hdrb, hdrh>>
  /\ UNCHANGED <<evars, hdrb, hdrh, flt, ffalse, dead, sp, ask, ivars, nev, nhs, phase>>
  /\ Finish(Act("FltBegin", "ok", 0, 0, 0))

\* the answers arrive.  If a reorganisation removed a block the batch ends
\* at, writeCFHeadersMsg fails: FixCFPanic = FALSE (code as it is) panics.
FltEnd ==
  /\ Alive /\ cfq # NoQ
  /\ LET cp == LastCP(cfq[2])
         f  == ForkH(hdrb, hdrh, cfq[1], cfq[2])
     IN  IF f < cp
         THEN /\ dead' = ~FixCFPanic
              /\ UNCHANGED <<flt, ffalse>>
         ELSE /\ flt' = Max(flt, cp)
              /\ ffalse' \in NewFalse(Max(flt, cp))
              /\ UNCHANGED dead
  /\ cfq' = NoQ
  /\ UNCHANGED <<evars, hdrb, hdrh, sp, ask, ivars, nev, nhs, phase>>
  /\ Finish(Act("FltEnd", "ok", 0, 0, 0))

CanSyncFlt ==
  /\ Alive /\ cfq = NoQ /\ flt < hdrh /\ CFUp /\ ~Stalled

\* filter headers up to the header tip.  With false headers in the store
\* (taken from a lone liar) and an honest peer connected: the code as it is
\* (FixFHReverify = FALSE) bans the honest peer (its PrevFilterHeader does
\* not match the store); the repaired behaviour rolls the false ones back.
SyncFlt ==
  /\ CanSyncFlt
  /\ IF ffalse # 0 /\ HonestUp
     THEN IF FixFHReverify
          THEN /\ flt' = hdrh /\ ffalse' = 0
               /\ UNCHANGED <<ps, bn>>
          ELSE /\ bn' = [p \in Peers |-> bn[p] \/ (Truthful(kind[p]) /\ ps[p] = "up")]
               /\ ps' = [p \in Peers |-> IF Truthful(kind[p]) /\ ps[p] = "up" THEN "down" ELSE ps[p]]
               /\ UNCHANGED <<flt, ffalse>>
     ELSE /\ flt' = hdrh
          /\ ffalse' \in NewFalse(hdrh)
          /\ UNCHANGED <<ps, bn>>
  /\ sp' = IF sp # 0 /\ ps'[sp] # "up" THEN BestCand(ps') ELSE sp
  /\ ask' = {p \in ask : ps'[p] = "up"}
  /\ UNCHANGED <<br, hb, long, kind, lk, pv, hdrb, hdrh, cfq, dead, ivars, nev, nhs, phase>>
  /\ Finish(Act("SyncFlt", "ok", 0, 0, 0))

\* the repaired behaviour only: false filter headers in the store are noticed
\* as soon as an honest peer is connected and are rolled back
CanReverify == Alive /\ FixFHReverify /\ ffalse # 0 /\ HonestUp /\ cfq = NoQ

Reverify ==
  /\ CanReverify
  /\ flt' = ffalse - 1 /\ ffalse' = 0
  /\ UNCHANGED <<evars, hdrb, hdrh, cfq, dead, sp, ask, ivars, nev, nhs, phase>>
  /\ Finish(Act("Reverify", "ok", 0, 0, 0))

CanReconnect(p) == Alive /\ ps[p] = "down" /\ ~bn[p]

Reconnect(p) ==
  /\ CanReconnect(p)
  /\ ps' = [ps EXCEPT ![p] = "up"]
  /\ LET r == NewPeerSP(p, ps') IN sp' = r[1] /\ ask' = r[2]
  /\ UNCHANGED <<br, hb, long, kind, lk, pv, bn, hdrb, hdrh, flt, ffalse, cfq, dead, ivars, nev, nhs, phase>>
  /\ Finish(Act("Reconnect", "ok", p, 0, 0))

\* peers the client bans: no compact-filter service bit; provable filter lies
Bannable(p) ==
  \/ kind[p] = "nocf"
  \/ kind[p] = "cfhlie" /\ HonestUp /\ lk[p] <= hdrh
  \/ kind[p] \in {"cplie", "cpprev"} /\ FixCFStall /\ long = 1 /\ HonestUp /\ LieCP(lk[p]) <= LastCP(hdrh)

Ban(p) ==
  /\ Alive /\ ps[p] = "up" /\ Bannable(p)
  /\ bn' = [bn EXCEPT ![p] = TRUE]
  /\ ps' = [ps EXCEPT ![p] = "down"]
  /\ LET r == DonePeerSP(p, ps') IN sp' = r[1] /\ ask' = r[2]
  /\ UNCHANGED <<br, hb, long, kind, lk, pv, hdrb, hdrh, flt, ffalse, cfq, dead, ivars, nev, nhs, phase>>
  /\ Finish(Act("Ban", "ok", p, 0, 0))

\* nothing the client is obliged to do remains
Quiescent ==
  /\ \A p \in Peers : ~CanSyncHdr(p) /\ ~CanKick(p)
  /\ \A p \in Peers : kind[p] = "honest" => ~CanReconnect(p)
  /\ ~CanSyncFlt /\ ~CanFltBegin /\ ~CanReverify /\ cfq = NoQ
  /\ pend = {}        \* (the environment delivers its announcements before the end)

ConvergedM == ~dead /\ Converged(Obs)

Deadline ==
  /\ phase = "settle" /\ (dead \/ Quiescent)
  /\ phase' = "done"
  /\ UNCHANGED <<evars, cvars, ivars, nev, nhs>>
  /\ Finish(Act("Deadline", IF dead THEN "panic" ELSE IF ConvergedM THEN "converged" ELSE "timeout", 0, 0, 0))

Next ==
  \/ \E p \in Peers : Up(p) \/ Drop(p) \/ SyncHdr(p) \/ Kick(p) \/ Reconnect(p) \/ Ban(p) \/ Inv(p)
  \/ \E p \in Peers, st \in 1..4 : HsFail(p, st)
  \/ \E n \in 1..2, q \in 0..NPeers : Extend(n, q)
  \/ \E d \in 1..2 : Reorg(d)
  \/ Settle \/ FltBegin \/ FltEnd \/ SyncFlt \/ Reverify \/ Deadline

----------------------------------------------------------------------------
TypeOK ==
  /\ hb \in 1..Len(br) /\ hdrb \in 1..Len(br)
  /\ flt \in 0..hdrh /\ hdrh \in 0..MaxH
  /\ ValidBlock(br, hdrb, hdrh)
  /\ nev \in 0..MaxEv /\ nhs \in 0..MaxHs /\ pend \subseteq Peers /\ req \in 0..NPeers /\ phase \in {"run", "settle", "done"}
  /\ \A p \in Peers : ps[p] \in {"new", "up", "down"}

\* design-level safety: the abstraction never leaves the valid chains
ModelSafe == BestOnValidChain(Obs)

\* Liveness at design level: with the honest peer coming up, the client's
\* obligations weakly fair and a bounded environment, the client ends up on
\* the honest tip with true filter headers and stays there.
HonestPeers == {p \in Peers : kind[p] = "honest"}
Fairness ==
  /\ WF_vars(Up(1))
  /\ WF_vars(\E p \in Peers : SyncHdr(p))
  /\ WF_vars(\E p \in HonestPeers : Reconnect(p))
  /\ WF_vars(\E p \in Peers : Kick(p))
  /\ WF_vars(\E p \in Peers : Inv(p))
  /\ WF_vars(SyncFlt) /\ WF_vars(FltEnd) /\ WF_vars(Reverify)
LiveSpec == Init /\ [][Next]_vars /\ Fairness
EventuallyConverged == <>[](ConvergedM)
=============================================================================
