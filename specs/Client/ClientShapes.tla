---------------------------- MODULE ClientShapes ----------------------------
(***************************************************************************)
(* Scenario SHAPES: situations every run of the C04 check has to realise on *)
(* the real client, however unlikely a random walk through Client.tla is to  *)
(* meet them.  `shape` is a history variable collecting the names of the     *)
(* shapes a behaviour has gone through; vlib/families/client.py asks TLC     *)
(* (breadth first, invariant "name \notin shape") for a shortest behaviour   *)
(* of Client.tla that reaches each shape and runs that behaviour as a        *)
(* scenario.  Shapes describe the ENVIRONMENT'S schedule relative to the     *)
(* client's progress, not any particular defect:                             *)
(*                                                                         *)
(*  SyncPeerLostAfterOtherLeft    a header-serving peer that is not the sync *)
(*      peer leaves while the client is behind, later the sync peer leaves   *)
(*      while the client is still behind and an honest peer is connected     *)
(*  SyncPeerLostAfterHigherLeft   the same, the first peer having advertised *)
(*      more blocks than every honest peer                                   *)
(*  HonestBlipAfterHigherLeft     the honest peer is the sync peer, a peer   *)
(*      advertising more blocks connects and leaves, then the honest peer's  *)
(*      connection is dropped (it reconnects) while the client is behind     *)
(*  ReorgWhileFiltersLag          the client's filter headers lag behind its *)
(*      block headers when a reorganisation that forks below the filter tip  *)
(*      is taken over                                                        *)
(*  DisputeWithHonest             filter headers for a height a connected    *)
(*      peer lies about are fetched while the honest peer (connected first)  *)
(*      takes part                                                           *)
(*  ExtendWhileSyncPeerGone       the chain grows after the sync peer left   *)
(*      and before it is back                                                *)
(*  HigherConnectsAfterShorterSynced   the client is current with a sync     *)
(*      peer on a shorter valid chain that does not serve filter headers     *)
(*      (filter headers behind the block headers) when the honest peer with  *)
(*      more work connects; the honest chain does not change afterwards      *)
(*  FilterSyncAtCheckpointTip     the checkpointed filter-header sync starts *)
(*      with the honest tip exactly on a filter checkpoint height (realised  *)
(*      with an offset of 0 blocks, i.e. a multiple of 1000)                 *)
(*  ReorgTakenOverWhileBehind     a reorganisation of the honest chain is    *)
(*      taken over by a client whose header tip is on the old branch below   *)
(*      its tip (netsim dates the last header of every reorg branch of >= 4   *)
(*      blocks before its parent)                                            *)
(*  NonFullNodeBecomesSyncPeerThenLeaves   a connected peer that does not     *)
(*      advertise NODE_NETWORK (kind "nonet": not a sync candidate) follows   *)
(*      the honest chain; the client, current on a shorter valid chain, takes *)
(*      a reorganisation from it (the sender of an accepted reorganisation    *)
(*      becomes the sync peer whoever it is) and catches up with it; that     *)
(*      peer leaves for good while no other peer following the honest chain   *)
(*      is connected; the honest chain grows unseen; then the honest full     *)
(*      node, ahead of the client, connects.  Realised with the unseen growth *)
(*      longer than one headers message (> 2000 blocks), so that the client   *)
(*      needs a working sync peer to catch up, and with the node of the       *)
(*      non-full peer shut down (no redial succeeds).                         *)
(*  ReorgAnnouncedByInvBeyondOneHeadersMessage   long chain (realised with    *)
(*      2060-2300 blocks: more than one headers message); the client is       *)
(*      current on the honest chain, block and filter headers, when the       *)
(*      honest side replaces its last block(s) by a branch one block longer   *)
(*      (realised 1-3 blocks deep) and announces the new tip by inv only; the  *)
(*      client takes it over; later the chain grows (realised: by one block), *)
(*      again announced by inv.  The fork point can only be found through the *)
(*      block locator of the client's getheaders: a node that finds no        *)
(*      locator entry on its chain answers from genesis, and 2000 headers     *)
(*      from genesis end below the fork.                                      *)
(*  HonestHandshakeFailsAtEveryStage   connection attempts of the client to    *)
(*      the honest node (a persistent peer) fail at every stage of the         *)
(*      handshake - refused, closed after the client's version, closed after   *)
(*      the node's version before its verack, closed right after the veracks - *)
(*      before an attempt is served normally.                                  *)
(*  HonestRedialCutInHandshake    the honest peer's connection is dropped after *)
(*      the client synced something from it; the redial is accepted and cut     *)
(*      before the verack; the attempt after that is served.                    *)
(*  RequestLostWithSyncPeerAfterOtherAnnounced / ...BeforeOtherAnnounced        *)
(*      the client is current (block and filter headers) with two connected     *)
(*      followers of the honest chain, the sync peer being the one that is not  *)
(*      the honest node p1; a new block is announced by the sync peer first     *)
(*      (it is sent the getheaders), the sync peer leaves for good before it    *)
(*      answered; the other follower's announcement reaches the client before   *)
(*      resp. after that departure.  Realised with the node of the sync peer    *)
(*      shut down (no redial succeeds).                                         *)
(***************************************************************************)
EXTENDS Client

VARIABLE shape

HonestTipH == br[hb].tip
Behind == hdrh < HonestTipH
HonestUpBesides(q) == \E p \in Peers \ {q} : kind[p] = "honest" /\ ps[p] = "up"
Higher(p) == \A h \in Peers : kind[h] = "honest" => PTip(p) > PTip(h)
\* a connected peer other than q that follows the honest chain (and announces its blocks)
Follower(q) == \E p \in Peers \ {q} : pv[p] = 0 /\ ps[p] = "up" /\ HdrServer(kind[p])
\* the client's header tip is the honest tip
OnHonestTip == hdrh = HonestTipH /\ hdrb = OwnerAt(br, hb, hdrh)

ShapeStep ==
  LET a == act' IN
     (IF a.op = "Drop" /\ sp # 0 /\ a.p # sp /\ Behind /\ HdrServer(kind[a.p])
      THEN {"otherleft"} \cup (IF Higher(a.p) THEN {"higherleft"} ELSE {}) ELSE {})
  \cup (IF a.op = "Drop" /\ a.p = sp /\ Behind /\ "otherleft" \in shape /\ HonestUpBesides(a.p)
      THEN {"SyncPeerLostAfterOtherLeft"} ELSE {})
  \cup (IF a.op = "Drop" /\ a.p = sp /\ Behind /\ "higherleft" \in shape /\ HonestUpBesides(a.p)
      THEN {"SyncPeerLostAfterHigherLeft"} ELSE {})
  \cup (IF a.op = "Drop" /\ a.p = sp /\ Behind /\ "higherleft" \in shape /\ kind[a.p] = "honest"
      THEN {"HonestBlipAfterHigherLeft"} ELSE {})
  \cup (IF a.op = "SyncHdr" /\ flt > 0 /\ flt < hdrh /\ flt' < flt
      THEN {"ReorgWhileFiltersLag"} ELSE {})
  \* (the filter-header query that follows a header sync goes to the peers connected at that time)
  \cup (IF a.op = "SyncHdr" /\ abs.fhs = 1 /\ \E q \in Peers : ps[q] = "up" /\ kind[q] = "cfhlie"
      THEN {"liarpresent"} ELSE {})
  \cup (IF a.op \in {"SyncFlt", "FltEnd"} /\ abs.fhs = 1 /\ HonestUp /\ flt' > flt /\ "liarpresent" \in shape
           /\ \E q \in Peers : ps[q] = "up" /\ kind[q] = "cfhlie" /\ HasHdr(q) /\ lk[q] > flt /\ lk[q] <= flt'
      THEN {"DisputeWithHonest"} ELSE {})
  \cup (IF a.op = "Up" /\ kind[a.p] = "honest" /\ sp # 0 /\ Cur /\ PTip(a.p) > hdrh /\ flt < hdrh
           /\ pv[sp] # 0 /\ ~CFServer(kind[sp]) /\ br[pv[sp]].bad = 0
      THEN {"HigherConnectsAfterShorterSynced"} ELSE {})
  \cup (IF a.op = "FltBegin" /\ long = 1 /\ hdrh = HonestTipH /\ hdrb = OwnerAt(br, hb, hdrh) /\ hdrh % CPI = 0
      THEN {"FilterSyncAtCheckpointTip"} ELSE {})
  \cup (IF a.op = "SyncHdr" /\ hdrh' > hdrh + 0 /\ hdrh > 0
           /\ ForkH(hdrb, hdrh, hdrb', hdrh') < hdrh /\ br[hdrb'].par # 0 /\ pv[a.p] = 0
      THEN {"ReorgTakenOverWhileBehind"} ELSE {})
  \cup (IF a.op = "Extend" /\ sp = 0 /\ hdrh > 0 /\ \E p \in Peers : kind[p] = "honest" /\ ps[p] = "down"
      THEN {"ExtendWhileSyncPeerGone"} ELSE {})
  \* --- NonFullNodeBecomesSyncPeerThenLeaves
  \cup (IF a.op = "SyncHdr" /\ kind[a.p] = "nonet" /\ sp # a.p /\ sp' = a.p /\ hdrh > 0 /\ Cur
           /\ ForkH(hdrb, hdrh, hdrb', hdrh') < hdrh /\ hdrh' = HonestTipH
      THEN {"nonfullsync"} ELSE {})
  \cup (IF a.op = "Drop" /\ a.p = sp /\ kind[a.p] = "nonet" /\ "nonfullsync" \in shape /\ ~("nonfullleft" \in shape)
           /\ hdrh = HonestTipH /\ ~Follower(a.p)
      THEN {"nonfullleft"} ELSE {})
  \cup (IF a.op = "Extend" /\ "nonfullleft" \in shape /\ ~Follower(0) /\ \A p \in Peers : kind[p] = "nonet" => ps[p] # "up"
      THEN {"grewunseen"} ELSE {})
  \cup (IF a.op = "Up" /\ kind[a.p] = "honest" /\ "grewunseen" \in shape /\ PTip(a.p) > hdrh
           /\ hdrb = OwnerAt(br, hb, hdrh) /\ ~Follower(a.p) /\ \A p \in Peers : kind[p] = "nonet" => ps[p] # "up"
      THEN {"NonFullNodeBecomesSyncPeerThenLeaves"} ELSE {})
  \* --- ReorgAnnouncedByInvBeyondOneHeadersMessage
  \cup (IF a.op = "Reorg" /\ long = 1 /\ OnHonestTip /\ flt = hdrh /\ sp # 0 /\ kind[sp] = "honest" /\ ps[sp] = "up"
      THEN {"invreorg"} ELSE {})
  \cup (IF a.op = "SyncHdr" /\ kind[a.p] = "honest" /\ "invreorg" \in shape /\ ~("invext" \in shape)
           /\ ForkH(hdrb, hdrh, hdrb', hdrh') < hdrh /\ hdrh' = HonestTipH
      THEN {"invreorgtaken"} ELSE {})
  \cup (IF a.op = "Extend" /\ "invreorgtaken" \in shape /\ OnHonestTip /\ sp # 0 /\ kind[sp] = "honest" /\ ps[sp] = "up"
      THEN {"invext"} ELSE {})
  \cup (IF a.op = "SyncHdr" /\ kind[a.p] = "honest" /\ "invext" \in shape /\ hdrh' = HonestTipH /\ hdrh' > hdrh
      THEN {"ReorgAnnouncedByInvBeyondOneHeadersMessage"} ELSE {})
  \* --- handshake failures of the honest (persistent) peer
  \cup (IF a.op = "HsFail" /\ a.p = 1 /\ kind[1] = "honest"
      THEN (IF a.n = 1 THEN {"hs1"} ELSE IF a.n = 2 THEN {"hs2"} ELSE IF a.n = 3 THEN {"hs3"} ELSE {"hs4"})
           \cup (IF ps[1] = "down" /\ hdrh > 0 /\ a.n \in {2, 3} THEN {"redialcut"} ELSE {})
      ELSE {})
  \cup (IF a.op = "Reconnect" /\ a.p = 1 /\ {"hs1", "hs2", "hs3", "hs4"} \subseteq shape
      THEN {"HonestHandshakeFailsAtEveryStage"} ELSE {})
  \cup (IF a.op = "Reconnect" /\ a.p = 1 /\ "redialcut" \in shape
      THEN {"HonestRedialCutInHandshake"} ELSE {})
  \* --- RequestLostWithSyncPeer...
  \cup (IF a.op = "Extend" /\ a.p # 0 /\ a.p = sp /\ a.p # 1 /\ kind[1] = "honest" /\ ps[1] = "up" /\ pv[a.p] = 0
           /\ OnHonestTip /\ flt = hdrh /\ req' = a.p /\ 1 \in pend'
      THEN {"askedsync"} ELSE {})
  \cup (IF a.op = "Inv" /\ a.p = 1 /\ "askedsync" \in shape /\ sp # 0 /\ req = sp /\ sp \in ask /\ ps[sp] = "up"
      THEN {"otherannounced"} ELSE {})
  \cup (IF a.op = "Drop" /\ a.p = sp /\ a.p # 1 /\ req = a.p /\ a.p \in ask /\ ~OnHonestTip /\ ps[1] = "up"
           /\ "askedsync" \in shape
      THEN (IF 1 \in pend THEN {"reqlostearly"}
            ELSE IF "otherannounced" \in shape THEN {"RequestLostWithSyncPeerAfterOtherAnnounced"} ELSE {})
      ELSE {})
  \cup (IF a.op = "Inv" /\ a.p = 1 /\ "reqlostearly" \in shape /\ ~OnHonestTip /\ ps[1] = "up"
      THEN {"RequestLostWithSyncPeerBeforeOtherAnnounced"} ELSE {})

SInit == Init /\ shape = {}
SNext == Next /\ shape' = shape \cup ShapeStep
SView == <<View, shape>>
=============================================================================
