-------------------------- MODULE BatchWriterProps --------------------------
(***************************************************************************)
(* What the client relies on when it hands verified compact filters to     *)
(* chanutils.BatchWriter (query.go:537 AddItem; neutrino.go:1715 Start,    *)
(* :1772 Stop), stated over OBSERVABLES only: the calls of AddItem, what   *)
(* PutItems is called with, whether Stop returned.  Only what properties   *)
(* C05 ("... never ... persisted" needs: nothing reaches PutItems that was *)
(* not added) and C17 ("Stop always completes") support.                   *)
(*                                                                         *)
(* The caller adds the items 1, 2, 3, ... in this order.                   *)
(*                                                                         *)
(*   act = [op, a, t, s, d]                                                *)
(*     op = "Step": the parties named act together, then the writer runs   *)
(*          until nothing moves; "Env" / "Q..." / "W..." / "Stop...":      *)
(*          single actions of the fine-grained model                       *)
(*     a  = "Add" | "none"      one AddItem(next item)                     *)
(*     t  = "Tick" | "none"     the clock advances by one ticker period    *)
(*     s  = "Start" | "Stop" | "none"                                      *)
(*     d  = "Fail" | "Heal" | "none"   PutItems starts / stops failing     *)
(*   obs = [maxb, qb, started, nadd, pend, put, oks, stop, failing, nq,    *)
(*          settled]                                                       *)
(*     nadd     AddItem calls begun (items 1..nadd)                        *)
(*     pend     the item of an AddItem call that has not returned (0 none) *)
(*     put      the batches PutItems was called with, in call order        *)
(*     oks      per call 1 = it returned nil, 0 = it returned an error     *)
(*     stop     0 Stop() not called, 1 called and not returned, 2 returned *)
(*     nq       items inside the writer's queue (bookkeeping, drift only)  *)
(*     settled  1: every goroutine is blocked (exact under synctest)       *)
(***************************************************************************)
EXTENDS Integers, Sequences

AbsInit == [x |-> 0]
AbsNext(abs, act, obs2) == abs

RECURSIVE Flat(_)
Flat(bs) == IF bs = <<>> THEN <<>> ELSE Head(bs) \o Flat(Tail(bs))

Accepted(o) == o.nadd - (IF o.pend # 0 THEN 1 ELSE 0)
InSeq(x, s) == \E i \in 1..Len(s) : s[i] = x

Viol(abs, obs, act, abs2, obs2) ==
  LET f == Flat(obs2.put) IN
  \* Every item handed to PutItems was added before, at most once and in order: nothing invented,
  \* nothing duplicated.
  (IF \E i \in 1..Len(f) : f[i] < 1 \/ f[i] > obs2.nadd \/ (i > 1 /\ f[i - 1] >= f[i])
   THEN {"PutOnlyAddedOnceInOrder"} ELSE {})
  \cup
  \* Stop returns, whatever the timing.
  (IF obs2.settled = 1 /\ obs2.stop = 1
   THEN {"StopReturns"} ELSE {})
  \cup
  \* ... with a final flush of what was pending: what had been accepted (AddItem returned) and taken
  \* up by the running writer before Stop was called has been handed to PutItems when Stop returns.
  (IF act.s = "Stop" /\ obs.settled = 1 /\ obs.started = 1 /\ obs2.stop = 2
      /\ \E i \in 1..Accepted(obs) : ~InSeq(i, f)
   THEN {"FinalFlush"} ELSE {})

EndViol(abs, obs) == {}
=============================================================================
