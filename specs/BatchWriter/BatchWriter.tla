----------------------------- MODULE BatchWriter -----------------------------
(***************************************************************************)
(* chanutils.BatchWriter (chanutils/batch_writer.go): AddItem pushes into  *)
(* a chanutils.ConcurrentQueue; the goroutine manageNewItems collects what *)
(* comes out of the queue into `batch` and hands it to cfg.PutItems when   *)
(* the batch is full, when the ticker fires, and once more when Stop       *)
(* closes quit.                                                            *)
(*                                                                         *)
(* The queue is specified arm by arm in specs/ConcQueue; here it appears   *)
(* as what that specification shows it to be - an unbounded FIFO (q = its  *)
(* output buffer followed by its overflow list) whose goroutine accepts a  *)
(* pending send (QAccept) until its own quit is closed (QQuit).            *)
(*                                                                         *)
(* ONE ACTION PER ARM of manageNewItems' select (batch_writer.go):         *)
(*   WTake   :115 `<-queue.ChanOut()`: append; :125 batch full ->          *)
(*           ticker.Stop, writeBatch; :133 otherwise ticker.Reset          *)
(*   WTick   :136 `<-ticker.C`: ticker.Stop, writeBatch                    *)
(*   WQuit   :143 `<-quit`: writeBatch, return                             *)
(* writeBatch (:91-104) calls PutItems when the batch is not empty, logs   *)
(* an error and EMPTIES THE BATCH either way.                              *)
(* Stop (:63-70) is three steps: close(quit) / wg.Wait() for the writer    *)
(* (StopWaitWriter) / queue.Stop() (close of the queue's quit, wait for    *)
(* its goroutine: StopWaitQueue).                                          *)
(* The ticker: `armed` = it runs (Reset :133 after a take that does not    *)
(* fill the batch), `due` = a tick is waiting in ticker.C.  The clock only *)
(* moves when the environment says Tick (one full period).                 *)
(***************************************************************************)
EXTENDS BatchWriterProps, FiniteSets, TLC, Json

CONSTANTS Cfgs,         \* pairs <<cfg.MaxBatch, cfg.QueueBufferSize>> explored (the buffer size has no influence
                        \* on this model; it is handed to the real object)
          MaxAdd,       \* AddItem calls per history
          MaxTicks,     \* Tick commands per history
          MaxToggles    \* Fail / Heal commands per history

VARIABLES maxb, qb, qgor, wgor, pend, nadd, q, batch, armed, due, put, oks, failing,
          quitc, qquitc, stop, nticks, ntog, abs, act, viol

ArmEnabled ==
  \/ qgor = "loop" /\ (pend # 0 \/ qquitc = 1)
  \/ wgor = "loop" /\ (q # <<>> \/ due = 1 \/ quitc = 1)
  \/ stop = 1 /\ wgor \in {"new", "quit"}
  \/ stop = 2 /\ qgor \in {"new", "quit"}

Obs ==
  [maxb |-> maxb, qb |-> qb, started |-> IF wgor = "new" THEN 0 ELSE 1, nadd |-> nadd, pend |-> pend,
   put |-> put, oks |-> oks, stop |-> IF stop = 0 THEN 0 ELSE IF stop = 3 THEN 2 ELSE 1,
   failing |-> failing, nq |-> Len(q), settled |-> IF ArmEnabled THEN 0 ELSE 1]

A(op, a, t, s, d) == [op |-> op, a |-> a, t |-> t, s |-> s, d |-> d]
N == "none"

Fin(a) ==
  /\ UNCHANGED <<maxb, qb>>
  /\ act' = a
  /\ abs' = AbsNext(abs, a, Obs')
  /\ viol' = Viol(abs, Obs, a, abs', Obs')

\* writeBatch :91-104
WriteBatch(b) ==
  IF b = <<>> THEN UNCHANGED <<put, oks>>
  ELSE /\ put' = Append(put, b) /\ oks' = Append(oks, 1 - failing)

\* ---- the environment ---------------------------------------------------------
Start ==                                            \* :53-60
  /\ wgor = "new" /\ stop = 0
  /\ qgor' = "loop" /\ wgor' = "loop"
  /\ UNCHANGED <<pend, nadd, q, batch, armed, due, put, oks, failing, quitc, qquitc, stop, nticks, ntog>>
  /\ Fin(A("Env", N, N, "Start", N))

Add ==                                              \* :73-75 `queue.ChanIn() <- item`
  /\ pend = 0 /\ nadd < MaxAdd
  /\ pend' = nadd + 1 /\ nadd' = nadd + 1
  /\ UNCHANGED <<qgor, wgor, q, batch, armed, due, put, oks, failing, quitc, qquitc, stop, nticks, ntog>>
  /\ Fin(A("Env", "Add", N, N, N))

Tick ==                                             \* the clock advances by DBWritesTickerDuration
  /\ nticks < MaxTicks
  /\ nticks' = nticks + 1
  /\ due' = IF armed = 1 THEN 1 ELSE due
  /\ UNCHANGED <<qgor, wgor, pend, nadd, q, batch, armed, put, oks, failing, quitc, qquitc, stop, ntog>>
  /\ Fin(A("Env", N, "Tick", N, N))

Toggle ==                                           \* PutItems starts / stops returning an error
  /\ ntog < MaxToggles
  /\ ntog' = ntog + 1 /\ failing' = 1 - failing
  /\ UNCHANGED <<qgor, wgor, pend, nadd, q, batch, armed, due, put, oks, quitc, qquitc, stop, nticks>>
  /\ Fin(A("Env", N, N, N, IF failing = 0 THEN "Fail" ELSE "Heal"))

Stop ==                                             \* :65 close(b.quit)
  /\ stop = 0
  /\ stop' = 1 /\ quitc' = 1
  /\ UNCHANGED <<qgor, wgor, pend, nadd, q, batch, armed, due, put, oks, failing, qquitc, nticks, ntog>>
  /\ Fin(A("Env", N, N, "Stop", N))

\* ---- the queue's goroutine ------------------------------------------------------
QAccept ==
  /\ qgor = "loop" /\ pend # 0
  /\ q' = Append(q, pend) /\ pend' = 0
  /\ UNCHANGED <<qgor, wgor, nadd, batch, armed, due, put, oks, failing, quitc, qquitc, stop, nticks, ntog>>
  /\ Fin(A("QAccept", N, N, N, N))

QQuit ==
  /\ qgor = "loop" /\ qquitc = 1
  /\ qgor' = "quit"
  /\ UNCHANGED <<wgor, pend, nadd, q, batch, armed, due, put, oks, failing, quitc, qquitc, stop, nticks, ntog>>
  /\ Fin(A("QQuit", N, N, N, N))

\* ---- manageNewItems: one action per select arm -------------------------------------
WTake ==
  /\ wgor = "loop" /\ q # <<>>
  /\ q' = Tail(q)
  /\ LET b2 == Append(batch, Head(q)) IN
     IF Len(b2) = maxb
     THEN /\ WriteBatch(b2) /\ batch' = <<>> /\ armed' = 0 /\ due' = 0       \* :125-127
     ELSE /\ batch' = b2 /\ armed' = 1 /\ due' = 0 /\ UNCHANGED <<put, oks>>  \* :133 Reset restarts the period
  /\ UNCHANGED <<qgor, wgor, pend, nadd, failing, quitc, qquitc, stop, nticks, ntog>>
  /\ Fin(A("WTake", N, N, N, N))

WTick ==
  /\ wgor = "loop" /\ due = 1
  /\ armed' = 0 /\ due' = 0                                                  \* :140 ticker.Stop
  /\ WriteBatch(batch) /\ batch' = <<>>                                      \* :141
  /\ UNCHANGED <<qgor, wgor, pend, nadd, q, failing, quitc, qquitc, stop, nticks, ntog>>
  /\ Fin(A("WTick", N, N, N, N))

WQuit ==
  /\ wgor = "loop" /\ quitc = 1
  /\ WriteBatch(batch) /\ batch' = <<>>                                      \* :144
  /\ wgor' = "quit" /\ armed' = 0 /\ due' = 0                                \* :107 deferred ticker.Stop
  /\ UNCHANGED <<qgor, pend, nadd, q, failing, quitc, qquitc, stop, nticks, ntog>>
  /\ Fin(A("WQuit", N, N, N, N))

\* ---- Stop's remaining steps ----------------------------------------------------------
StopWaitWriter ==                                   \* :66 wg.Wait() returned, :68 queue.Stop() closes the queue's quit
  /\ stop = 1 /\ wgor \in {"new", "quit"}
  /\ stop' = 2 /\ qquitc' = 1
  /\ UNCHANGED <<qgor, wgor, pend, nadd, q, batch, armed, due, put, oks, failing, quitc, nticks, ntog>>
  /\ Fin(A("StopWaitWriter", N, N, N, N))

StopWaitQueue ==                                    \* queue.go:141 wg.Wait() returned: Stop returns
  /\ stop = 2 /\ qgor \in {"new", "quit"}
  /\ stop' = 3
  /\ UNCHANGED <<qgor, wgor, pend, nadd, q, batch, armed, due, put, oks, failing, quitc, qquitc, nticks, ntog>>
  /\ Fin(A("StopWaitQueue", N, N, N, N))

Init ==
  /\ \E c \in Cfgs : maxb = c[1] /\ qb = c[2]
  /\ qgor = "new" /\ wgor = "new" /\ pend = 0 /\ nadd = 0 /\ q = <<>> /\ batch = <<>>
  /\ armed = 0 /\ due = 0 /\ put = <<>> /\ oks = <<>> /\ failing = 0
  /\ quitc = 0 /\ qquitc = 0 /\ stop = 0 /\ nticks = 0 /\ ntog = 0
  /\ abs = AbsInit
  /\ act = A("Init", N, N, N, N)
  /\ viol = {}

Env  == Start \/ Add \/ Tick \/ Toggle \/ Stop
Arms == QAccept \/ QQuit \/ WTake \/ WTick \/ WQuit \/ StopWaitWriter \/ StopWaitQueue
Next == Env \/ Arms

vars == <<maxb, qb, qgor, wgor, pend, nadd, q, batch, armed, due, put, oks, failing,
          quitc, qquitc, stop, nticks, ntog, abs, act, viol>>
Spec == Init /\ [][Next]_vars

State == [maxb |-> maxb, qb |-> qb, qgor |-> qgor, wgor |-> wgor, pend |-> pend, nadd |-> nadd, q |-> q,
          batch |-> batch, armed |-> armed, due |-> due, put |-> put, oks |-> oks, failing |-> failing,
          quitc |-> quitc, qquitc |-> qquitc, stop |-> stop, nticks |-> nticks, ntog |-> ntog]
View  == <<maxb, qb, qgor, wgor, pend, nadd, q, batch, armed, due, put, oks, failing,
           quitc, qquitc, stop, nticks, ntog, abs>>

TypeOK ==
  /\ maxb \in {c[1] : c \in Cfgs} /\ qgor \in {"new", "loop", "quit"} /\ wgor \in {"new", "loop", "quit"}
  /\ pend \in 0..MaxAdd /\ nadd \in 0..MaxAdd /\ Len(batch) < maxb
  /\ armed \in 0..1 /\ due \in 0..1 /\ failing \in 0..1 /\ stop \in 0..3

SettledIsExact == ArmEnabled <=> ENABLED Arms
NoViolation == viol = {}

\* Nothing is lost or reordered on the way: put, batch, queue and the pending item are 1..nadd.
Conservation ==
  Flat(put) \o batch \o q \o (IF pend # 0 THEN <<pend>> ELSE <<>>) = [i \in 1..nadd |-> i]

\* The final flush, stated on the model's own bookkeeping: once Stop has returned the batch is empty.
StoppedBatchEmpty == stop = 3 => batch = <<>>

\* The ticker runs exactly while a partial batch is waiting.
TickerIffPartialBatch == wgor = "loop" => ((armed = 1) <=> (batch # <<>>))
=============================================================================
