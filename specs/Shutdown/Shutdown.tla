------------------------------- MODULE Shutdown -------------------------------
(***************************************************************************)
(* Composite model of a running neutrino ChainService reduced to the       *)
(* BLOCKING POINTS of its goroutines: what each one waits for and which    *)
(* quit channel(s) that wait also selects on, plus ChainService.Stop as    *)
(* the code's exact sequence of steps, each waiting for what the code      *)
(* waits for (neutrino.go Stop).  Used for property C17.                   *)
(*                                                                         *)
(* Quit channels (set q of the closed ones):                               *)
(*   B  Broadcaster.quit        U  UtxoScanner.quit   W  peerWorkManager.quit*)
(*   M  SubscriptionManager.quit  BM blockManager.quit  BW BatchWriter.quit *)
(*   S  ChainService.quit                                                  *)
(*                                                                         *)
(* Goroutines (record g of program counters):                              *)
(*   sp    ChainService.Stop itself                                        *)
(*   disp  query.peerWorkManager.workDispatcher                            *)
(*   wk    the query.worker of the one connected peer ("none": no peer)    *)
(*   bmg   UtxoScanner.batchManager                                        *)
(*   bch   pushtx.Broadcaster.broadcastHandler    rb  its rebroadcast      *)
(*   subh  blockntfns.SubscriptionManager.subscriptionHandler              *)
(*   blkh  blockManager.blockHandler     cfh  blockManager.cfHandler       *)
(*   tick  the 50 ms cond-var broadcaster started by blockManager.Stop     *)
(*   bw    chanutils.BatchWriter.manageNewItems                            *)
(*   ph    ChainService.peerHandler                                        *)
(*   dial  the permanent-peer connect goroutine (ChainService.wg)          *)
(* plus one forwarder goroutine per block subscription (sb.fwd) and the    *)
(* CALLERS (cs): GetBlock, GetCFilter, GetUtxo, a rescan goroutine,        *)
(* SendTransaction, a reader of a block subscription; "sync" is the        *)
(* condition that headers keep arriving; "update" is a Rescan.Update call  *)
(* blocked on the hand-over to its (busy) rescan goroutine.                *)
(*                                                                         *)
(* The work manager is a mailbox per batch owner: gb/cf callers, ux the    *)
(* utxo batchManager (block or filter fetch), rs the rescan, ch the        *)
(* cfHandler's checkpointed cfheaders batch (cancel = BM, progress         *)
(* timeout), cg the cfHandler's GetBlock in detectBadPeers.                *)
(*                                                                         *)
(* Timers (query timeouts, retryTimeout, broadcast timeout, the 50 ms      *)
(* tickers, ProgressTimeout) are actions that are always allowed to fire.  *)
(* Fairness (LSpec): every arm of every select is weakly fair - a closed   *)
(* channel / fired timer that stays selectable is eventually selected.     *)
(* Begin and Stop are the environment: no fairness.                        *)
(*                                                                         *)
(* Code-version switches (the spec follows the code):                      *)
(*   FixSD1  ChainService.Stop stops the work manager BEFORE the utxo      *)
(*           scanner (defect 13: the scanner's block fetch only selects on *)
(*           a work-manager verdict or ChainService.quit)                  *)
(*   FixBR1  Broadcaster.MarkAsConfirmed also selects on the broadcaster's *)
(*           quit (defect 8)                                               *)
(***************************************************************************)
EXTENDS Integers, Sequences, FiniteSets, TLC, Json, ShutdownProps

CONSTANTS Pools,     \* peer pools to explore (subset of {P_EMPTY, P_SILENT, P_RESP})
          Kinds,     \* activities that may be begun
          MaxAct,    \* activities per behaviour
          Pairs,     \* which (unordered) pairs of kinds may be in flight together: set of sets
          LateBegin, \* may an activity begin after Stop was called
          Dialing,   \* may a permanent-peer dial be in progress
          FixSD1, FixBR1

VARIABLES pool, q, g, bat, err, tries, w, mtx, ux, bc, sb, acts, cs, misc,
          abs, act, viol

vars == <<pool, q, g, bat, err, tries, w, mtx, ux, bc, sb, acts, cs, misc, abs, act, viol>>

Owners   == {"gb", "cf", "ux", "rs", "ch", "cg"}
SubIds   == {"b", "u", "r"}
AllKinds == 1..8
MaxTries == 2      \* attempts per query before the batch fails
MaxRs    == 2      \* blocks a catching-up rescan walks

Closed(c) == c \in q

----------------------------------------------------------------------------
\* one call record per activity; the update activity has two callers: the
\* Update call and the reader of its rescan's error channel
CallRec(i) == [k |-> acts[i].k, m |-> acts[i].m, st |-> cs[acts[i].k].st]
UpdIx == {i \in 1..Len(acts) : acts[i].k = K_UPDATE}       \* at most one
Calls ==
  IF UpdIx = {} THEN [i \in 1..Len(acts) |-> CallRec(i)]
  ELSE LET j == CHOOSE i \in UpdIx : TRUE IN
       [i \in 1..(Len(acts) + 1) |->
          IF i <= j THEN CallRec(i)
          ELSE IF i = j + 1 THEN [k |-> K_RESCAN, m |-> 1, st |-> cs[K_RESCAN].st]
          ELSE CallRec(i - 1)]

StopStatus == IF g.sp = "idle" THEN S_NOT ELSE IF g.sp = "done" THEN S_DONE ELSE S_RUN

Obs == [pool   |-> pool,
        dial   |-> misc.dial,
        never  |-> misc.never,
        stop   |-> StopStatus,
        calls  |-> Calls,
        reopen |-> misc.reopen]

\* where the goroutines are (what a goroutine dump of the real process shows)
At == [stop |-> g.sp, bm |-> g.bmg, disp |-> g.disp, bch |-> g.bch, subh |-> g.subh,
       blkh |-> g.blkh, cfh |-> g.cfh, rs |-> cs[K_RESCAN].pc]

NoAt == [stop |-> "", bm |-> "", disp |-> "", bch |-> "", subh |-> "", blkh |-> "", cfh |-> "", rs |-> ""]
A(op, k, m, cls, res) == [op |-> op, k |-> k, m |-> m, cls |-> cls, res |-> res,
                          at |-> IF op = "Stop" THEN At' ELSE NoAt]
I(op) == A(op, 0, 0, 0, "ok")

Finish(a) ==
  /\ act'  = a
  /\ abs'  = AbsNext(abs, a, Obs')
  /\ viol' = Viol(abs, Obs, a, abs', Obs')

G(f, v)  == [g EXCEPT ![f] = v]
G2(f1, v1, f2, v2) == [g EXCEPT ![f1] = v1, ![f2] = v2]

Pending(k) == cs[k].st = C_PENDING
Pc(k)      == cs[k].pc
SetPc(k, p)   == [cs EXCEPT ![k].pc = p]
Return(k, c)  == [cs EXCEPT ![k] = [st |-> c, pc |-> "ret"]]
SyncH      == cs[K_SYNC].pc = "hdr"      \* block headers keep arriving
SyncC      == cs[K_SYNC].pc = "cfh"      \* the cfHandler has filter headers to fetch

ClassOf(e) == CASE e = "shut"   -> C_SHUT
                [] e = "cancel" -> C_CANCEL
                [] OTHER        -> C_LEGIT      \* "ok" (a value) or "fail" (ordinary failure)

\* the cancel channel handed to the work manager for owner o is closed, or
\* the batch was removed (internal cancel channel closed)
Cancelled(o) == \/ o = "ch" /\ Closed("BM")
                \/ o # "ch" /\ Closed("S")
                \/ bat[o] # "job"

----------------------------------------------------------------------------
\*                              ENVIRONMENT
----------------------------------------------------------------------------
CanBegin(k) ==
  /\ k \in Kinds /\ cs[k].st = C_NONE /\ cs[k].pc = "off"
  /\ Len(acts) < MaxAct
  /\ \A i \in 1..Len(acts) : {acts[i].k, k} \in Pairs
  /\ g.sp = "idle" \/ LateBegin
  /\ misc.reopen = R_NOT

\* query.go:799 GetBlock up to workManager.Query :927
BeginGetBlock ==
  /\ CanBegin(K_GETBLOCK)
  /\ acts' = Append(acts, [k |-> K_GETBLOCK, m |-> 0])
  /\ cs' = [cs EXCEPT ![K_GETBLOCK] = [st |-> C_PENDING, pc |-> "wait"]]
  /\ bat' = [bat EXCEPT !["gb"] = "sub"]
  /\ UNCHANGED <<pool, q, g, err, tries, w, mtx, ux, bc, sb, misc>>
  /\ Finish(A("Begin", K_GETBLOCK, 0, 0, "ok"))

\* query.go:691 GetCFilter up to mtxCFilter.Lock :726
BeginGetCF ==
  /\ CanBegin(K_GETCF)
  /\ acts' = Append(acts, [k |-> K_GETCF, m |-> 0])
  /\ cs' = [cs EXCEPT ![K_GETCF] = [st |-> C_PENDING, pc |-> "lock"]]
  /\ UNCHANGED <<pool, q, g, bat, err, tries, w, mtx, ux, bc, sb, misc>>
  /\ Finish(A("Begin", K_GETCF, 0, 0, "ok"))

\* rescan.go:1558 GetUtxo: Enqueue utxoscanner.go:175 (ErrShuttingDown once U
\* is closed), then Result :62.  m = 0: the scan starts with a block fetch,
\* m = 1: with a filter fetch.
BeginGetUtxo(m) ==
  /\ CanBegin(K_GETUTXO)
  /\ acts' = Append(acts, [k |-> K_GETUTXO, m |-> m])
  /\ IF Closed("U")
     THEN /\ cs' = [cs EXCEPT ![K_GETUTXO] = [st |-> C_PENDING, pc |-> "fail"]]
          /\ UNCHANGED <<ux, g>>
     ELSE /\ cs' = [cs EXCEPT ![K_GETUTXO] = [st |-> C_PENDING, pc |-> "wait"]]
          /\ ux' = [ux EXCEPT !.pq = TRUE, !.mode = m]
          /\ g' = IF g.bmg = "cond" THEN G("bmg", "woken") ELSE g     \* cv.Signal :203
  /\ UNCHANGED <<pool, q, bat, err, tries, w, mtx, bc, sb, misc>>
  /\ Finish(A("Begin", K_GETUTXO, m, 0, "ok"))

\* rescan.go:1391 Rescan.Start.  m = 0: nothing to walk, it subscribes and
\* waits for blocks (waitForBlocks :798 / current :729); m = 1: it walks the
\* chain fetching filters and blocks.
BeginRescan(m) ==
  /\ CanBegin(K_RESCAN)
  /\ m = 1 => cs[K_SYNC].pc = "off"       \* (walk x mid-sync not explored: state space)
  /\ acts' = Append(acts, [k |-> K_RESCAN, m |-> m])
  /\ cs' = [cs EXCEPT ![K_RESCAN] = [st |-> C_PENDING, pc |-> IF m = 0 THEN "reg" ELSE "next"]]
  /\ UNCHANGED <<pool, q, g, bat, err, tries, w, mtx, ux, bc, sb, misc>>
  /\ Finish(A("Begin", K_RESCAN, m, 0, "ok"))

\* rescan.go:1442 Rescan.Start (a rescan that walks the chain, as BeginRescan(1))
\* and, while it runs, rescan.go:1521 Rescan.Update from a second goroutine:
\* select { r.updateChan <- uo | <-ro.quit | <-r.running } :1532.  The caller's
\* own quit channel (ro.quit) stays open.
BeginUpdate ==
  /\ CanBegin(K_UPDATE)
  /\ cs[K_RESCAN].st = C_NONE /\ cs[K_RESCAN].pc = "off"   \* the activity owns the rescan
  /\ cs[K_SYNC].pc = "off"                                 \* (walk x mid-sync not explored)
  /\ acts' = Append(acts, [k |-> K_UPDATE, m |-> 1])
  /\ cs' = [cs EXCEPT ![K_RESCAN] = [st |-> C_PENDING, pc |-> "next"],
                      ![K_UPDATE] = [st |-> C_PENDING, pc |-> "upd"]]
  /\ UNCHANGED <<pool, q, g, bat, err, tries, w, mtx, ux, bc, sb, misc>>
  /\ Finish(A("Begin", K_UPDATE, 1, 0, "ok"))

\* neutrino.go:1535 SendTransaction -> Broadcaster.Broadcast :297
BeginSendTx ==
  /\ CanBegin(K_SENDTX)
  /\ acts' = Append(acts, [k |-> K_SENDTX, m |-> 0])
  /\ cs' = [cs EXCEPT ![K_SENDTX] = [st |-> C_PENDING, pc |-> "send"]]
  /\ UNCHANGED <<pool, q, g, bat, err, tries, w, mtx, ux, bc, sb, misc>>
  /\ Finish(A("Begin", K_SENDTX, 0, 0, "ok"))

\* blockntfns/manager.go:198 NewSubscription: the forwarder goroutine :220
\* exists before the registration handshake
BeginSub ==
  /\ CanBegin(K_SUB)
  /\ acts' = Append(acts, [k |-> K_SUB, m |-> 0])
  /\ cs' = [cs EXCEPT ![K_SUB] = [st |-> C_PENDING, pc |-> "reg"]]
  /\ sb' = [sb EXCEPT !.fwd["u"] = "wait"]
  /\ UNCHANGED <<pool, q, g, bat, err, tries, w, mtx, ux, bc, misc>>
  /\ Finish(A("Begin", K_SUB, 0, 0, "ok"))

\* mid-sync (needs a peer).  m = 0: block headers keep arriving and are
\* connected (blockHandler busy, notifications flow); m = 1: the cfHandler is
\* fetching filter headers (checkpoint queries, batches, dispute resolution).
BeginSync(m) ==
  /\ CanBegin(K_SYNC) /\ pool # P_EMPTY /\ g.sp = "idle"
  /\ \A i \in 1..Len(acts) : ~(acts[i].k = K_RESCAN /\ acts[i].m = 1) /\ acts[i].k # K_UPDATE
  /\ acts' = Append(acts, [k |-> K_SYNC, m |-> m])
  /\ cs' = [cs EXCEPT ![K_SYNC] = [st |-> C_NONE, pc |-> IF m = 0 THEN "hdr" ELSE "cfh"]]
  /\ UNCHANGED <<pool, q, g, bat, err, tries, w, mtx, ux, bc, sb, misc>>
  /\ Finish(A("Begin", K_SYNC, m, 0, "ok"))

\* neutrino.go:1730
StopCall ==
  /\ g.sp = "idle"
  /\ g' = G("sp", "connmgr")
  /\ UNCHANGED <<pool, q, bat, err, tries, w, mtx, ux, bc, sb, acts, cs, misc>>
  /\ Finish(A("Stop", 0, 0, 0, "ok"))

\* the data directory is opened again after Stop returned
Reopen ==
  /\ g.sp = "done" /\ misc.reopen = R_NOT
  /\ \A k \in AllKinds : ~Pending(k)
  /\ misc' = [misc EXCEPT !.reopen = R_OK]
  /\ UNCHANGED <<pool, q, g, bat, err, tries, w, mtx, ux, bc, sb, acts, cs>>
  /\ Finish(A("Reopen", 0, 0, 0, "ok"))

----------------------------------------------------------------------------
\*                      ChainService.Stop  neutrino.go:1730-1772
----------------------------------------------------------------------------
Order == IF FixSD1
         THEN <<"connmgr", "bcast", "wm", "utxo", "sub", "bm", "addr", "bw", "close", "done">>
         ELSE <<"connmgr", "bcast", "utxo", "wm", "sub", "bm", "addr", "bw", "close", "done">>
After(s) == LET i == CHOOSE j \in 1..Len(Order) : Order[j] = s IN Order[i + 1]

\* entering a step = the part of the subsystem's Stop up to its wait
Enter(s) ==
  CASE s = "bcast" -> [sp |-> "bcast_wait", c |-> {"B"}]      \* pushtx/broadcaster.go:117
    [] s = "utxo"  -> [sp |-> "utxo_wait",  c |-> {"U"}]      \* utxoscanner.go:152
    [] s = "wm"    -> [sp |-> "wm_wait",    c |-> {"W"}]      \* query/workmanager.go:171
    [] s = "sub"   -> [sp |-> "sub_wait",   c |-> {"M"}]      \* blockntfns/manager.go:137
    [] s = "bm"    -> [sp |-> "bm_wait",    c |-> {"BM"}]     \* blockmanager.go:385 (+ ticker :368)
    [] s = "addr"  -> [sp |-> "addr",       c |-> {}]
    [] s = "bw"    -> [sp |-> "bw_wait",    c |-> {"BW"}]     \* chanutils/batch_writer.go:65
    [] s = "close" -> [sp |-> "wg_wait",    c |-> {"S"}]      \* neutrino.go:1769
    [] s = "done"  -> [sp |-> "done",       c |-> {}]

Goto(s) ==
  LET e == Enter(s) IN
  /\ q' = q \cup e.c
  /\ g' = IF s = "bm" THEN G2("sp", e.sp, "tick", "run") ELSE G("sp", e.sp)

StopStep ==
  /\ \/ /\ g.sp = "connmgr"                              \* connManager.Stop: no wait
        /\ Goto(After("connmgr")) /\ UNCHANGED <<ux, sb>>
     \/ /\ g.sp = "bcast_wait"                           \* b.wg.Wait :118
        /\ g.bch = "exited" /\ g.rb = "none"
        /\ Goto(After("bcast")) /\ UNCHANGED <<ux, sb>>
     \/ /\ g.sp = "utxo_wait"                            \* <-s.shutdown :157, then pop pq :166
        /\ g.bmg = "exited"
        /\ ux' = IF ux.pq THEN [ux EXCEPT !.pq = FALSE, !.res = "shut"] ELSE ux
        /\ Goto(After("utxo")) /\ UNCHANGED sb
     \/ /\ g.sp = "wm_wait"                              \* w.wg.Wait :172
        /\ g.disp = "exited" /\ g.wk \in {"none", "exited"}
        /\ Goto(After("wm")) /\ UNCHANGED <<ux, sb>>
     \/ /\ g.sp = "sub_wait"                             \* m.wg.Wait :138
        /\ g.subh = "exited"
        /\ g' = G("sp", "sub_cancel")
        /\ sb' = [sb EXCEPT !.squit = sb.subs]           \* s.cancel(): close(s.quit) :40
        /\ UNCHANGED <<q, ux>>
     \/ /\ g.sp = "sub_cancel"                           \* s.wg.Wait :41, close(ntfnChan) :42
        /\ \A s \in sb.subs : sb.fwd[s] = "exited"
        /\ sb' = [sb EXCEPT !.nch = [s \in SubIds |-> IF s \in sb.subs THEN "closed" ELSE sb.nch[s]]]
        /\ Goto(After("sub")) /\ UNCHANGED ux
     \/ /\ g.sp = "bm_wait"                              \* b.wg.Wait :386, close(done) :388
        /\ g.blkh = "exited" /\ g.cfh = "exited"
        /\ LET e == Enter(After("bm")) IN
           /\ q' = q \cup e.c
           /\ g' = G2("sp", e.sp, "tick", "exited")
        /\ UNCHANGED <<ux, sb>>
     \/ /\ g.sp = "addr"                                 \* addrManager.Stop
        /\ Goto(After("addr")) /\ UNCHANGED <<ux, sb>>
     \/ /\ g.sp = "bw_wait"                              \* b.wg.Wait batch_writer.go:66
        /\ g.bw = "exited"
        /\ Goto(After("bw")) /\ UNCHANGED <<ux, sb>>
  /\ UNCHANGED <<pool, bat, err, tries, w, mtx, bc, acts, cs, misc>>
  /\ Finish(I("StopStep"))

\* s.wg.Wait neutrino.go:1770 and return
StopRet ==
  /\ g.sp = "wg_wait"
  /\ g.ph = "exited" /\ g.dial # "dialing"
  /\ g' = G("sp", "done")
  /\ UNCHANGED <<pool, q, bat, err, tries, w, mtx, ux, bc, sb, acts, cs, misc>>
  /\ Finish(A("StopRet", 0, 0, 0, "ok"))

----------------------------------------------------------------------------
\*                work manager  query/workmanager.go, worker.go
----------------------------------------------------------------------------
WmFrame == UNCHANGED <<pool, q, mtx, ux, bc, sb, acts, cs, misc>>

\* Query() :687: newBatches <- batch | <-w.quit (errChan <- ErrWorkManagerShuttingDown)
DispAccept(o) ==
  /\ g.disp = "run" /\ bat[o] = "sub"
  /\ bat' = [bat EXCEPT ![o] = "queued"]
  /\ tries' = [tries EXCEPT ![o] = 0]
  /\ UNCHANGED <<g, err, w>> /\ WmFrame
  /\ Finish(I("DispAccept"))

QueryRefused(o) ==
  /\ Closed("W") /\ bat[o] = "sub"
  /\ bat' = [bat EXCEPT ![o] = "none"]
  /\ err' = [err EXCEPT ![o] = "shut"]
  /\ UNCHANGED <<g, tries, w>> /\ WmFrame
  /\ Finish(I("QueryRefused"))

\* :325 r.w.NewJob() <- next
DispGive(o) ==
  /\ g.disp = "run" /\ bat[o] = "queued" /\ g.wk = "idle"
  /\ bat' = [bat EXCEPT ![o] = "job"]
  /\ g' = G("wk", "job")
  /\ w' = [o |-> o, r |-> "none"]
  /\ UNCHANGED <<err, tries>> /\ WmFrame
  /\ Finish(I("DispGive"))

\* :413 result := <-w.jobResults
DispResult(giveup) ==
  /\ g.disp = "run" /\ g.wk = "res"
  /\ LET o == w.o
         r == w.r
     IN  /\ g' = G("wk", IF r = "disc" THEN "exited" ELSE "idle")
         /\ w' = [o |-> "none", r |-> "none"]
         /\ IF bat[o] # "job"
            THEN /\ ~giveup /\ UNCHANGED <<bat, err, tries>>         \* batch already canceled :432
            ELSE CASE r = "ok" ->
                        /\ ~giveup
                        /\ bat' = [bat EXCEPT ![o] = "none"]
                        /\ err' = [err EXCEPT ![o] = "ok"]             \* :569
                        /\ UNCHANGED tries
                   [] r = "cancel" ->
                        /\ ~giveup
                        /\ bat' = [bat EXCEPT ![o] = "none"]
                        /\ err' = [err EXCEPT ![o] = "cancel"]         \* :460
                        /\ UNCHANGED tries
                   [] OTHER ->                                          \* timeout / disconnect
                        IF giveup \/ tries[o] + 1 >= MaxTries
                        THEN /\ bat' = [bat EXCEPT ![o] = "none"]      \* max retries :500 / hard timeout :589
                             /\ err' = [err EXCEPT ![o] = "fail"]
                             /\ UNCHANGED tries
                        ELSE /\ bat' = [bat EXCEPT ![o] = "queued"]    \* :532
                             /\ tries' = [tries EXCEPT ![o] = tries[o] + 1]
                             /\ UNCHANGED err
  /\ WmFrame
  /\ Finish(I("DispResult"))

\* :385 progress (idle) timer of the cfheaders batch
DispWake ==
  /\ g.disp = "run" /\ bat["ch"] \in {"queued", "job"}
  /\ bat' = [bat EXCEPT !["ch"] = "none"]
  /\ err' = [err EXCEPT !["ch"] = "fail"]
  /\ UNCHANGED <<g, tries, w>> /\ WmFrame
  /\ Finish(I("DispWake"))

\* :669 <-w.quit, deferred :281 errChan <- ErrWorkManagerShuttingDown for every current batch
DispQuit ==
  /\ g.disp = "run" /\ Closed("W")
  /\ g' = G("disp", "exited")
  /\ bat' = [o \in Owners |-> IF bat[o] \in {"queued", "job"} THEN "none" ELSE bat[o]]
  /\ err' = [o \in Owners |-> IF bat[o] \in {"queued", "job"} THEN "shut" ELSE err[o]]
  /\ UNCHANGED <<tries, w>> /\ WmFrame
  /\ Finish(I("DispQuit"))

\* worker.go Run :157 Loop
WorkerEnd(r) ==
  /\ g.wk = "job"
  /\ CASE r = "ok"      -> pool = P_RESP /\ ~misc.pdisc /\ ~Cancelled(w.o)      \* :163 answered
       [] r = "timeout" -> pool = P_SILENT /\ ~misc.pdisc /\ ~Cancelled(w.o)    \* :199
       [] r = "disc"    -> misc.pdisc                                           \* :211
       [] r = "cancel"  -> Cancelled(w.o)                                       \* :221 :228
  /\ g' = G("wk", "res")
  /\ w' = [w EXCEPT !.r = r]
  /\ UNCHANGED <<bat, err, tries>> /\ WmFrame
  /\ Finish(I("WorkerEnd"))

\* :116 :235 :251 <-quit; :111 peer disconnected while idle
WorkerQuit ==
  /\ \/ g.wk \in {"idle", "job", "res"} /\ Closed("W")
     \/ g.wk = "idle" /\ misc.pdisc
  /\ g' = G("wk", "exited")
  /\ UNCHANGED <<bat, err, tries, w>> /\ WmFrame
  /\ Finish(I("WorkerQuit"))

----------------------------------------------------------------------------
\*                        callers of GetBlock / GetCFilter
----------------------------------------------------------------------------
\* query.go:928 select { err := <-errChan | <-s.quit }
GetBlockRet ==
  /\ Pending(K_GETBLOCK) /\ Pc(K_GETBLOCK) = "wait"
  /\ \/ /\ err["gb"] # "none"
        /\ cs' = Return(K_GETBLOCK, ClassOf(err["gb"]))
        /\ err' = [err EXCEPT !["gb"] = "none"]
        /\ UNCHANGED bat
     \/ /\ Closed("S") /\ err["gb"] = "none"
        /\ cs' = Return(K_GETBLOCK, C_SHUT)
        /\ UNCHANGED <<err, bat>>
     \/ /\ bat["gb"] = "sub" /\ err["gb"] = "none"       \* :805-831 unknown header / cache hit: no query
        /\ cs' = Return(K_GETBLOCK, C_LEGIT)
        /\ bat' = [bat EXCEPT !["gb"] = "none"]
        /\ UNCHANGED err
  /\ UNCHANGED <<pool, q, g, tries, w, mtx, ux, bc, sb, acts, misc>>
  /\ Finish(A("Ret", K_GETBLOCK, 0, cs'[K_GETBLOCK].st, "ok"))

\* query.go:726 s.mtxCFilter.Lock() - not selectable
GetCFLock ==
  /\ Pending(K_GETCF) /\ Pc(K_GETCF) = "lock" /\ mtx = "free"
  /\ mtx' = "cf"
  /\ cs' = SetPc(K_GETCF, "wait")
  /\ bat' = [bat EXCEPT !["cf"] = "sub"]
  /\ UNCHANGED <<pool, q, g, err, tries, w, ux, bc, sb, acts, misc>>
  /\ Finish(I("GetCFLock"))

\* query.go:707-722 served from the cache / the database: no lock, no query
GetCFHit ==
  /\ Pending(K_GETCF) /\ Pc(K_GETCF) = "lock"
  /\ cs' = Return(K_GETCF, C_LEGIT)
  /\ UNCHANGED <<pool, q, g, bat, err, tries, w, mtx, ux, bc, sb, acts, misc>>
  /\ Finish(A("Ret", K_GETCF, 0, C_LEGIT, "ok"))

\* query.go:768 select { errChan | s.quit }; the deferred mtxCFilter.Unlock runs
\* before the caller has the result in hand
RetPc(c) == CASE c = C_SHUT -> "ret_s" [] c = C_CANCEL -> "ret_c" [] OTHER -> "ret_l"
PcClass(p) == CASE p = "ret_s" -> C_SHUT [] p = "ret_c" -> C_CANCEL [] OTHER -> C_LEGIT

GetCFGot ==
  /\ Pending(K_GETCF) /\ Pc(K_GETCF) = "wait"
  /\ \/ /\ err["cf"] # "none"
        /\ cs' = SetPc(K_GETCF, RetPc(ClassOf(err["cf"])))
        /\ err' = [err EXCEPT !["cf"] = "none"]
     \/ /\ Closed("S") /\ err["cf"] = "none"
        /\ cs' = SetPc(K_GETCF, "ret_s")
        /\ UNCHANGED err
  /\ mtx' = "free"
  /\ UNCHANGED <<pool, q, g, bat, tries, w, ux, bc, sb, acts, misc>>
  /\ Finish(I("GetCFGot"))

GetCFRet ==
  /\ Pending(K_GETCF) /\ Pc(K_GETCF) \in {"ret_s", "ret_c", "ret_l"}
  /\ cs' = Return(K_GETCF, PcClass(Pc(K_GETCF)))
  /\ UNCHANGED <<pool, q, g, bat, err, tries, w, mtx, ux, bc, sb, acts, misc>>
  /\ Finish(A("Ret", K_GETCF, 0, cs'[K_GETCF].st, "ok"))

----------------------------------------------------------------------------
\*                     utxo scanner  utxoscanner.go
----------------------------------------------------------------------------
UxFrame == UNCHANGED <<pool, q, tries, w, bc, sb, acts, misc>>

\* Result :62 select { resultChan | cancel | r.quit }
GetUtxoRet ==
  /\ Pending(K_GETUTXO)
  /\ \/ /\ Pc(K_GETUTXO) = "fail"
        /\ cs' = Return(K_GETUTXO, C_SHUT)
     \/ /\ Pc(K_GETUTXO) = "wait" /\ ux.res # "none"
        /\ cs' = Return(K_GETUTXO, ClassOf(ux.res))
     \/ /\ Pc(K_GETUTXO) = "wait" /\ Closed("U")
        /\ cs' = Return(K_GETUTXO, C_SHUT)
  /\ UNCHANGED <<g, bat, err, mtx, ux>> /\ UxFrame
  /\ Finish(A("Ret", K_GETUTXO, 0, cs'[K_GETUTXO].st, "ok"))

\* UtxoScanner.Stop's time.After(50ms): s.cv.Signal() :160
BmSignal ==
  /\ g.sp = "utxo_wait" /\ g.bmg = "cond"
  /\ g' = G("bmg", "woken")
  /\ UNCHANGED <<bat, err, mtx, ux, cs>> /\ UxFrame
  /\ Finish(I("BmSignal"))

\* cv.Wait returned :226-237
BmWake ==
  /\ g.bmg = "woken"
  /\ g' = G("bmg", IF Closed("U") THEN "exited" ELSE IF ux.pq THEN "top" ELSE "cond")
  /\ UNCHANGED <<bat, err, mtx, ux, cs>> /\ UxFrame
  /\ Finish(I("BmWake"))

\* :236-249 Peek, quit check, scanFromHeight up to the first fetch
BmTop ==
  /\ g.bmg = "top"
  /\ IF Closed("U")
     THEN g' = G("bmg", "exited") /\ UNCHANGED bat
     ELSE IF ux.mode = 0
     THEN g' = G("bmg", "getblk") /\ bat' = [bat EXCEPT !["ux"] = "sub"]   \* GetBlock :357
     ELSE g' = G("bmg", "cflock") /\ UNCHANGED bat                        \* BlockFilterMatches :330
  /\ UNCHANGED <<err, mtx, ux, cs>> /\ UxFrame
  /\ Finish(I("BmTop"))

\* a scan whose only block is in the block cache (start block = tip, cached)
\* needs no fetch at all: NotifyUnspentAndUnfound :392 and back to the wait
BmCached ==
  /\ g.bmg = "top" /\ ~Closed("U") /\ ux.mode = 1
  /\ g' = G("bmg", "cond")
  /\ ux' = [ux EXCEPT !.pq = FALSE, !.res = "ok"]
  /\ UNCHANGED <<bat, err, mtx, cs>> /\ UxFrame
  /\ Finish(I("BmCached"))

BmCfLock ==
  /\ g.bmg = "cflock" /\ mtx = "free"
  /\ mtx' = "ux"
  /\ g' = G("bmg", "getcf")
  /\ bat' = [bat EXCEPT !["ux"] = "sub"]
  /\ UNCHANGED <<err, ux, cs>> /\ UxFrame
  /\ Finish(I("BmCfLock"))

\* the fetch returned: query.go:928 / :768 select { errChan | s.quit }, then
\* the quit checks :349 :363 and FailRemaining :82 / NotifyUnspent :60
BmGot(more) ==
  /\ g.bmg \in {"getblk", "getcf"}
  /\ err["ux"] # "none" \/ Closed("S")
  /\ LET e == IF err["ux"] # "none" THEN err["ux"] ELSE "shut" IN
     /\ err' = [err EXCEPT !["ux"] = "none"]
     /\ mtx' = IF g.bmg = "getcf" THEN "free" ELSE mtx
     /\ IF e = "ok" /\ ~Closed("U") /\ g.bmg = "getcf" /\ more
        THEN /\ g' = G("bmg", "getblk")                       \* filter matched: fetch the block
             /\ bat' = [bat EXCEPT !["ux"] = "sub"]
             /\ UNCHANGED ux
        ELSE IF e = "ok" /\ ~Closed("U") /\ g.bmg = "getblk" /\ more
        \* the block spends the outpoint: the report is delivered :251, but the scan
        \* walks on to the tip (with an empty watch list) fetching the next filter
        THEN /\ g' = G("bmg", "cflock")
             /\ ux' = [ux EXCEPT !.pq = FALSE, !.res = "ok"]
             /\ UNCHANGED bat
        ELSE /\ ~more
             /\ g' = G("bmg", "cond")                         \* loop top, queue empty: cv.Wait
             /\ ux' = [ux EXCEPT !.pq = FALSE,
                                 !.res = IF ux.res # "none" THEN ux.res      \* answered already
                                         ELSE IF e = "ok" /\ Closed("U") THEN "shut" ELSE e]
             /\ UNCHANGED bat
  /\ UNCHANGED cs /\ UxFrame
  /\ Finish(I("BmGot"))

----------------------------------------------------------------------------
\*                     broadcaster  pushtx/broadcaster.go
----------------------------------------------------------------------------
BcFrame == UNCHANGED <<pool, q, bat, err, tries, w, mtx, ux, acts, misc>>

\* Broadcast :300 select { broadcastReqs <- req | <-b.quit }
SendTxSubmit ==
  /\ Pending(K_SENDTX) /\ Pc(K_SENDTX) = "send"
  /\ \/ /\ g.bch = "sel"                                   \* handler :178, cfg.Broadcast :179
        /\ g' = G("bch", "bcast")
        /\ cs' = SetPc(K_SENDTX, "wait")
        /\ UNCHANGED <<bc, sb>> /\ BcFrame
        /\ Finish(I("SendTxSubmit"))
     \/ /\ Closed("B")
        /\ cs' = Return(K_SENDTX, C_SHUT)
        /\ UNCHANGED <<g, bc, sb>> /\ BcFrame
        /\ Finish(A("Ret", K_SENDTX, 0, C_SHUT, "ok"))

\* sendTransaction query.go:959 -> queryAllPeers :277 returned: no peers, all
\* answered, broadcastTimeout, or s.quit (NOT b.quit)
BchBcastEnd ==
  /\ g.bch = "bcast"
  /\ g' = G("bch", "sel")
  /\ bc' = [bc EXCEPT !.rep = "ok", !.txs = TRUE]          \* req.errChan <- nil :196
  /\ UNCHANGED <<cs, sb>> /\ BcFrame
  /\ Finish(I("BchBcastEnd"))

\* Broadcast :309 select { errChan | <-b.quit }
SendTxRet ==
  /\ Pending(K_SENDTX) /\ Pc(K_SENDTX) = "wait"
  /\ \/ bc.rep # "none" /\ cs' = Return(K_SENDTX, C_LEGIT)
     \/ Closed("B")     /\ cs' = Return(K_SENDTX, C_SHUT)
  /\ UNCHANGED <<g, bc, sb>> /\ BcFrame
  /\ Finish(A("Ret", K_SENDTX, 0, cs'[K_SENDTX].st, "ok"))

\* ticker :215 or block notification :205 -> triggerRebroadcast :145
BchRebroadcast ==
  /\ g.bch = "sel" /\ bc.txs /\ g.rb = "none"
  /\ g' = G("rb", "bcast")
  /\ UNCHANGED <<cs, bc, sb>> /\ BcFrame
  /\ Finish(I("BchRebroadcast"))

\* rebroadcast :228 finished (quit check :242, Broadcast bounded as above)
RbEnd ==
  /\ g.rb = "bcast"
  /\ g' = G("rb", "none")
  /\ UNCHANGED <<cs, bc, sb>> /\ BcFrame
  /\ Finish(I("RbEnd"))

\* :218 <-b.quit, deferred sub.Cancel :129 -> cancelSubscription manager.go:311
BchQuit ==
  /\ g.bch = "sel" /\ Closed("B")
  /\ g' = G("bch", "cancelsub")
  /\ UNCHANGED <<cs, bc, sb>> /\ BcFrame
  /\ Finish(I("BchQuit"))

\* select { m.cancelSubscriptions <- | <-m.quit }; the handler runs
\* handleCancelSubscription :319 -> sub.cancel() :38
BchCancelSub ==
  /\ g.bch = "cancelsub"
  /\ \/ /\ g.subh = "sel"
        /\ sb' = [sb EXCEPT !.subs = sb.subs \ {"b"}, !.fwd["b"] = "exited", !.nch["b"] = "closed"]
     \/ /\ Closed("M") /\ UNCHANGED sb
  /\ g' = G("bch", "exited")
  /\ UNCHANGED <<cs, bc>> /\ BcFrame
  /\ Finish(I("BchCancelSub"))

----------------------------------------------------------------------------
\*                 block subscriptions  blockntfns/manager.go
----------------------------------------------------------------------------
SbFrame == UNCHANGED <<pool, q, bat, err, tries, w, mtx, ux, bc, acts, misc>>

\* NewSubscription :246: newSubscriptions <- sub | <-m.quit.  The handler :163
\* runs handleNewSubscription :278, whose NotificationsSinceHeight call takes
\* blockManager.newFilterHeadersMtx.RLock (blockmanager.go:3222, NOT
\* selectable): while it sits there it serves nothing else.  (sb.rq = the
\* subscription being registered.)
Register(k, s, nextpc) ==
  /\ Pending(k) /\ Pc(k) = "reg"
  /\ \/ /\ g.subh = "sel"
        /\ g' = G("subh", "nsh")
        /\ sb' = [sb EXCEPT !.rq = s]
        /\ cs' = SetPc(k, "regw")
        /\ SbFrame
        /\ Finish(I("Register"))
     \/ /\ Closed("M")
        /\ cs' = Return(k, C_SHUT)                          \* ErrSubscriptionManagerStopped
        /\ UNCHANGED <<g, sb>> /\ SbFrame
        /\ Finish(A("Ret", k, 0, C_SHUT, "ok"))

\* the handler got the read lock, registered the subscriber :303 and answered :164
Registered ==
  /\ g.subh = "nsh" /\ g.flk = "free"
  /\ g' = G("subh", "sel")
  /\ sb' = [sb EXCEPT !.subs = sb.subs \cup {sb.rq}, !.fwd[sb.rq] = "wait", !.rq = "none", !.ans = sb.rq]
  /\ UNCHANGED cs /\ SbFrame
  /\ Finish(I("Registered"))

\* NewSubscription :256 select { err := <-sub.errChan | <-m.quit }
RegWait(k, s, nextpc) ==
  /\ Pending(k) /\ Pc(k) = "regw"
  /\ \/ /\ sb.ans = s
        /\ sb' = [sb EXCEPT !.ans = "none"]
        /\ cs' = SetPc(k, nextpc)
        /\ UNCHANGED g /\ SbFrame
        /\ Finish(I("RegWait"))
     \/ /\ Closed("M") /\ sb.ans # s
        /\ cs' = Return(k, C_SHUT)
        /\ UNCHANGED <<g, sb>> /\ SbFrame
        /\ Finish(A("Ret", k, 0, C_SHUT, "ok"))

\* the reader of a subscription: Notifications closed by sub.cancel() :42
ReaderRet(k, s) ==
  /\ Pending(k) /\ Pc(k) \in {"read", "waitblk", "cur"}
  /\ sb.nch[s] = "closed"
  /\ cs' = Return(k, C_CANCEL)
  /\ UNCHANGED <<g, sb>> /\ SbFrame
  /\ Finish(A("Ret", k, 0, C_CANCEL, "ok"))

\* forwarder :223-241
FwdTake(s) ==
  /\ sb.fwd[s] = "wait" /\ sb.item[s]
  /\ sb' = [sb EXCEPT !.fwd[s] = "send", !.item[s] = FALSE]
  /\ UNCHANGED <<g, cs>> /\ SbFrame
  /\ Finish(I("FwdTake"))

\* sub.ntfnChan <- ntfn :231 (buffer of 20; a slow reader fills it)
FwdDeliver(s) ==
  /\ sb.fwd[s] = "send"
  /\ sb' = [sb EXCEPT !.fwd[s] = "wait"]
  \* a current rescan with a watch list fetches the new block's filter (handleBlockConnected :961)
  \* (bounded: one such fetch per behaviour, and only for a rescan that did not walk)
  /\ LET fetch == s = "r" /\ Pending(K_RESCAN) /\ Pc(K_RESCAN) = "cur" /\ misc.rsn = 0 IN
     /\ cs' = IF fetch THEN SetPc(K_RESCAN, "flock") ELSE cs
     /\ misc' = IF fetch THEN [misc EXCEPT !.rsn = MaxRs] ELSE misc
  /\ UNCHANGED <<g, pool, q, bat, err, tries, w, mtx, ux, bc, acts>>
  /\ Finish(I("FwdDeliver"))

\* <-sub.quit | <-m.quit
FwdQuit(s) ==
  /\ sb.fwd[s] \in {"wait", "send"}
  /\ Closed("M") \/ s \in sb.squit
  /\ sb' = [sb EXCEPT !.fwd[s] = "exited"]
  /\ UNCHANGED <<g, cs>> /\ SbFrame
  /\ Finish(I("FwdQuit"))

\* :182
SubhQuit ==
  /\ g.subh = "sel" /\ Closed("M")
  /\ g' = G("subh", "exited")
  /\ UNCHANGED <<cs, sb>> /\ SbFrame
  /\ Finish(I("SubhQuit"))

----------------------------------------------------------------------------
\*                      block manager  blockmanager.go
----------------------------------------------------------------------------
BmFrame == UNCHANGED <<pool, q, tries, w, mtx, ux, bc, acts, cs, misc>>

\* blockHandler :2297 handles a headers message: newHeadersSignal.Broadcast
\* :3059 wakes the cfHandler; if the message reorganises the chain the rollback
\* sends a disconnected notification per block (onBlockDisconnected :3163
\* blockNtfnChan <- | <-b.quit).  (Connected notifications are sent by the
\* cfHandler once the filter header is written, see CfhNtfn.)
BlkhHeaders(reorg) ==
  /\ g.blkh = "sel" /\ SyncH /\ ~Closed("S")
  /\ g' = [g EXCEPT !.blkh = IF reorg THEN "ntfn" ELSE "sel",
                    !.cfh = IF g.cfh = "cond" THEN "woken" ELSE g.cfh]
  /\ reorg \/ g.cfh = "cond"
  /\ UNCHANGED <<bat, err, sb>> /\ BmFrame
  /\ Finish(I("BlkhHeaders"))

\* the subscription handler takes it :173 and queues it for every subscriber
BlkhNtfn ==
  /\ g.blkh = "ntfn"
  /\ \/ /\ g.subh = "sel"
        /\ sb' = [sb EXCEPT !.item = [s \in SubIds |-> sb.item[s] \/ s \in sb.subs]]
     \/ /\ Closed("BM") /\ UNCHANGED sb
  /\ g' = G("blkh", "sel")
  /\ UNCHANGED <<bat, err>> /\ BmFrame
  /\ Finish(I("BlkhNtfn"))

\* blockHandler's <-b.quit arm
BlkhQuit ==
  /\ g.blkh = "sel" /\ Closed("BM")
  /\ g' = G("blkh", "exited")
  /\ UNCHANGED <<bat, err, sb>> /\ BmFrame
  /\ Finish(I("BlkhQuit"))

\* Start :345 select { firstPeerSignal | b.quit }
CfhFirst ==
  /\ g.cfh = "first"
  /\ \/ pool # P_EMPTY /\ g' = G("cfh", "cond")
     \/ Closed("BM")   /\ g' = G("cfh", "exited")
  /\ UNCHANGED <<bat, err, sb>> /\ BmFrame
  /\ Finish(I("CfhFirst"))

\* Stop's ticker :379 newHeadersSignal.Broadcast (or, mid-sync, a Broadcast
\* for newly connected headers :2824)
Tick ==
  /\ g.tick = "run" \/ (SyncC /\ ~Closed("S"))
  /\ g.cfh = "cond"
  /\ g' = G("cfh", "woken")
  /\ UNCHANGED <<bat, err, sb>> /\ BmFrame
  /\ Finish(I("Tick"))

\* cond.Wait returned :549 :760, quit check, then the work the handler does
\* next: nothing (condition still false), a queryAllPeers round (getCheckpts,
\* getCFHeadersForAllPeers), or the checkpointed batch :1213
CfhWoken(next) ==
  /\ g.cfh = "woken"
  /\ IF Closed("BM")
     THEN next = "exited" /\ UNCHANGED bat
     ELSE \/ next = "cond" /\ UNCHANGED bat
          \/ next = "qall" /\ (SyncC \/ SyncH) /\ UNCHANGED bat
          \/ next = "cpq"  /\ SyncC /\ bat["ch"] = "none" /\ err["ch"] = "none"
             /\ bat' = [bat EXCEPT !["ch"] = "sub"]
  /\ g' = G("cfh", next)
  /\ UNCHANGED <<err, sb>> /\ BmFrame
  /\ Finish(I("CfhWoken"))

\* queryAllPeers query.go:277 returned (peers answered, QueryTimeout, s.quit -
\* NOT b.quit); then: give up and sleep retryTimeout :666 :699 :787, fetch a
\* block to find the liar (detectBadPeers :1914), or go on to the quit check
CfhQallEnd(next) ==
  /\ g.cfh = "qall"
  /\ \/ next = "retry" /\ UNCHANGED bat
     \/ next = "check" /\ UNCHANGED bat
     \/ next = "wr" /\ g.flk = "free" /\ UNCHANGED bat   \* headers verified: write them
     \/ next = "getblk" /\ SyncC /\ bat["cg"] = "none" /\ err["cg"] = "none"
        /\ bat' = [bat EXCEPT !["cg"] = "sub"]
  /\ g' = IF next = "wr" THEN G2("cfh", "wr", "flk", "cfh") ELSE G("cfh", next)
  /\ UNCHANGED <<err, sb>> /\ BmFrame
  /\ Finish(I("CfhQallEnd"))

\* select { time.After(retryTimeout) | b.quit }
CfhRetryEnd ==
  /\ g.cfh = "retry"
  /\ g' = G("cfh", IF Closed("BM") THEN "exited" ELSE "check")
  /\ UNCHANGED <<bat, err, sb>> /\ BmFrame
  /\ Finish(I("CfhRetryEnd"))

\* getCheckpointedCFHeaders :1222 select { headerChan | errChan | b.quit }
CfhCpqEnd ==
  /\ g.cfh = "cpq"
  /\ \/ /\ err["ch"] # "none"
        /\ err' = [err EXCEPT !["ch"] = "none"]
        /\ \/ g' = G("cfh", "check")
           \/ g.flk = "free" /\ g' = G2("cfh", "wr", "flk", "cfh")   \* a verified batch: write it
     \/ /\ Closed("BM") /\ err["ch"] = "none"
        /\ UNCHANGED err
        /\ g' = G("cfh", "exited")
  /\ UNCHANGED <<bat, sb>> /\ BmFrame
  /\ Finish(I("CfhCpqEnd"))

\* writeCFHeadersMsg: store.WriteHeaders :1416, then the new tip is published
\* under newFilterHeadersMtx :1425-1428 (write lock, released BEFORE the
\* notifications are sent)
CfhWrote ==
  /\ g.cfh = "wr"
  /\ g' = G2("cfh", "ntfn", "flk", "free")
  /\ UNCHANGED <<bat, err, sb>> /\ BmFrame
  /\ Finish(I("CfhWrote"))

\* writeCFHeadersMsg :1440 onBlockConnected per written filter header:
\* blockNtfnChan <- | <-b.quit, taken by the subscription handler :173
CfhNtfn ==
  /\ g.cfh = "ntfn"
  /\ \/ /\ g.subh = "sel"
        /\ sb' = [sb EXCEPT !.item = [s \in SubIds |-> sb.item[s] \/ s \in sb.subs]]
     \/ /\ Closed("BM") /\ UNCHANGED sb
  /\ g' = G("cfh", "check")
  /\ UNCHANGED <<bat, err>> /\ BmFrame
  /\ Finish(I("CfhNtfn"))

\* detectBadPeers -> GetBlock query.go:928 select { errChan | s.quit }
CfhGetblkEnd ==
  /\ g.cfh = "getblk"
  /\ err["cg"] # "none" \/ Closed("S")
  /\ err' = [err EXCEPT !["cg"] = "none"]
  /\ g' = G("cfh", "retry")
  /\ UNCHANGED <<bat, sb>> /\ BmFrame
  /\ Finish(I("CfhGetblkEnd"))

\* the non-blocking quit checks in the cfHandler loops
CfhCheck ==
  /\ g.cfh = "check"
  /\ g' = G("cfh", IF Closed("BM") THEN "exited" ELSE "cond")
  /\ UNCHANGED <<bat, err, sb>> /\ BmFrame
  /\ Finish(I("CfhCheck"))

----------------------------------------------------------------------------
\*                             rescan  rescan.go
----------------------------------------------------------------------------
RsFrame == UNCHANGED <<pool, q, tries, w, ux, bc, sb, acts>>

\* not current :691: next block, or subscribe and become current :729
RsNext(walk) ==
  /\ Pending(K_RESCAN) /\ Pc(K_RESCAN) = "next"
  /\ IF walk
     THEN /\ misc.rsn < MaxRs
          /\ misc' = [misc EXCEPT !.rsn = misc.rsn + 1]
          /\ cs' = SetPc(K_RESCAN, "flock")                  \* notifyBlock :865 -> GetCFilter
     ELSE /\ cs' = SetPc(K_RESCAN, "reg")
          /\ UNCHANGED misc
  /\ UNCHANGED <<g, bat, err, mtx>> /\ RsFrame
  /\ Finish(I("RsNext"))

RsFLock ==
  /\ Pending(K_RESCAN) /\ Pc(K_RESCAN) = "flock" /\ mtx = "free"
  /\ mtx' = "rs"
  /\ cs' = SetPc(K_RESCAN, "filter")
  /\ bat' = [bat EXCEPT !["rs"] = "sub"]
  /\ UNCHANGED <<g, err, misc>> /\ RsFrame
  /\ Finish(I("RsFLock"))

\* the rescan is "current" (follows notifications) once it has subscribed
RCur == "r" \in sb.subs

\* GetCFilter / GetBlock returned to the rescan goroutine.  Walking
\* (notifyBlock :854): an error ends the rescan.  Current
\* (handleBlockConnected :899): a filter error means errRetryBlock - try again
\* in 100 ms :601, a block error ends it (via current = false).
RsGot(match) ==
  /\ Pending(K_RESCAN) /\ Pc(K_RESCAN) \in {"filter", "block"}
  /\ err["rs"] # "none" \/ Closed("S")
  /\ LET e == IF err["rs"] # "none" THEN err["rs"] ELSE "shut"
         p == Pc(K_RESCAN)
         back == IF RCur THEN "cur" ELSE "next"
     IN  /\ err' = [err EXCEPT !["rs"] = "none"]
         /\ mtx' = IF p = "filter" THEN "free" ELSE mtx
         /\ IF e = "ok"
            THEN /\ match => ~RCur          \* (block fetch / MarkAsConfirmed only modelled for the walk)
                 /\ cs' = SetPc(K_RESCAN, IF ~match THEN back ELSE IF p = "filter" THEN "block" ELSE "mark")
                 /\ bat' = IF match /\ p = "filter" THEN [bat EXCEPT !["rs"] = "sub"] ELSE bat
                 /\ UNCHANGED misc
            ELSE /\ ~match
                 /\ UNCHANGED bat
                 /\ IF RCur /\ p = "filter"
                    THEN cs' = SetPc(K_RESCAN, "cur") /\ misc' = [misc EXCEPT !.rretry = TRUE]
                    ELSE cs' = SetPc(K_RESCAN, RetPc(ClassOf(e))) /\ UNCHANGED misc
  /\ UNCHANGED g /\ RsFrame
  /\ Finish(I("RsGot"))

\* blockRetrySignal :636
RsRetry ==
  /\ Pending(K_RESCAN) /\ Pc(K_RESCAN) = "cur" /\ misc.rretry
  /\ cs' = SetPc(K_RESCAN, "flock")
  /\ misc' = [misc EXCEPT !.rretry = FALSE]
  /\ UNCHANGED <<g, bat, err, mtx>> /\ RsFrame
  /\ Finish(I("RsRetry"))

\* the rescan goroutine hands its error to the caller (Start :1415)
RsRet ==
  /\ Pending(K_RESCAN) /\ Pc(K_RESCAN) \in {"ret_s", "ret_c", "ret_l"}
  /\ cs' = Return(K_RESCAN, PcClass(Pc(K_RESCAN)))
  /\ UNCHANGED <<g, bat, err, mtx, misc>> /\ RsFrame
  /\ Finish(A("Ret", K_RESCAN, 0, cs'[K_RESCAN].st, "ok"))

\* extractBlockMatches :1056 broadcaster.MarkAsConfirmed: b.confChan <- txHash
\* (pushtx/broadcaster.go:320; no quit case unless FixBR1); received by the
\* handler's select :200
RsMark ==
  /\ Pending(K_RESCAN) /\ Pc(K_RESCAN) = "mark"
  /\ g.bch = "sel" \/ (FixBR1 /\ Closed("B"))
  /\ cs' = SetPc(K_RESCAN, IF RCur THEN "cur" ELSE "next")
  /\ UNCHANGED <<g, bat, err, mtx, misc>> /\ RsFrame
  /\ Finish(I("RsMark"))

\* Rescan.Update rescan.go:1532 select, arm r.updateChan <- uo: the rescan
\* goroutine receives from ro.update where it looks at that channel: the
\* non-blocking poll at the top of every catching-up iteration :697 and the
\* select of a current rescan :549.  (Inside a fetch, inside chain.Subscribe
\* and inside MarkAsConfirmed nobody receives: the call stays blocked.)
UpdTaken ==
  /\ Pending(K_UPDATE) /\ Pc(K_UPDATE) = "upd"
  /\ Pending(K_RESCAN) /\ Pc(K_RESCAN) \in {"next", "cur"}
  /\ cs' = Return(K_UPDATE, C_LEGIT)                       \* return nil :1547
  /\ UNCHANGED <<g, bat, err, mtx, misc>> /\ RsFrame
  /\ Finish(A("Ret", K_UPDATE, 0, C_LEGIT, "ok"))

\* arm <-r.running :1537: the rescan goroutine has left rescan() and closed
\* r.running :1460 (before it hands its error to Start's channel :1466):
\* "Rescan is already done and cannot be updated."
UpdDone ==
  /\ Pending(K_UPDATE) /\ Pc(K_UPDATE) = "upd"
  /\ Pc(K_RESCAN) \in {"ret_s", "ret_c", "ret_l", "ret"}
  /\ cs' = Return(K_UPDATE, C_CANCEL)
  /\ UNCHANGED <<g, bat, err, mtx, misc>> /\ RsFrame
  /\ Finish(A("Ret", K_UPDATE, 0, C_CANCEL, "ok"))

----------------------------------------------------------------------------
\*                    the remaining goroutines
----------------------------------------------------------------------------
MiFrame == UNCHANGED <<pool, q, bat, err, tries, w, mtx, ux, bc, sb, acts, cs>>

\* batch_writer.go:141
BwQuit ==
  /\ g.bw = "sel" /\ Closed("BW")
  /\ g' = G("bw", "exited")
  /\ UNCHANGED misc /\ MiFrame
  /\ Finish(I("BwQuit"))

\* peerHandler neutrino.go:1253: disconnect all peers, drain, wg.Done
PhQuit ==
  /\ g.ph = "sel" /\ Closed("S")
  /\ g' = G("ph", "exited")
  /\ misc' = [misc EXCEPT !.pdisc = TRUE]
  /\ MiFrame
  /\ Finish(I("PhQuit"))

\* connmgr.Connect: cfg.Dial returns (environment: a dial takes bounded time)
DialEnd ==
  /\ g.dial = "dialing"
  /\ g' = G("dial", "done")
  /\ UNCHANGED misc /\ MiFrame
  /\ Finish(I("DialEnd"))

----------------------------------------------------------------------------
Init ==
  /\ pool \in Pools
  /\ q = {}
  \* with no peer the cfHandler either never got its first-peer signal or
  \* (the peers are gone again) sits in its cond-var wait
  \* (a dial in progress is explored with the empty pool only: state space)
  /\ \E d \in (IF Dialing /\ pool = P_EMPTY THEN {"none", "dialing"} ELSE {"none"}) :
     \E c \in (IF pool = P_EMPTY THEN {"first", "cond"} ELSE {"first"}) :
       g = [sp |-> "idle", disp |-> "run", wk |-> IF pool = P_EMPTY THEN "none" ELSE "idle",
            bmg |-> "cond", bch |-> "sel", rb |-> "none", subh |-> "sel", blkh |-> "sel",
            cfh |-> c, tick |-> "none", bw |-> "sel", ph |-> "sel", dial |-> d, flk |-> "free"]
  /\ bat = [o \in Owners |-> "none"]
  /\ err = [o \in Owners |-> "none"]
  /\ tries = [o \in Owners |-> 0]
  /\ w = [o |-> "none", r |-> "none"]
  /\ mtx = "free"
  /\ ux = [pq |-> FALSE, mode |-> 0, res |-> "none"]
  /\ bc = [rep |-> "none", txs |-> FALSE]
  /\ sb = [subs  |-> {"b"},
           fwd   |-> [s \in SubIds |-> IF s = "b" THEN "wait" ELSE "none"],
           nch   |-> [s \in SubIds |-> "open"],
           item  |-> [s \in SubIds |-> FALSE],
           squit |-> {}, rq |-> "none", ans |-> "none"]
  /\ acts = <<>>
  /\ cs = [k \in AllKinds |-> [st |-> C_NONE, pc |-> "off"]]
  /\ misc = [pdisc |-> FALSE, reopen |-> R_NOT, rsn |-> 0, rretry |-> FALSE, dial |-> IF g.dial = "dialing" THEN 1 ELSE 0,
             \* no peer has ever completed a handshake since Start: the goroutine that
             \* runs the cfHandler is still waiting for firstPeerSignal (blockmanager.go:345)
             never |-> IF pool = P_EMPTY /\ g.cfh = "first" THEN 1 ELSE 0]
  /\ abs = AbsInit
  /\ act = [op |-> "Init", k |-> 0, m |-> 0, cls |-> 0, res |-> "ok", at |-> NoAt]
  /\ viol = {}

Env ==
  \/ BeginGetBlock \/ BeginGetCF \/ BeginSendTx \/ BeginSub \/ BeginUpdate
  \/ \E m \in {0, 1} : BeginGetUtxo(m) \/ BeginRescan(m) \/ BeginSync(m)
  \/ StopCall \/ Reopen

Internal ==
  \/ StopStep \/ StopRet
  \/ \E o \in Owners : DispAccept(o) \/ QueryRefused(o) \/ DispGive(o)
  \/ \E b \in BOOLEAN : DispResult(b)
  \/ DispWake \/ DispQuit
  \/ \E r \in {"ok", "timeout", "disc", "cancel"} : WorkerEnd(r)
  \/ WorkerQuit
  \/ GetBlockRet \/ GetCFLock \/ GetCFHit \/ GetCFGot \/ GetCFRet
  \/ GetUtxoRet \/ BmSignal \/ BmWake \/ BmTop \/ BmCached \/ BmCfLock
  \/ \E b \in BOOLEAN : BmGot(b)
  \/ SendTxSubmit \/ BchBcastEnd \/ SendTxRet \/ BchRebroadcast \/ RbEnd \/ BchQuit \/ BchCancelSub
  \/ Register(K_SUB, "u", "read") \/ Register(K_RESCAN, "r", "cur") \/ Registered
  \/ RegWait(K_SUB, "u", "read") \/ RegWait(K_RESCAN, "r", "cur")
  \/ ReaderRet(K_SUB, "u") \/ ReaderRet(K_RESCAN, "r")
  \/ \E s \in SubIds : FwdTake(s) \/ FwdDeliver(s) \/ FwdQuit(s)
  \/ SubhQuit
  \/ \E b \in BOOLEAN : BlkhHeaders(b)
  \/ BlkhNtfn \/ BlkhQuit
  \/ CfhFirst \/ Tick
  \/ \E n \in {"exited", "cond", "qall", "cpq"} : CfhWoken(n)
  \/ \E n \in {"retry", "check", "getblk", "wr"} : CfhQallEnd(n)
  \/ CfhWrote \/ CfhNtfn
  \/ CfhRetryEnd \/ CfhCpqEnd \/ CfhGetblkEnd \/ CfhCheck
  \/ \E b \in BOOLEAN : RsNext(b) \/ RsGot(b)
  \/ RsFLock \/ RsMark \/ RsRetry \/ RsRet \/ UpdTaken \/ UpdDone
  \/ BwQuit \/ PhQuit \/ DialEnd

Next == Env \/ Internal

Spec == Init /\ [][Next]_vars

----------------------------------------------------------------------------
\* Fairness: every select arm / timer / wake-up that stays enabled is taken.
\* (The arms that only keep the system busy - new headers, rebroadcast
\* ticks, retries - get none: they cannot be what releases anybody.)
Fair ==
  /\ WF_vars(StopStep) /\ WF_vars(StopRet)
  /\ \A o \in Owners : WF_vars(DispAccept(o)) /\ WF_vars(QueryRefused(o)) /\ WF_vars(DispGive(o))
  /\ WF_vars(\E b \in BOOLEAN : DispResult(b))
  /\ WF_vars(DispWake) /\ WF_vars(DispQuit)
  /\ WF_vars(\E r \in {"ok", "timeout", "disc", "cancel"} : WorkerEnd(r))
  /\ WF_vars(WorkerQuit)
  /\ WF_vars(GetBlockRet) /\ WF_vars(GetCFLock) /\ WF_vars(GetCFGot) /\ WF_vars(GetCFRet)
  /\ WF_vars(GetUtxoRet) /\ WF_vars(BmSignal) /\ WF_vars(BmWake) /\ WF_vars(BmTop) /\ WF_vars(BmCfLock)
  /\ WF_vars(\E b \in BOOLEAN : BmGot(b))
  /\ WF_vars(SendTxSubmit) /\ WF_vars(BchBcastEnd) /\ WF_vars(SendTxRet) /\ WF_vars(RbEnd)
  /\ WF_vars(BchQuit) /\ WF_vars(BchCancelSub)
  /\ WF_vars(Register(K_SUB, "u", "read")) /\ WF_vars(Register(K_RESCAN, "r", "cur")) /\ WF_vars(Registered)
  /\ WF_vars(RegWait(K_SUB, "u", "read")) /\ WF_vars(RegWait(K_RESCAN, "r", "cur"))
  /\ WF_vars(ReaderRet(K_SUB, "u")) /\ SF_vars(ReaderRet(K_RESCAN, "r"))
  /\ \A s \in SubIds : WF_vars(FwdQuit(s))
  /\ WF_vars(SubhQuit)
  /\ WF_vars(BlkhNtfn) /\ SF_vars(BlkhQuit)
  /\ WF_vars(CfhFirst) /\ WF_vars(Tick)
  /\ WF_vars(\E n \in {"exited", "cond", "qall", "cpq"} : CfhWoken(n))
  /\ WF_vars(\E n \in {"retry", "check", "getblk", "wr"} : CfhQallEnd(n))
  /\ WF_vars(CfhWrote) /\ WF_vars(CfhNtfn)
  /\ WF_vars(CfhRetryEnd) /\ WF_vars(CfhCpqEnd) /\ WF_vars(CfhGetblkEnd) /\ WF_vars(CfhCheck)
  /\ WF_vars(\E b \in BOOLEAN : RsNext(b)) /\ WF_vars(\E b \in BOOLEAN : RsGot(b))
  /\ WF_vars(RsFLock) /\ WF_vars(RsMark) /\ WF_vars(RsRetry) /\ WF_vars(RsRet)
  /\ WF_vars(UpdTaken) /\ WF_vars(UpdDone)
  /\ WF_vars(BwQuit) /\ WF_vars(PhQuit) /\ WF_vars(DialEnd)

LSpec == Spec /\ Fair

AllReleased == \A k \in AllKinds : ~Pending(k)

\* C17 at design level: from every reachable state, once Stop is called it
\* returns and every blocked caller has returned.
StopTerminates == (g.sp # "idle") ~> (g.sp = "done" /\ AllReleased)
StopReturnsL   == (g.sp # "idle") ~> (g.sp = "done")

----------------------------------------------------------------------------
PcSet == {"idle", "connmgr", "bcast_wait", "utxo_wait", "wm_wait", "sub_wait", "sub_cancel",
          "bm_wait", "addr", "bw_wait", "wg_wait", "done"}

TypeOK ==
  /\ pool \in {P_EMPTY, P_SILENT, P_RESP}
  /\ q \subseteq {"B", "U", "W", "M", "BM", "BW", "S"}
  /\ g.sp \in PcSet
  /\ g.disp \in {"run", "exited"}
  /\ g.wk \in {"none", "idle", "job", "res", "exited"}
  /\ g.bmg \in {"cond", "woken", "top", "cflock", "getblk", "getcf", "exited"}
  /\ g.bch \in {"sel", "bcast", "cancelsub", "exited"}
  /\ g.cfh \in {"first", "cond", "woken", "qall", "cpq", "getblk", "retry", "check", "wr", "ntfn", "exited"}
  /\ g.subh \in {"sel", "nsh", "exited"}
  /\ \A o \in Owners : bat[o] \in {"none", "sub", "queued", "job"}
  /\ \A o \in Owners : err[o] \in {"none", "ok", "fail", "shut", "cancel"}
  /\ mtx \in {"free", "cf", "ux", "rs"}
  /\ Len(acts) <= MaxAct
  /\ \A k \in AllKinds : cs[k].st \in {C_PENDING, C_SHUT, C_CANCEL, C_LEGIT, C_NONE}

\* model-level safety: a quit channel is closed only by Stop, in order
QuitOrder ==
  /\ Closed("S") => {"B", "U", "W", "M", "BM", "BW"} \subseteq q
  /\ g.sp = "idle" => q = {}
  /\ g.wk = "job" => w.o \in Owners
  /\ mtx = "cf" => Pending(K_GETCF)

NoViolation == viol = {}

\* node identity for the exported graph: a flat tuple of small integers
PCS == <<"idle", "connmgr", "bcast_wait", "utxo_wait", "wm_wait", "sub_wait", "sub_cancel",
         "bm_wait", "addr", "bw_wait", "wg_wait", "done",
         "run", "exited", "none", "job", "res", "cond", "woken", "top", "cflock", "getblk", "getcf",
         "sel", "bcast", "cancelsub", "ntfn", "first", "qall", "cpq", "retry", "check", "dialing",
         "wait", "send", "sub", "queued", "ok", "fail", "shut", "cancel", "timeout", "disc",
         "free", "cf", "ux", "rs", "gb", "ch", "cg", "open", "closed", "off", "lock", "reg", "next",
         "flock", "filter", "block", "mark", "read", "waitblk", "cur", "hdr", "cfh", "ret",
         "ret_s", "ret_c", "ret_l", "nsh", "regw", "wr", "b", "u", "r", "upd">>
PIdx == [v \in {PCS[i] : i \in 1..Len(PCS)} |-> CHOOSE i \in 1..Len(PCS) : PCS[i] = v]
Ix(seq, v) == PIdx[v]
OSEQ == <<"gb", "cf", "ux", "rs", "ch", "cg">>
SSEQ == <<"b", "u", "r">>
QSEQ == <<"B", "U", "W", "M", "BM", "BW", "S">>
B2I(b) == IF b THEN 1 ELSE 0
State == <<pool>>
         \o [i \in 1..7 |-> B2I(QSEQ[i] \in q)]
         \o <<Ix(PCS, g.sp), Ix(PCS, g.disp), Ix(PCS, g.wk), Ix(PCS, g.bmg), Ix(PCS, g.bch), Ix(PCS, g.rb),
              Ix(PCS, g.subh), Ix(PCS, g.blkh), Ix(PCS, g.cfh), Ix(PCS, g.tick), Ix(PCS, g.bw), Ix(PCS, g.ph),
              Ix(PCS, g.dial)>>
         \o [i \in 1..6 |-> Ix(PCS, bat[OSEQ[i]])]
         \o [i \in 1..6 |-> Ix(PCS, err[OSEQ[i]])]
         \o [i \in 1..6 |-> tries[OSEQ[i]]]
         \o <<Ix(PCS, w.o), Ix(PCS, w.r), Ix(PCS, mtx), B2I(ux.pq), ux.mode, Ix(PCS, ux.res),
              Ix(PCS, bc.rep), B2I(bc.txs)>>
         \o [i \in 1..3 |-> B2I(SSEQ[i] \in sb.subs)]
         \o [i \in 1..3 |-> Ix(PCS, sb.fwd[SSEQ[i]])]
         \o [i \in 1..3 |-> Ix(PCS, sb.nch[SSEQ[i]])]
         \o [i \in 1..3 |-> B2I(sb.item[SSEQ[i]])]
         \o [i \in 1..3 |-> B2I(SSEQ[i] \in sb.squit)]
         \o [i \in 1..Len(acts) |-> 10 * acts[i].k + acts[i].m]
         \o <<99>>
         \o [i \in 1..8 |-> 100 * cs[i].st + Ix(PCS, cs[i].pc)]
         \o <<Ix(PCS, g.flk), Ix(PCS, sb.rq), Ix(PCS, sb.ans),
              B2I(misc.pdisc), misc.reopen, misc.rsn, B2I(misc.rretry), misc.never, misc.dial, B2I(abs.stopped)>>
View  == <<pool, q, g, bat, err, tries, w, mtx, ux, bc, sb, acts, cs, misc, abs>>
=============================================================================
