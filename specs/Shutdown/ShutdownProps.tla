---------------------------- MODULE ShutdownProps ----------------------------
(***************************************************************************)
(* Property C17 ("Stop always completes and releases every blocked         *)
(* caller") over OBSERVABLES only.  The same operators are evaluated by    *)
(* TLC (a) on every transition of Shutdown.tla and (b) on every step of    *)
(* every trace observed on a real ChainService.                            *)
(*                                                                         *)
(* Encoding (integers only in everything that is compared):                *)
(*  obs.pool    peer pool of the scenario: P_EMPTY no connected peer,      *)
(*              P_SILENT peers that complete the handshake and then never  *)
(*              answer, P_RESP peers that answer                           *)
(*  obs.dial    1 if a connection attempt to an unreachable permanent peer *)
(*              was in progress when the client started, else 0            *)
(*  obs.never   1 if no peer has ever completed a handshake since Start    *)
(*              (only with pool = P_EMPTY), else 0                         *)
(*  obs.stop    S_NOT Stop not called, S_RUN called and not returned,      *)
(*              S_DONE returned, S_HUNG not returned within the bound      *)
(*  obs.calls   one record per activity in the order in which they were    *)
(*              begun: [k |-> kind, st |-> status of the blocked caller]   *)
(*              (the update activity has two blocked callers and therefore *)
(*              two consecutive records: the Rescan.Update call, k = 8,    *)
(*              and the reader of its rescan's error channel, k = 4)       *)
(*              C_PENDING  still inside the call                           *)
(*              C_SHUT     returned a shutdown error                       *)
(*              C_CANCEL   returned a cancellation error / its channel was *)
(*                         closed                                          *)
(*              C_LEGIT    returned a result of the operation itself       *)
(*                         (value, or an ordinary failure such as a query  *)
(*                         timeout) - the call was not blocked any more    *)
(*              C_BAD      returned garbage (nil result with nil error),   *)
(*                         or panicked                                     *)
(*              C_HUNG     still inside the call when the bound expired    *)
(*              C_NONE     the activity has no caller (mid-sync)           *)
(*  obs.reopen  R_NOT not reopened yet, R_OK data directory reopened and   *)
(*              filter tip <= block tip with both tips readable,           *)
(*              R_OPENERR stores could not be opened, R_INCONS tips         *)
(*              unreadable or filter tip above block tip                   *)
(* act = [op, k, m, cls, res, at]; k, m, cls are integers, res is a string,*)
(*  at is a record of strings (where the goroutines are blocked; compared  *)
(*  by the conformance check only, never by the operators below).          *)
(*  Visible operations: "Begin" (k = kind, m = variant), "Stop",           *)
(*  "Ret" (k, cls = class of what the caller got), "StopRet", "Hang"       *)
(*  (the bound expired), "Reopen".  Every other op is an internal step of  *)
(*  the model and never occurs in an observed trace.                       *)
(***************************************************************************)
EXTENDS Integers, Sequences, FiniteSets

P_EMPTY  == 0
P_SILENT == 1
P_RESP   == 2

K_GETBLOCK == 1   \* ChainService.GetBlock
K_GETCF    == 2   \* ChainService.GetCFilter
K_GETUTXO  == 3   \* ChainService.GetUtxo
K_RESCAN   == 4   \* Rescan.Start ... error channel
K_SENDTX   == 5   \* ChainService.SendTransaction
K_SUB      == 6   \* block subscription, reader blocked on Notifications
K_SYNC     == 7   \* header / filter-header sync in progress (no caller)
K_UPDATE   == 8   \* Rescan.Update handed to a rescan goroutine that is busy in a fetch;
                  \* the activity owns its rescan (started like K_RESCAN variant 1), whose
                  \* error-channel reader is a second call record [k |-> K_RESCAN, m |-> 1]
                  \* right after the Update's own record

C_PENDING == 0
C_SHUT    == 1
C_CANCEL  == 2
C_LEGIT   == 3
C_BAD     == 4
C_HUNG    == 5
C_NONE    == 6

S_NOT  == 0
S_RUN  == 1
S_DONE == 2
S_HUNG == 3

R_NOT     == 0
R_OK      == 1
R_OPENERR == 2
R_INCONS  == 3

Visible == {"Begin", "Stop", "Ret", "StopRet", "Hang", "Reopen"}

----------------------------------------------------------------------------
\* abstract state: has Stop been called (the statement only constrains what
\* happens "then")
AbsInit == [stopped |-> FALSE]

AbsNext(a, act, o2) == [stopped |-> a.stopped \/ act.op = "Stop"]

\* "Every call blocked on the client then returns with a shutdown or
\* cancellation error": a call may also complete with its own result
\* (C_LEGIT: it was not blocked); what it may not do is come back with
\* garbage or die.
Viol(a, o, act, a2, o2) ==
  IF act.op = "Ret" /\ act.cls = C_BAD THEN {"CallerErrorClass"} ELSE {}

Unreleased(o) == { i \in 1..Len(o.calls) : o.calls[i].st \in {C_PENDING, C_HUNG} }

\* End of a scenario (the driver has waited for the bound):
\*  "Stopping the client returns within a bounded time from any state"
\*  "Every call blocked on the client then returns ..."
\*  "the data directory can be reopened afterwards with the guarantees of
\*   C01 and C03 intact" (here: stores open, tips readable, filter tip not
\*   above the block tip; the chain-validity content of C01/C03 is judged by
\*   the BlockManager / CFSync families on the same stores' code paths)
EndViol(a, o) ==
  IF ~a.stopped THEN {}
  ELSE (IF o.stop # S_DONE THEN {"StopReturns"} ELSE {})
       \cup (IF Unreleased(o) # {} THEN {"CallersReleased"} ELSE {})
       \cup (IF o.reopen \in {R_OPENERR, R_INCONS} THEN {"ReopenConsistent"} ELSE {})
=============================================================================
