----------------------------- MODULE RescanProps -----------------------------
(***************************************************************************)
(* Property C09 over the CALLBACK HISTORY of a rescan (rescan.go): what    *)
(* OnFilteredBlockConnected / OnFilteredBlockDisconnected (stream s = 1)   *)
(* and the legacy OnBlockConnected / OnBlockDisconnected (stream s = 2)    *)
(* were called with, in order.  Nothing of the rescan's bookkeeping is     *)
(* used: the operators are evaluated by TLC on every transition of         *)
(* Rescan.tla and on every trace observed on the real code.                *)
(*                                                                         *)
(* obs = [ev  |-> callbacks delivered during the last step, in order:      *)
(*               [k |-> 1 connected / 2 disconnected, s |-> stream,        *)
(*                b |-> block id (-2: not a block of the universe),        *)
(*                h |-> height argument, txs |-> ids of the transactions   *)
(*                attached (filtered connected only)],                     *)
(*        st  |-> 0 running, 1 ended on quit, 2 ended with an error,       *)
(*        upd |-> 1 while an update sent by the caller has not been taken, *)
(*        at / arg |-> the chain-source call the rescan is blocked in      *)
(*               (conformance only; not used here)]                        *)
(* act = [op, res, b, add, rw]; only op = "SendUpd" (the caller sends an   *)
(* update adding the items `add` with rewind height `rw`) matters here.    *)
(*                                                                         *)
(* Clauses <-> sentences of the statement                                  *)
(*  ConnectIsChildOfCurrent    "each connected block is the child of the   *)
(*                              block the caller was last told is current" *)
(*  DisconnectIsCurrent        "each disconnect removes exactly that       *)
(*                              current block"                             *)
(*  NoBlockSkippedOrRepeated   "no block is skipped or repeated" (heights  *)
(*                              go up by exactly one on every connect)     *)
(*  RelevantTxDelivered        "every transaction in a connected block     *)
(*                              from the start time on that pays a watched *)
(*                              address or spends a watched outpoint,      *)
(*                              including outpoints created earlier in the *)
(*                              rescan and items added ... by updates, is  *)
(*                              delivered with that block"                 *)
(*  RewindHonoured             "... or rewound to by updates": once an     *)
(*                              update with a rewind height has been taken *)
(*                              no further block is connected while a      *)
(*                              block above that height, delivered without *)
(*                              a transaction that the added items make    *)
(*                              relevant, is still part of the walk        *)
(***************************************************************************)
EXTENDS Integers, Sequences, FiniteSets, RescanUniverse

Blocks == 0..(NB - 1)
ParentOf(b) == IF b \in Blocks THEN Parent[b + 1] ELSE -9
HeightOf(b) == IF b \in Blocks THEN Height[b + 1] ELSE -9
TxsOf(b)    == IF b \in Blocks THEN BlockTxs[b + 1] ELSE <<>>
Late(b)     == HeightOf(b) >= StartT

Range(s) == {s[i] : i \in 1..Len(s)}

\* script (address id) of an outpoint; 0 = a script nobody watches
OutScript(o) ==
  IF o >= 10
  THEN LET t == o \div 10
           j == o % 10
       IN  IF t <= NT /\ j < Len(TxOuts[t]) THEN TxOuts[t][j + 1] ELSE 0
  ELSE IF o >= 1 /\ o <= Len(ExtScript) THEN ExtScript[o] ELSE 0

AddrsOf(items) == {i \in items : i < 100}
OutsOf(items)  == {i - 100 : i \in {j \in items : j >= 100}}

\* does transaction t spend one of the outpoints wo / which outpoints does it
\* create by paying one of the addresses wa
SpendsAny(t, wo) == \E k \in 1..Len(TxIns[t]) : TxIns[t][k] # 0 /\ TxIns[t][k] \in wo
Created(t, wa)   == {10 * t + (k - 1) : k \in {n \in 1..Len(TxOuts[t]) :
                                                  TxOuts[t][n] # 0 /\ TxOuts[t][n] \in wa}}

\* The relevant transactions of a block in block order, given the watched
\* addresses and outpoints; EVERY output paying a watched address becomes a
\* watched outpoint for the transactions after it.
RECURSIVE ScanTxs(_, _, _, _, _)
ScanTxs(txs, i, wa, wo, acc) ==
  IF i > Len(txs) THEN [rel |-> acc, learned |-> wo]
  ELSE LET t  == txs[i]
           sp == SpendsAny(t, wo)
           cr == Created(t, wa)
       IN  ScanTxs(txs, i + 1, wa, wo \cup cr,
                   IF sp \/ cr # {} THEN Append(acc, t) ELSE acc)

----------------------------------------------------------------------------
\* Abstract state: what the caller has been told and has asked for.
\*   cur / lcur  block last announced as current on stream 1 / 2
\*   watch       items the caller asked for (NewRescan options + taken updates)
\*   stack       blocks connected and not disconnected since the start, oldest
\*               first: [b, txs (set delivered), learned (outpoints created by
\*               its relevant transactions), owed]
\*   pend        updates sent and not yet taken
AbsInit == [cur |-> StartB, lcur |-> StartB, watch |-> Range(InitWatch),
            stack |-> <<>>, pend |-> <<>>]

LearnedOuts(a) == UNION {a.stack[i].learned : i \in 1..Len(a.stack)}
WatchedOuts(a) == OutsOf(a.watch) \cup LearnedOuts(a)

Required(a, b) ==
  IF Late(b)
  THEN ScanTxs(TxsOf(b), 1, AddrsOf(a.watch), WatchedOuts(a), <<>>)
  ELSE [rel |-> <<>>, learned |-> WatchedOuts(a)]

SomeOwed(a) == \E i \in 1..Len(a.stack) : a.stack[i].owed

\* One callback: new abstract state and the clauses it violates.
EvStep(a, e) ==
  IF e.s = 2
  THEN \* legacy stream: the walk only
       IF e.k = 1
       THEN [a |-> [a EXCEPT !.lcur = e.b],
             v |-> (IF ParentOf(e.b) # a.lcur THEN {"ConnectIsChildOfCurrent"} ELSE {})
                   \cup (IF HeightOf(e.b) # HeightOf(a.lcur) + 1
                         THEN {"NoBlockSkippedOrRepeated"} ELSE {})]
       ELSE [a |-> [a EXCEPT !.lcur = ParentOf(e.b)],
             v |-> IF e.b # a.lcur THEN {"DisconnectIsCurrent"} ELSE {}]
  ELSE IF e.k = 1
  THEN LET rq == Required(a, e.b)
           got == Range(e.txs)
           ent == [b |-> e.b, txs |-> got,
                   learned |-> rq.learned \ WatchedOuts(a), owed |-> FALSE]
       IN  [a |-> [a EXCEPT !.cur = e.b, !.stack = Append(@, ent)],
            v |-> (IF ParentOf(e.b) # a.cur THEN {"ConnectIsChildOfCurrent"} ELSE {})
                  \cup (IF HeightOf(e.b) # HeightOf(a.cur) + 1
                        THEN {"NoBlockSkippedOrRepeated"} ELSE {})
                  \cup (IF ~(Range(rq.rel) \subseteq got)
                        THEN {"RelevantTxDelivered"} ELSE {})
                  \cup (IF SomeOwed(a) THEN {"RewindHonoured"} ELSE {})]
  ELSE LET n  == Len(a.stack)
           st == IF n > 0 /\ a.stack[n].b = e.b THEN SubSeq(a.stack, 1, n - 1)
                 ELSE <<>>
       IN  [a |-> [a EXCEPT !.cur = ParentOf(e.b), !.stack = st],
            v |-> IF e.b # a.cur THEN {"DisconnectIsCurrent"} ELSE {}]

RECURSIVE RunEvs(_, _, _, _)
RunEvs(a, evs, i, v) ==
  IF i > Len(evs) THEN [a |-> a, v |-> v]
  ELSE LET r == EvStep(a, evs[i]) IN RunEvs(r.a, evs, i + 1, v \cup r.v)

\* The caller's update u has been taken: its items are watched from now on,
\* and every block of the walk above the rewind height that was delivered
\* without a transaction the new items make relevant is owed a re-delivery.
TakeUpd(a, u) ==
  LET na == AddrsOf(Range(u.add))
      no == OutsOf(Range(u.add))
      lacks(ent) == \E j \in 1..Len(TxsOf(ent.b)) :
                      LET t == TxsOf(ent.b)[j]
                      IN  /\ t \notin ent.txs
                          /\ (Created(t, na) # {} \/ SpendsAny(t, no))
      mark(ent) == [ent EXCEPT !.owed = @ \/ (u.rw > 0 /\ HeightOf(ent.b) > u.rw
                                               /\ Late(ent.b) /\ lacks(ent))]
  IN  [a EXCEPT !.watch = @ \cup Range(u.add),
                !.stack = [i \in 1..Len(a.stack) |-> mark(a.stack[i])]]

RECURSIVE TakeAll(_, _, _)
TakeAll(a, us, i) == IF i > Len(us) THEN a ELSE TakeAll(TakeUpd(a, us[i]), us, i + 1)

\* Program order inside one step of the rescan goroutine: callbacks of the
\* block being processed come before the next receive from the update
\* channel, so the connected callbacks of a step are judged with the items
\* watched before it.
StepAll(a, act, o2) ==
  LET a1 == IF act.op = "SendUpd"
            THEN [a EXCEPT !.pend = Append(@, [add |-> act.add, rw |-> act.rw])]
            ELSE a
      r  == RunEvs(a1, o2.ev, 1, {})
      a2 == IF Len(r.a.pend) > 0 /\ o2.upd = 0
            THEN [TakeAll(r.a, r.a.pend, 1) EXCEPT !.pend = <<>>]
            ELSE r.a
  IN  [a |-> a2, v |-> r.v]

AbsNext(a, act, o2) == StepAll(a, act, o2).a

\* "... and miss no relevant tx": the driver's step Idle says that the rescan is
\* still running, sits idle in its select, has been handed every notification
\* and has no retry pending; act.add is the announced chain (genesis first).
\* If the block the caller was last told is current lies on that chain and a
\* block above it holds a transaction that is relevant to what the caller
\* watches, that transaction will never be delivered.
RECURSIVE MissesRelevant(_, _, _)
MissesRelevant(a, ch, i) ==
  IF i > Len(ch) THEN FALSE
  ELSE IF Len(Required(a, ch[i]).rel) > 0 THEN TRUE
  ELSE MissesRelevant(a, ch, i + 1)

IdleViol(a, act) ==
  IF act.op # "Idle" THEN {}
  ELSE LET ch == act.add
           on == {i \in 1..Len(ch) : ch[i] = a.cur}
       IN  IF on = {} \/ Len(a.pend) > 0 THEN {}
           ELSE LET i == CHOOSE j \in on : TRUE
                IN  IF MissesRelevant(a, ch, i + 1) THEN {"RelevantTxNeverDelivered"} ELSE {}

Viol(a, o, act, a2, o2) == StepAll(a, act, o2).v \cup IdleViol(a2, act)

EndViol(a, o) == {}
=============================================================================
