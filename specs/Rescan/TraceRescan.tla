----------------------------- MODULE TraceRescan -----------------------------
(***************************************************************************)
(* Trace validation, code -> specification: is every execution recorded on *)
(* the real rescan (free-running driver, real retry timer) a behaviour of  *)
(* Rescan.tla?                                                             *)
(*                                                                         *)
(* trace.ndjson holds many executions one after the other; a line is       *)
(*   {"t": execution id, "i": step number, "act": ..., "obs": ...}         *)
(* with i = 0 for the line that starts an execution (everything is reset). *)
(* Every other line must be ONE action of Rescan.tla whose label equals    *)
(* the logged action (operation, result, block, update) and after which    *)
(* the observable projection equals the logged one (callbacks delivered,   *)
(* chain-source call the goroutine is parked in, pending update, status).  *)
(* The logged fields resolve all nondeterminism of the specification, so   *)
(* the search is a line.  Acceptance: the high-water mark of the consumed  *)
(* line (register 1, written to hw.json) equals the length of the trace;   *)
(* otherwise the execution that contains that line is not a behaviour of   *)
(* the specification (reported as drift - the callbacks are judged by      *)
(* RescanProps all the same).                                              *)
(***************************************************************************)
EXTENDS Rescan, IOUtils

VARIABLE l

Trace == ndJsonDeserialize("trace.ndjson")

Reset ==
  /\ chain' = InitChain /\ fh' = InitFH
  /\ nq' = <<>> /\ subOn' = FALSE /\ upd' = <<>> /\ outbox' = <<>>
  /\ nExt' = 0 /\ nRb' = 0 /\ nFail' = 0 /\ nUpd' = 0 /\ nNotCur' = 0
  /\ pc' = "idle" /\ arg' = -1 /\ ctx' = "" /\ pb' = -1 /\ rwT' = 0
  /\ cur' = StartB /\ scanning' = FALSE /\ retryQ' = <<>>
  /\ wA' = AddrsOf(Range(InitWatch)) /\ wO' = OutsOf(Range(InitWatch))
  /\ st' = 0 /\ ev' = <<>>
  /\ abs' = AbsInit
  /\ act' = A("Init", "ok", -1)
  /\ viol' = {}

TInit == Init /\ l = 1 /\ TLCSet(1, 0)

TNext ==
  /\ l <= Len(Trace)
  /\ l' = l + 1
  /\ LET e == Trace[l]
     IN  IF e.i = 0 THEN Reset
         ELSE /\ Next
              /\ act' = e.act
              /\ Obs' = e.obs

HighWater == TLCSet(1, IF TLCGet(1) < l THEN l ELSE TLCGet(1))

Post == JsonSerialize("hw.json", [hw |-> TLCGet(1), n |-> Len(Trace)])
=============================================================================
