--------------------------- MODULE RescanUniverse ---------------------------
(***************************************************************************)
(* The finite block tree, its transactions and the caller's requests that  *)
(* one Rescan configuration ranges over.  This file is the DEFAULT (the    *)
(* "fork" universe of the quick tier); vlib/families/rescan.py writes the  *)
(* universe of the configuration it runs into the scratch copy of the      *)
(* specification (same operator names), and hands the same data to the Go  *)
(* driver, which manufactures real headers, transactions, blocks and GCS   *)
(* filters from it.                                                        *)
(*                                                                         *)
(* Blocks are 0..NB-1 (0 = genesis); sequences are indexed by id+1.        *)
(* Transactions are 1..NT.  A transaction has one input and one output:    *)
(*   TxPays[t]   address id its output 0 pays (0 = an address nobody       *)
(*               watches, unique to t)                                     *)
(*   TxSpends[t] outpoint id its input spends (0 = an outpoint nobody      *)
(*               watches, unique to t)                                     *)
(* Outpoint ids: t in 1..NT is output 0 of transaction t; NT+x is the      *)
(* x-th "external" outpoint (created before the walk), whose script is the *)
(* script of address ExtScript[x].                                         *)
(* Watch items are encoded as integers: address a as a, outpoint o as      *)
(* 100+o.                                                                  *)
(***************************************************************************)
EXTENDS Integers, Sequences

NB == 7
\*          0   1  2  3  4  5  6
Parent == <<-1, 0, 1, 2, 1, 4, 5>>
Height == << 0, 1, 2, 3, 2, 3, 4>>

NT == 4
TxPays    == <<1, 0, 2, 0>>
TxSpends  == <<0, 1, 0, 5>>
ExtScript == <<3>>

\* transactions of each block, in block order (coinbase not listed)
BlockTxs == << <<>>, <<>>, <<1, 3>>, <<2, 4>>, <<3>>, <<1, 2, 4>>, <<>> >>

StartB    == 0          \* the caller's start block (hash and height given)
StartT    == 1          \* blocks at height >= StartT are after the start time
InitWatch == <<1>>      \* WatchAddrs / WatchInputs given to NewRescan
InitChain == <<0, 1, 2>> \* header chain when the rescan is started
InitFH    == 2          \* height of the filter-header tip at that moment

\* the updates the caller may send: items added and rewind height (0 = none)
Updates == << [add |-> <<2, 105>>, rw |-> 1], [add |-> <<2, 105>>, rw |-> 0] >>
=============================================================================
