--------------------------- MODULE RescanUniverse ---------------------------
(***************************************************************************)
(* The finite block tree, its transactions and the caller's requests that  *)
(* one Rescan configuration ranges over.  This file is the DEFAULT (the    *)
(* "fork" universe of the quick tier); vlib/families/rescan.py writes the  *)
(* universe of the configuration it runs into the scratch copy of the      *)
(* specification (same operator names), and hands the same data to the Go  *)
(* driver, which manufactures real headers, transactions, blocks and GCS   *)
(* filters from it.                                                        *)
(*                                                                         *)
(* Blocks are 0..NB-1 (0 = genesis); sequences are indexed by id+1.        *)
(* Transactions are 1..NT (NT <= 9).  A transaction has inputs and outputs: *)
(*   TxOuts[t]   address id paid by each output, in order (0 = an address   *)
(*               nobody watches, unique to that output)                    *)
(*   TxIns[t]    outpoint id spent by each input (0 = an outpoint nobody   *)
(*               watches, unique to that input)                            *)
(* Outpoint ids: 10*t + j is output j (0-based) of transaction t; 1..9 are *)
(* "external" outpoints (created before the walk), x having the script of  *)
(* address ExtScript[x].  A transaction only spends outputs of             *)
(* transactions with a smaller id.                                         *)
(* Watch items are encoded as integers: address a (< 100) as a, outpoint o *)
(* as 100+o.                                                               *)
(***************************************************************************)
EXTENDS Integers, Sequences

NB == 7
\*          0   1  2  3  4  5  6
Parent == <<-1, 0, 1, 2, 1, 4, 5>>
Height == << 0, 1, 2, 3, 2, 3, 4>>

NT == 4
\* T1 pays the watched addresses 1 and 4, T2 spends T1's SECOND output,
\* T3 pays address 2, T4 spends the external outpoint 1 (script of address 3)
TxOuts    == << <<1, 4>>, <<0>>, <<2>>, <<0>> >>
TxIns     == << <<0>>, <<11>>, <<0>>, <<1>> >>
ExtScript == <<3>>

\* transactions of each block, in block order (coinbase not listed)
BlockTxs == << <<>>, <<>>, <<1, 3>>, <<2, 4>>, <<3>>, <<1, 2, 4>>, <<>> >>

StartB    == 0          \* the caller's start block (hash and height given)
StartT    == 1          \* blocks at height >= StartT are after the start time
InitWatch == <<1, 4>>   \* WatchAddrs / WatchInputs given to NewRescan
InitChain == <<0, 1, 2>> \* header chain when the rescan is started
InitFH    == 2          \* height of the filter-header tip at that moment

\* the updates the caller may send: items added and rewind height (0 = none)
Updates == << [add |-> <<2, 101>>, rw |-> 1], [add |-> <<2, 101>>, rw |-> 0] >>
=============================================================================
