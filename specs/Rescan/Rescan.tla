------------------------------- MODULE Rescan -------------------------------
(***************************************************************************)
(* Implementation-shaped model of neutrino's rescan (rescan.go:            *)
(* newRescanState, rescanState.rescan, waitForBlocks, notifyBlock,         *)
(* handleBlockConnected, handleBlockDisconnected, notifyBlockWithFilter,   *)
(* extractBlockMatches, updateFilter) running against a chain source       *)
(* (ChainSource interface; blockntfns.SubscriptionManager behind           *)
(* Subscribe).                                                             *)
(*                                                                         *)
(* The rescan is ONE goroutine.  It can only learn about the chain through *)
(* calls of the ChainSource interface and through its subscription, so the *)
(* model lets it run from the return of one such call to the next call (or *)
(* to a blocking select): ONE ACTION PER CHAIN-SOURCE INTERACTION.  `pc`    *)
(* says in which call (or select) the goroutine is parked; the environment *)
(* actions (Extend, AddFH, Rollback, SendUpd) are interleaved freely       *)
(* between any two of them - these are exactly the windows in which the    *)
(* chain can change under the rescan.                                      *)
(*                                                                         *)
(*   pc        code (rescan.go at the repaired tree)  ChainSource call      *)
(*   idle      before Rescan.Start                                         *)
(*   w1best    waitForBlocks #1, :799                BestBlock             *)
(*   w1sub     waitForBlocks #1, :813                Subscribe(best)       *)
(*   w1sel     waitForBlocks #1, :823                (select)              *)
(*   w2best, w2cur0 (:461 after :806), w2sub, w2sel, w2cur1 (:461 after    *)
(*             :845): the same for waitForBlocks #2 (IsCurrent predicate)  *)
(*   best      catch-up, :711 (after the drain :694) BestBlock             *)
(*   sub       catch-up, :729                        Subscribe(cur height) *)
(*   hdr       catch-up, :751                        GetBlockHeaderByHeight*)
(*   prev      catch-up, :764 -> :874 (repaired)     GetBlockHeader(parent)*)
(*   cf        :1229 (ctx c) / :1012 (ctx n, r)      GetCFilter            *)
(*   blk       :1045                                 GetBlock              *)
(*   fhh       :968                                  GetFilterHeaderByHeight*)
(*   rew       updateFilter :1310                    GetBlockHeader(parent)*)
(*   sel       current mode, :541                    (select)              *)
(*   done      the goroutine returned                                      *)
(* ctx: c = catching up, n = block from a notification (:591), r = block   *)
(* from the retry queue (:648); for rew: c = drain :697, u = select :549,  *)
(* w1 / w2 = waitForBlocks :855.                                           *)
(*                                                                         *)
(* Chain source: `chain` is the block-header chain (ids, genesis first),   *)
(* `fh` the height of the filter-header tip (BestBlock = the block at fh). *)
(* Header look-ups by hash succeed exactly for blocks on `chain` (the      *)
(* header store forgets stale blocks); GetBlock needs the header, so it    *)
(* fails for stale blocks; GetCFilter may still serve a stale block from   *)
(* its cache (StaleFilterOK).  Both may also fail on any call (MaxFail).   *)
(* Notifications: the subscription manager queues, per subscriber, the     *)
(* backlog by height at registration time and then every event; `nq` is    *)
(* the queue of the rescan's live subscription.  With SplitNotify a chain  *)
(* event first changes the stores and hands its notification to the        *)
(* manager in a second step (Emit; the block manager blocks in that send,  *)
(* so at most one notification is outstanding): a subscription registered  *)
(* in between finds the block in its backlog AND receives the live         *)
(* notification (duplicate), or receives a Disconnected for a block it     *)
(* never saw.                                                              *)
(*                                                                         *)
(* The 100 ms retry timer (blockRetrySignal) is pending exactly while the  *)
(* retry queue is not empty and the rescan sits in its select (a timer     *)
(* pending over an empty queue has no effect when it fires), so it needs   *)
(* no variable: Retry is enabled when retryQ # <<>>.                       *)
(*                                                                         *)
(* Code-version switch: FixCatchupReorg = the catch-up loop checks that    *)
(* the header fetched by height is a child of the current block and        *)
(* otherwise disconnects the current block and steps back to its parent.   *)
(***************************************************************************)
EXTENDS Integers, Sequences, FiniteSets, TLC, Json, RescanProps

CONSTANTS MaxExt,        \* blocks the chain may gain
          MaxRb,         \* blocks the chain may lose
          MaxFail,       \* injected GetCFilter / GetBlock failures
          MaxUpd,        \* updates the caller sends
          MaxNotCur,     \* IsCurrent() = false answers
          Lag,           \* filter headers may trail block headers
          StaleFilterOK, \* GetCFilter may serve a block that left the chain
          WithQuit,      \* the caller may close the quit channel
          SplitNotify,   \* a chain event and its notification are two steps
          FixCatchupReorg

VARIABLES chain, fh, nq, subOn, upd,
          outbox, \* the notification of the last chain event, not yet handed to the manager
          nExt, nRb, nFail, nUpd, nNotCur,
          pc, arg, ctx, pb, rwT, cur, scanning, retryQ, wA, wO, st,
          ev,    \* label: callbacks delivered by the last action
          abs, act, viol

rvars == <<pc, arg, ctx, pb, rwT, cur, scanning, retryQ, wA, wO, st, ev, upd, nq, subOn>>
vars  == <<chain, fh, nq, subOn, upd, outbox, nExt, nRb, nFail, nUpd, nNotCur,
           pc, arg, ctx, pb, rwT, cur, scanning, retryQ, wA, wO, st, ev, abs, act, viol>>

----------------------------------------------------------------------------
TipH       == Len(chain) - 1
OnChain(b) == \E i \in 1..Len(chain) : chain[i] = b

\* Everything the rescan goroutine reads or writes while it runs, as a record
\* (ev starts empty in every action).
R == [pc |-> pc, arg |-> arg, ctx |-> ctx, pb |-> pb, rwT |-> rwT, cur |-> cur,
      scanning |-> scanning, retryQ |-> retryQ, wA |-> wA, wO |-> wO, st |-> st,
      ev |-> <<>>, upd |-> upd, nq |-> nq, subOn |-> subOn]

SetR(r) ==
  /\ pc' = r.pc /\ arg' = r.arg /\ ctx' = r.ctx /\ pb' = r.pb /\ rwT' = r.rwT
  /\ cur' = r.cur /\ scanning' = r.scanning /\ retryQ' = r.retryQ
  /\ wA' = r.wA /\ wO' = r.wO /\ st' = r.st /\ ev' = r.ev /\ upd' = r.upd
  /\ nq' = r.nq /\ subOn' = r.subOn

E(k, s, b, txs) == [k |-> k, s |-> s, b |-> b, h |-> HeightOf(b), txs |-> txs]
\* notifyBlock :934 / handleBlockConnected :992 / notifyBlockWithFilter :1184
EmitConn(r, b, txs) == [r EXCEPT !.ev = @ \o <<E(1, 1, b, txs), E(1, 2, b, <<>>)>>]
\* handleBlockDisconnected :1134, disconnectStaleBlock :886 (filtered first)
EmitDiscN(r, b) == [r EXCEPT !.ev = @ \o <<E(2, 1, b, <<>>), E(2, 2, b, <<>>)>>]
\* updateFilter :1288 (legacy first)
EmitDiscU(r, b) == [r EXCEPT !.ev = @ \o <<E(2, 2, b, <<>>), E(2, 1, b, <<>>)>>]

Gate(r, p, a, c) == [r EXCEPT !.pc = p, !.arg = a, !.ctx = c]
Done(r, s) == [r EXCEPT !.pc = "done", !.arg = -1, !.ctx = "", !.st = s,
                        !.subOn = FALSE, !.nq = <<>>]
CancelSub(r) == [r EXCEPT !.subOn = FALSE, !.nq = <<>>]

WatchEmpty(r) == r.wA = {} /\ r.wO = {}

\* matchBlockFilter: the block's filter holds every output script and every
\* spent previous-output script; the watch list holds the scripts of the
\* watched addresses and of the watched outpoints.
Match(r, b) ==
  LET ws == r.wA \cup {OutScript(o) : o \in r.wO}
      txs == TxsOf(b)
  IN  \E i \in 1..Len(txs) :
        LET t == txs[i]
        IN  \/ \E k \in 1..Len(TxOuts[t]) : TxOuts[t][k] # 0 /\ TxOuts[t][k] \in ws
            \/ \E k \in 1..Len(TxIns[t]) : /\ TxIns[t][k] # 0
                                            /\ OutScript(TxIns[t][k]) # 0
                                            /\ OutScript(TxIns[t][k]) \in ws

----------------------------------------------------------------------------
\* updateFilter :1252.  Returns [r, rew]: rew = the goroutine is now parked in
\* GetBlockHeader of the rewind loop.
RewindStep(r, c) == Gate(EmitDiscU(r, r.cur), "rew", ParentOf(r.cur), c)

ApplyUpd(r, c) ==
  LET u  == r.upd[1]
      r1 == [r EXCEPT !.upd = <<>>, !.rwT = u.rw,
                      !.wA = @ \cup AddrsOf(Range(u.add)),
                      !.wO = @ \cup OutsOf(Range(u.add))]
  IN  IF u.rw > 0 /\ HeightOf(r1.cur) > u.rw
      THEN [r |-> RewindStep(r1, c), rew |-> TRUE]
      ELSE [r |-> r1, rew |-> FALSE]

\* Top of rescanLoop with current = false: drain the update channel (:694),
\* then BestBlock (:711).
ToCatchupTop(r) ==
  IF Len(r.upd) > 0
  THEN LET x == ApplyUpd(r, "c") IN IF x.rew THEN x.r ELSE Gate(x.r, "best", -1, "")
  ELSE Gate(r, "best", -1, "")

\* current := false out of current mode (:616, :682, :569).  Nobody reads the
\* old subscription any more; it is cancelled at the latest at :725.
GoCatchup(r) == ToCatchupTop(CancelSub(r))

\* Top of rescanLoop with current = true: the select (:541).  An update that
\* is already waiting in the channel is taken at once.
EnterSel(r) ==
  IF Len(r.upd) > 0
  THEN LET x == ApplyUpd(r, "u") IN IF x.rew THEN x.r ELSE Gate(x.r, "sel", -1, "")
  ELSE Gate(r, "sel", -1, "")

\* The select of waitForBlocks (:823); updates are applied at :855.
EnterWSel(r, k) ==
  LET p == IF k = 1 THEN "w1sel" ELSE "w2sel"
      c == IF k = 1 THEN "w1" ELSE "w2"
  IN  IF Len(r.upd) > 0
      THEN LET x == ApplyUpd(r, c) IN IF x.rew THEN x.r ELSE Gate(x.r, p, -1, "")
      ELSE Gate(r, p, -1, "")

\* GetBlockHeader(&curHeader.PrevBlock) of the rewind loop returned (:1310).
AfterRew(r, ok) ==
  IF ~ok THEN Done(r, 2)
  ELSE LET r1 == [r EXCEPT !.cur = r.arg]
       IN  IF HeightOf(r1.cur) > r1.rwT THEN RewindStep(r1, r.ctx)
           ELSE CASE r.ctx = "c"  -> ToCatchupTop(r1)
                  [] r.ctx = "u"  -> GoCatchup(r1)
                  [] r.ctx = "w1" -> EnterWSel(r1, 1)
                  [] OTHER        -> EnterWSel(r1, 2)

\* After waitForBlocks (:489)
StartMain(r) == ToCatchupTop([r EXCEPT !.scanning = Late(r.cur)])

\* handleBlockConnected :950 up to its first chain-source call
HBC(r, b, c) ==
  IF ParentOf(b) # r.cur THEN GoCatchup(r)
  ELSE Gate([r EXCEPT !.pb = b], "fhh", HeightOf(r.cur) + 1, c)

\* handleBlockConnected returned nil
Success(r, c) ==
  IF c = "n" THEN EnterSel(r)
  ELSE LET r1 == [r EXCEPT !.retryQ = Tail(@)]
       IN  IF r1.retryQ = <<>> THEN EnterSel(r1)
           ELSE HBC(r1, Head(r1.retryQ), "r")

AfterFhh(r, ok) ==
  IF ~ok THEN GoCatchup(r)
  ELSE LET b  == r.pb
           r1 == [r EXCEPT !.scanning = @ \/ Late(b)]
       IN  IF ~r1.scanning \/ WatchEmpty(r1)
           THEN Success([EmitConn(r1, b, <<>>) EXCEPT !.cur = b], r.ctx)
           ELSE Gate(r1, "cf", b, r.ctx)

AfterCf(r, ok) ==
  LET b == r.arg
      c == r.ctx
  IN  IF c = "c"
      THEN IF ~ok THEN Done(r, 2)
           ELSE IF Match(r, b) THEN Gate(r, "blk", b, c)
           ELSE ToCatchupTop(EmitConn(r, b, <<>>))
      ELSE IF ~ok
           THEN IF c = "n" THEN EnterSel([r EXCEPT !.retryQ = Append(@, b)])
                ELSE EnterSel(r)
           ELSE IF Match(r, b) THEN Gate(r, "blk", b, c)
           ELSE Success([EmitConn(r, b, <<>>) EXCEPT !.cur = b], c)

\* extractBlockMatches :1039
AfterBlk(r, ok) ==
  LET b == r.arg
      c == r.ctx
  IN  IF ~ok THEN (IF c = "c" THEN Done(r, 2) ELSE GoCatchup(r))
      ELSE LET s  == ScanTxs(TxsOf(b), 1, r.wA, r.wO, <<>>)
               r1 == EmitConn([r EXCEPT !.wO = s.learned], b, s.rel)
           IN  IF c = "c" THEN ToCatchupTop(r1)
               ELSE Success([r1 EXCEPT !.cur = b], c)

\* catch-up: header of the next height fetched (:774), notifyBlock (:905)
NotifyCatchup(r, b) ==
  LET r1 == [r EXCEPT !.cur = b, !.scanning = @ \/ Late(b)]
  IN  IF ~WatchEmpty(r1) /\ r1.scanning THEN Gate(r1, "cf", b, "c")
      ELSE ToCatchupTop(EmitConn(r1, b, <<>>))

Backlog(h) ==   \* blockManager.NotificationsSinceHeight
  IF h = 0 \/ h >= fh THEN <<>>
  ELSE [i \in 1..(fh - h) |-> [k |-> 1, b |-> chain[h + i + 1]]]

\* blockRetryQueue.remove
RemoveFrom(q, b) ==
  IF \E i \in 1..Len(q) : q[i] = b
  THEN SubSeq(q, 1, (CHOOSE i \in 1..Len(q) : q[i] = b /\ \A j \in 1..(i-1) : q[j] # b) - 1)
  ELSE q

----------------------------------------------------------------------------
A(op, res, b) == [op |-> op, res |-> res, b |-> b, add |-> <<>>, rw |-> 0]

AtOf(p) ==
  CASE p \in {"w1best", "w2best", "best"} -> "Best"
    [] p \in {"w1sub", "w2sub", "sub"}    -> "Sub"
    [] p \in {"w2cur0", "w2cur1"}         -> "IsCur"
    [] p = "hdr"                          -> "HdrH"
    [] p \in {"rew", "prev"}              -> "Hdr"
    [] p = "cf"                           -> "CF"
    [] p = "blk"                          -> "Blk"
    [] p = "fhh"                          -> "FHH"
    [] p \in {"sel", "w1sel", "w2sel"}    -> "sel"
    [] OTHER                              -> p

Obs == [ev |-> ev, st |-> st, upd |-> Len(upd), at |-> AtOf(pc), arg |-> arg]

Finish(a) ==
  /\ act'  = a
  /\ abs'  = AbsNext(abs, a, Obs')
  /\ viol' = Viol(abs, Obs, a, abs', Obs')

UnchEnv == UNCHANGED <<chain, fh, outbox, nExt, nRb, nUpd>>

----------------------------------------------------------------------------
\* Rescan.Start -> newRescanState (:317; the start block is looked up by hash
\* and is on the chain) -> rescan -> waitForBlocks #1
Start ==
  /\ pc = "idle"
  /\ SetR(Gate(R, "w1best", -1, ""))
  /\ UnchEnv /\ UNCHANGED <<nFail, nNotCur>>
  /\ Finish(A("Start", "ok", cur))

RelBest ==
  /\ pc \in {"w1best", "w2best", "best"}
  /\ SetR(CASE pc = "w1best" -> IF fh >= HeightOf(cur) THEN Gate(R, "w2best", -1, "")
                                ELSE Gate(R, "w1sub", fh, "")
            [] pc = "w2best" -> Gate([R EXCEPT !.pb = fh], "w2cur0", -1, "")
            [] OTHER -> IF HeightOf(cur) + 1 > fh THEN Gate(R, "sub", HeightOf(cur), "")
                        ELSE Gate(R, "hdr", HeightOf(cur) + 1, ""))
  /\ UnchEnv /\ UNCHANGED <<nFail, nNotCur>>
  /\ Finish(A("Best", "ok", chain[fh + 1]))

RelIsCur(ans) ==
  /\ pc \in {"w2cur0", "w2cur1"}
  /\ ans \/ nNotCur < MaxNotCur
  /\ nNotCur' = IF ans THEN nNotCur ELSE nNotCur + 1
  /\ SetR(IF pc = "w2cur0"
          THEN IF ans THEN StartMain(R) ELSE Gate(R, "w2sub", pb, "")
          ELSE IF ans THEN StartMain(CancelSub(R)) ELSE EnterWSel(R, 2))
  /\ UnchEnv /\ UNCHANGED nFail
  /\ Finish(A("IsCur", IF ans THEN "true" ELSE "false", -1))

\* Subscribe(h) -> SubscriptionManager.NewSubscription(h)
RelSub ==
  /\ pc \in {"w1sub", "w2sub", "sub"}
  /\ LET h  == arg
         r1 == [R EXCEPT !.subOn = TRUE, !.nq = Backlog(h)]
     IN  /\ SetR(IF h > fh THEN Done(R, 2)
                 ELSE CASE pc = "w1sub" -> EnterWSel(r1, 1)
                        [] pc = "w2sub" -> EnterWSel(r1, 2)
                        [] OTHER -> EnterSel([r1 EXCEPT !.retryQ = <<>>]))
         /\ Finish(A("Sub", IF h > fh THEN "err" ELSE "ok", h))
  /\ UnchEnv /\ UNCHANGED <<nFail, nNotCur>>

RelHdr ==
  /\ pc = "hdr"
  /\ LET h == arg
     IN  IF h > TipH
         THEN /\ SetR(Done(R, 2))
              /\ Finish(A("HdrH", "err", -1))
         ELSE LET b == chain[h + 1]
              IN  /\ SetR(IF FixCatchupReorg /\ ParentOf(b) # cur
                          THEN Gate(R, "prev", ParentOf(cur), "")
                          ELSE NotifyCatchup(R, b))
                  /\ Finish(A("HdrH", "ok", b))
  /\ UnchEnv /\ UNCHANGED <<nFail, nNotCur>>

\* repaired code: the current block left the chain while catching up
RelPrev ==
  /\ pc = "prev"
  /\ SetR(IF OnChain(arg) THEN ToCatchupTop([EmitDiscN(R, cur) EXCEPT !.cur = arg])
          ELSE Done(R, 2))
  /\ UnchEnv /\ UNCHANGED <<nFail, nNotCur>>
  /\ Finish(A("Hdr", IF OnChain(arg) THEN "ok" ELSE "err", arg))

RelRew ==
  /\ pc = "rew"
  /\ SetR(AfterRew(R, OnChain(arg)))
  /\ UnchEnv /\ UNCHANGED <<nFail, nNotCur>>
  /\ Finish(A("Hdr", IF OnChain(arg) THEN "ok" ELSE "err", arg))

RelFhh ==
  /\ pc = "fhh"
  /\ SetR(AfterFhh(R, arg <= fh))
  /\ UnchEnv /\ UNCHANGED <<nFail, nNotCur>>
  /\ Finish(A("FHH", IF arg <= fh THEN "ok" ELSE "err", arg))

RelCf(ok) ==
  /\ pc = "cf"
  /\ IF OnChain(arg) THEN ok \/ nFail < MaxFail
                     ELSE ~ok \/ StaleFilterOK
  /\ nFail' = IF OnChain(arg) /\ ~ok THEN nFail + 1 ELSE nFail
  /\ SetR(AfterCf(R, ok))
  /\ UnchEnv /\ UNCHANGED nNotCur
  /\ Finish(A("CF", IF ok THEN "ok" ELSE "fail", arg))

RelBlk(ok) ==
  /\ pc = "blk"
  /\ IF OnChain(arg) THEN ok \/ nFail < MaxFail ELSE ~ok
  /\ nFail' = IF OnChain(arg) /\ ~ok THEN nFail + 1 ELSE nFail
  /\ SetR(AfterBlk(R, ok))
  /\ UnchEnv /\ UNCHANGED nNotCur
  /\ Finish(A("Blk", IF ok THEN "ok" ELSE "fail", arg))

\* the rescan receives the next notification of its subscription
Ntfn ==
  /\ pc \in {"sel", "w1sel", "w2sel"} /\ Len(nq) > 0
  /\ LET n  == Head(nq)
         b  == n.b
         r0 == [R EXCEPT !.nq = Tail(@)]
     IN  /\ SetR(
              CASE pc = "sel" ->
                     IF n.k = 1
                     THEN IF r0.retryQ # <<>> THEN [r0 EXCEPT !.retryQ = Append(@, b)]
                          ELSE HBC(r0, b, "n")
                     ELSE LET r1 == [r0 EXCEPT !.retryQ = RemoveFrom(@, b)]
                          IN  IF b = r1.cur
                              THEN [EmitDiscN(r1, b) EXCEPT !.cur = ParentOf(b)]
                              ELSE r1
                [] pc = "w1sel" ->
                     IF n.k = 1 /\ HeightOf(b) >= HeightOf(r0.cur)
                     THEN Gate(CancelSub(r0), "w2best", -1, "")
                     ELSE r0
                [] OTHER ->
                     IF n.k = 1 THEN Gate(r0, "w2cur1", -1, "") ELSE r0)
         /\ Finish(A("Ntfn", IF n.k = 1 THEN "conn" ELSE "disc", b))
  /\ UnchEnv /\ UNCHANGED <<nFail, nNotCur>>

\* blockRetrySignal fires (:636)
Retry ==
  /\ pc = "sel" /\ retryQ # <<>>
  /\ SetR(HBC(R, Head(retryQ), "r"))
  /\ UnchEnv /\ UNCHANGED <<nFail, nNotCur>>
  /\ Finish(A("Retry", "ok", -1))

Quit ==
  /\ WithQuit /\ pc \in {"sel", "w1sel", "w2sel"}
  /\ SetR(Done(R, 1))
  /\ UnchEnv /\ UNCHANGED <<nFail, nNotCur>>
  /\ Finish(A("Quit", "ok", -1))

Running == st = 0 /\ pc # "idle"

\* Rescan.Update: the update waits in the channel until the rescan receives
\* from it; in a select that is at once.
SendUpd(i) ==
  /\ Running /\ Len(upd) = 0 /\ nUpd < MaxUpd
  /\ nUpd' = nUpd + 1
  /\ LET u  == Updates[i]
         r0 == [R EXCEPT !.upd = <<u>>]
     IN  /\ SetR(CASE pc = "sel"   -> EnterSel(r0)
                   [] pc = "w1sel" -> EnterWSel(r0, 1)
                   [] pc = "w2sel" -> EnterWSel(r0, 2)
                   [] OTHER        -> r0)
         /\ Finish([op |-> "SendUpd", res |-> "ok", b |-> -1, add |-> u.add, rw |-> u.rw])
  /\ UNCHANGED <<chain, fh, outbox, nExt, nRb, nFail, nNotCur>>

\* ---- chain growth and reorganisation (one block per step) ----
Notify(n) == IF subOn THEN Append(nq, n) ELSE nq

UnchRescan == UNCHANGED <<pc, arg, ctx, pb, rwT, cur, scanning, retryQ, wA, wO, st, upd, subOn>>

\* a chain event's notification: delivered to the manager at once, or kept
\* for a separate Emit step
PostNtfn(n) == IF SplitNotify THEN outbox' = <<n>> /\ nq' = nq
                          ELSE outbox' = outbox /\ nq' = Notify(n)

Extend(b) ==
  /\ Running /\ nExt < MaxExt /\ outbox = <<>>
  /\ b \in Blocks /\ ParentOf(b) = chain[Len(chain)]
  /\ Lag \/ fh = TipH
  /\ chain' = Append(chain, b)
  /\ nExt' = nExt + 1
  /\ IF Lag THEN fh' = fh /\ nq' = nq /\ outbox' = outbox
            ELSE fh' = fh + 1 /\ PostNtfn([k |-> 1, b |-> b])
  /\ ev' = <<>> /\ UnchRescan /\ UNCHANGED <<nRb, nFail, nUpd, nNotCur>>
  /\ Finish(A("Extend", "ok", b))

AddFH ==
  /\ Running /\ Lag /\ fh < TipH /\ outbox = <<>>
  /\ fh' = fh + 1
  /\ PostNtfn([k |-> 1, b |-> chain[fh + 2]])
  /\ ev' = <<>> /\ UnchRescan /\ UNCHANGED <<chain, nExt, nRb, nFail, nUpd, nNotCur>>
  /\ Finish(A("AddFH", "ok", chain[fh + 2]))

Rollback ==
  /\ Running /\ nRb < MaxRb /\ Len(chain) > 1 /\ outbox = <<>>
  /\ nRb' = nRb + 1
  /\ ev' = <<>> /\ UnchRescan /\ UNCHANGED <<nExt, nFail, nUpd, nNotCur>>
  /\ LET b == chain[Len(chain)]
     IN  /\ chain' = SubSeq(chain, 1, Len(chain) - 1)
         /\ fh' = IF fh = TipH THEN fh - 1 ELSE fh
         /\ PostNtfn([k |-> 2, b |-> b])
         /\ Finish(A("Rollback", "ok", b))

\* the block manager's send to the subscription manager is taken
Emit ==
  /\ Running /\ outbox # <<>>
  /\ nq' = Notify(outbox[1])
  /\ outbox' = <<>>
  /\ ev' = <<>> /\ UnchRescan /\ UNCHANGED <<chain, fh, nExt, nRb, nFail, nUpd, nNotCur>>
  /\ Finish(A("Emit", IF outbox[1].k = 1 THEN "conn" ELSE "disc", outbox[1].b))

----------------------------------------------------------------------------
Init ==
  /\ chain = InitChain /\ fh = InitFH
  /\ nq = <<>> /\ subOn = FALSE /\ upd = <<>> /\ outbox = <<>>
  /\ nExt = 0 /\ nRb = 0 /\ nFail = 0 /\ nUpd = 0 /\ nNotCur = 0
  /\ pc = "idle" /\ arg = -1 /\ ctx = "" /\ pb = -1 /\ rwT = 0
  /\ cur = StartB /\ scanning = FALSE /\ retryQ = <<>>
  /\ wA = AddrsOf(Range(InitWatch)) /\ wO = OutsOf(Range(InitWatch))
  /\ st = 0 /\ ev = <<>>
  /\ abs = AbsInit
  /\ act = A("Init", "ok", -1)
  /\ viol = {}

Next ==
  \/ Start \/ RelBest \/ RelSub \/ RelHdr \/ RelPrev \/ RelRew \/ RelFhh
  \/ \E ans \in BOOLEAN : RelIsCur(ans)
  \/ \E ok \in BOOLEAN : RelCf(ok)
  \/ \E ok \in BOOLEAN : RelBlk(ok)
  \/ Ntfn \/ Retry \/ Quit
  \/ \E i \in 1..Len(Updates) : SendUpd(i)
  \/ \E b \in Blocks : Extend(b)
  \/ AddFH \/ Rollback \/ Emit

Spec == Init /\ [][Next]_vars

----------------------------------------------------------------------------
TypeOK ==
  /\ fh >= 0 /\ fh <= TipH /\ Len(chain) >= 1
  /\ cur \in Blocks /\ st \in {0, 1, 2}
  /\ Len(upd) <= 1 /\ Len(outbox) <= 1
  /\ (pc = "sel" => Len(upd) = 0)

\* C09 on the model (an invariant only for repaired code; otherwise the
\* violating transitions are exported and replayed on the real rescan)
NoViolation == viol = {}

State == [chain |-> chain, fh |-> fh, nq |-> nq, subOn |-> subOn, upd |-> upd, outbox |-> outbox,
          n |-> <<nExt, nRb, nFail, nUpd, nNotCur>>,
          pc |-> pc, arg |-> arg, ctx |-> ctx, pb |-> pb, rwT |-> rwT, cur |-> cur,
          scanning |-> scanning, retryQ |-> retryQ, wA |-> wA, wO |-> wO, st |-> st,
          abs |-> abs]
View == <<chain, fh, nq, subOn, upd, outbox, nExt, nRb, nFail, nUpd, nNotCur,
          pc, arg, ctx, pb, rwT, cur, scanning, retryQ, wA, wO, st, abs>>
=============================================================================
