-------------------------- MODULE BlockManagerProps --------------------------
(***************************************************************************)
(* Properties C01 (stored chain always valid, lookups agree), C02 (reorg   *)
(* only to a strictly heavier valid branch above the last checkpoint;      *)
(* completeness; work monotone) and C19 (emitted events mirror how the     *)
(* committed chain changed; backlog exactness), over OBSERVABLES only.     *)
(*                                                                         *)
(* Universe.tla (generated from the same JSON the Go driver mines its      *)
(* concrete headers from) gives, for header ids 0..NIds-1 (0 = genesis):   *)
(*   ParentOf, HeightOf, WorkOf, ValidH (passes every context-free and     *)
(*   contextual rule given its true ancestors), CpHeights, CpId(h).        *)
(* All sequences indexed by id are indexed id+1.                           *)
(*                                                                         *)
(* obs = [b |-> [tip |-> <<id,h>>, byH, hOf, byHash],   block-header store *)
(*        f |-> [tip |-> <<id,h>>, byH],   filter-header store (by block)  *)
(*        ev |-> events emitted by the step:                               *)
(*               <<kind,id,h,newTip,seenFTip,seenBacklogTip>>              *)
(*               kind 1 = connected, 2 = disconnected                      *)
(*        bl |-> bl[k] = NotificationsSinceHeight(k) as ids, <<ERR>> on err*)
(*        sync |-> index of the sync peer or 0, cur |-> 1 if "current",    *)
(*        disc |-> per peer: disconnect requested,                         *)
(*        gh |-> per peer: <<>> or <<first locator id, stop id>> of the    *)
(*               last getheaders the step pushed to it (conformance only:  *)
(*               no clause reads it)]                                      *)
(* act = [op, p, batch, k, res, nf]                                        *)
(*   Headers: k = 0 plain; 1 = the driver made the batch write fail;       *)
(*   10 + c = the process died after c store mutations; 20 + j / 30 + j =  *)
(*   the driver made the j-th RollbackLastBlock call of the message on the *)
(*   block-header / filter-header store fail.                              *)
(*   WriteCF: p = 0 plain; 40 + j = the driver armed the j-th FetchHeader /*)
(*   FetchHeaderAncestors call of the step on the block-header store to    *)
(*   fail (res = "err" if the step made that call and returned its error). *)
(* C04 (slice): SyncPeerIsConnected - the sync peer the client reports is  *)
(*   none or a peer that is connected by the environment's own             *)
(*   NewPeer/DonePeer steps (abs.conn).                                    *)
(***************************************************************************)
EXTENDS Integers, Sequences, FiniteSets, Universe

NF  == -1
G   == -2
ERR == -3

Par(i)   == IF i >= 0 /\ i < NIds THEN ParentOf[i + 1] ELSE -5
Hgt(i)   == HeightOf[i + 1]
Wrk(i)   == WorkOf[i + 1]
Vld(i)   == i >= 0 /\ i < NIds /\ ValidH[i + 1]

RECURSIVE SumWork(_)
SumWork(s) == IF s = <<>> THEN 0 ELSE Wrk(Head(s)) + SumWork(Tail(s))

InSeq(s, x) == \E i \in 1..Len(s) : s[i] = x

Readable(o) ==
  /\ o.b.tip[1] >= 0 /\ o.b.tip[2] >= 0
  /\ o.b.tip[2] + 1 <= Len(o.b.byH)
  /\ \A i \in 1..(o.b.tip[2] + 1) : o.b.byH[i] >= 0

Chain(o) == SubSeq(o.b.byH, 1, o.b.tip[2] + 1)

\* newest checkpoint height the chain of tip height th has reached (0 if none)
LastCpReached(th) ==
  LET S == {h \in CpHeights : h <= th}
  IN  IF S = {} THEN 0 ELSE CHOOSE h \in S : \A g \in S : g <= h

ChainValidP(C) ==
  /\ C[1] = 0
  /\ \A i \in 2..Len(C) :
        /\ Vld(C[i])
        /\ Par(C[i]) = C[i - 1]
        /\ ((i - 1) \in CpHeights => C[i] = CpId(i - 1))

LookupsAgreeP(o) ==
  LET C == Chain(o)
  IN  /\ o.b.tip[1] = C[Len(C)]
      /\ \A h \in 1..Len(o.b.byH) : h > Len(C) => o.b.byH[h] = NF
      /\ \A i \in 1..NIds :
            IF InSeq(C, i - 1)
            THEN /\ o.b.hOf[i] = (CHOOSE k \in 1..Len(C) : C[k] = i - 1) - 1
                 /\ o.b.byHash[i] = i - 1
            ELSE /\ o.b.hOf[i] = NF
                 /\ o.b.byHash[i] = NF

\* length of the longest common prefix of two chains that both start with 0
RECURSIVE CommonLen(_, _, _)
CommonLen(A, B, n) ==
  IF n < Len(A) /\ n < Len(B) /\ A[n + 1] = B[n + 1]
  THEN CommonLen(A, B, n + 1) ELSE n

ConnectedBatch(b) == \A i \in 2..Len(b) : Par(b[i]) = b[i - 1]

FullyValidBatch(b) ==
  /\ b # <<>> /\ ConnectedBatch(b)
  /\ \A i \in 1..Len(b) :
        /\ Vld(b[i])
        /\ (Hgt(b[i]) \in CpHeights => b[i] = CpId(Hgt(b[i])))

FailsCheckpoint(b) ==
  \E i \in 1..Len(b) : b[i] >= 0 /\ b[i] < NIds /\ Hgt(b[i]) \in CpHeights
                        /\ b[i] # CpId(Hgt(b[i]))

----------------------------------------------------------------------------
\* abs.conn: the peers that are connected, by the environment's own steps alone
\* (NewPeer / DonePeer; a restart of the process drops every connection)
AbsInit == [n |-> 0, conn |-> {}]
AbsNext(a, act, o2) ==
  [n |-> a.n + 1,
   conn |-> IF act.op = "NewPeer" THEN a.conn \cup {act.p}
            ELSE IF act.op = "DonePeer" THEN a.conn \ {act.p}
            ELSE IF act.op \in {"Restart", "Recover"} THEN {}
            ELSE a.conn]

\* A step in which the driver itself made a store call fail (I/O fault).
Faulted(act) == act.op = "Headers" /\ (act.k = 1 \/ act.k >= 20)

C01Viol(o2) ==
  IF ~Readable(o2) THEN {"StoreReadable"}
  ELSE (IF ChainValidP(Chain(o2)) THEN {} ELSE {"ChainValid"})
       \cup (IF LookupsAgreeP(o2) THEN {} ELSE {"LookupsAgree"})

C02Viol(o, act, o2) ==
  IF ~Readable(o) \/ ~Readable(o2) THEN {}
  ELSE
  LET C   == Chain(o)
      C2  == Chain(o2)
      n   == CommonLen(C, C2, 0)
      rem == SubSeq(C, n + 1, Len(C))
      add == SubSeq(C2, n + 1, Len(C2))
      f   == n - 1                       \* fork height
      th  == Len(C) - 1
      b0  == act.batch
      \* a message may start with headers the client already has (locator
      \* overlap); what it offers is the part after them
      RECURSIVE Known(_)
      Known(k) == IF k < Len(b0) /\ InSeq(C, b0[k + 1]) THEN Known(k + 1) ELSE k
      nb  == SubSeq(b0, Known(0) + 1, Len(b0))
      b   == b0
      listened == o.sync = act.p \/ o.cur = 1
      \* act.k = 1: the store reported an I/O error for the batch write
      ext == /\ act.op = "Headers" /\ act.k = 0 /\ FullyValidBatch(b) /\ nb # <<>>
             /\ Par(nb[1]) = C[Len(C)]
      hv  == /\ act.op = "Headers" /\ act.k = 0 /\ FullyValidBatch(b) /\ nb # <<>>
             /\ \E g \in 0..(th - 1) :
                   /\ C[g + 1] = Par(nb[1]) /\ g >= LastCpReached(th)
                   /\ SumWork(nb) > SumWork(SubSeq(C, g + 2, Len(C)))
      hvExpected == LET g == CHOOSE g \in 0..(th - 1) : C[g + 1] = Par(nb[1])
                    IN  SubSeq(C, 1, g + 1) \o nb
  IN
  (IF C # C2 /\ act.op \notin {"Headers", "ImportReset"} THEN {"StoreChangedWithoutHeaders"} ELSE {})
  \cup (IF act.op \in {"Headers", "ImportReset"} /\ \E i \in 1..Len(add) : ~InSeq(b, add[i])
        THEN {"AdoptedNotFromBatch"} ELSE {})
  \cup (IF rem # <<>> /\ add # <<>> /\ f < LastCpReached(th)
        THEN {"ReorgBelowCheckpoint"} ELSE {})
  \* the competing branch is what the peer offered from the first adopted
  \* header on (the client may adopt only a prefix of it in this step, e.g. up
  \* to a checkpoint; WorkDecreased below guards what is actually stored)
  \cup (IF rem # <<>> /\ add # <<>> /\ InSeq(b, add[1])
           /\ LET i == CHOOSE k \in 1..Len(b) : b[k] = add[1]
              IN  SumWork(SubSeq(b, i, Len(b))) <= SumWork(rem)
        THEN {"ReorgNotHeavier"} ELSE {})
  \* C02 quantifies over inputs and histories, not over I/O faults: a step in
  \* which the driver made a store call fail (Faulted: the batch write, or one
  \* of the per-block rollback calls; faults / thorough tiers) may leave a
  \* reorganisation half done (old branch removed in part or in full, new branch
  \* not written or only in part); what must hold there is C01 (the stored chain is valid) and
  \* the clauses above (nothing foreign, nothing below a checkpoint, nothing
  \* lighter OFFERED), not "never less work".
  \cup (IF rem # <<>> /\ add = <<>> /\ ~(act.op = "Headers" /\ (FailsCheckpoint(b) \/ Faulted(act)))
        THEN {"IllegalTruncation"} ELSE {})
  \cup (IF SumWork(C2) < SumWork(C) /\ ~(act.op = "Headers" /\ (FailsCheckpoint(b) \/ Faulted(act)))
        THEN {"WorkDecreased"} ELSE {})
  \cup (IF ext /\ listened /\ C2 # C \o nb THEN {"ExtensionAdoptedInFull"} ELSE {})
  \cup (IF hv /\ ~ext /\ listened /\ C2 # hvExpected THEN {"HeavierBranchAdoptedInFull"} ELSE {})

\* alive = FALSE: the handler panicked on an injected store error (the documented
\* reaction of the reorganisation path) - the events it delivered before that are
\* judged like any others, but a dead process cannot be asked for a backlog.
C19Viol(o, act, o2, alive) ==
  IF ~Readable(o) \/ ~Readable(o2) THEN {}
  ELSE
  LET C   == Chain(o)
      C2  == Chain(o2)
      n   == CommonLen(C, C2, 0)
      nrem == Len(C) - n
      \* expected disconnects, highest first: header, its height, tip afterwards
      expD == [j \in 1..nrem |-> <<2, C[Len(C) + 1 - j], Len(C) - j, C[Len(C) - j]>>]
      ft  == o.f.tip[2]
      ft2 == o2.f.tip[2]
      \* headers imported before the client starts are not announced (nobody can
      \* be subscribed yet; a later subscriber gets them through the backlog)
      ncon == IF ft2 > ft /\ nrem = 0 /\ act.op # "ImportReset" THEN ft2 - ft ELSE 0
      evD == SelectSeq(o2.ev, LAMBDA e : e[1] = 2)
      evC == SelectSeq(o2.ev, LAMBDA e : e[1] = 1)
      fOK == o2.f.tip[1] >= 0 /\ ft2 >= 0 /\ ft2 < Len(C2)
  IN
  \* headers of the old chain that are gone must each be announced, highest
  \* first, with the tip that remains; a header adopted and discarded again
  \* within the same message (checkpoint failure) is announced too.
  (IF LET evOld == SelectSeq(evD, LAMBDA e : InSeq(C, e[2]))
          evNew == SelectSeq(evD, LAMBDA e : ~InSeq(C, e[2]))
      IN  \/ [j \in 1..Len(evOld) |-> <<evOld[j][1], evOld[j][2], evOld[j][3], evOld[j][4]>>] # expD
          \/ \E j \in 1..Len(evNew) : ~(act.op = "Headers" /\ InSeq(act.batch, evNew[j][2]))
   THEN {"DisconnectEvents"} ELSE {})
  \cup (IF /\ fOK /\ o.f.tip[2] >= 0
           /\ ~ ( /\ Len(evC) = ncon
                  /\ \A j \in 1..Len(evC) :
                        /\ evC[j][3] = ft + j
                        /\ evC[j][2] = C2[ft + j + 1]
                        /\ evC[j][5] >= evC[j][3] )
        THEN {"ConnectEvents"} ELSE {})
  \* a backlog requested at the moment a connected event is delivered must
  \* already include that block (for disconnects the handler runs on while the
  \* observer asks, so nothing stable can be observed there: field is -1)
  \cup (IF \E j \in 1..Len(o2.ev) : o2.ev[j][1] = 1 /\ o2.ev[j][6] < o2.ev[j][3]
        THEN {"BacklogAtEvent"} ELSE {})
  \cup (IF \E i \in 1..Len(o2.ev) : \E j \in 1..Len(o2.ev) :
              i < j /\ o2.ev[i][1] = 1 /\ o2.ev[j][1] = 2
        THEN {"EventOrder"} ELSE {})
  \cup (IF alive /\ fOK /\ \E k \in 1..Len(o2.bl) :
              k <= ft2 /\ o2.bl[k] # SubSeq(C2, k + 2, ft2 + 1)
        THEN {"BacklogExact"} ELSE {})

\* C08, multi-store operations: after a crash between two store calls of a
\* reorganisation / rollback / batch write and the restart that follows, both
\* stores are readable, the block chain is still a valid chain with agreeing
\* lookups, the filter-header chain is not ahead of it and every filter header
\* still belongs to the block at its height.
RecoverViol(act, o2) ==
  IF act.res # "ok" \/ ~Readable(o2) THEN {"CrashRecoverOpens"}
  ELSE (IF ChainValidP(Chain(o2)) /\ LookupsAgreeP(o2) THEN {} ELSE {"CrashChainIntact"})
       \cup (IF /\ o2.f.tip[1] >= 0 /\ o2.f.tip[2] >= 0 /\ o2.f.tip[2] <= o2.b.tip[2]
                /\ \A h \in 1..Len(o2.f.byH) :
                      IF h <= o2.f.tip[2] + 1 THEN o2.f.byH[h] = o2.b.byH[h] ELSE o2.f.byH[h] = NF
             THEN {} ELSE {"CrashFilterConsistent"})

\* C04 (slice): a client whose sync peer has already disconnected asks nobody for
\* headers and ignores every other peer's until it is restarted.
C04Viol(a2, o2) ==
  IF o2.sync # 0 /\ o2.sync \notin a2.conn THEN {"SyncPeerIsConnected"} ELSE {}

Viol(a, o, act, a2, o2) ==
  IF act.res = "crash" THEN {}               \* the process is dead: nothing to observe
  ELSE IF act.op = "Recover" THEN RecoverViol(act, o2)
  \* a panic on a store error the driver injected is the code's documented reaction
  \* ("Rollback failed"), not a defect: the step is judged on what it left behind
  ELSE IF act.res = "panic" /\ ~Faulted(act) THEN {"HandlerPanicked"}
  ELSE IF act.res = "hang" THEN {"HandlerHung"}    \* the handler did not return within the step bound
  ELSE C01Viol(o2) \cup C02Viol(o, act, o2) \cup C19Viol(o, act, o2, act.res # "panic")
       \cup C04Viol(a2, o2)

EndViol(a, o) == {}
=============================================================================
