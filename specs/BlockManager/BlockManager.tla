---------------------------- MODULE BlockManager ----------------------------
(***************************************************************************)
(* Implementation-shaped model of the header path of neutrino's block      *)
(* manager (blockmanager.go): handleNewPeerMsg / handleDonePeerMsg /       *)
(* handleInvMsg / handleHeadersMsg / startSync / BlockHeadersSynced,       *)
(* rollBackToHeight, writeCFHeadersMsg, NotificationsSinceHeight and       *)
(* newBlockManager (restart), on top of an entry-granular model of the two *)
(* headerfs stores (flat file = sequence, shared index id -> height, one   *)
(* tip key per store; positional append, caller-supplied heights).         *)
(*                                                                         *)
(* All handlers run in the single blockHandler goroutine, so each message  *)
(* is ONE action; inside it the code's per-header loop is transcribed      *)
(* step by step (HdrLoop) with every early return spelled out, because     *)
(* what an early return leaves behind in the in-memory header list is      *)
(* where the code is fragile.  writeCFHeadersMsg (cfHandler goroutine) is  *)
(* a separate action; its finer interleavings belong to the CFSync family. *)
(*                                                                         *)
(* Header validity is abstract: Universe.tla says for every header id      *)
(* whether it passes all rules given its true ancestors (the Go driver     *)
(* mines concrete headers with exactly these properties and cross-checks   *)
(* them with btcd's own validation functions).                             *)
(*                                                                         *)
(* Code-version switches: see code_version.json.                           *)
(***************************************************************************)
EXTENDS Integers, Sequences, FiniteSets, TLC, Json, BlockManagerProps

CONSTANTS MaxMsgs,          \* messages / events per history
          MaxPeerEv,        \* 0: peer connects/disconnects count as messages; k > 0: they have a budget
                            \* of their own (k per history), kept in the tens digit of nmsgs
          MaxRestarts, MaxFaults, MaxCrashes,
          FaultKinds,       \* fault parameters of Headers the configuration explores (0 = none, see Headers)
          FixCpFloor,       \* reorg floor uses the checkpoint AT the tip height too
          FixListReset,     \* header list re-anchored on the stored tip on early returns
          FixFilterTip,     \* rollBackToHeight lowers the in-memory filter tip
          FixTipPublish     \* handleHeadersMsg publishes the stored tip (not the message's last header)

VARIABLES bfile, bidx, btip,      \* block-header store: file, index (id+1 -> height), tip key
          ffile, ftip,            \* filter-header store: file (by block id), tip key (block id)
          hl,                     \* in-memory header list: Seq of <<id, height>>
          nextCp,                 \* next checkpoint height, 0 = none
          sync,                   \* sync peer, 0 = none
          cands,                  \* candidate list (Seq of peers)
          conn, lastBlock, startH, disc,   \* per peer
          lastReq,                \* lastRequested hash (id, -1 none)
          hTip, fhTip,            \* in-memory published tips (heights)
          ev,                     \* events emitted by the last action
          gh,                     \* getheaders requests pushed by the last action: per peer <<>> (none) or
                                  \* <<first locator hash, stop hash>> as ids (-1 = zero hash) of the LAST
                                  \* PushGetHeadersMsg to that peer. Write-only (like act): nothing reads it
                                  \* back, so it is part of Obs but neither of State nor of View.
          nmsgs, nrestarts, nfaults, ncrashes,
          down,                   \* TRUE: the process died, only Recover is possible
          abs, act, viol

wvars == <<bfile, bidx, btip, ffile, ftip, hl, nextCp, sync, cands, conn, lastBlock,
           startH, disc, lastReq, hTip, fhTip, ev, gh>>
vars  == <<wvars, nmsgs, nrestarts, nfaults, ncrashes, down, abs, act, viol>>

Peers == 1..NPeers
HMax  == MaxHeight + 2            \* heights 0..MaxHeight+1 are read back

Max(a, b) == IF a >= b THEN a ELSE b

W == [bfile |-> bfile, bidx |-> bidx, btip |-> btip, ffile |-> ffile, ftip |-> ftip,
      hl |-> hl, nextCp |-> nextCp, sync |-> sync, cands |-> cands, conn |-> conn,
      lastBlock |-> lastBlock, startH |-> startH, disc |-> disc, lastReq |-> lastReq,
      hTip |-> hTip, fhTip |-> fhTip, ev |-> <<>>, gh |-> [p \in Peers |-> <<>>], panic |-> FALSE,
      budget |-> -1, crashed |-> FALSE,
      \* injected store-rollback failure of this headers message: the fkB-th call of the
      \* block store's RollbackLastBlock / the fkF-th call of the filter store's
      \* RollbackLastBlock(newTip) returns an error (0 = none); nB, nF count the calls
      \* made so far, fired = the failure has been delivered
      fkB |-> 0, fkF |-> 0, nB |-> 0, nF |-> 0, fired |-> FALSE]

Commit(w) ==
  /\ bfile' = w.bfile /\ bidx' = w.bidx /\ btip' = w.btip
  /\ ffile' = w.ffile /\ ftip' = w.ftip /\ hl' = w.hl /\ nextCp' = w.nextCp
  /\ sync' = w.sync /\ cands' = w.cands /\ conn' = w.conn /\ lastBlock' = w.lastBlock
  /\ startH' = w.startH /\ disc' = w.disc /\ lastReq' = w.lastReq
  /\ hTip' = w.hTip /\ fhTip' = w.fhTip /\ ev' = w.ev /\ gh' = w.gh

\* peer.PushGetHeadersMsg(locator, stop): begin = the locator's first hash
Push(w, p, begin, stop) == [w EXCEPT !.gh[p] = <<begin, stop>>]

----------------------------------------------------------------------------
\* headerfs primitives (entry granularity; repaired stores, see HeaderStore.tla)
IdxOf(w, id) == IF id >= 0 /\ id < NIds THEN w.bidx[id + 1] ELSE NF
ReadB(w, h)  == IF h >= 0 /\ h + 1 <= Len(w.bfile) THEN w.bfile[h + 1] ELSE NF
ReadF(w, h)  == IF h >= 0 /\ h + 1 <= Len(w.ffile) THEN w.ffile[h + 1] ELSE NF

FetchHeader(w, id) ==            \* <<header read, height>> or <<ERR,ERR>>
  LET h == IdxOf(w, id)
      r == ReadB(w, h)
  IN  IF h = NF \/ r = NF THEN <<ERR, ERR>> ELSE <<r, h>>

BTip(w) == FetchHeader(w, w.btip)

FTip(w) == LET h == IdxOf(w, w.ftip)
               r == ReadF(w, h)
           IN  IF h = NF \/ r = NF THEN <<ERR, ERR>> ELSE <<r, h>>

\* Crash points between store calls: `budget` is the number of store mutations
\* that still reach the disk (-1 = no crash planned). Once it is used up the
\* process is dead: no later mutation happens (the remaining control flow of
\* the action is irrelevant - only the stores survive a crash).
Dead(w)  == w.crashed \/ w.budget = 0
Spend(w) == IF w.budget > 0 THEN [w EXCEPT !.budget = @ - 1] ELSE w
Die(w)   == [w EXCEPT !.crashed = TRUE]

\* WriteHeaders(entries): append positionally, index by the caller's heights,
\* tip := entry with the greatest height.
WriteB(w0, es) ==
  IF es = <<>> THEN w0 ELSE IF Dead(w0) THEN Die(w0) ELSE
  LET w == Spend(w0) IN
  LET ids  == [k \in 1..Len(es) |-> es[k][1]]
      top  == CHOOSE k \in 1..Len(es) : \A j \in 1..Len(es) : es[j][2] <= es[k][2]
      nidx == [i \in 1..NIds |->
                 IF \E k \in 1..Len(es) : es[k][1] = i - 1
                 THEN es[CHOOSE k \in 1..Len(es) : es[k][1] = i - 1][2]
                 ELSE w.bidx[i]]
  IN  [w EXCEPT !.bfile = @ \o ids, !.bidx = nidx, !.btip = es[top][1]]

\* RollbackLastBlock of the block store. Returns [w, ok, id, h] (new tip).
RollbackB(w00) ==
  LET w0 == [w00 EXCEPT !.nB = @ + 1] IN
  IF w0.nB = w0.fkB          \* injected I/O error: nothing is touched
  THEN [w |-> [w0 EXCEPT !.fired = TRUE], ok |-> FALSE, id |-> ERR, h |-> ERR] ELSE
  IF Dead(w0) THEN [w |-> Die(w0), ok |-> FALSE, id |-> ERR, h |-> ERR] ELSE
  LET w == Spend(w0)
      h == IdxOf(w, w.btip)
  IN  IF h = NF \/ h < 1 \/ h + 1 > Len(w.bfile)
      THEN [w |-> w, ok |-> FALSE, id |-> ERR, h |-> ERR]
      ELSE LET prev == w.bfile[h]
               gone == w.bfile[h + 1]
               nidx == [i \in 1..NIds |-> IF i - 1 = gone THEN NF ELSE w.bidx[i]]
           IN  [w |-> [w EXCEPT !.bidx = nidx, !.btip = prev,
                                !.bfile = SubSeq(@, 1, Len(@) - 1)],
                ok |-> TRUE, id |-> prev, h |-> h - 1]

\* RollbackLastBlock(newTip) of the filter store. Returns [w, ok, h].
RollbackF(w00, newTip) ==
  LET w0 == [w00 EXCEPT !.nF = @ + 1] IN
  IF w0.nF = w0.fkF          \* injected I/O error: nothing is touched
  THEN [w |-> [w0 EXCEPT !.fired = TRUE], ok |-> FALSE, h |-> ERR] ELSE
  IF Dead(w0) THEN [w |-> Die(w0), ok |-> FALSE, h |-> ERR] ELSE
  LET w == Spend(w0)
      h == IdxOf(w, w.ftip)
  IN  IF h = NF \/ h < 1 \/ h > Len(w.ffile)
      THEN [w |-> w, ok |-> FALSE, h |-> ERR]
      ELSE [w |-> [w EXCEPT !.ftip = newTip, !.ffile = SubSeq(@, 1, Len(@) - 1)],
            ok |-> TRUE, h |-> h - 1]

FindNextCp(h) == LET S == {c \in CpHeights : c > h}
                 IN  IF S = {} THEN 0 ELSE CHOOSE c \in S : \A d \in S : c <= d
FindPrevCp(h) == LET S == {c \in CpHeights : c < h}
                 IN  IF S = {} THEN 0 ELSE CHOOSE c \in S : \A d \in S : d <= c
MaxCp == IF CpHeights = {} THEN -1 ELSE CHOOSE c \in CpHeights : \A d \in CpHeights : d <= c

\* blockmanager.go rollBackToHeight. Returns [w, ok]. Per block: filter-store
\* rollback (only if the filter headers reach that high), block-store rollback,
\* FetchHeader of the new tip, Disconnected event. An error of any of them ends the
\* function there: what was removed stays removed (and was announced), the block
\* whose store call failed is not announced.
RECURSIVE RollLoop(_, _, _, _, _)
RollLoop(w, bsId, bsH, regH, target) ==
  IF w.crashed THEN [w |-> w, ok |-> TRUE]
  ELSE IF bsH <= target THEN [w |-> w, ok |-> TRUE]
  ELSE LET fh == FetchHeader(w, bsId)
       IN  IF fh[1] = ERR THEN [w |-> w, ok |-> FALSE]
           ELSE
           LET hdr    == fh[1]
               hh     == fh[2]
               newTip == Par(hdr)
               doF    == bsH <= regH
               rf0    == IF doF THEN RollbackF(w, newTip) ELSE [w |-> w, ok |-> TRUE, h |-> regH]
               rf     == IF doF /\ rf0.ok /\ FixFilterTip
                         THEN [rf0 EXCEPT !.w.fhTip = rf0.h] ELSE rf0
           IN  IF ~rf.ok THEN [w |-> rf.w, ok |-> FALSE]
               ELSE
               LET rb == RollbackB(rf.w)
               IN  IF ~rb.ok THEN [w |-> rb.w, ok |-> FALSE]
                   ELSE
                   LET ph == FetchHeader(rb.w, newTip)
                   IN  IF ph[1] = ERR THEN [w |-> rb.w, ok |-> FALSE]
                       ELSE RollLoop([rb.w EXCEPT !.ev = Append(@, <<2, hdr, hh, ph[1], -1, -1>>)],
                                     rb.id, rb.h, rf.h, target)

RollBackTo(w, target) ==
  LET t == BTip(w)
      f == FTip(w)
  IN  IF t[1] = ERR \/ f[1] = ERR THEN [w |-> w, ok |-> FALSE]
      ELSE RollLoop(w, t[1], t[2], f[2], target)

\* BlockHeadersSynced
Synced(w) ==
  LET t == BTip(w)
  IN  /\ t[1] # ERR
      /\ MaxCp < t[2]
      /\ ~(w.sync # 0 /\ t[2] < w.lastBlock[w.sync])
      /\ (t[1] >= 0 /\ t[1] < NIds => RecentH[t[1] + 1])
      /\ (w.sync = 0 \/ w.lastBlock[w.sync] >= w.startH[w.sync])

\* startSync
StartSync(w) ==
  IF w.sync # 0 THEN w
  ELSE LET t == BTip(w)
       IN  IF t[1] = ERR THEN w
           ELSE LET cs == SelectSeq(w.cands, LAMBDA c : w.lastBlock[c] >= t[2])
                IN  IF cs = <<>> THEN [w EXCEPT !.cands = cs]
                    ELSE LET best == CHOOSE k \in 1..Len(cs) :
                                       /\ \A j \in 1..Len(cs) : w.lastBlock[cs[j]] <= w.lastBlock[cs[k]]
                                       /\ \A j \in 1..(k - 1) : w.lastBlock[cs[j]] < w.lastBlock[cs[k]]
                             \* :2487-2525 locator of the store's tip; stop = the next checkpoint
                             \* while the tip is below it, else the zero hash
                             stop == IF w.nextCp # 0 /\ t[2] < w.nextCp THEN CpId(w.nextCp) ELSE -1
                         IN  Push([w EXCEPT !.cands = cs, !.sync = cs[best]], cs[best], t[1], stop)

ResetList(w) ==     \* headerList.ResetHeaderState(store tip)
  LET t == BTip(w) IN IF t[1] = ERR THEN w ELSE [w EXCEPT !.hl = << <<t[1], t[2]>> >>]

Disc(w, p) == [w EXCEPT !.disc[p] = 1]

\* An early return of handleHeadersMsg.
Ret(w) == [w |-> w, wb |-> <<>>, recv |-> FALSE, fin |-> 0, ret |-> TRUE, last |-> -1]

\* realignHeaderList (deferred in the repaired handleHeadersMsg): if the list
\* and the store no longer end with the same header, re-anchor the list.
Realign(w) ==
  LET t == BTip(w)
  IN  IF t[1] = ERR \/ w.hl[Len(w.hl)] = <<t[1], t[2]>> THEN w
      ELSE [w EXCEPT !.hl = << <<t[1], t[2]>> >>]

\* work of the known chain from height fromH down to backH+1, as the code
\* computes it: from the in-memory list first, then from the store.
RECURSIVE KnownWork(_, _, _, _, _)
KnownWork(w, cnt, pos, cur, acc) ==
  IF cnt = 0 THEN acc
  ELSE IF pos >= 1
       THEN KnownWork(w, cnt - 1, pos - 1, w.hl[pos][1], acc + Wrk(w.hl[pos][1]))
       ELSE LET fh == FetchHeader(w, Par(cur))
            IN  IF fh[1] = ERR \/ fh[1] < 0 THEN -1     \* nil dereference in the code
                ELSE KnownWork(w, cnt - 1, 0, fh[1], acc + Wrk(fh[1]))

RECURSIVE HdrLoop(_, _, _, _, _, _, _)
HdrLoop(w, p, b, i, wb, recv, fin) ==
  IF w.crashed THEN Ret(w)
  \* last = finalHash: the last header the loop looked at (:2758), known or not
  ELSE IF i > Len(b) THEN [w |-> w, wb |-> wb, recv |-> recv, fin |-> fin, ret |-> FALSE, last |-> b[Len(b)]]
  ELSE
  LET h    == b[i]
      prev == w.hl[Len(w.hl)]
  IN
  IF Par(h) = prev[1]
  THEN \* ---- connecting branch
       IF ~Vld(h) THEN Ret(Disc(w, p))
       ELSE LET nh == prev[2] + 1
                w1 == [w EXCEPT !.hl = Append(@, <<h, nh>>),
                                !.lastBlock[p] = Max(@, nh)]
                wb1 == Append(wb, <<h, nh>>)
            IN  IF w1.nextCp # 0 /\ nh = w1.nextCp
                THEN IF h = CpId(nh)
                     THEN [w |-> w1, wb |-> wb1, recv |-> TRUE, fin |-> nh, ret |-> FALSE, last |-> h]
                     ELSE LET r == RollBackTo(w1, FindPrevCp(nh))
                          IN  Ret(Disc(r.w, p))
                ELSE HdrLoop(w1, p, b, i + 1, wb1, recv, nh)
  ELSE \* ---- non-connecting branch
       IF p # w.sync /\ ~Synced(w) THEN Ret(w)
       ELSE IF h = prev[1] THEN HdrLoop(w, p, b, i + 1, wb, recv, fin)
       ELSE IF FetchHeader(w, h)[1] # ERR THEN HdrLoop(w, p, b, i + 1, wb, recv, fin)
       ELSE
       LET fb == FetchHeader(w, Par(h))
       IN  IF fb[1] = ERR THEN Ret(Disc(w, p))
           ELSE
           LET backH  == fb[2]
               floor  == IF FixCpFloor THEN FindPrevCp(prev[2] + 1) ELSE FindPrevCp(prev[2])
               rest   == SubSeq(b, i, Len(b))
               total  == SumWork(rest)
               known  == KnownWork(w, prev[2] - backH, Len(w.hl), prev[1], 0)
           IN  IF backH < floor THEN Ret(Disc(w, p))
               ELSE IF \E j \in 1..Len(rest) : ~Vld(rest[j]) THEN Ret(Disc(w, p))
               ELSE IF known < 0 THEN [Ret(w) EXCEPT !.w.panic = TRUE]
               ELSE IF known > total THEN Ret(Disc(w, p))
               ELSE IF known = total THEN Ret(w)
               ELSE LET w1 == [w EXCEPT !.sync = p]
                        r  == RollBackTo(w1, backH)
                    IN  IF ~r.ok THEN [Ret(r.w) EXCEPT !.w.panic = TRUE]
                        ELSE LET w3 == WriteB(r.w, << <<h, backH + 1>> >>)
                                 w4 == [w3 EXCEPT !.hl = << <<fb[1], backH>>, <<h, backH + 1>> >>]
                             IN  HdrLoop(w4, p, b, i + 1, wb, recv, fin)

HandleHeaders0(w, p, b, failWrite) ==
  IF ~ConnectedBatch(b) THEN Disc(w, p)
  ELSE LET r == HdrLoop(w, p, b, 1, <<>>, FALSE, 0)
       IN  IF r.ret THEN r.w
           ELSE IF failWrite /\ r.wb # <<>> THEN r.w      \* "Unable to write block headers": return
           ELSE LET w1 == WriteB(r.w, r.wb)
                    w2 == IF r.recv THEN [w1 EXCEPT !.nextCp = FindNextCp(r.fin)] ELSE w1
                    \* :3078-3090 not current: ask the SENDER for what follows the last header of the
                    \* message, up to the next checkpoint
                    w3 == IF ~Synced(w2)
                          THEN Push(w2, p, r.last, IF w2.nextCp # 0 THEN CpId(w2.nextCp) ELSE -1)
                          ELSE w2
                    t  == BTip(w3)
                IN  [w3 EXCEPT !.hTip = IF FixTipPublish /\ t[1] # ERR THEN t[2] ELSE r.fin]

HandleHeaders(w, p, b, failWrite) ==
  IF b = <<>> THEN w
  ELSE IF FixListReset THEN Realign(HandleHeaders0(w, p, b, failWrite))
       ELSE HandleHeaders0(w, p, b, failWrite)

\* handleNewPeerMsg. A peer that does not offer SFNodeNetwork (full = FALSE) is not a
\* sync candidate (isSyncCandidate): the handler returns before it touches the
\* candidate list or startSync. The peer is connected all the same: its invs and
\* headers reach handleInvMsg / handleHeadersMsg like anybody else's.
HandleNewPeer(w, p, sh, full) ==
  LET w0 == [w EXCEPT !.conn[p] = TRUE, !.lastBlock[p] = sh, !.startH[p] = sh, !.disc[p] = 0]
      w1 == [w0 EXCEPT !.cands = Append(@, p)]
  IN  IF ~full THEN w0
      ELSE IF BTip(w1)[1] = ERR THEN w1
      \* :441-450 current and the new peer advertises more than the stored tip: getheaders(store locator, zero)
      ELSE LET t  == BTip(w1)
               w2 == IF t[2] < sh /\ Synced(w1) THEN Push(w1, p, t[1], -1) ELSE w1
           IN  StartSync(w2)

\* handleDonePeerMsg: the peer leaves the candidate list if it is there; whoever it
\* was (candidate or not), if it is the sync peer the sync peer is dropped, the list
\* re-anchored and a new sync peer elected.
HandleDonePeer(w, p) ==
  LET w1 == [w EXCEPT !.conn[p] = FALSE, !.disc[p] = 0,
                      !.cands = SelectSeq(@, LAMBDA c : c # p)]
  IN  IF w1.sync = p
      THEN LET w2 == [w1 EXCEPT !.sync = 0]
           IN  IF BTip(w2)[1] = ERR THEN w2 ELSE StartSync(ResetList(w2))
      ELSE w1

HandleInv(w, p, id) ==
  IF p # w.sync /\ ~Synced(w) THEN w
  ELSE LET w1 == IF Synced(w) /\ IdxOf(w, id) # NF
                 THEN [w EXCEPT !.lastBlock[p] = Max(@, IdxOf(w, id))] ELSE w
           last == w1.hl[Len(w1.hl)][1]
       IN  IF (p = w1.sync \/ Synced(w1)) /\ last # id /\ w1.lastReq # id
           \* :2676-2698 getheaders(header-list tip + store locator, announced hash) to the announcer
           THEN Push([w1 EXCEPT !.lastReq = id], p, last, id) ELSE w1

\* writeCFHeadersMsg for the next k blocks of the stored chain (true filter headers)
HandleWriteCF(w, k) ==
  LET ft   == FTip(w)
      stop == ReadB(w, ft[2] + k)
      endH == IdxOf(w, stop)
      st   == endH - (k - 1)
      ids  == [j \in 1..k |-> ReadB(w, st + j - 1)]
      w1   == [Spend(w) EXCEPT !.ffile = @ \o ids, !.ftip = ids[k], !.fhTip = st + k - 1]
      evs  == [j \in 1..k |-> <<1, ids[j], st + j - 1, -1, st + k - 1, st + k - 1>>]
  IN  IF Dead(w) THEN Die(w) ELSE [w1 EXCEPT !.ev = @ \o evs]

Backlog(w, k) ==
  IF w.fhTip = k THEN <<>>
  ELSE IF k > w.fhTip THEN <<ERR>>
  ELSE IF \E i \in (k + 1)..w.fhTip : ReadB(w, i) = NF THEN <<ERR>>
  ELSE [j \in 1..(w.fhTip - k) |-> ReadB(w, k + j)]

----------------------------------------------------------------------------
ObsOf(w) ==
  [b |-> [tip |-> BTip(w),
          byH |-> [h \in 1..HMax |-> ReadB(w, h - 1)],
          hOf |-> [i \in 1..NIds |-> w.bidx[i]],
          byHash |-> [i \in 1..NIds |-> LET r == FetchHeader(w, i - 1) IN
                                         IF r[1] = ERR THEN NF ELSE r[1]]],
   f |-> [tip |-> FTip(w), byH |-> [h \in 1..HMax |-> ReadF(w, h - 1)]],
   ev |-> w.ev,
   gh |-> w.gh,
   bl |-> [k \in 1..(HMax - 1) |-> Backlog(w, k)],
   sync |-> w.sync,
   cur |-> IF Synced(w) THEN 1 ELSE 0,
   disc |-> w.disc]

\* After the death of the process only the stores exist; everything in memory is
\* blanked. (Events: a crash commits ev = <<>>, see Finish; a panic keeps what was
\* delivered before it.)
MaskDead(o) == [o EXCEPT !.bl = [k \in 1..(HMax - 1) |-> <<ERR>>], !.gh = [p \in Peers |-> <<>>],
                         !.sync = 0, !.cur = 0, !.disc = [p \in Peers |-> 0]]

Obs == IF down THEN MaskDead(ObsOf([W EXCEPT !.ev = ev, !.gh = gh])) ELSE ObsOf([W EXCEPT !.ev = ev, !.gh = gh])

\* nf = 1: NewPeer of a peer that is not a full node (no SFNodeNetwork); 0 otherwise
Act(op, p, batch, k, res) == [op |-> op, p |-> p, batch |-> batch, k |-> k, res |-> res, nf |-> 0]

\* "Rollback failed" panic of the reorganisation path on an injected store error:
\* the process is gone (only Recover follows), the events delivered before it were
\* delivered.
PanicDead(w) == w.panic /\ w.fired

Finish(w0, a0) ==
  LET w == IF w0.crashed THEN [w0 EXCEPT !.ev = <<>>] ELSE w0
      a == IF w.crashed THEN [a0 EXCEPT !.res = "crash"]
           ELSE IF w.panic THEN [a0 EXCEPT !.res = "panic"] ELSE a0
      o2 == IF w.crashed \/ PanicDead(w) THEN MaskDead(ObsOf(w)) ELSE ObsOf(w)
  IN  /\ Commit(w)
      /\ act' = a
      /\ abs' = AbsNext(abs, a, o2)
      /\ viol' = Viol(abs, Obs, a, abs', o2)

Tick == ~down /\ (nmsgs % 10) < MaxMsgs /\ nmsgs' = nmsgs + 1 /\ UNCHANGED nrestarts
PTick == IF MaxPeerEv = 0 THEN Tick
         ELSE ~down /\ (nmsgs \div 10) < MaxPeerEv /\ nmsgs' = nmsgs + 10 /\ UNCHANGED nrestarts

NewPeer(p, sh, nf) ==
  /\ PTick /\ ~conn[p] /\ UNCHANGED <<nfaults, ncrashes, down>>
  \* bound of the small configurations: a non-full peer connects only as the first event of a
  \* history and only to a client that is current (where its headers can reorganise the chain)
  /\ IF nf = 1 /\ LightFirstOnly THEN nmsgs = 0 /\ (Synced(W) = TRUE) ELSE TRUE
  /\ Finish(HandleNewPeer(W, p, sh, nf = 0), [Act("NewPeer", p, <<>>, sh, "ok") EXCEPT !.nf = nf])

DonePeer(p) ==
  /\ PTick /\ conn[p] /\ UNCHANGED <<nfaults, ncrashes, down>>
  /\ Finish(HandleDonePeer(W, p), Act("DonePeer", p, <<>>, 0, "ok"))

Inv(p, id) ==
  /\ Tick /\ conn[p] /\ UNCHANGED <<nfaults, ncrashes, down>>
  /\ Finish(HandleInv(W, p, id), Act("Inv", p, <<id>>, 0, "ok"))

\* fw = 1: the store's WriteHeaders fails for the validated batch (I/O error)
\* fw = 20 + j: the j-th RollbackLastBlock call this message makes on the block-header
\*              store fails; fw = 30 + j: the j-th RollbackLastBlock(newTip) call on the
\*              filter-header store fails (enabled only if the message makes that call).
\* The reorganisation caller panics on the error ("Rollback failed"): the process
\* is dead, only Recover follows. The checkpoint-mismatch caller logs it and
\* carries on.
ReadFaultKinds == {41, 42}      \* of WriteCF, see there
AllFaultKinds == {0, 1} \cup {20 + j : j \in 1..3} \cup {30 + j : j \in 1..3} \cup ReadFaultKinds
Headers(p, b, fw) ==
  /\ Tick /\ conn[p]
  /\ fw # 0 => nfaults < MaxFaults
  /\ nfaults' = nfaults + (IF fw = 0 THEN 0 ELSE 1) /\ UNCHANGED ncrashes
  /\ LET w0 == [W EXCEPT !.fkB = IF fw \in 21..23 THEN fw - 20 ELSE 0,
                         !.fkF = IF fw \in 31..33 THEN fw - 30 ELSE 0]
         w  == HandleHeaders(w0, p, b, fw = 1)
     IN  /\ fw >= 20 => w.fired
         /\ down' = PanicDead(w)
         /\ Finish(w, Act("Headers", p, b, fw, "ok"))

\* The process dies after cb store mutations of this message reached the disk
\* (act.k = 10 + cb). Enabled only if the message performs more than cb.
HeadersCrash(p, b, cb) ==
  /\ Tick /\ conn[p] /\ ncrashes < MaxCrashes
  /\ ncrashes' = ncrashes + 1 /\ UNCHANGED nfaults
  /\ LET w == HandleHeaders([W EXCEPT !.budget = cb], p, b, FALSE)
     IN  /\ w.crashed
         /\ down' = TRUE
         /\ Finish(w, Act("Headers", p, b, 10 + cb, "ok"))

\* rd = 0: no fault; rd = 40 + j: the j-th read the step makes on the block-header store through
\* FetchHeader / FetchHeaderAncestors returns an I/O error - IF the step makes a j-th such read.
\* writeCFHeadersMsg makes ONE (:1423 FetchHeaderAncestors(numHeaders-1, stop hash), BEFORE the write
\* :1445): rd = 41 -> the function returns the error there: nothing written, tip not published,
\* nothing announced; rd = 42 -> the fault point is never reached, the step is an ordinary one.
\* The parameter travels in act.p (no peer takes part in this step).
WriteCF(k, rd) ==
  /\ Tick
  /\ rd # 0 => nfaults < MaxFaults
  /\ nfaults' = nfaults + (IF rd = 0 THEN 0 ELSE 1)
  /\ LET ft == FTip(W) bt == BTip(W) IN
       /\ ft[1] # ERR /\ bt[1] # ERR /\ ft[2] + k <= bt[2]
       /\ \A j \in 1..k : ReadB(W, ft[2] + j) >= 0
       /\ IdxOf(W, ReadB(W, ft[2] + k)) = ft[2] + k
  /\ UNCHANGED <<ncrashes, down>>
  /\ Finish(IF rd = 41 THEN W ELSE HandleWriteCF(W, k),
            Act("WriteCF", rd, <<>>, k, IF rd = 41 THEN "err" ELSE "ok"))

\* Restart after a crash: newBlockManager on whatever the stores hold.
Recover ==
  /\ down /\ down' = FALSE /\ UNCHANGED <<nmsgs, nrestarts, nfaults, ncrashes>>
  /\ LET t == BTip(W)
         f == FTip(W)
         w == IF t[1] = ERR \/ f[1] = ERR THEN W
              ELSE [W EXCEPT !.hl = << <<t[1], t[2]>> >>, !.nextCp = FindNextCp(t[2]),
                             !.sync = 0, !.cands = <<>>,
                             !.conn = [p \in Peers |-> FALSE],
                             !.lastBlock = [p \in Peers |-> 0], !.startH = [p \in Peers |-> 0],
                             !.disc = [p \in Peers |-> 0], !.lastReq = -1,
                             !.hTip = t[2], !.fhTip = f[2]]
     IN  Finish(w, Act("Recover", 0, <<>>, 0, IF t[1] = ERR \/ f[1] = ERR THEN "err" ELSE "ok"))

\* Header import at start-up (neutrino.go ChainService.Start): block and filter
\* headers of the honest main chain are appended to the stores from outside
\* the block manager (chainimport), then ResetHeaderState re-reads the tips.
\* Only before any peer is known.
ImportReset(k) ==
  /\ Tick /\ UNCHANGED <<nfaults, ncrashes, down>>
  /\ \A p \in Peers : ~conn[p]
  /\ LET t == BTip(W)
         f == FTip(W)
     IN
     /\ t[1] # ERR /\ f[1] # ERR /\ f[2] = t[2]        \* import needs level stores
     /\ t[2] + 1 + k <= Len(MainChain)
     /\ \A h \in 0..t[2] : ReadB(W, h) = MainChain[h + 1]
     /\ LET new == [j \in 1..k |-> MainChain[t[2] + 1 + j]]
            es  == [j \in 1..k |-> <<new[j], t[2] + j>>]
            w1  == WriteB(W, es)
            w2  == [w1 EXCEPT !.ffile = @ \o new, !.ftip = new[k]]
            t2  == BTip(w2)
            w3  == [w2 EXCEPT !.hl = << <<t2[1], t2[2]>> >>, !.nextCp = FindNextCp(t2[2]),
                              !.hTip = t2[2], !.fhTip = FTip(w2)[2]]
        IN  Finish(w3, Act("ImportReset", 0, new, k, "ok"))

\* Process restart: newBlockManager on the persisted stores; peers are gone.
Restart ==
  /\ ~down /\ nrestarts < MaxRestarts /\ nrestarts' = nrestarts + 1
  /\ UNCHANGED <<nmsgs, nfaults, ncrashes, down>>
  /\ BTip(W)[1] # ERR /\ FTip(W)[1] # ERR
  /\ LET t == BTip(W)
         w == [W EXCEPT !.hl = << <<t[1], t[2]>> >>, !.nextCp = FindNextCp(t[2]),
                        !.sync = 0, !.cands = <<>>,
                        !.conn = [p \in Peers |-> FALSE],
                        !.lastBlock = [p \in Peers |-> 0], !.startH = [p \in Peers |-> 0],
                        !.disc = [p \in Peers |-> 0], !.lastReq = -1,
                        !.hTip = t[2], !.fhTip = FTip(W)[2]]
     IN  Finish(w, Act("Restart", 0, <<>>, 0, "ok"))

\* The client starts on stores that already hold one of the universe's
\* InitChains (block headers) with filter headers committed for the first fl
\* of them: what newBlockManager finds after a restart.
Init ==
  \E ci \in 1..Len(InitChains) : \E fl \in (IF InitFullOnly THEN {} ELSE {1}) \cup {Len(InitChains[ci])} :
  LET c == InitChains[ci] IN
  /\ bfile = c
  /\ bidx = [i \in 1..NIds |-> IF \E k \in 1..Len(c) : c[k] = i - 1
                               THEN (CHOOSE k \in 1..Len(c) : c[k] = i - 1) - 1 ELSE NF]
  /\ btip = c[Len(c)]
  /\ ffile = SubSeq(c, 1, fl) /\ ftip = c[fl]
  /\ hl = << <<c[Len(c)], Len(c) - 1>> >> /\ nextCp = FindNextCp(Len(c) - 1)
  /\ sync = 0 /\ cands = <<>>
  /\ conn = [p \in Peers |-> FALSE] /\ lastBlock = [p \in Peers |-> 0]
  /\ startH = [p \in Peers |-> 0] /\ disc = [p \in Peers |-> 0]
  /\ lastReq = -1 /\ hTip = Len(c) - 1 /\ fhTip = fl - 1 /\ ev = <<>>
  /\ gh = [p \in Peers |-> <<>>]
  /\ nmsgs = 0 /\ nrestarts = 0 /\ nfaults = 0 /\ ncrashes = 0 /\ down = FALSE
  /\ abs = AbsInit /\ act = Act("Init", 0, c, fl, "ok") /\ viol = {}

Next ==
  \/ \E p \in Peers : \E sh \in StartHeights :
        \E nf \in (IF p \in LightPeers /\ sh \in LightStart THEN {0, 1} ELSE {0}) : NewPeer(p, sh, nf)
  \/ \E p \in Peers : DonePeer(p)
  \/ \E p \in Peers : \E id \in InvIds : Inv(p, id)
  \/ \E p \in Peers : \E k \in 1..Len(Batches) : \E fw \in FaultKinds \ ReadFaultKinds : Headers(p, Batches[k], fw)
  \/ \E p \in Peers : \E k \in 1..Len(Batches) : \E cb \in 0..4 : HeadersCrash(p, Batches[k], cb)
  \/ \E k \in 1..MaxCF : \E rd \in {0} \cup (FaultKinds \cap ReadFaultKinds) : WriteCF(k, rd)
  \/ \E k \in 1..2 : ImportReset(k)
  \/ Restart
  \/ Recover

Spec == Init /\ [][Next]_vars

TypeOK ==
  /\ sync \in 0..NPeers
  /\ Len(hl) >= 1
  /\ nextCp \in CpHeights \cup {0}
  /\ FaultKinds \subseteq AllFaultKinds

NoViolation == viol = {}

State == [bfile |-> bfile, bidx |-> bidx, btip |-> btip, ffile |-> ffile, ftip |-> ftip,
          hl |-> hl, nextCp |-> nextCp, sync |-> sync, cands |-> cands, conn |-> conn,
          lastBlock |-> lastBlock, startH |-> startH, disc |-> disc, lastReq |-> lastReq,
          hTip |-> hTip, fhTip |-> fhTip, nmsgs |-> nmsgs, nrestarts |-> nrestarts,
          nfaults |-> nfaults, ncrashes |-> ncrashes, down |-> down]
View == <<bfile, bidx, btip, ffile, ftip, hl, nextCp, sync, cands, conn, lastBlock,
          startH, disc, lastReq, hTip, fhTip, nmsgs, nrestarts, nfaults, ncrashes, down>>
=============================================================================
