------------------------------- MODULE BanStore -------------------------------
(***************************************************************************)
(* Implementation-shaped model of neutrino's ban store (banman/store.go,   *)
(* codec.go, util.go): two bbolt buckets keyed by the serialised IP        *)
(* network (ban-index: key -> absolute expiry in whole Unix seconds,       *)
(* reason-index: key -> one reason byte).                                  *)
(*                                                                         *)
(*   rec[c][f] = <<expiry, reason>>   the record stored under the key that *)
(*               class c serialises to in key form f; NoRec = no record.   *)
(*               f = 1 is the canonical key (type byte, IP, mask of the    *)
(*               IP's own length).  f = 2 is the second key an IPv4        *)
(*               address could end up under: encodeIPNet (codec.go)        *)
(*               shortens an IPv4-mapped IP to 4 bytes but writes the mask *)
(*               as given, so a 16-byte mask (net.ParseCIDR of             *)
(*               "::ffff:a.b.c.d/128", or ParseIPNet(addr, CIDRMask(128,   *)
(*               128))) yields a 21-byte key next to the 9-byte one.       *)
(*               FixWideMask = TRUE describes code that normalises it.     *)
(*   now         logical clock, whole ticks                                *)
(*                                                                         *)
(* Every store call is one bbolt read-write transaction (walletdb.Update), *)
(* so each call is one action:                                             *)
(*   Ban(c,g,d,r)   store.go BanIPNet -> addBannedIPNet                    *)
(*                  expiry := now + d, unconditional Put of both buckets   *)
(*   Unban(c,g)     store.go UnbanIPNet -> removeBannedIPNet               *)
(*   Status(c,g)    store.go Status: fetchStatus, and if                   *)
(*                  !now.Before(expiry) the record is DELETED (lazy        *)
(*                  delete) and the zero Status returned                   *)
(*   Reopen         db closed, reopened, NewStore (buckets exist)          *)
(*   Tick           time passes                                            *)
(* The spelling group g only selects the key form; the concrete string is  *)
(* chosen by the driver.  ParseIPNet (util.go) is part of Ban/Unban/       *)
(* Status here: the driver always goes from text to *net.IPNet through it  *)
(* (or through net.ParseCIDR for the CIDR spellings).                      *)
(***************************************************************************)
EXTENDS Integers, Sequences, FiniteSets, TLC, Json, BanStoreProps

CONSTANTS NC,          \* classes 1..NC (see BanStoreProps for their meaning)
          Groups,      \* spelling groups used by Ban/Unban/Status (subset of 1..3)
          MaxShort,    \* ban durations in ticks: -1 (lapsed at once), 1..MaxShort (lapse by Tick), Long
          Long,
          NR,          \* reasons 1..NR
          MaxT,        \* the clock runs 0..MaxT
          FixWideMask

VARIABLES rec, now, abs, act, viol

vars == <<rec, now, abs, act, viol>>

NG == 3
Durations == {-1} \cup (1..MaxShort) \cup {Long}
V4Single == {1, 4}

Form(c, g) == IF ~FixWideMask /\ c \in V4Single /\ g = 3 THEN 2 ELSE 1

Get(rc, c, g) == rc[c][Form(c, g)]
Put(rc, c, g, v) == [rc EXCEPT ![c][Form(c, g)] = v]

\* What Status answers (without its side effect).
Answer(rc, t, c, g) ==
  LET v == Get(rc, c, g)
  IN  IF v[1] # NoRec /\ t < v[1] THEN <<1, v[2]>> ELSE <<0, 0>>

RawOf(rc, t, c, f) ==
  LET v == rc[c][f]
  IN  IF v[1] = NoRec THEN <<0, 0>> ELSE IF t < v[1] THEN <<2, v[2]>> ELSE <<1, v[2]>>

ObsOf(rc, t) ==
  [q   |-> [c \in 1..NC |-> [g \in 1..NG |-> Answer(rc, t, c, g)]],
   raw |-> [c \in 1..NC |-> [f \in 1..2 |-> RawOf(rc, t, c, f)]],
   other |-> 0]

Obs == ObsOf(rec, now)

Act(op, c, g, d, r, t, res, b, rr) ==
  [op |-> op, c |-> c, g |-> g, d |-> d, r |-> r, now |-> t, res |-> res, b |-> b, rr |-> rr]

Finish(a) ==
  /\ act'  = a
  /\ abs'  = AbsNext(abs, a, Obs')
  /\ viol' = Viol(abs, Obs, a, abs', Obs')

Ban(c, g, d, r) ==
  /\ rec' = Put(rec, c, g, <<now + d, r>>)
  /\ UNCHANGED now
  /\ Finish(Act("Ban", c, g, d, r, now, "ok", -1, -1))

Unban(c, g) ==
  /\ rec' = Put(rec, c, g, <<NoRec, 0>>)
  /\ UNCHANGED now
  /\ Finish(Act("Unban", c, g, 0, 0, now, "ok", -1, -1))

Status(c, g) ==
  LET v    == Get(rec, c, g)
      ans  == Answer(rec, now, c, g)
      gone == v[1] # NoRec /\ ~(now < v[1])
  IN  /\ rec' = IF gone THEN Put(rec, c, g, <<NoRec, 0>>) ELSE rec
      /\ UNCHANGED now
      /\ Finish(Act("Status", c, g, 0, 0, now, "ok", ans[1], ans[2]))

Reopen ==
  /\ UNCHANGED <<rec, now>>
  /\ Finish(Act("Reopen", 0, 0, 0, 0, now, "ok", -1, -1))

Tick ==
  /\ now < MaxT
  /\ now' = now + 1
  /\ UNCHANGED rec
  /\ Finish(Act("Tick", 0, 0, 0, 0, now + 1, "ok", -1, -1))

Init ==
  /\ rec = [c \in 1..NC |-> [f \in 1..2 |-> <<NoRec, 0>>]]
  /\ now = 0
  /\ abs = AbsInit
  /\ act = Act("Init", 0, 0, 0, 0, 0, "ok", -1, -1)
  /\ viol = {}

Next ==
  \/ \E c \in 1..NC : \E g \in Groups : \E d \in Durations : \E r \in 1..NR : Ban(c, g, d, r)
  \/ \E c \in 1..NC : \E g \in Groups : Unban(c, g)
  \/ \E c \in 1..NC : \E g \in Groups : Status(c, g)
  \/ Reopen
  \/ Tick

Spec == Init /\ [][Next]_vars

----------------------------------------------------------------------------
TypeOK ==
  /\ now \in 0..MaxT
  /\ \A c \in 1..NC : \A f \in 1..2 :
        /\ rec[c][f][1] \in Int
        /\ rec[c][f][2] \in 0..NR
        /\ (f = 2 /\ (FixWideMask \/ c \notin V4Single)) => rec[c][f] = <<NoRec, 0>>

\* Design-level statement on the model; an invariant only when the switches
\* describe repaired code (otherwise violating transitions are exported and
\* replayed).
NoViolation == viol = {}

\* State identity.  Time only moves forward, so a record that has lapsed stays
\* lapsed and one that outlives MaxT never lapses inside the bound: such
\* expiries are folded to one representative each (the states are bisimilar),
\* and the reason of a lapsed ABSTRACT record is irrelevant to every clause.
NormE(e) == IF e = NoRec THEN NoRec ELSE IF e <= now THEN -1 ELSE IF e > MaxT THEN 1000 ELSE e
NormRec == [c \in 1..NC |-> [f \in 1..2 |-> <<NormE(rec[c][f][1]), rec[c][f][2]>>]]
NormAbs == [c \in 1..MaxC |->
              LET e == NormE(abs.rec[c][1])
              IN  <<e, IF e = -1 THEN 0 ELSE abs.rec[c][2]>>]
State == [rec |-> NormRec, now |-> now, abs |-> NormAbs]
View0 == <<NormRec, now, NormAbs>>
=============================================================================
