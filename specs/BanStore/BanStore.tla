------------------------------- MODULE BanStore -------------------------------
(***************************************************************************)
(* Implementation-shaped model of neutrino's ban store (banman/store.go,   *)
(* codec.go, util.go): two bbolt buckets keyed by the serialised IP        *)
(* network (ban-index: key -> absolute expiry in whole Unix seconds,       *)
(* reason-index: key -> one reason byte).                                  *)
(*                                                                         *)
(*   rec[c][f] = <<expiry, reason>>   the record stored under the key that *)
(*               class c serialises to in key form f; NoRec = no record.   *)
(*               f = 1 is the canonical key (type byte, IP, mask of the    *)
(*               IP's own length).  f = 2 is the second key an IPv4        *)
(*               address could end up under: encodeIPNet (codec.go)        *)
(*               shortens an IPv4-mapped IP to 4 bytes but writes the mask *)
(*               as given, so a 16-byte mask (net.ParseCIDR of             *)
(*               "::ffff:a.b.c.d/128", or ParseIPNet(addr, CIDRMask(128,   *)
(*               128))) yields a 21-byte key next to the 9-byte one.       *)
(*               FixWideMask = TRUE describes code that normalises it.     *)
(*               The same holds for an IPv4 NETWORK given with the mask    *)
(*               /(96+n) in 16 bytes ("::ffff:a.b.c.0/120" for /24).       *)
(*   now         logical clock, whole ticks                                *)
(*                                                                         *)
(* Every store call is one bbolt read-write transaction (walletdb.Update), *)
(* so each call is one action:                                             *)
(*   Ban(c,g,d,r)   store.go BanIPNet -> addBannedIPNet                    *)
(*                  expiry := now + d, unconditional Put of both buckets   *)
(*   Unban(c,g)     store.go UnbanIPNet -> removeBannedIPNet               *)
(*   Status(c,g)    store.go Status: fetchStatus, and if                   *)
(*                  !now.Before(expiry) the record is DELETED (lazy        *)
(*                  delete) and the zero Status returned                   *)
(*   Reopen         db closed, reopened, NewStore (buckets exist)          *)
(*   Tick           time passes                                            *)
(* Two callers.  The store is used from several goroutines (IsBanned from   *)
(* the peer handler / connection manager, BanPeer from the block manager   *)
(* and query goroutines).  A call is a SEQUENCE of database transactions;  *)
(* in the code as it is every call is exactly ONE, so a second caller's    *)
(* call that is placed after the k-th transaction of a call in progress    *)
(* takes effect entirely before it (k = 0) or entirely after it (k >= 1):  *)
(* Pair(x, y, k).  The driver really runs the second call in a goroutine   *)
(* of its own at that point (a walletdb.DB proxy gates every transaction   *)
(* of the store), so code that splits a call into several transactions is  *)
(* exposed to the interleaving.                                            *)
(* The spelling group g only selects the key form; the concrete string is  *)
(* chosen by the driver.  ParseIPNet (util.go) is part of Ban/Unban/       *)
(* Status here: the driver always goes from text to *net.IPNet through it  *)
(* (or through net.ParseCIDR for the CIDR spellings).                      *)
(***************************************************************************)
EXTENDS Integers, Sequences, FiniteSets, TLC, Json, BanStoreProps

CONSTANTS NC,          \* classes 1..NC (see BanStoreProps for their meaning)
          Groups,      \* spelling groups used by Ban/Unban/Status (subset of 1..3)
          MaxShort,    \* ban durations in ticks: -1 (lapsed at once), 1..MaxShort (lapse by Tick), Long
          Long,
          NR,          \* reasons 1..NR
          MaxT,        \* the clock runs 0..MaxT
          NK,          \* two-caller steps place the second call after transaction 0..NK-1 (0: no such steps)
          FixWideMask

VARIABLES rec, now, abs, act, viol

vars == <<rec, now, abs, act, viol>>

NG == 3
Durations == {-1} \cup (1..MaxShort) \cup {Long}
V4 == {1, 3, 4}

Form(c, g) == IF ~FixWideMask /\ c \in V4 /\ g = 3 THEN 2 ELSE 1

Get(rc, c, g) == rc[c][Form(c, g)]
Put(rc, c, g, v) == [rc EXCEPT ![c][Form(c, g)] = v]

\* What Status answers (without its side effect).
Answer(rc, t, c, g) ==
  LET v == Get(rc, c, g)
  IN  IF v[1] # NoRec /\ t < v[1] THEN <<1, v[2]>> ELSE <<0, 0>>

RawOf(rc, t, c, f) ==
  LET v == rc[c][f]
  IN  IF v[1] = NoRec THEN <<0, 0>> ELSE IF t < v[1] THEN <<2, v[2]>> ELSE <<1, v[2]>>

ObsOf(rc, t) ==
  [q   |-> [c \in 1..NC |-> [g \in 1..NG |-> Answer(rc, t, c, g)]],
   raw |-> [c \in 1..NC |-> [f \in 1..2 |-> RawOf(rc, t, c, f)]],
   other |-> 0]

Obs == ObsOf(rec, now)

\* One store call x = [op, c, g, d, r] on buckets rc: new buckets and answer.
Call(rc, x) ==
  CASE x.op = "Ban" ->
         [rec |-> Put(rc, x.c, x.g, <<now + x.d, x.r>>), b |-> -1, rr |-> -1]
    [] x.op = "Unban" ->
         [rec |-> Put(rc, x.c, x.g, <<NoRec, 0>>), b |-> -1, rr |-> -1]
    [] x.op = "Status" ->
         LET v    == Get(rc, x.c, x.g)
             ans  == Answer(rc, now, x.c, x.g)
             gone == v[1] # NoRec /\ ~(now < v[1])
         IN  [rec |-> IF gone THEN Put(rc, x.c, x.g, <<NoRec, 0>>) ELSE rc,
              b |-> ans[1], rr |-> ans[2]]

Calls(Gs) ==
  {[op |-> "Ban", c |-> c, g |-> g, d |-> d, r |-> r] : c \in 1..NC, g \in Gs, d \in Durations, r \in 1..NR}
  \cup {[op |-> o, c |-> c, g |-> g, d |-> 0, r |-> 0] : o \in {"Unban", "Status"}, c \in 1..NC, g \in Gs}

None == [op |-> "none", c |-> 0, g |-> 0, d |-> 0, r |-> 0]

Act(x, t, res, b, rr, k, y, res2, b2, rr2) ==
  [op |-> x.op, c |-> x.c, g |-> x.g, d |-> x.d, r |-> x.r, now |-> t, res |-> res, b |-> b, rr |-> rr,
   k |-> k, op2 |-> y.op, c2 |-> y.c, g2 |-> y.g, d2 |-> y.d, r2 |-> y.r, res2 |-> res2, b2 |-> b2, rr2 |-> rr2]

Plain(op, t) == Act([op |-> op, c |-> 0, g |-> 0, d |-> 0, r |-> 0], t, "ok", -1, -1, -1, None, "none", -1, -1)

Finish(a) ==
  /\ act'  = a
  /\ abs'  = AbsNext(abs, a, Obs')
  /\ viol' = Viol(abs, Obs, a, abs', Obs')

\* BanIPNet / UnbanIPNet / Status by a single caller
Single(x) ==
  LET r == Call(rec, x)
  IN  /\ rec' = r.rec
      /\ UNCHANGED now
      /\ Finish(Act(x, now, "ok", r.b, r.rr, -1, None, "none", -1, -1))

\* call y of a second caller placed after the k-th transaction of call x
Pair(x, y, k) ==
  LET xFirst == k >= 1                       \* every call is one transaction
      r1 == Call(rec, IF xFirst THEN x ELSE y)
      r2 == Call(r1.rec, IF xFirst THEN y ELSE x)
      rx == IF xFirst THEN r1 ELSE r2
      ry == IF xFirst THEN r2 ELSE r1
  IN  /\ rec' = r2.rec
      /\ UNCHANGED now
      /\ Finish(Act(x, now, "ok", rx.b, rx.rr, k, y, "ok", ry.b, ry.rr))

Reopen ==
  /\ UNCHANGED <<rec, now>>
  /\ Finish(Plain("Reopen", now))

Tick ==
  /\ now < MaxT
  /\ now' = now + 1
  /\ UNCHANGED rec
  /\ Finish(Plain("Tick", now + 1))

Init ==
  /\ rec = [c \in 1..NC |-> [f \in 1..2 |-> <<NoRec, 0>>]]
  /\ now = 0
  /\ abs = AbsInit
  /\ act = Plain("Init", 0)
  /\ viol = {}

Next ==
  \/ \E x \in Calls(Groups) : Single(x)
  \/ \E x \in Calls({1}) : \E y \in Calls({1}) : \E k \in 0..(NK - 1) : Pair(x, y, k)
  \/ Reopen
  \/ Tick

Spec == Init /\ [][Next]_vars

----------------------------------------------------------------------------
TypeOK ==
  /\ now \in 0..MaxT
  /\ \A c \in 1..NC : \A f \in 1..2 :
        /\ rec[c][f][1] \in Int
        /\ rec[c][f][2] \in 0..NR
        /\ (f = 2 /\ (FixWideMask \/ c \notin V4)) => rec[c][f] = <<NoRec, 0>>

\* Design-level statement on the model; an invariant only when the switches
\* describe repaired code (otherwise violating transitions are exported and
\* replayed).
NoViolation == viol = {}

\* State identity.  Time only moves forward, so a record that has lapsed stays
\* lapsed and one that outlives MaxT never lapses inside the bound: such
\* expiries are folded to one representative each (the states are bisimilar),
\* and the reason of a lapsed ABSTRACT record is irrelevant to every clause.
NormE(e) == IF e = NoRec THEN NoRec ELSE IF e <= now THEN -1 ELSE IF e > MaxT THEN 1000 ELSE e
NormRec == [c \in 1..NC |-> [f \in 1..2 |-> <<NormE(rec[c][f][1]), rec[c][f][2]>>]]
NormAbs == [c \in 1..MaxC |->
              LET e == NormE(abs.rec[c][1])
              IN  <<e, IF e = -1 THEN 0 ELSE abs.rec[c][2]>>]
State == [rec |-> NormRec, now |-> now, abs |-> NormAbs]
View0 == <<NormRec, now, NormAbs>>
=============================================================================
