------------------------------- MODULE PeerSet -------------------------------
(***************************************************************************)
(* Implementation-shaped model of the peer-set bookkeeping of neutrino's    *)
(* ChainService: the peerHandler goroutine (neutrino.go) with its           *)
(* peerState (outboundPeers, persistentPeers, outboundGroups), every        *)
(* message of notifications.go, BanPeer, outboundPeerConnected and the      *)
(* connection requests the client keeps outstanding at btcd's connmgr.      *)
(* One action per select arm / query message / environment event:           *)
(*                                                                          *)
(*   ConnectNode(a,f)   connectNodeMsg: Count >= MaxPeers => "max"; a       *)
(*                      persistent peer with that address => "dup" (f=1) /  *)
(*                      "dupperm" (f=0); else go connManager.Connect, whose *)
(*                      Dial the environment serves at once ->              *)
(*                      outboundPeerConnected: IsBanned(addr) or            *)
(*                      PeerByAddr(addr) # nil => permanent: connmgr        *)
(*                      Disconnect (closed, retried), else Remove +         *)
(*                      NewConnReq; otherwise a ServerPeer is made and the  *)
(*                      handshake starts                                    *)
(*   Redial(a)          the retry connmgr schedules for a permanent request *)
(*                      (handleFailedConn -> Connect -> Dial, parked by the *)
(*                      environment until this action) gets a connection    *)
(*   NewAddr(a)         a NewConnReq of the client, parked in               *)
(*                      Config.GetNewAddress, is answered with address a    *)
(*   VerAck(p)          version + verack arrive: OnVerAck -> AddPeer ->     *)
(*                      newPeers arm -> handleAddPeerMsg: shutting down /   *)
(*                      banned / Count >= MaxPeers => Disconnect; else into *)
(*                      persistentPeers or outboundPeers, outboundGroups++, *)
(*                      subscribers notified, (non-dev network) address     *)
(*                      manager told                                        *)
(*   Drop(p)            the remote closes: peerDoneHandler -> donePeers arm *)
(*                      -> handleDonePeerMsg: off the list, outboundGroups- *)
(*                      -; persistent => connmgr Disconnect (retry), else   *)
(*                      Remove and, if Count < MaxPeers, NewConnReq         *)
(*   Misbehave(a,k)     BanPeer(addr, reason): ban written for the IP, then *)
(*                      PeerByAddr(addr) disconnected (-> as Drop)          *)
(*   Unban(i)           ban lifted in the store                             *)
(*   RemoveAddr / RemoveID       removeNodeMsg (persistentPeers only)       *)
(*   DisconnectAddr / DisconnectID  disconnectNodeMsg (outboundPeers only)  *)
(*   Subscribe / Unsubscribe     subConnPeersMsg and its cancel function    *)
(*   Announce(p), UpdateHeights(o,f)  peerHeightsUpdate arm                 *)
(*   AddrMsg(p,f)       OnAddr (f 1..3) / OnAddrV2 (f 4..6): empty =>       *)
(*                      Disconnect; no address with the required services   *)
(*                      => ignored; else address manager; nothing on a      *)
(*                      development network                                 *)
(*   ShutBegin          what Stop() does first: shutdown flag,              *)
(*                      connManager.Stop()                                  *)
(*   ShutEnd            what Stop() does last: close(quit): quit arm        *)
(*                      disconnects every listed peer, the handler exits    *)
(* getConnCountMsg, getPeersMsg, getOutboundGroup, getAddedNodesMsg and     *)
(* forAllPeersMsg change nothing: they are sent after EVERY step and their  *)
(* answers are the observables cc, kept, grp, pers, fa.  bm[p]: the block   *)
(* manager has been told of the peer of slot p (blockManager.NewPeer in     *)
(* handleAddPeerMsg) and not of its end (DonePeer in peerDoneHandler).      *)
(*                                                                          *)
(*   ph[p]   0 no connection, 1 handshake started, 3 in peerState           *)
(*   ad[p]   address index of the connection in slot p (0 none); address a  *)
(*           is port AJ(a) of IP AI(a)                                      *)
(*   pm[p]   1 iff the connection request of slot p is permanent            *)
(*   rd[a]   1 iff connmgr's retry dial of the permanent request for a is   *)
(*           waiting for its connection                                     *)
(*   want    NewConnReq calls waiting in GetNewAddress                      *)
(*   sh      0 running, 1 shutdown flag set and connmgr stopped, 2 quit     *)
(*   sub     1 iff a connected-peers subscription is live                   *)
(*   an[p], hg[p]  last announced block set / height updated                *)
(*   kn[x]   address x is in the address manager (NA+1, NA+2: the good      *)
(*           addresses of addr / addrv2 messages)                           *)
(*   sc      the scenario (constants of this history), chosen in Init       *)
(*   sg, dev chosen in Init: both IPs in one outbound group; development    *)
(*           network (simnet) or not                                        *)
(*   dl[p]   peer of slot p delivered on the subscription in this step      *)
(* outboundGroups is not a variable: the code keeps it equal to the number  *)
(* of listed peers per group, Obs.grp is computed from the lists.           *)
(*                                                                          *)
(* Not modelled (guards): two handshakes with one ip:port at a time, two    *)
(* permanent requests for one address.                                      *)
(***************************************************************************)
EXTENDS Integers, Sequences, FiniteSets, TLC, Json, PeerSetProps

CONSTANTS NP,        \* connection slots
          NI, NJ,    \* IPs, ports per IP
          Scen,      \* sequence of scenarios, one of them chosen in Init; a scenario is a record
                     \*   ops      enabled action names
                     \*   as       usable addresses (subset of 1..NI*NJ)
                     \*   maxops   actions per history
                     \*   maxpeers neutrino.MaxPeers
                     \*   to       0: no Config.GetNewAddress (ConnectPeers mode); n > 0: the client looks
                     \*            for outbound peers itself, connmgr TargetOutbound = n = NewConnReq
                     \*            calls made at start
                     \*   ks       ban reasons used by Misbehave
                     \*   sgs, devs  values of sg / dev in the initial states
          FixBanAllOfHost

VARIABLES ban, ph, ad, pm, rd, want, sh, sub, an, hg, kn, sc, sg, dev, dl, nops, abs, act, viol

vars == <<ban, ph, ad, pm, rd, want, sh, sub, an, hg, kn, sc, sg, dev, dl, nops, abs, act, viol>>

Ops == Scen[sc].ops
AS == Scen[sc].as
MaxOps == Scen[sc].maxops
MaxPeers == Scen[sc].maxpeers
TO == Scen[sc].to
KS == Scen[sc].ks

NA == NI * NJ
AI(a) == IF a = 0 THEN 0 ELSE ((a - 1) \div NJ) + 1
AJ(a) == IF a = 0 THEN 0 ELSE ((a - 1) % NJ) + 1
P == 1..NP

Listed == {q \in P : ph[q] = 3}
Count == Cardinality(Listed)
IsBanned(a) == ban[AI(a)] # 0
GrpOf(i) == IF sg = 1 THEN 1 ELSE i
Free == {q \in P : ph[q] = 0}
MinFree == CHOOSE q \in Free : \A r \in Free : q <= r

Obs == [ban  |-> [i \in 1..NI |-> IF ban[i] = 0 THEN <<0, 0>> ELSE <<1, ban[i]>>],
        ad   |-> [p \in P |-> <<AI(ad[p]), AJ(ad[p])>>],
        conn |-> [p \in P |-> IF ph[p] = 0 THEN 0 ELSE IF ph[p] = 1 THEN 1 ELSE 2],
        kept |-> [p \in P |-> IF ph[p] = 3 /\ sh < 2 THEN 1 ELSE 0],
        pers |-> [p \in P |-> IF ph[p] = 3 /\ pm[p] = 1 /\ sh < 2 THEN 1 ELSE 0],
        fa   |-> [p \in P |-> IF ph[p] = 3 /\ sh < 2 THEN 1 ELSE 0],
        bm   |-> [p \in P |-> IF ph[p] = 3 /\ sh < 2 THEN 1 ELSE 0],
        cc   |-> IF sh < 2 THEN Count ELSE 0,
        grp  |-> [i \in 1..NI |-> IF sh = 2 THEN 0
                                  ELSE Cardinality({q \in Listed : GrpOf(AI(ad[q])) = GrpOf(i)})],
        sub  |-> dl,
        rd   |-> rd,
        want |-> want,
        hg   |-> hg,
        an   |-> an,
        na   |-> Cardinality({x \in 1..(NA + 2) : kn[x] = 1})]

Act(op, p, a, f, k, res) ==
  [op |-> op, p |-> p, i |-> AI(a), j |-> AJ(a), f |-> f, k |-> k, res |-> res]

None == [q \in P |-> 0]

Finish(a) ==
  /\ UNCHANGED <<sc, sg, dev>>
  /\ act'  = a
  /\ abs'  = AbsNext(abs, a, Obs')
  /\ viol' = Viol(abs, Obs, a, abs', Obs')
  /\ nops' = nops + 1

\* The connections of the slots in S end (closed by the client or by the remote):
\* peerDoneHandler -> donePeers arm -> handleDonePeerMsg.  cm = 1 while connmgr runs.
End(S) ==
  LET ph1  == [q \in P |-> IF q \in S THEN 0 ELSE ph[q]]
      cnt1 == Cardinality({q \in P : ph1[q] = 3})
      cm   == IF sh = 0 THEN 1 ELSE 0
      more == {q \in S : cm = 1 /\ TO > 0 /\ pm[q] = 0 /\ (ph[q] = 3 \/ cnt1 < MaxPeers)}
  IN /\ ph' = ph1
     /\ ad' = [q \in P |-> IF q \in S THEN 0 ELSE ad[q]]
     /\ pm' = [q \in P |-> IF q \in S THEN 0 ELSE pm[q]]
     /\ an' = [q \in P |-> IF q \in S THEN 0 ELSE an[q]]
     /\ hg' = [q \in P |-> IF q \in S THEN 0 ELSE hg[q]]
     /\ rd' = [a \in 1..NA |-> IF cm = 1 /\ \E q \in S : ad[q] = a /\ pm[q] = 1 THEN 1 ELSE rd[a]]
     /\ want' = want + Cardinality(more)

Same == UNCHANGED <<ph, ad, pm, an, hg, rd, want>>

\* A connection to address a (request permanent iff f = 1) has been dialled and is handed to
\* outboundPeerConnected; op/res label it.  wd = NewConnReq calls consumed by this dial.
Connected(op, a, f, wd) ==
  /\ Free # {}
  /\ \A q \in P : ad[q] = a => ph[q] = 3          \* see "Not modelled"
  /\ UNCHANGED <<ban, sh, sub, kn, an, hg>>
  /\ dl' = None
  /\ IF IsBanned(a) \/ \E q \in Listed : ad[q] = a
     THEN /\ UNCHANGED <<ph, ad, pm>>
          /\ rd' = IF f = 1 THEN [rd EXCEPT ![a] = 1] ELSE rd
          /\ want' = want - wd + (IF f = 0 /\ TO > 0 THEN 1 ELSE 0)
          /\ Finish(Act(op, MinFree, a, f, 0, "refused"))
     ELSE /\ ph' = [ph EXCEPT ![MinFree] = 1]
          /\ ad' = [ad EXCEPT ![MinFree] = a]
          /\ pm' = [pm EXCEPT ![MinFree] = f]
          /\ rd' = IF op = "Redial" THEN [rd EXCEPT ![a] = 0] ELSE rd
          /\ want' = want - wd
          /\ Finish(Act(op, MinFree, a, f, 0, "accepted"))

Reply(op, a, f, res) ==
  /\ UNCHANGED <<ban, sh, sub, kn>> /\ Same /\ dl' = None
  /\ Finish(Act(op, 0, a, f, 0, res))

ConnectNode(a, f) ==
  /\ "ConnectNode" \in Ops /\ sh < 2 /\ a \in AS
  /\ IF Count >= MaxPeers THEN Reply("ConnectNode", a, f, "max")
     ELSE IF \E q \in Listed : pm[q] = 1 /\ ad[q] = a
          THEN Reply("ConnectNode", a, f, IF f = 1 THEN "dup" ELSE "dupperm")
     ELSE IF sh = 1 THEN Reply("ConnectNode", a, f, "stopped")
     ELSE /\ f = 1 => (rd[a] = 0 /\ \A q \in P : ~(ad[q] = a /\ pm[q] = 1))
          /\ Connected("ConnectNode", a, f, 0)

Redial(a) ==
  /\ "Redial" \in Ops /\ sh = 0 /\ rd[a] = 1
  /\ Connected("Redial", a, 1, 0)

NewAddr(a) ==
  /\ "NewAddr" \in Ops /\ sh = 0 /\ want > 0 /\ a \in AS
  /\ Connected("NewAddr", a, 0, 1)

VerAck(p) ==
  /\ "VerAck" \in Ops /\ sh < 2 /\ ph[p] = 1
  /\ UNCHANGED <<ban, sh, sub>>
  /\ IF sh = 1 \/ IsBanned(ad[p]) \/ Count >= MaxPeers
     THEN /\ End({p}) /\ UNCHANGED kn /\ dl' = None
          /\ Finish(Act("VerAck", p, ad[p], 0, 0, "dropped"))
     ELSE /\ ph' = [ph EXCEPT ![p] = 3]
          /\ UNCHANGED <<ad, pm, an, hg, rd, want>>
          /\ kn' = IF dev = 0 THEN [kn EXCEPT ![ad[p]] = 1] ELSE kn
          /\ dl' = IF sub = 1 THEN [q \in P |-> IF q = p THEN 1 ELSE 0] ELSE None
          /\ Finish(Act("VerAck", p, ad[p], 0, 0, "active"))

Drop(p) ==
  /\ "Drop" \in Ops /\ sh < 2 /\ ph[p] # 0
  /\ UNCHANGED <<ban, sh, sub, kn>> /\ dl' = None
  /\ End({p})
  /\ Finish(Act("Drop", p, ad[p], 0, 0, "ok"))

\* The slots BanPeer(addr of a) disconnects.
Hit(a) == {q \in Listed : IF FixBanAllOfHost THEN AI(ad[q]) = AI(a) ELSE ad[q] = a}

Misbehave(a, k) ==
  /\ "Misbehave" \in Ops /\ sh < 2 /\ a \in AS
  /\ ban[AI(a)] = 0 \/ Hit(a) # {}      \* (a further report against a banned IP nobody is connected from: nothing new)
  /\ ban' = [ban EXCEPT ![AI(a)] = k]
  /\ UNCHANGED <<sh, sub, kn>> /\ dl' = None
  /\ End(Hit(a))
  /\ Finish(Act("Misbehave", 0, a, 0, k, "ok"))

Unban(i) ==
  /\ "Unban" \in Ops /\ ban[i] # 0
  /\ ban' = [ban EXCEPT ![i] = 0]
  /\ UNCHANGED <<sh, sub, kn>> /\ Same /\ dl' = None
  /\ Finish([op |-> "Unban", p |-> 0, i |-> i, j |-> 0, f |-> 0, k |-> 0, res |-> "ok"])

\* removeNodeMsg (f = 1: persistentPeers) and disconnectNodeMsg (f = 0: outboundPeers)
Cut(op, S, p, a) ==
  /\ UNCHANGED <<ban, sh, sub, kn>> /\ dl' = None
  /\ End(S)
  /\ Finish(Act(op, p, a, 0, 0, IF S = {} THEN "notfound" ELSE "ok"))

\* (by address: only for addresses on an IP the client has a connection with; elsewhere the
\* answer is trivially "notfound")
Near(a) == \E q \in P : ph[q] # 0 /\ AI(ad[q]) = AI(a)

RemoveAddr(a) ==
  /\ "RemoveAddr" \in Ops /\ sh < 2 /\ a \in AS /\ Near(a)
  /\ Cut("RemoveAddr", {q \in Listed : pm[q] = 1 /\ ad[q] = a}, 0, a)
RemoveID(p) ==
  /\ "RemoveID" \in Ops /\ sh < 2 /\ ph[p] = 3
  /\ Cut("RemoveID", {q \in {p} : pm[q] = 1}, p, ad[p])
DisconnectAddr(a) ==
  /\ "DisconnectAddr" \in Ops /\ sh < 2 /\ a \in AS /\ Near(a)
  /\ Cut("DisconnectAddr", {q \in Listed : pm[q] = 0 /\ ad[q] = a}, 0, a)
DisconnectID(p) ==
  /\ "DisconnectID" \in Ops /\ sh < 2 /\ ph[p] = 3
  /\ Cut("DisconnectID", {q \in {p} : pm[q] = 0}, p, ad[p])

Subscribe ==
  /\ "Subscribe" \in Ops /\ sh < 2 /\ sub = 0
  /\ sub' = 1
  /\ dl' = [q \in P |-> IF ph[q] = 3 THEN 1 ELSE 0]
  /\ UNCHANGED <<ban, sh, kn>> /\ Same
  /\ Finish(Act("Subscribe", 0, 0, 0, 0, "ok"))

Unsubscribe ==
  /\ "Subscribe" \in Ops /\ sh < 2 /\ sub = 1
  /\ sub' = 0 /\ dl' = None
  /\ UNCHANGED <<ban, sh, kn>> /\ Same
  /\ Finish(Act("Unsubscribe", 0, 0, 0, 0, "ok"))

\* the block manager notes that the peer of slot p announced block H (handleInvMsg)
Announce(p) ==
  /\ "Heights" \in Ops /\ sh < 2 /\ ph[p] = 3 /\ an[p] = 0
  /\ an' = [an EXCEPT ![p] = 1]
  /\ UNCHANGED <<ban, sh, sub, kn, ph, ad, pm, hg, rd, want>> /\ dl' = None
  /\ Finish(Act("Announce", p, ad[p], 0, 0, "ok"))

\* UpdatePeerHeights(hash, height, origin = peer of slot o or nil); f = 1: hash is H
UpdateHeights(o, f) ==
  /\ "Heights" \in Ops /\ sh < 2 /\ Listed # {} /\ (IF o = 0 THEN TRUE ELSE ph[o] = 3)
  /\ hg' = [q \in P |-> IF f = 1 /\ ph[q] = 3 /\ q # o /\ an[q] = 1 THEN 1 ELSE hg[q]]
  /\ an' = [q \in P |-> IF f = 1 /\ ph[q] = 3 /\ q # o /\ an[q] = 1 THEN 0 ELSE an[q]]
  /\ UNCHANGED <<ban, sh, sub, kn, ph, ad, pm, rd, want>> /\ dl' = None
  /\ Finish(Act("UpdateHeights", o, 0, f, 0, "ok"))

AddrMsg(p, f) ==
  /\ "AddrMsg" \in Ops /\ sh < 2 /\ ph[p] = 3
  /\ UNCHANGED <<ban, sh, sub>> /\ dl' = None
  /\ IF dev = 0 /\ f \in {1, 4}
     THEN /\ End({p}) /\ UNCHANGED kn
          /\ Finish(Act("AddrMsg", p, ad[p], f, 0, "dropped"))
     ELSE /\ Same
          /\ kn' = IF dev = 0 /\ f = 3 THEN [kn EXCEPT ![NA + 1] = 1]
                   ELSE IF dev = 0 /\ f = 6 THEN [kn EXCEPT ![NA + 2] = 1] ELSE kn
          /\ Finish(Act("AddrMsg", p, ad[p], f, 0, "ok"))

ShutBegin ==
  /\ "Shutdown" \in Ops /\ sh = 0
  /\ sh' = 1
  /\ rd' = [a \in 1..NA |-> 0] /\ want' = 0
  /\ UNCHANGED <<ban, sub, kn, ph, ad, pm, an, hg>> /\ dl' = None
  /\ Finish(Act("ShutBegin", 0, 0, 0, 0, "ok"))

ShutEnd ==
  /\ "Shutdown" \in Ops /\ sh = 1
  /\ sh' = 2
  /\ UNCHANGED <<ban, sub, kn>> /\ dl' = None
  /\ End(Listed)
  /\ Finish(Act("ShutEnd", 0, 0, 0, 0, "ok"))

Init ==
  /\ ban = [i \in 1..NI |-> 0]
  /\ ph = None /\ ad = None /\ pm = None /\ an = None /\ hg = None /\ dl = None
  /\ rd = [a \in 1..NA |-> 0]
  /\ sc \in 1..Len(Scen)
  /\ want = Scen[sc].to
  /\ sh = 0 /\ sub = 0
  /\ kn = [x \in 1..(NA + 2) |-> 0]
  /\ sg \in Scen[sc].sgs /\ dev \in Scen[sc].devs
  /\ nops = 0
  /\ abs = AbsInit
  /\ act = Act("Init", 0, 0, 0, 0, "ok")
  /\ viol = {}

Next ==
  /\ nops < MaxOps
  /\ \/ \E a \in 1..NA : \E f \in 0..1 : ConnectNode(a, f)
     \/ \E a \in 1..NA : Redial(a)
     \/ \E a \in 1..NA : NewAddr(a)
     \/ \E p \in P : VerAck(p)
     \/ \E p \in P : Drop(p)
     \/ \E a \in 1..NA : \E k \in KS : Misbehave(a, k)
     \/ \E i \in 1..NI : Unban(i)
     \/ \E a \in 1..NA : RemoveAddr(a) \/ DisconnectAddr(a)
     \/ \E p \in P : RemoveID(p) \/ DisconnectID(p)
     \/ Subscribe \/ Unsubscribe
     \/ \E p \in P : Announce(p)
     \/ \E o \in 0..NP : \E f \in 0..1 : UpdateHeights(o, f)
     \/ \E p \in P : \E f \in 1..6 : AddrMsg(p, f)
     \/ ShutBegin \/ ShutEnd

Spec == Init /\ [][Next]_vars

TypeOK ==
  /\ \A i \in 1..NI : ban[i] \in 0..5
  /\ \A p \in P : ph[p] \in {0, 1, 3} /\ (ph[p] = 0 <=> ad[p] = 0) /\ (ph[p] = 0 => pm[p] = 0)
  /\ want \in 0..(TO + MaxOps) /\ sh \in 0..2
  \* what the guards promise: one connection per address in handshake, one permanent request per address
  /\ \A a \in 1..NA : Cardinality({q \in P : ad[q] = a /\ pm[q] = 1}) + rd[a] <= 1
  /\ Count <= MaxPeers

NoViolation == viol = {}

\* nops is a bound, dl an output of the last step: neither is part of a state's identity
State == [ban |-> ban, ph |-> ph, ad |-> ad, pm |-> pm, rd |-> rd, want |-> want, sh |-> sh,
          sub |-> sub, an |-> an, hg |-> hg, kn |-> kn, sc |-> sc, sg |-> sg, dev |-> dev]
View0 == <<ban, ph, ad, pm, rd, want, sh, sub, an, hg, kn, sc, sg, dev, nops>>
=============================================================================
