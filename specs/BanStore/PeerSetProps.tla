---------------------------- MODULE PeerSetProps ----------------------------
(***************************************************************************)
(* Property C13, enforcement sentence, judged on the peer-set bookkeeping   *)
(* of ChainService (peerHandler and the messages of notifications.go),      *)
(* over OBSERVABLES only:                                                   *)
(*                                                                          *)
(* "Peers that ... serve a provably invalid block, filter header or filter  *)
(* checkpoint, are banned and disconnected, and the client does not keep a  *)
(* connection to a banned address."                                         *)
(*                                                                          *)
(* Only what that sentence states is a verdict here.  Everything else the   *)
(* driver reads back (ConnectedCount, AddedNodeInfo, OutboundGroupCount,    *)
(* ForAllPeers, the connected-peers subscription, peer heights, the address *)
(* manager's size, the connection requests the client has outstanding, the  *)
(* answers of ConnectNode / RemoveNode / DisconnectNode) is compared with   *)
(* the prediction of PeerSet.tla as DRIFT: C13 does not speak about it, and *)
(* C04 ("converges when connected to an honest peer") takes being connected *)
(* as its premise, so no bookkeeping observable of this slice contradicts   *)
(* C04's statement by itself.                                               *)
(*                                                                          *)
(* Observables (what the driver reads from the real ChainService and from   *)
(* its own scripted connections); only the first four are judged:           *)
(*   obs.ban[i]   <<banned, reason>>  ChainService.IsBanned / Store.Status  *)
(*                for IP i (queried as "ip:port")                           *)
(*   obs.ad[p]    <<i, j>> IP and port index of the connection in slot p,   *)
(*                <<0,0>> when the slot has neither an open connection nor  *)
(*                a peer the client reports                                 *)
(*   obs.conn[p]  0 the client has closed its end (or there is none),       *)
(*                1 open, handshake not completed, 2 open and the version / *)
(*                verack handshake has completed on it                      *)
(*   obs.kept[p]  1 iff the peer of slot p is in ChainService.Peers()       *)
(*   obs.pers, cc, grp, fa, bm, sub, rd, want, hg, an, na:  drift only,     *)
(*                see PeerSet.tla                                           *)
(* act = [op, p, i, j, f, k, res]                                           *)
(*   "ConnectNode"  ChainService.ConnectNode("ip:port" of (i,j), f=1        *)
(*                  permanent); res "accepted" (a connection was dialled,   *)
(*                  handed to the client and the client started the         *)
(*                  handshake on it in slot p) | "refused" (dialled, the    *)
(*                  client closed it) | "max" | "dup" | "dupperm" (error    *)
(*                  replies) | "stopped" (no connection results)            *)
(*   "Redial"       the connection manager's retry of the permanent request *)
(*                  for (i,j) gets its connection; "accepted" | "refused"   *)
(*   "NewAddr"      the client's outstanding request for a new outbound     *)
(*                  address is answered with (i,j) and dialled; same res    *)
(*   "VerAck"       the remote version and verack arrive on slot p;         *)
(*                  "active" (the peer is in Peers()) | "dropped" |         *)
(*                  "unlisted" (taken on, yet not in Peers())               *)
(*   "Misbehave"    the client detected that the peer at (i,j) served an    *)
(*                  invalid block (k=5), filter header (3) or checkpoint    *)
(*                  (4) and reports it (BanPeer); "ok" | "err"              *)
(*   every other op (Drop, Unban, RemoveAddr, RemoveID, DisconnectAddr,     *)
(*   DisconnectID, ShutBegin, ShutEnd, Subscribe, Unsubscribe, Announce,    *)
(*   UpdateHeights, AddrMsg) is judged only through the state it leaves.    *)
(* The driver lets every asynchronous consequence of an action finish       *)
(* before it observes (bounded waits, >= 100x the normal latency).          *)
(***************************************************************************)
EXTENDS Integers, Sequences, FiniteSets

AbsInit == 0
AbsNext(a, act, o2) == a

Banned(o, i) == i >= 1 /\ i <= Len(o.ban) /\ o.ban[i][1] = 1

Slots(o) == 1..Len(o.conn)

Viol(a, o, act, a2, o2) ==
  \* provably invalid block / filter header / filter checkpoint => banned and disconnected:
  \* the offender is the connected peer at exactly the reported address
  (IF act.op = "Misbehave"
      /\ (~Banned(o2, act.i)
          \/ \E p \in Slots(o) : /\ o.ad[p] = <<act.i, act.j>>
                                 /\ (o.kept[p] = 1 \/ o.conn[p] = 2)
                                 /\ o2.ad[p] = o.ad[p]
                                 /\ (o2.kept[p] = 1 \/ o2.conn[p] # 0))
   THEN {"MisbehavingPeerBanned"} ELSE {})
  \cup
  \* the client does not keep a connection to a banned address: neither a peer it reports
  \* (Peers()) nor a connection on which the handshake has completed and which it holds open
  (IF \E p \in Slots(o2) : (o2.kept[p] = 1 \/ o2.conn[p] = 2) /\ Banned(o2, o2.ad[p][1])
   THEN {"NoConnectionToBanned"} ELSE {})
  \cup
  \* ... nor opens one, whoever asked for the connection (ConnectNode, the retry of a
  \* permanent peer, the client's own search for outbound peers)
  (IF act.op \in {"ConnectNode", "Redial", "NewAddr"}
      /\ Banned(o, act.i) /\ Banned(o2, act.i) /\ act.res = "accepted"
   THEN {"BannedConnectRefused"} ELSE {})

EndViol(a, o) == {}
=============================================================================
