------------------------------ MODULE BanEnforce ------------------------------
(***************************************************************************)
(* Implementation-shaped model of how neutrino enforces bans on its peer    *)
(* connections (neutrino.go).  One action per step of a peer's life as the  *)
(* client's goroutines execute it:                                          *)
(*                                                                          *)
(*   Connect(p,i,j)   connmgr dialled (i,j) and calls                       *)
(*                    ChainService.outboundPeerConnected: IsBanned(addr) => *)
(*                    connmgr.Remove / Disconnect (conn closed);            *)
(*                    PeerByAddr(addr) # nil => same; else a ServerPeer is  *)
(*                    created and the handshake starts                      *)
(*   Version(p,f)     peer.readRemoteVersionMsg -> ServerPeer.OnVersion:    *)
(*                    services lack SFNodeWitness or SFNodeCF =>            *)
(*                    BanPeer(addr, NoCompactFilters) + sp.Disconnect()     *)
(*   VerAck(p)        ServerPeer.OnVerAck -> AddPeer -> peerHandler ->      *)
(*                    handleAddPeerMsg: IsBanned(sp.Addr()) => Disconnect,  *)
(*                    else the peer joins peerState                         *)
(*   Misbehave(i,j,k) a validation site (ChainService.GetBlock in query.go: *)
(*                    invalid block; getUncheckpointedCFHeaders,            *)
(*                    resolveConflict: invalid filter header;               *)
(*                    checkpointedCFHeadersQuery.handleResponse,            *)
(*                    resolveConflict: invalid filter checkpoint) calls     *)
(*                    ChainService.BanPeer(addr, reason): the ban is        *)
(*                    recorded for the IP (port stripped by                 *)
(*                    banman.ParseIPNet) and, in a goroutine,               *)
(*                    PeerByAddr(addr) is disconnected - the ONE connected  *)
(*                    peer whose "ip:port" string equals addr               *)
(*   BanBegin(i,j,k)  the same BanPeer call, but taken step by step as the   *)
(*   BanCommit        code has them: (1) the call is made and reaches the   *)
(*                    ban store's write (BanBegin; the driver holds the     *)
(*                    write there), (2) the write commits, BanPeer returns  *)
(*                    and only then its deferred goroutine looks up         *)
(*                    PeerByAddr(addr) and disconnects it (BanCommit).      *)
(*                    Between the two the environment is free: connections  *)
(*                    are dialled, handshakes proceed, peers drop.  While   *)
(*                    the write is held nothing has changed yet, so a       *)
(*                    reconnect of the address is refused as a duplicate    *)
(*                    (the old peer is still there) and whatever gets in    *)
(*                    through another port is judged like at Misbehave.     *)
(*   Unban(i)         the ban is lifted in the store                        *)
(*   Drop(p)          the remote side closes the connection                 *)
(*   StoreBan(i,d,k)  a ban record for IP i is in the ban store although    *)
(*                    BanPeer was not called in this history: the store is  *)
(*                    a bbolt bucket that outlives the process, written by  *)
(*                    banStore.BanIPNet(ipNet, reason, duration).  d = 1: a  *)
(*                    ban that lapsed half an hour ago (IsBanned -> Status  *)
(*                    answers "not banned" and purges it), d = 2: half an   *)
(*                    hour left, d = 3: a day left.  Only for an IP no slot *)
(*                    is connected to (nobody is disconnected by it).       *)
(*                                                                          *)
(*   off      offset of ChainService.timeSource (btcd MedianTimeSource) in  *)
(*            hours, an ENVIRONMENT dimension chosen in Init: before the    *)
(*            history starts, peers whose clocks are off by that much have  *)
(*            sent their version messages (OnVersion ->                     *)
(*            timeSource.AddTimeSample; the median of >= 5 samples becomes  *)
(*            the offset of AdjustedTime()), and the peers of the history   *)
(*            stamp their version messages with the same clock.  The ban    *)
(*            store compares its absolute expiries with time.Now() and      *)
(*            IsBanned returns the store's answer, so NOTHING in the model  *)
(*            depends on off - that is the point: the replay shows that the *)
(*            real code does not either.                                    *)
(*                                                                          *)
(*   ban[i]   0 = IP i not banned, else the recorded banman.Reason          *)
(*   ph[p]    0 no connection, 1 handshake started (our version sent),      *)
(*            2 remote version accepted (our verack sent), 3 in peerState   *)
(*   ad[p]    <<i,j>> address of the connection in slot p                   *)
(*                                                                          *)
(* FixBanAllOfHost = FALSE describes BanPeer disconnecting only the peer    *)
(* with exactly the reported "ip:port"; TRUE describes code that drops      *)
(* every connected peer of the banned IP.                                   *)
(* Not modelled: two simultaneous HANDSHAKES with the same ip:port (both    *)
(* could become peers and the driver could not tell which of the two        *)
(* PeerByAddr picks).  A dial of the ip:port of a connected peer is         *)
(* modelled: outboundPeerConnected refuses it.                              *)
(***************************************************************************)
EXTENDS Integers, Sequences, FiniteSets, TLC, Json, BanEnforceProps

CONSTANTS NP,        \* connection slots
          NI,        \* IPs
          NJ,        \* ports per IP
          MaxOps,    \* actions per history
          Split,     \* TRUE: BanPeer calls are taken in two steps (BanBegin / BanCommit)
          Offs,      \* offsets of the network-adjusted clock Init chooses from: 0, 1 (+1 h), 2 (-1 h)
          StoreBans, \* TRUE: StoreBan actions
          FixBanAllOfHost

VARIABLES ban, ph, ad, pend, off, nops, abs, act, viol

vars == <<ban, ph, ad, pend, off, nops, abs, act, viol>>

NoAddr == <<0, 0>>
NoPend == <<0, 0, 0>>      \* pend = <<i, j, k>>: a BanPeer((i,j), k) whose ban write has not committed yet

Obs == [ban  |-> [i \in 1..NI |-> IF ban[i] = 0 THEN <<0, 0>> ELSE <<1, ban[i]>>],
        ad   |-> [p \in 1..NP |-> ad[p]],
        conn |-> [p \in 1..NP |-> IF ph[p] # 0 THEN 1 ELSE 0],
        kept |-> [p \in 1..NP |-> IF ph[p] = 3 THEN 1 ELSE 0],
        off  |-> off]

Act(op, p, i, j, f, k, res) ==
  [op |-> op, p |-> p, i |-> i, j |-> j, f |-> f, k |-> k, res |-> res]

Finish(a) ==
  /\ off'  = off
  /\ act'  = a
  /\ abs'  = AbsNext(abs, a, Obs')
  /\ viol' = Viol(abs, Obs, a, abs', Obs')
  /\ nops' = nops + 1

\* The slots BanPeer(addr of (i,j)) disconnects.
Hit(i, j) == {q \in 1..NP : ph[q] = 3 /\ (IF FixBanAllOfHost THEN ad[q][1] = i ELSE ad[q] = <<i, j>>)}

Close(S) == /\ ph' = [q \in 1..NP |-> IF q \in S THEN 0 ELSE ph[q]]
            /\ ad' = [q \in 1..NP |-> IF q \in S THEN NoAddr ELSE ad[q]]

Connect(p, i, j) ==
  /\ ph[p] = 0
  /\ \A q \in 1..NP : ad[q] = <<i, j>> => ph[q] = 3      \* see "Not modelled"
  /\ UNCHANGED <<ban, pend>>
  /\ IF ban[i] # 0 \/ \E q \in 1..NP : ad[q] = <<i, j>>     \* banned, or already connected to it
     THEN /\ UNCHANGED <<ph, ad>>
          /\ Finish(Act("Connect", p, i, j, 0, 0, "refused"))
     ELSE /\ ph' = [ph EXCEPT ![p] = 1]
          /\ ad' = [ad EXCEPT ![p] = <<i, j>>]
          /\ Finish(Act("Connect", p, i, j, 0, 0, "accepted"))

Version(p, f) ==
  /\ ph[p] = 1
  /\ IF f = 3
     THEN /\ ph' = [ph EXCEPT ![p] = 2]
          /\ UNCHANGED <<ban, ad, pend>>
          /\ Finish(Act("Version", p, ad[p][1], ad[p][2], f, 0, "ok"))
     ELSE /\ ban' = [ban EXCEPT ![ad[p][1]] = 2]
          /\ UNCHANGED pend
          /\ Close({p} \cup Hit(ad[p][1], ad[p][2]))
          /\ Finish(Act("Version", p, ad[p][1], ad[p][2], f, 0, "dropped"))

VerAck(p) ==
  /\ ph[p] = 2
  /\ UNCHANGED <<ban, pend>>
  /\ IF ban[ad[p][1]] # 0
     THEN /\ Close({p})
          /\ Finish(Act("VerAck", p, ad[p][1], ad[p][2], 0, 0, "dropped"))
     ELSE /\ ph' = [ph EXCEPT ![p] = 3]
          /\ UNCHANGED ad
          /\ Finish(Act("VerAck", p, ad[p][1], ad[p][2], 0, 0, "active"))

Misbehave(i, j, k) ==
  /\ ban' = [ban EXCEPT ![i] = k]
  /\ UNCHANGED pend
  /\ Close(Hit(i, j))
  /\ Finish(Act("Misbehave", 0, i, j, 0, k, "ok"))

BanBegin(i, j, k) ==
  /\ Split /\ pend = NoPend
  /\ pend' = <<i, j, k>>
  /\ UNCHANGED <<ban, ph, ad>>
  /\ Finish(Act("BanBegin", 0, i, j, 0, k, "held"))

BanCommit ==
  /\ pend # NoPend
  /\ ban' = [ban EXCEPT ![pend[1]] = pend[3]]
  /\ pend' = NoPend
  /\ Close(Hit(pend[1], pend[2]))
  /\ Finish(Act("BanCommit", 0, pend[1], pend[2], 0, pend[3], "ok"))

Unban(i) ==
  /\ ban[i] # 0
  /\ ban' = [ban EXCEPT ![i] = 0]
  /\ UNCHANGED <<ph, ad, pend>>
  /\ Finish(Act("Unban", 0, i, 0, 0, 0, "ok"))

StoreBan(i, d, k) ==
  /\ StoreBans
  /\ \A q \in 1..NP : ad[q][1] # i
  /\ pend = NoPend \/ pend[1] # i
  /\ ban' = [ban EXCEPT ![i] = IF d = 1 THEN 0 ELSE k]
  /\ UNCHANGED <<ph, ad, pend>>
  /\ Finish(Act("StoreBan", 0, i, 0, d, k, "ok"))

Drop(p) ==
  /\ ph[p] # 0
  /\ UNCHANGED <<ban, pend>>
  /\ Close({p})
  /\ Finish(Act("Drop", p, ad[p][1], ad[p][2], 0, 0, "ok"))

Init ==
  /\ ban = [i \in 1..NI |-> 0]
  /\ ph = [p \in 1..NP |-> 0]
  /\ ad = [p \in 1..NP |-> NoAddr]
  /\ pend = NoPend
  /\ off \in {IF c = 2 THEN -1 ELSE c : c \in Offs}
  /\ nops = 0
  /\ abs = AbsInit
  /\ act = Act("Init", 0, 0, 0, 0, 0, "ok")
  /\ viol = {}

Next ==
  /\ nops < MaxOps
  /\ \/ \E p \in 1..NP : \E i \in 1..NI : \E j \in 1..NJ : Connect(p, i, j)
     \/ \E p \in 1..NP : \E f \in 0..3 : Version(p, f)
     \/ \E p \in 1..NP : VerAck(p)
     \/ \E i \in 1..NI : \E j \in 1..NJ : \E k \in 3..5 : Misbehave(i, j, k)
     \/ \E i \in 1..NI : \E j \in 1..NJ : BanBegin(i, j, 5)
     \/ BanCommit
     \/ \E i \in 1..NI : Unban(i)
     \/ \E p \in 1..NP : Drop(p)
     \/ \E i \in 1..NI : \E d \in 1..3 : StoreBan(i, d, IF d = 1 THEN 3 ELSE 2 + d)

Spec == Init /\ [][Next]_vars

TypeOK ==
  /\ \A i \in 1..NI : ban[i] \in 0..5
  /\ \A p \in 1..NP : ph[p] \in 0..3 /\ (ph[p] = 0 <=> ad[p] = NoAddr)

NoViolation == viol = {}

\* nops is a bound, not part of a state's identity
State == [ban |-> ban, ph |-> ph, ad |-> ad, pend |-> pend, off |-> off]
View0 == <<ban, ph, ad, pend, off, nops>>
=============================================================================
