------------------------------ MODULE BanEnforce ------------------------------
(***************************************************************************)
(* Implementation-shaped model of how neutrino enforces bans on its peer    *)
(* connections (neutrino.go).  One action per step of a peer's life as the  *)
(* client's goroutines execute it:                                          *)
(*                                                                          *)
(*   Connect(p,i,j)   connmgr dialled (i,j) and calls                       *)
(*                    ChainService.outboundPeerConnected: IsBanned(addr) => *)
(*                    connmgr.Remove / Disconnect (conn closed);            *)
(*                    PeerByAddr(addr) # nil => same; else a ServerPeer is  *)
(*                    created and the handshake starts                      *)
(*   Version(p,f)     peer.readRemoteVersionMsg -> ServerPeer.OnVersion:    *)
(*                    services lack SFNodeWitness or SFNodeCF =>            *)
(*                    BanPeer(addr, NoCompactFilters) + sp.Disconnect()     *)
(*   VerAck(p)        ServerPeer.OnVerAck -> AddPeer -> peerHandler ->      *)
(*                    handleAddPeerMsg: IsBanned(sp.Addr()) => Disconnect,  *)
(*                    else the peer joins peerState                         *)
(*   Misbehave(i,j,k) a validation site (ChainService.GetBlock in query.go: *)
(*                    invalid block; getUncheckpointedCFHeaders,            *)
(*                    resolveConflict: invalid filter header;               *)
(*                    checkpointedCFHeadersQuery.handleResponse,            *)
(*                    resolveConflict: invalid filter checkpoint) calls     *)
(*                    ChainService.BanPeer(addr, reason): the ban is        *)
(*                    recorded for the IP (port stripped by                 *)
(*                    banman.ParseIPNet) and, in a goroutine,               *)
(*                    PeerByAddr(addr) is disconnected - the ONE connected  *)
(*                    peer whose "ip:port" string equals addr               *)
(*   Unban(i)         the ban is lifted in the store                        *)
(*   Drop(p)          the remote side closes the connection                 *)
(*                                                                          *)
(*   ban[i]   0 = IP i not banned, else the recorded banman.Reason          *)
(*   ph[p]    0 no connection, 1 handshake started (our version sent),      *)
(*            2 remote version accepted (our verack sent), 3 in peerState   *)
(*   ad[p]    <<i,j>> address of the connection in slot p                   *)
(*                                                                          *)
(* FixBanAllOfHost = FALSE describes BanPeer disconnecting only the peer    *)
(* with exactly the reported "ip:port"; TRUE describes code that drops      *)
(* every connected peer of the banned IP.                                   *)
(* Not modelled: two simultaneous connections to the same ip:port (the      *)
(* driver could not tell which of the two PeerByAddr picks).                *)
(***************************************************************************)
EXTENDS Integers, Sequences, FiniteSets, TLC, Json, BanEnforceProps

CONSTANTS NP,        \* connection slots
          NI,        \* IPs
          NJ,        \* ports per IP
          MaxOps,    \* actions per history
          FixBanAllOfHost

VARIABLES ban, ph, ad, nops, abs, act, viol

vars == <<ban, ph, ad, nops, abs, act, viol>>

NoAddr == <<0, 0>>

Obs == [ban  |-> [i \in 1..NI |-> IF ban[i] = 0 THEN <<0, 0>> ELSE <<1, ban[i]>>],
        ad   |-> [p \in 1..NP |-> ad[p]],
        conn |-> [p \in 1..NP |-> IF ph[p] # 0 THEN 1 ELSE 0],
        kept |-> [p \in 1..NP |-> IF ph[p] = 3 THEN 1 ELSE 0]]

Act(op, p, i, j, f, k, res) ==
  [op |-> op, p |-> p, i |-> i, j |-> j, f |-> f, k |-> k, res |-> res]

Finish(a) ==
  /\ act'  = a
  /\ abs'  = AbsNext(abs, a, Obs')
  /\ viol' = Viol(abs, Obs, a, abs', Obs')
  /\ nops' = nops + 1

\* The slots BanPeer(addr of (i,j)) disconnects.
Hit(i, j) == {q \in 1..NP : ph[q] = 3 /\ (IF FixBanAllOfHost THEN ad[q][1] = i ELSE ad[q] = <<i, j>>)}

Close(S) == /\ ph' = [q \in 1..NP |-> IF q \in S THEN 0 ELSE ph[q]]
            /\ ad' = [q \in 1..NP |-> IF q \in S THEN NoAddr ELSE ad[q]]

Connect(p, i, j) ==
  /\ ph[p] = 0
  /\ \A q \in 1..NP : ad[q] # <<i, j>>          \* see "Not modelled"
  /\ UNCHANGED ban
  /\ IF ban[i] # 0
     THEN /\ UNCHANGED <<ph, ad>>
          /\ Finish(Act("Connect", p, i, j, 0, 0, "refused"))
     ELSE /\ ph' = [ph EXCEPT ![p] = 1]
          /\ ad' = [ad EXCEPT ![p] = <<i, j>>]
          /\ Finish(Act("Connect", p, i, j, 0, 0, "accepted"))

Version(p, f) ==
  /\ ph[p] = 1
  /\ IF f = 3
     THEN /\ ph' = [ph EXCEPT ![p] = 2]
          /\ UNCHANGED <<ban, ad>>
          /\ Finish(Act("Version", p, ad[p][1], ad[p][2], f, 0, "ok"))
     ELSE /\ ban' = [ban EXCEPT ![ad[p][1]] = 2]
          /\ Close({p} \cup Hit(ad[p][1], ad[p][2]))
          /\ Finish(Act("Version", p, ad[p][1], ad[p][2], f, 0, "dropped"))

VerAck(p) ==
  /\ ph[p] = 2
  /\ UNCHANGED ban
  /\ IF ban[ad[p][1]] # 0
     THEN /\ Close({p})
          /\ Finish(Act("VerAck", p, ad[p][1], ad[p][2], 0, 0, "dropped"))
     ELSE /\ ph' = [ph EXCEPT ![p] = 3]
          /\ UNCHANGED ad
          /\ Finish(Act("VerAck", p, ad[p][1], ad[p][2], 0, 0, "active"))

Misbehave(i, j, k) ==
  /\ ban' = [ban EXCEPT ![i] = k]
  /\ Close(Hit(i, j))
  /\ Finish(Act("Misbehave", 0, i, j, 0, k, "ok"))

Unban(i) ==
  /\ ban[i] # 0
  /\ ban' = [ban EXCEPT ![i] = 0]
  /\ UNCHANGED <<ph, ad>>
  /\ Finish(Act("Unban", 0, i, 0, 0, 0, "ok"))

Drop(p) ==
  /\ ph[p] # 0
  /\ UNCHANGED ban
  /\ Close({p})
  /\ Finish(Act("Drop", p, ad[p][1], ad[p][2], 0, 0, "ok"))

Init ==
  /\ ban = [i \in 1..NI |-> 0]
  /\ ph = [p \in 1..NP |-> 0]
  /\ ad = [p \in 1..NP |-> NoAddr]
  /\ nops = 0
  /\ abs = AbsInit
  /\ act = Act("Init", 0, 0, 0, 0, 0, "ok")
  /\ viol = {}

Next ==
  /\ nops < MaxOps
  /\ \/ \E p \in 1..NP : \E i \in 1..NI : \E j \in 1..NJ : Connect(p, i, j)
     \/ \E p \in 1..NP : \E f \in 0..3 : Version(p, f)
     \/ \E p \in 1..NP : VerAck(p)
     \/ \E i \in 1..NI : \E j \in 1..NJ : \E k \in 3..5 : Misbehave(i, j, k)
     \/ \E i \in 1..NI : Unban(i)
     \/ \E p \in 1..NP : Drop(p)

Spec == Init /\ [][Next]_vars

TypeOK ==
  /\ \A i \in 1..NI : ban[i] \in 0..5
  /\ \A p \in 1..NP : ph[p] \in 0..3 /\ (ph[p] = 0 <=> ad[p] = NoAddr)

NoViolation == viol = {}

\* nops is a bound, not part of a state's identity
State == [ban |-> ban, ph |-> ph, ad |-> ad]
View0 == <<ban, ph, ad, nops>>
=============================================================================
