---------------------------- MODULE BanStoreProps ----------------------------
(***************************************************************************)
(* Property C13, store part, stated over OBSERVABLES only: what             *)
(* banman.Store.Status answers.  The same operators are evaluated by TLC    *)
(* (a) on every transition of BanStore.tla and (b) on every step of every   *)
(* trace observed on the real banman store.                                 *)
(*                                                                          *)
(* Statement: "An address banned for a duration is reported banned, with    *)
(* the recorded reason, by every query before the ban lapses and by none    *)
(* after it lapses or is lifted, also across closing and reopening the      *)
(* database, and every textual form of one IP address denotes the same      *)
(* record."                                                                 *)
(*                                                                          *)
(* Address classes (a convention shared with the Go driver, which           *)
(* manufactures the concrete addresses per path from the seed):             *)
(*   1 = A4  one IPv4 address            2 = A6  one IPv6 address           *)
(*   3 = N4  the /24 network of A4/B4    4 = B4  another IPv4 address of N4 *)
(*   5 = N6  the /64 network of A6                                          *)
(* A class is ONE address (or one network); which of its textual forms an   *)
(* operation uses (spelling group g, and the concrete string picked by the  *)
(* seed inside the group) is deliberately NOT part of the identity used     *)
(* here: that is the clause "every textual form denotes the same record".   *)
(*                                                                          *)
(* Networks: the statement speaks about the address (the store's unit: an   *)
(* IP network) that WAS banned.  It does not say whether banning a network  *)
(* bans the addresses inside it, so while a covering network is live the    *)
(* "not banned" clauses are not judged for the covered addresses.           *)
(*                                                                          *)
(* Time is a logical clock in whole ticks (act.now = clock after the        *)
(* action).  The driver guarantees that no query is issued in the           *)
(* wall-clock second of a nominal expiry (expiries are persisted in whole   *)
(* Unix seconds); see notes/banstore.md.                                    *)
(*                                                                          *)
(* obs.q[c][g]   = <<banned, reason>> answered by Status for class c        *)
(*                 through a spelling of group g (banned: 1/0, ERR = call   *)
(*                 failed; reason 0 when not banned)                        *)
(* obs.raw       = the raw buckets (drift only, never judged)               *)
(* act = [op, c, g, d, r, now, res, b, rr, k, op2, c2, g2, d2, r2, res2,    *)
(*        b2, rr2]                                                          *)
(*   op  "Ban" | "Unban" | "Status" | "Reopen" | "Tick" | "Init"            *)
(*   c,g class and spelling group (0 when not applicable)                   *)
(*   d   duration in ticks (Ban), r reason given (Ban)                      *)
(*   res "ok" | "err" | "panic"                                             *)
(*   b,rr what an explicit Status call answered (-1 when not applicable)    *)
(*   k   -1: one caller.  k >= 0: TWO CONCURRENT CALLERS - the call         *)
(*       (op2,c2,g2,d2,r2) of a second caller ran, in its own goroutine,    *)
(*       while the first caller's call (op,c,...) was in progress, namely   *)
(*       after that call's k-th database transaction had committed and      *)
(*       before its next one began (after its return if it made fewer).     *)
(*       The two calls overlap in time, so either order of taking effect    *)
(*       is legal; the step is judged against both and violates the         *)
(*       property only if NEITHER order explains every answer.              *)
(***************************************************************************)
EXTENDS Integers, Sequences, FiniteSets

NoRec == -1000
ERR   == -3
MaxC  == 5

Covers == {<<3, 1>>, <<3, 4>>, <<5, 2>>}

AbsInit == [now |-> 0, rec |-> [c \in 1..MaxC |-> <<NoRec, 0>>]]

First(act)  == [op |-> act.op, c |-> act.c, g |-> act.g, d |-> act.d, r |-> act.r,
                res |-> act.res, b |-> act.b, rr |-> act.rr]
Second(act) == [op |-> act.op2, c |-> act.c2, g |-> act.g2, d |-> act.d2, r |-> act.r2,
                res |-> act.res2, b |-> act.b2, rr |-> act.rr2]
IsPair(act) == act.k >= 0

\* the effect of one call on the ideal store
Apply(a, x) ==
  CASE x.op = "Ban" /\ x.res = "ok" ->
         [a EXCEPT !.rec[x.c] = <<a.now + x.d, x.r>>]      \* a re-ban overwrites
    [] x.op = "Unban" /\ x.res = "ok" ->
         [a EXCEPT !.rec[x.c] = <<NoRec, 0>>]
    [] OTHER -> a

HasRec(a, c) == a.rec[c][1] # NoRec
Live(a, c)   == HasRec(a, c) /\ a.now < a.rec[c][1]
CoveredLive(a, c) == \E n \in 1..MaxC : <<n, c>> \in Covers /\ Live(a, n)

\* clauses violated by ONE answer x = <<banned, reason>> about class c
AnswerViol(a, c, x) ==
  (IF Live(a, c) /\ x[1] # 1 THEN {"BannedUntilLapse"} ELSE {})
  \cup (IF Live(a, c) /\ x[1] = 1 /\ x[2] # a.rec[c][2] THEN {"RecordedReason"} ELSE {})
  \cup (IF HasRec(a, c) /\ ~Live(a, c) /\ ~CoveredLive(a, c) /\ x[1] = 1
        THEN {"NotBannedAfterLapse"} ELSE {})
  \cup (IF ~HasRec(a, c) /\ ~CoveredLive(a, c) /\ x[1] = 1
        THEN {"NotBannedAfterUnban"} ELSE {})

\* the Status sweep after the step: every class through every spelling group
SweepViol(a, o) ==
  UNION {AnswerViol(a, c, o.q[c][g]) : c \in 1..Len(o.q), g \in 1..3}
  \cup (IF \E c \in 1..Len(o.q) : \E g1, g2 \in 1..Len(o.q[c]) : o.q[c][g1] # o.q[c][g2]
        THEN {"SameRecordEverySpelling"} ELSE {})
  \cup (IF \E c \in 1..Len(o.q) : \E g \in 1..Len(o.q[c]) : o.q[c][g][1] = ERR
        THEN {"EveryFormAccepted"} ELSE {})

\* one call x, judged in the ideal state a it took effect in
CallViol(a, x) ==
  (IF x.op = "Status" /\ x.res = "ok" THEN AnswerViol(a, x.c, <<x.b, x.rr>>) ELSE {})
  \cup (IF x.op \in {"Ban", "Unban", "Status"} /\ x.res # "ok" THEN {"EveryFormAccepted"} ELSE {})

\* two overlapping calls taking effect in the order x, y
OrderViol(a, x, y, o2) ==
  LET a1 == Apply(a, x)
      a2 == Apply(a1, y)
  IN  CallViol(a1, x) \cup CallViol(a2, y) \cup SweepViol(a2, o2)

AbsNext(a, act, o2) ==
  LET a0 == [a EXCEPT !.now = act.now]
  IN  IF ~IsPair(act) THEN Apply(a0, First(act))
      ELSE LET x == First(act)
               y == Second(act)
           IN  IF OrderViol(a0, x, y, o2) = {} \/ OrderViol(a0, y, x, o2) # {}
               THEN Apply(Apply(a0, x), y)
               ELSE Apply(Apply(a0, y), x)

Viol(a, o, act, a2, o2) ==
  IF IsPair(act)
  THEN LET a0 == [a EXCEPT !.now = act.now]
           v1 == OrderViol(a0, First(act), Second(act), o2)
           v2 == OrderViol(a0, Second(act), First(act), o2)
       IN  IF v1 = {} \/ v2 = {} THEN {}
           ELSE IF v1 \cap v2 # {} THEN v1 \cap v2 ELSE v1
  ELSE CallViol(a2, First(act)) \cup SweepViol(a2, o2)
       \cup (IF act.op = "Reopen" /\ (act.res # "ok" \/ o2.q # o.q)
             THEN {"ReopenPreserves"} ELSE {})

EndViol(a, o) == {}
=============================================================================
