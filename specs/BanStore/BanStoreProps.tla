---------------------------- MODULE BanStoreProps ----------------------------
(***************************************************************************)
(* Property C13, store part, stated over OBSERVABLES only: what             *)
(* banman.Store.Status answers.  The same operators are evaluated by TLC    *)
(* (a) on every transition of BanStore.tla and (b) on every step of every   *)
(* trace observed on the real banman store.                                 *)
(*                                                                          *)
(* Statement: "An address banned for a duration is reported banned, with    *)
(* the recorded reason, by every query before the ban lapses and by none    *)
(* after it lapses or is lifted, also across closing and reopening the      *)
(* database, and every textual form of one IP address denotes the same      *)
(* record."                                                                 *)
(*                                                                          *)
(* Address classes (a convention shared with the Go driver, which           *)
(* manufactures the concrete addresses per path from the seed):             *)
(*   1 = A4  one IPv4 address            2 = A6  one IPv6 address           *)
(*   3 = N4  the /24 network of A4/B4    4 = B4  another IPv4 address of N4 *)
(*   5 = N6  the /64 network of A6                                          *)
(* A class is ONE address (or one network); which of its textual forms an   *)
(* operation uses (spelling group g, and the concrete string picked by the  *)
(* seed inside the group) is deliberately NOT part of the identity used     *)
(* here: that is the clause "every textual form denotes the same record".   *)
(*                                                                          *)
(* Networks: the statement speaks about the address (the store's unit: an   *)
(* IP network) that WAS banned.  It does not say whether banning a network  *)
(* bans the addresses inside it, so while a covering network is live the    *)
(* "not banned" clauses are not judged for the covered addresses.           *)
(*                                                                          *)
(* Time is a logical clock in whole ticks (act.now = clock after the        *)
(* action).  The driver guarantees that no query is issued in the           *)
(* wall-clock second of a nominal expiry (expiries are persisted in whole   *)
(* Unix seconds); see notes/banstore.md.                                    *)
(*                                                                          *)
(* obs.q[c][g]   = <<banned, reason>> answered by Status for class c        *)
(*                 through a spelling of group g (banned: 1/0, ERR = call   *)
(*                 failed; reason 0 when not banned)                        *)
(* obs.raw       = the raw buckets (drift only, never judged)               *)
(* act = [op, c, g, d, r, now, res, b, rr]                                  *)
(*   op  "Ban" | "Unban" | "Status" | "Reopen" | "Tick" | "Init"            *)
(*   c,g class and spelling group (0 when not applicable)                   *)
(*   d   duration in ticks (Ban), r reason given (Ban)                      *)
(*   res "ok" | "err" | "panic"                                             *)
(*   b,rr what an explicit Status call answered (-1 when not applicable)    *)
(***************************************************************************)
EXTENDS Integers, Sequences, FiniteSets

NoRec == -1000
ERR   == -3
MaxC  == 5

Covers == {<<3, 1>>, <<3, 4>>, <<5, 2>>}

AbsInit == [now |-> 0, rec |-> [c \in 1..MaxC |-> <<NoRec, 0>>]]

AbsNext(a, act, o2) ==
  LET a1 == [a EXCEPT !.now = act.now]
  IN  CASE act.op = "Ban" /\ act.res = "ok" ->
             [a1 EXCEPT !.rec[act.c] = <<act.now + act.d, act.r>>]    \* a re-ban overwrites
        [] act.op = "Unban" /\ act.res = "ok" ->
             [a1 EXCEPT !.rec[act.c] = <<NoRec, 0>>]
        [] OTHER -> a1

HasRec(a, c) == a.rec[c][1] # NoRec
Live(a, c)   == HasRec(a, c) /\ a.now < a.rec[c][1]
CoveredLive(a, c) == \E n \in 1..MaxC : <<n, c>> \in Covers /\ Live(a, n)

\* All answers about class c visible in this step: the sweep over every
\* spelling group, plus the explicit Status call if it was about c.
Answers(act, o2, c) ==
  {o2.q[c][g] : g \in 1..Len(o2.q[c])}
  \cup (IF act.op = "Status" /\ act.c = c /\ act.res = "ok" THEN {<<act.b, act.rr>>} ELSE {})

Viol(a, o, act, a2, o2) ==
  LET NCo == Len(o2.q)
      Cs  == 1..NCo
  IN
  (IF \E c \in Cs : Live(a2, c) /\ \E x \in Answers(act, o2, c) : x[1] # 1
   THEN {"BannedUntilLapse"} ELSE {})
  \cup
  (IF \E c \in Cs : Live(a2, c) /\ \E x \in Answers(act, o2, c) : x[1] = 1 /\ x[2] # a2.rec[c][2]
   THEN {"RecordedReason"} ELSE {})
  \cup
  (IF \E c \in Cs : HasRec(a2, c) /\ ~Live(a2, c) /\ ~CoveredLive(a2, c)
                    /\ \E x \in Answers(act, o2, c) : x[1] = 1
   THEN {"NotBannedAfterLapse"} ELSE {})
  \cup
  (IF \E c \in Cs : ~HasRec(a2, c) /\ ~CoveredLive(a2, c)
                    /\ \E x \in Answers(act, o2, c) : x[1] = 1
   THEN {"NotBannedAfterUnban"} ELSE {})
  \cup
  (IF \E c \in Cs : \E g1, g2 \in 1..Len(o2.q[c]) : o2.q[c][g1] # o2.q[c][g2]
   THEN {"SameRecordEverySpelling"} ELSE {})
  \cup
  (IF act.op = "Reopen" /\ (act.res # "ok" \/ o2.q # o.q)
   THEN {"ReopenPreserves"} ELSE {})
  \cup
  (IF (act.op \in {"Ban", "Unban", "Status"} /\ act.res # "ok")
      \/ \E c \in Cs : \E g \in 1..Len(o2.q[c]) : o2.q[c][g][1] = ERR
   THEN {"EveryFormAccepted"} ELSE {})

EndViol(a, o) == {}
=============================================================================
