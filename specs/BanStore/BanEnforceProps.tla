--------------------------- MODULE BanEnforceProps ---------------------------
(***************************************************************************)
(* Property C13, enforcement clause, over OBSERVABLES only:                 *)
(*                                                                          *)
(* "Peers that do not offer witness and compact-filter service, or that     *)
(* serve a provably invalid block, filter header or filter checkpoint, are  *)
(* banned and disconnected, and the client does not keep a connection to a  *)
(* banned address."                                                         *)
(*                                                                          *)
(* Observables (what the driver reads from the real ChainService):          *)
(*   obs.ban[i]   <<banned, reason>>  ChainService.IsBanned / Store.Status  *)
(*                for IP i (queried as "ip:port")                           *)
(*   obs.ad[p]    <<i, j>> IP and port index of the connection in slot p,   *)
(*                <<0,0>> when the slot has no open connection              *)
(*   obs.conn[p]  1 while the client holds the connection of slot p open    *)
(*                (it has not closed its end), else 0                       *)
(*   obs.kept[p]  1 iff the peer of slot p is in ChainService.Peers(), the  *)
(*                set of peers the client keeps connected                   *)
(* act = [op, p, i, j, f, k, res]                                           *)
(*   "Connect"   a connection to address (i,j) is established for slot p    *)
(*               and handed to the client; res "accepted" | "refused"       *)
(*   "Version"   the remote version arrives; f = service bits offered       *)
(*               (1 = witness, 2 = compact filters); res "ok" | "dropped"   *)
(*   "VerAck"    the remote verack arrives; res "active" | "dropped"        *)
(*   "Misbehave" the client detected that the peer at (i,j) served an       *)
(*               invalid block (k=5), filter header (k=3) or filter         *)
(*               checkpoint (k=4) and reports it (BanPeer); res "ok"|"err"  *)
(*   "BanBegin"  the same report, taken in two steps: the BanPeer call has  *)
(*   "BanCommit" reached the ban store's write, which is held ("held"); the *)
(*               write commits and BanPeer runs to its end ("ok" | "err").  *)
(*               Judged like "Misbehave" once the write has committed.      *)
(*   "Unban"     the ban of IP i is lifted in the store                     *)
(*   "Drop"      the remote side closes the connection of slot p            *)
(*   "StoreBan"  a ban record for IP i is in the (persistent, shared) ban    *)
(*               store without the client's BanPeer having been called now  *)
(*               (placed by an earlier run / another user of the store):    *)
(*               f = 1 a ban that lapsed half an hour ago, f = 2 a ban with *)
(*               half an hour left, f = 3 a ban with a day left; k reason   *)
(* obs.off       the offset of the client's network-adjusted clock          *)
(*               (ChainService.timeSource.Offset()) in whole hours: peers'  *)
(*               version timestamps move it.  NO clause reads it: whether a *)
(*               ban has lapsed is a matter of real time (the store records *)
(*               an absolute expiry), so every clause below must hold       *)
(*               whatever the offset is.                                    *)
(* abs           the IDEAL: the set of IPs under a ban that has neither     *)
(*               lapsed nor been lifted.  The driver only places bans that  *)
(*               are at least half an hour away from their expiry on either *)
(*               side, so no ban lapses while a trace runs.                 *)
(* The driver lets every asynchronous consequence of an action finish       *)
(* before it observes (bounded waits, >= 100x the normal latency).          *)
(***************************************************************************)
EXTENDS Integers, Sequences, FiniteSets

AbsInit == {}
AbsNext(a, act, o2) ==
  IF act.op \in {"Misbehave", "BanCommit"} /\ act.res = "ok" THEN a \cup {act.i}
  ELSE IF act.op = "Version" /\ act.f # 3 /\ act.res = "dropped" THEN a \cup {act.i}
  ELSE IF act.op = "StoreBan" /\ act.res = "ok"
       THEN (IF act.f = 1 THEN a \ {act.i} ELSE a \cup {act.i})
  ELSE IF act.op = "Unban" /\ act.res = "ok" THEN a \ {act.i}
  ELSE a

Banned(o, i) == i >= 1 /\ i <= Len(o.ban) /\ o.ban[i][1] = 1

Slots(o) == 1..Len(o.conn)

\* "a banned address": under a ban by the ideal, or reported banned by the client
IsB(a, o, i) == i \in a \/ Banned(o, i)

Viol(a, o, act, a2, o2) ==
  \* not offering witness AND compact-filter service => banned and disconnected
  (IF act.op = "Version" /\ act.f # 3
      /\ (~Banned(o2, o.ad[act.p][1]) \/ o2.conn[act.p] # 0 \/ o2.kept[act.p] # 0)
   THEN {"NoServicePeerBanned"} ELSE {})
  \cup
  \* provably invalid block / filter header / filter checkpoint => banned and disconnected
  (IF act.op \in {"Misbehave", "BanCommit"}
      /\ (~Banned(o2, act.i)
          \/ \E p \in Slots(o) : o.ad[p] = <<act.i, act.j>> /\ o.kept[p] = 1
                                 /\ o2.ad[p] = o.ad[p] /\ (o2.kept[p] = 1 \/ o2.conn[p] = 1))
   THEN {"MisbehavingPeerBanned"} ELSE {})
  \cup
  \* the client does not keep a connection to a banned address
  (IF \E p \in Slots(o2) : o2.kept[p] = 1 /\ IsB(a2, o2, o2.ad[p][1])
   THEN {"NoConnectionToBanned"} ELSE {})
  \cup
  \* ... nor opens one
  (IF act.op = "Connect" /\ IsB(a, o, act.i) /\ IsB(a2, o2, act.i) /\ act.res # "refused"
   THEN {"BannedConnectRefused"} ELSE {})
  \cup
  \* "reported banned by every query before the ban lapses" - the query being
  \* ChainService.IsBanned, which every connection-acceptance site asks
  (IF \E i \in a2 : ~Banned(o2, i)
   THEN {"IsBannedUntilLapse"} ELSE {})
  \cup
  \* "and by none after it lapses or is lifted"
  (IF \E i \in 1..Len(o2.ban) : i \notin a2 /\ Banned(o2, i)
   THEN {"IsBannedNotAfterLapse"} ELSE {})

EndViol(a, o) == {}
=============================================================================
