------------------------------- MODULE SendTx -------------------------------
(***************************************************************************)
(* Implementation-shaped model of ChainService.sendTransaction             *)
(* (query.go:959) on top of queryAllPeers (query.go:277).                  *)
(*                                                                         *)
(* Bookkeeping of the code:                                                *)
(*   replies   map of peers that sent getdata for the tx        (:1017)    *)
(*   rej       rejections: peer -> class of its reject          (:1048)    *)
(*   cnt       rejectCodes: class -> number of reject messages  (:1049)    *)
(*   closed    peers whose peerQuit channel is closed: queryAllPeers drops *)
(*             their later messages (:383) and their query goroutine ends  *)
(*   armed     peers with a delayedCloser running (:1030): closed when the *)
(*             reject timeout has passed                                   *)
(* The whole response handler runs in one goroutine, so one action per     *)
(* delivered message; time is the two timeouts (Delay = the reject timeout *)
(* passes, Finish = the broadcast timeout passes).  The query ends by      *)
(* itself as soon as every peer is closed.                                 *)
(*                                                                         *)
(* FixRejectFromReplier = a reject from a peer that has not requested the  *)
(* transaction is ignored (the code after the repair of defect 14b).       *)
(***************************************************************************)
EXTENDS Integers, Sequences, FiniteSets, TLC, Json, SendTxProps

CONSTANTS NP,         \* at most NP connected peers (np is chosen in Init)
          MinNP,      \* ... and at least MinNP
          Ordered,    \* TRUE: the peers speak one after the other (peer p only after no peer > p has
                      \* spoken) - the bookkeeping does not depend on the order ACROSS peers, only on
                      \* the order of one peer's messages; used for the 5-peer boundary graph
          Thrs,       \* thresholds (percent) to choose from
          Codes,      \* reject classes used
          MaxDelay,   \* how often the reject timeout may pass
          MaxX,       \* messages about an unrelated hash (reject "X", getdata "Y") per history
          MaxDup,     \* repeated messages per history (a peer sends a second getdata / a second
                      \* reject of the tx, possibly of another class; at most two of a kind per peer)
          Msgs,       \* reject messages given as (wire reject code, reason) pairs, see SendTxProps:
                      \* m = (wc-1)*8 + rs.  {} = rejects are given by class only (act.m = 0: the
                      \* driver picks one of the spellings error.go lists for the class)
          FixRejectFromReplier

VARIABLES np, thr, replies, rej, cnt, closed, armed, verdict, sent, ndelay, nx, ndup,
          abs, act, viol
cvars == <<np, thr, replies, rej, cnt, closed, armed, verdict, sent, ndelay, nx, ndup>>
vars  == <<np, thr, replies, rej, cnt, closed, armed, verdict, sent, ndelay, nx, ndup, abs, act, viol>>

Peers == 1..np

ObsOf(t, v) == [np |-> np, thr |-> t, verdict |-> v]
Obs == ObsOf(thr, verdict)

Rejs(r) == {p \in Peers : r[p] # 0}

\* The verdict computation, query.go:1071-1143.  A tie for the most frequent
\* class is broken by Go map iteration: any of them.
Verdicts(rp, r, c) ==
  LET mx == CHOOSE m \in {c[i] : i \in 1..5} : \A i \in 1..5 : c[i] <= m
  IN  IF rp = {} THEN {1}
      ELSE IF Cardinality(rp) = Cardinality(Rejs(r))
      THEN {10 + i : i \in {j \in 1..5 : c[j] = mx}}
      ELSE IF Rejs(r) # {} /\ c[1] * 100 >= thr * Cardinality(rp) THEN {11}
      ELSE {1}

Finish(a) ==
  /\ act' = a
  /\ abs' = AbsNext(abs, a, Obs')
  /\ viol' = Viol(abs, Obs, a, abs', Obs')

A(op, p, kind, code) == [op |-> op, p |-> p, kind |-> kind, code |-> code, m |-> 0, res |-> "ok"]

\* pushtx/error.go ParseBroadcastError :97-148, case by case: the class the
\* CODE gives to the reject message m = (wire code wc, reason rs).  The reason
\* is looked at for RejectDuplicate only.
CodeClass(m) ==
  LET wc == WC(m)  rs == RS(m)
  IN  CASE wc \in {1, 2} -> 1                              \* :103 RejectInvalid, RejectNonstandard
        [] wc = 3 -> 2                                     \* :106 RejectInsufficientFee
        [] wc = 4 /\ rs = 1 -> 1                           \* :113 txn-mempool-conflict
        [] wc = 4 /\ rs = 2 -> 3                           \* :119 txn-already-in-mempool
        [] wc = 4 /\ rs = 3 -> 4                           \* :125 txn-already-known
        [] wc = 4 /\ rs = 4 -> 1                           \* :133 already spent
        [] wc = 4 /\ rs = 5 -> 3                           \* :139 already have transaction
        [] wc = 4 /\ rs = 6 -> 4                           \* :145 transaction already exists
        [] OTHER -> 5                                      \* :149 default

\* The query is over once every peer's goroutine has returned.
EndIfAllClosed(cl, rp, r, c) ==
  IF cl = Peers THEN verdict' \in Verdicts(rp, r, c) ELSE verdict' = 0

\* A peer may repeat a message of a kind once, within the budget MaxDup.
MaySend(p, k) ==
  /\ sent[p][k] = 0 \/ (sent[p][k] = 1 /\ ndup < MaxDup)
  /\ Ordered => \A q \in Peers : q > p => sent[q] = <<0, 0>>
Sent(p, k) == /\ sent' = [sent EXCEPT ![p][k] = @ + 1]
              /\ ndup' = IF sent[p][k] = 1 THEN ndup + 1 ELSE ndup

GetData(p) ==                                              \* :1006
  /\ verdict = 0 /\ MaySend(p, 1)
  /\ Sent(p, 1)
  /\ IF p \in closed
     THEN UNCHANGED <<replies, armed>>
     ELSE replies' = replies \cup {p} /\ armed' = armed \cup {p}
  /\ UNCHANGED <<np, thr, rej, cnt, closed, verdict, ndelay, nx>>
  /\ Finish(A("Msg", p, "G", 0))

Reject(p, c) ==                                            \* :1038
  /\ verdict = 0 /\ MaySend(p, 2)
  /\ Sent(p, 2)
  /\ UNCHANGED <<np, thr, replies, armed, ndelay, nx>>
  /\ IF p \in closed \/ (FixRejectFromReplier /\ p \notin replies)
     THEN UNCHANGED <<rej, cnt, closed, verdict>>
     ELSE /\ rej' = [rej EXCEPT ![p] = c]
          /\ cnt' = [cnt EXCEPT ![c] = @ + 1]
          /\ closed' = closed \cup {p}                     \* closeNow :1059
          /\ EndIfAllClosed(closed', replies, rej', cnt')
  /\ Finish(A("Msg", p, "R", c))

\* The same handler step for a reject given as a concrete (wire code, reason)
\* message: the bookkeeping sees the class ParseBroadcastError gives it (:1045).
RejectMsg(p, m) ==
  LET c == CodeClass(m) IN
  /\ verdict = 0 /\ MaySend(p, 2)
  /\ Sent(p, 2)
  /\ UNCHANGED <<np, thr, replies, armed, ndelay, nx>>
  /\ IF p \in closed \/ (FixRejectFromReplier /\ p \notin replies)
     THEN UNCHANGED <<rej, cnt, closed, verdict>>
     ELSE /\ rej' = [rej EXCEPT ![p] = c]
          /\ cnt' = [cnt EXCEPT ![c] = @ + 1]
          /\ closed' = closed \cup {p}
          /\ EndIfAllClosed(closed', replies, rej', cnt')
  /\ Finish([A("Msg", p, "R", c) EXCEPT !.m = m])

RejectOther(p) ==                                          \* :1041
  /\ verdict = 0 /\ nx < MaxX
  /\ nx' = nx + 1
  /\ UNCHANGED <<np, thr, replies, rej, cnt, closed, armed, verdict, sent, ndelay, ndup>>
  /\ Finish(A("Msg", p, "X", 0))

RequestOther(p) ==                                         \* :1007, vec.Hash # txHash
  /\ verdict = 0 /\ nx < MaxX
  /\ nx' = nx + 1
  /\ UNCHANGED <<np, thr, replies, rej, cnt, closed, armed, verdict, sent, ndelay, ndup>>
  /\ Finish(A("Msg", p, "Y", 0))

Delay ==                                                   \* delayedCloser fires
  /\ verdict = 0 /\ ndelay < MaxDelay /\ armed \ closed # {}
  /\ ndelay' = ndelay + 1
  /\ closed' = closed \cup armed
  /\ EndIfAllClosed(closed', replies, rej, cnt)
  /\ UNCHANGED <<np, thr, replies, rej, cnt, armed, sent, nx, ndup>>
  /\ Finish(A("Delay", 0, "", 0))

Timeout ==                                                 \* broadcast timeout :339
  /\ verdict = 0
  /\ verdict' \in Verdicts(replies, rej, cnt)
  /\ UNCHANGED <<np, thr, replies, rej, cnt, closed, armed, sent, ndelay, nx, ndup>>
  /\ Finish(A("Finish", 0, "", 0))

Init ==
  /\ np \in MinNP..NP
  /\ thr \in Thrs
  /\ replies = {} /\ closed = {} /\ armed = {}
  /\ rej = [p \in Peers |-> 0]
  /\ cnt = <<0, 0, 0, 0, 0>>
  /\ sent = [p \in Peers |-> <<0, 0>>]
  /\ verdict = 0 /\ ndelay = 0 /\ nx = 0 /\ ndup = 0
  /\ abs = AbsInit
  /\ act = A("Init", 0, "", 0)
  /\ viol = {}

Next ==
  \/ \E p \in Peers : GetData(p)
  \/ \E p \in Peers : \E c \in Codes : Reject(p, c)
  \/ \E p \in Peers : \E m \in Msgs : RejectMsg(p, m)
  \/ \E p \in Peers : RejectOther(p)
  \/ \E p \in Peers : RequestOther(p)
  \/ Delay
  \/ Timeout

Spec == Init /\ [][Next]_vars

TypeOK ==
  /\ replies \subseteq Peers /\ closed \subseteq Peers /\ armed \subseteq replies
  /\ \A p \in Peers : rej[p] \in 0..5
  /\ verdict \in {0, 1} \cup 11..15

NoViolation == viol = {}

State == [np |-> np, thr |-> thr, replies |-> replies, rej |-> rej, cnt |-> cnt, closed |-> closed,
          armed |-> armed, verdict |-> verdict, sent |-> sent, ndelay |-> ndelay, nx |-> nx, ndup |-> ndup,
          abs |-> abs]
View == <<np, thr, replies, rej, cnt, closed, armed, verdict, sent, ndelay, nx, ndup, abs>>
=============================================================================
