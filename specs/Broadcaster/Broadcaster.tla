----------------------------- MODULE Broadcaster -----------------------------
(***************************************************************************)
(* Implementation-shaped model of neutrino's pushtx.Broadcaster            *)
(* (pushtx/broadcaster.go).                                                *)
(*                                                                         *)
(* Goroutines of the code and their model state (all inside the record s): *)
(*   broadcastHandler (:127)   h in idle (at the select :176) / cb (inside *)
(*                             cfg.Broadcast for request hreq :179) / dead *)
(*                             (returned on quit :218); txs = its local    *)
(*                             map `transactions`; sem = the token of      *)
(*                             rebroadcastSem (:139); tick = a tick is     *)
(*                             buffered in reBroadcastTicker.C             *)
(*   rebroadcast goroutine (:164, rebroadcast :228)                        *)
(*                             rb in none / next (top of the loop: quit    *)
(*                             check :242, next send) / cb (inside         *)
(*                             cfg.Broadcast :248 for rbCur) / ret (result *)
(*                             rbOut being classified :255) / conf (in the *)
(*                             select {confChan<-, quit} :265) / fin (about*)
(*                             to put the token back :168);                *)
(*                             rbAll = its private copy (:158), rbSent what*)
(*                             it already sent, rbQ = the queue of Kahn's  *)
(*                             algorithm (wtxmgr.DependencySort) as a      *)
(*                             sequence of BATCHES: the members of one     *)
(*                             batch come out in an order the code takes   *)
(*                             from Go map iteration, i.e. any order       *)
(*   a caller of Broadcast (:297)        bc in none / send (first select)  *)
(*                                       / wait (second select), tx bctx   *)
(*   a caller of MarkAsConfirmed (:319)  mk in none / send, tx mktx        *)
(*   a caller of Stop (:115)             stp in none / wait (close(quit)   *)
(*                                       done, in wg.Wait) / done          *)
(*                                                                         *)
(* SMALL STEPS (IntSucc): one per select arm / channel operation that      *)
(* needs no input from the environment.  ENVIRONMENT INPUTS: a call is     *)
(* made, a gate (the Config.Broadcast callback) is released with an        *)
(* outcome, a block notification is handed to the handler, the ticker      *)
(* fires.  The real driver lets the code run to quiescence after every     *)
(* input (testing/synctest), so Next composes each input with Settle = all *)
(* maximal sequences of small steps, in every interleaving; the states of  *)
(* the exported graph are exactly the quiescent ones the driver can see.   *)
(*                                                                         *)
(* Environment discipline: while the handler is inside a callback at most   *)
(* MaxWait parties wait for it (a MarkAsConfirmed caller, a buffered tick,  *)
(* the rebroadcast's confirmation report).  With two or more the handler's  *)
(* select chooses among ready arms; every order is in Settle.  The only     *)
(* order that matters is tick-before/after-MarkAsConfirmed while no         *)
(* rebroadcast runs (the copy contains the tx or not); the observables may  *)
(* reveal it only some steps later, so the walker follows all candidate     *)
(* states.  Stop may come at any time.                                      *)
(*                                                                         *)
(* CloseSub = the producer of the block subscription closes the           *)
(* Notifications channel (subscription cancelled, subscription manager      *)
(* stopped before the Broadcaster) at any quiescent point.  The handler's   *)
(* arm :205 then is ALWAYS ready: it logs a warning (:207) and goes back to *)
(* the select (:209 continue) - a step that changes nothing, so it is not   *)
(* in HSteps; Go's select chooses uniformly among the ready arms, so the    *)
(* other arms are still served (the driver gates the log call and lets the  *)
(* handler go round the loop 256 times per quiescence).  What changes: no   *)
(* block event can be delivered any more; everything else goes on - ticks   *)
(* rebroadcast, Broadcast / MarkAsConfirmed / Stop return.  Observable wn = *)
(* the handler is parked in the warning of its closed-channel arm.          *)
(*                                                                         *)
(* FixMarkQuit = MarkAsConfirmed selects on quit as well (the code after   *)
(* the repair of defect 8); FALSE = plain send on confChan.                *)
(***************************************************************************)
EXTENDS Integers, Sequences, FiniteSets, TLC, Json, BroadcasterProps

CONSTANTS NTx,        \* transactions 1..NTx; parents of i are a subset of 1..i-1
          MaxOps,     \* Broadcast calls + block events + ticks + MarkAsConfirmed calls per history
          MaxM,       \* ... of which MarkAsConfirmed calls
          Outs,       \* outcomes handed to the request handler's callback
          ROuts,      \* outcomes handed to a rebroadcast's callback
          FixMarkQuit,
          Rels,       \* {} : confirmations are reported by MarkCall(tx);  otherwise the rescan slice:
                      \* Mined(tx, class) = the rescan (real extractBlockMatches) finds tx in a block,
                      \* class in Rels = why the tx is relevant to it: "spend" (a watched input),
                      \* "pay" (only an output to a watched address), "both", "neither"
          MayClose,   \* TRUE: the block subscription may close its Notifications channel (CloseSub)
          MaxWait,    \* how many parties may wait for the busy handler at once (big steps)
          Fine        \* TRUE: small-step semantics (model-level check), FALSE: big steps (replay)

VARIABLES s, abs, act, viol
vars == <<s, abs, act, viol>>

Txs == 1..NTx

RECURSIVE AscSeq(_)
AscSeq(S) == IF S = {} THEN <<>>
              ELSE LET m == CHOOSE x \in S : \A y \in S : x <= y
                   IN  <<m>> \o AscSeq(S \ {m})

Graphs == {f \in [Txs -> SUBSET Txs] : \A i \in Txs : f[i] \subseteq 1..(i-1)}

P(x, t) == Range(x.par[t])

----------------------------------------------------------------------------
\* triggerRebroadcast (:145): take the token if it is there, copy the map.
Roots(x, S) == {t \in S : P(x, t) \cap S = {}}

Trigger(x) ==
  IF x.sem = 1
  THEN [x EXCEPT !.sem = 0, !.rbAll = x.txs, !.rbSent = {},
                 !.rbQ = IF x.txs = {} THEN <<>> ELSE <<Roots(x, x.txs)>>,
                 !.rb = IF x.txs = {} THEN "fin" ELSE "next"]
  ELSE x

\* The arms of the handler's select (:176) that can fire without the driver.
HSteps(x) ==
  IF x.h # "idle" THEN {} ELSE
       (IF x.bc = "send"                                   \* :178, then :179
        THEN {[x EXCEPT !.h = "cb", !.hreq = x.bctx, !.bc = "wait"]}
        ELSE {})
  \cup (IF x.mk = "send"                                   \* :200 from a caller
        THEN {[x EXCEPT !.txs = @ \ {x.mktx}, !.mk = "none"]} ELSE {})
  \cup (IF x.rb = "conf"                                   \* :200 from the rebroadcast
        THEN {[x EXCEPT !.txs = @ \ {x.rbCur}, !.rb = "next"]} ELSE {})
  \cup (IF x.tick = 1                                      \* :215
        THEN {Trigger([x EXCEPT !.tick = 0])} ELSE {})
  \cup (IF x.quit THEN {[x EXCEPT !.h = "dead"]} ELSE {})  \* :218

\* Kahn's algorithm, lazily: children whose last in-copy parent is t.
Freed(x, t) ==
  {c \in x.rbAll \ (x.rbSent \cup {t}) :
      t \in P(x, c) /\ (P(x, c) \cap x.rbAll) \subseteq (x.rbSent \cup {t})}

PopQ(q, t, fr) ==
  LET h1   == q[1] \ {t}
      rest == IF h1 = {} THEN Tail(q) ELSE <<h1>> \o Tail(q)
  IN  IF fr = {} THEN rest ELSE Append(rest, fr)

\* The rebroadcast goroutine.
RSteps(x) ==
  CASE x.rb = "next" ->
         IF x.quit \/ x.rbQ = <<>>                         \* :242 / loop end
         THEN {[x EXCEPT !.rb = "fin"]}
         ELSE {[x EXCEPT !.rb = "cb", !.rbCur = t, !.rbSent = @ \cup {t},
                         !.rbQ = PopQ(@, t, Freed(x, t)), !.rn = 1 - @]
               : t \in x.rbQ[1]}                           \* :248
    [] x.rb = "ret" ->                                     \* :255
         {[x EXCEPT !.rb = IF x.rbOut \in ConfOuts THEN "conf" ELSE "next"]}
    [] x.rb = "conf" ->                                    \* :267
         IF x.quit THEN {[x EXCEPT !.rb = "fin"]} ELSE {}
    [] x.rb = "fin" ->                                     \* :168, wg.Done
         {[x EXCEPT !.rb = "none", !.sem = 1, !.rbAll = {}, !.rbSent = {},
                    !.rbQ = <<>>, !.rbCur = 0, !.rbOut = "none"]}
    [] OTHER -> {}

\* Callers blocked in the API.  reply = what the handler has put into the
\* request's errChan (:190 / :196; 0 = nothing yet).
CSteps(x) ==
       (IF x.bc \in {"send", "wait"} /\ x.quit             \* :305 / :312
        THEN {[x EXCEPT !.bc = "none", !.lastB = 3, !.reply = 0]} ELSE {})
  \cup (IF x.bc = "wait" /\ x.reply # 0                    \* :310
        THEN {[x EXCEPT !.bc = "none", !.lastB = x.reply, !.reply = 0]} ELSE {})
  \cup (IF FixMarkQuit /\ x.mk = "send" /\ x.quit
        THEN {[x EXCEPT !.mk = "none"]} ELSE {})
  \cup (IF x.stp = "wait" /\ x.h = "dead" /\ x.rb = "none" \* wg.Wait :118
        THEN {[x EXCEPT !.stp = "done"]} ELSE {})

IntSucc(x) == HSteps(x) \cup RSteps(x) \cup CSteps(x)

\* Nothing of a dead handler is ever read again.
Canon(x) == IF x.h = "dead" THEN [x EXCEPT !.tick = 0, !.txs = {}, !.closed = FALSE] ELSE x

RECURSIVE Settle(_)
Settle(x) == LET n == IntSucc(x)
             IN  IF n = {} THEN {Canon(x)} ELSE UNION {Settle(y) : y \in n}

Waiters(x) == (IF x.mk = "send" THEN 1 ELSE 0) + x.tick
              + (IF x.rb = "conf" THEN 1 ELSE 0)

----------------------------------------------------------------------------
\* Observables (see BroadcasterProps).
ObsOf(x) ==
  LET hcb   == IF x.h = "cb" THEN x.hreq ELSE 0
      rcb   == IF x.rb = "cb" THEN x.rbCur ELSE 0
      gates == hcb # 0 \/ rcb # 0
  IN  [par |-> x.par, hcb |-> hcb, rcb |-> rcb, rn |-> x.rn,
       wn  |-> IF x.closed /\ x.h = "idle" THEN 1 ELSE 0,
       bc  |-> IF x.bc = "none" THEN 0 ELSE IF gates THEN 1 ELSE 2,
       bcRes |-> x.lastB,
       mk  |-> IF x.mk = "none" THEN 0 ELSE IF gates THEN 1 ELSE 2,
       stp |-> CASE x.stp = "none" -> 0 [] x.stp = "done" -> 3
                 [] OTHER -> IF gates THEN 1 ELSE 2]

Obs == ObsOf(s)

Res(op, o2) ==
  CASE op = "BcastCall" -> IF o2.bc = 1 THEN "pending" ELSE IF o2.bc = 2 THEN "hung"
                           ELSE IF o2.bcRes = 3 THEN "stopped"
                           ELSE IF o2.bcRes = 1 THEN "ok" ELSE "err"
    [] op \in {"MarkCall", "Mined"} -> IF o2.mk = 0 THEN "ok" ELSE IF o2.mk = 1 THEN "pending" ELSE "hung"
    [] op = "Stop"      -> IF o2.stp = 3 THEN "ok" ELSE IF o2.stp = 1 THEN "pending" ELSE "hung"
    [] op = "Block"     -> "delivered"
    [] OTHER            -> "ok"

\* The environment's moves as functions of the state (guards G*, effects E*).
GBcast(x)   == x.bc = "none" /\ x.nops < MaxOps
EBcast(x, t) == [x EXCEPT !.bc = "send", !.bctx = t, !.nops = @ + 1]       \* Broadcast :297
GHRel(x)    == x.h = "cb"
EHRel(x, o) ==                                             \* :179 returns, :180-196
  LET acc == o \in AcceptOuts
  IN  [x EXCEPT !.h = "idle", !.hreq = 0,
                !.txs = IF acc THEN @ \cup {x.hreq} ELSE @,
                !.reply = IF x.bc = "wait" THEN (IF acc THEN 1 ELSE 2) ELSE 0]
GRbRel(x)   == x.rb = "cb"
ERbRel(x, o) == [x EXCEPT !.rb = "ret", !.rbOut = o]       \* :248 returns
GMark(x)    == x.mk = "none" /\ x.nops < MaxOps /\ x.nm < MaxM
EMark(x, t) == [x EXCEPT !.mk = "send", !.mktx = t, !.nops = @ + 1, !.nm = @ + 1]  \* :319
\* extractBlockMatches rescan.go:1039: every relevant tx of the block is handed
\* to MarkAsConfirmed :1107 (so the call blocks exactly as MarkCall does); a tx
\* the rescan does not care about is not reported.
EMined(x, t, r) == IF r = "neither" THEN [x EXCEPT !.nops = @ + 1, !.nm = @ + 1] ELSE EMark(x, t)
GBlock(x)   == x.h = "idle" /\ ~x.closed /\ x.nops < MaxOps
EBlock(x)   == Trigger([x EXCEPT !.nops = @ + 1])          \* :205
GTick(x)    == x.h # "dead" /\ x.tick = 0 /\ x.nops < MaxOps
ETick(x)    == [x EXCEPT !.tick = 1, !.nops = @ + 1]       \* the ticker fires
GClose(x)   == MayClose /\ ~x.closed /\ x.h # "dead" /\ x.nops < MaxOps
EClose(x)   == [x EXCEPT !.closed = TRUE, !.nops = @ + 1]  \* close(sub.Notifications) by its producer
GStop(x)    == x.stp = "none"
EStop(x)    == [x EXCEPT !.stp = "wait", !.quit = TRUE]    \* :115

\* BIG STEPS (the graph that is replayed): apply the input, let the code run
\* to quiescence in every possible way.
S0 == [s EXCEPT !.lastB = 0]     \* bcRes reports a return in THIS step only

Do(x0, op, tx, out) ==
  \E y \in Settle(x0) :
     /\ Waiters(y) <= MaxWait
     /\ s' = y
     /\ act' = [op |-> op, tx |-> tx, out |-> out, res |-> Res(op, ObsOf(y))]
     /\ abs' = AbsNext(abs, act', ObsOf(y))
     /\ viol' = Viol(abs, Obs, act', abs', ObsOf(y))

BcastCall(t) == GBcast(s) /\ Do(EBcast(S0, t), "BcastCall", t, "")
HRelease(o)  == GHRel(s)  /\ Do(EHRel(S0, o), "HRelease", s.hreq, o)
RbRelease(o) == GRbRel(s) /\ Do(ERbRel(S0, o), "RbRelease", s.rbCur, o)
MarkCall(t)  == Rels = {} /\ GMark(s) /\ Do(EMark(S0, t), "MarkCall", t, "")
Mined(t, r)  == GMark(s)  /\ Do(EMined(S0, t, r), "Mined", t, r)
Block        == GBlock(s) /\ Do(EBlock(S0), "Block", 0, "")
Tick         == GTick(s)  /\ Do(ETick(S0), "Tick", 0, "")
Stop         == GStop(s)  /\ Do(EStop(S0), "Stop", 0, "")
CloseSub     == GClose(s) /\ Do(EClose(S0), "CloseSub", 0, "")

\* SMALL STEPS (Fine = TRUE; model-level check only, nothing is exported): the
\* environment may move at ANY moment, also between two steps of the code, and
\* any number of parties may wait for the handler.
FineNext ==
  /\ \/ \E t \in Txs : GBcast(s) /\ s' = EBcast(s, t)
     \/ \E o \in Outs : GHRel(s) /\ s' = EHRel(s, o)
     \/ \E o \in ROuts : GRbRel(s) /\ s' = ERbRel(s, o)
     \/ \E t \in Txs : GMark(s) /\ s' = EMark(s, t)
     \/ \E t \in Txs : \E r \in Rels : GMark(s) /\ s' = EMined(s, t, r)
     \/ GBlock(s) /\ s' = EBlock(s)
     \/ GTick(s) /\ s' = ETick(s)
     \/ GStop(s) /\ s' = EStop(s)
     \/ GClose(s) /\ s' = EClose(s)
     \/ \E y \in IntSucc(s) : s' = y
  /\ UNCHANGED <<abs, act, viol>>

Init ==
  /\ \E f \in Graphs :
       s = [par |-> [i \in Txs |-> AscSeq(f[i])],
            txs |-> {}, h |-> "idle", hreq |-> 0,
            bc |-> "none", bctx |-> 0, mk |-> "none", mktx |-> 0,
            stp |-> "none", quit |-> FALSE, closed |-> FALSE, sem |-> 1, tick |-> 0,
            rb |-> "none", rbAll |-> {}, rbSent |-> {}, rbQ |-> <<>>,
            rbCur |-> 0, rbOut |-> "none",
            nops |-> 0, nm |-> 0, rn |-> 0, lastB |-> 0, reply |-> 0]
  /\ abs = AbsInit
  /\ act = [op |-> "Init", tx |-> 0, out |-> "", res |-> "ok"]
  /\ viol = {}

BigNext ==
  \/ \E t \in Txs : BcastCall(t)
  \/ \E o \in Outs : HRelease(o)
  \/ \E o \in ROuts : RbRelease(o)
  \/ \E t \in Txs : MarkCall(t)
  \/ \E t \in Txs : \E r \in Rels : Mined(t, r)
  \/ Block
  \/ Tick
  \/ Stop
  \/ CloseSub

Next == IF Fine THEN FineNext ELSE BigNext

Spec == Init /\ [][Next]_vars

----------------------------------------------------------------------------
TypeOK ==
  /\ s.txs \subseteq Txs /\ s.rbAll \subseteq Txs /\ s.rbSent \subseteq s.rbAll
  /\ s.h \in {"idle", "cb", "dead"} /\ s.hreq \in 0..NTx
  /\ s.bc \in {"none", "send", "wait"} /\ s.mk \in {"none", "send"}
  /\ s.stp \in {"none", "wait", "done"} /\ s.quit \in BOOLEAN /\ s.closed \in BOOLEAN
  /\ s.sem \in {0, 1} /\ s.tick \in {0, 1}
  /\ s.rb \in {"none", "next", "cb", "ret", "conf", "fin"}

\* Every state of the replayed graph is quiescent.
Quiescent == Fine \/ IntSucc(s) = {}

\* Small steps: whenever the code can do nothing more by itself and no gate
\* is held, nobody is left inside Broadcast / MarkAsConfirmed / Stop.  (Every
\* behaviour is finite - the inputs are bounded and every step of the code
\* consumes something - so this is "every call eventually returns once the
\* callbacks have returned", in every interleaving.)
NoStuck == (IntSucc(s) = {} /\ s.h # "cb" /\ s.rb # "cb")
           => (s.bc = "none" /\ s.mk = "none" /\ s.stp # "wait")

\* One rebroadcast at a time; the token is out exactly while one runs.
SemInv == (s.sem = 0) <=> (s.rb # "none")

\* What the code has sent in the running rebroadcast respects the copy's order.
SortedInv == \A c \in s.rbSent : (P(s, c) \cap s.rbAll) \subseteq s.rbSent

\* A handler that is alive and idle leaves nobody waiting.
IdleServes == Fine \/ (s.h = "idle" => s.mk = "none" /\ s.bc = "none" /\ s.tick = 0 /\ s.rb # "conf")

\* Design-level statement of C15 on the model; an invariant only for
\* configurations whose switches describe repaired code.
NoViolation == viol = {}

State == [s |-> s, abs |-> abs]
View  == <<s, abs>>
=============================================================================
