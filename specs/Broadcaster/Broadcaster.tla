----------------------------- MODULE Broadcaster -----------------------------
(***************************************************************************)
(* Implementation-shaped model of neutrino's pushtx.Broadcaster            *)
(* (pushtx/broadcaster.go).                                                *)
(*                                                                         *)
(* Goroutines of the code and their model state (all inside the record s): *)
(*   broadcastHandler (:127)   h in idle (at the select :176) / cb (inside *)
(*                             cfg.Broadcast for request hreq :179) / dead *)
(*                             (returned on quit :218); txs = its local    *)
(*                             map `transactions`; sem = the token of      *)
(*                             rebroadcastSem (:139); tick = a tick is     *)
(*                             buffered in reBroadcastTicker.C             *)
(*   rebroadcast goroutine (:164, rebroadcast :228)                        *)
(*                             rb in none / next (top of the loop: quit    *)
(*                             check :242, next send) / cb (inside         *)
(*                             cfg.Broadcast :248 for rbCur) / ret (result *)
(*                             rbOut being classified :255) / conf (in the *)
(*                             select {confChan<-, quit} :265) / fin (about*)
(*                             to put the token back :168);                *)
(*                             rbAll = its private copy (:158), rbSent what*)
(*                             it already sent, rbQ = the queue of Kahn's  *)
(*                             algorithm (wtxmgr.DependencySort) as a      *)
(*                             sequence of BATCHES: the members of one     *)
(*                             batch come out in an order the code takes   *)
(*                             from Go map iteration, i.e. any order       *)
(*   a caller of Broadcast (:297)        bc in none / send (first select)  *)
(*                                       / wait (second select), tx bctx   *)
(*   a caller of MarkAsConfirmed (:319)  mk in none / send, tx mktx        *)
(*   a caller of Stop (:115)             stp in none / wait (close(quit)   *)
(*                                       done, in wg.Wait) / done          *)
(*                                                                         *)
(* SMALL STEPS (IntSucc): one per select arm / channel operation that      *)
(* needs no input from the environment.  ENVIRONMENT INPUTS: a call is     *)
(* made, a gate (the Config.Broadcast callback) is released with an        *)
(* outcome, a block notification is handed to the handler, the ticker      *)
(* fires.  The real driver lets the code run to quiescence after every     *)
(* input (testing/synctest), so Next composes each input with Settle = all *)
(* maximal sequences of small steps, in every interleaving; the states of  *)
(* the exported graph are exactly the quiescent ones the driver can see.   *)
(*                                                                         *)
(* Environment discipline (keeps the outcome of the handler's select       *)
(* determined, since the driver cannot force Go's choice between two ready *)
(* arms): while the handler is inside a callback at most ONE thing waits   *)
(* for it (a MarkAsConfirmed caller, a buffered tick, or the rebroadcast's *)
(* confirmation report) - Waiters(y) <= 1.  Stop may come at any time.     *)
(*                                                                         *)
(* FixMarkQuit = MarkAsConfirmed selects on quit as well (the code after   *)
(* the repair of defect 8); FALSE = plain send on confChan.                *)
(***************************************************************************)
EXTENDS Integers, Sequences, FiniteSets, TLC, Json, BroadcasterProps

CONSTANTS NTx,        \* transactions 1..NTx; parents of i are a subset of 1..i-1
          MaxOps,     \* Broadcast calls + block events + ticks + MarkAsConfirmed calls per history
          MaxM,       \* ... of which MarkAsConfirmed calls
          Outs,       \* outcomes handed to the request handler's callback
          ROuts,      \* outcomes handed to a rebroadcast's callback
          FixMarkQuit

VARIABLES s, abs, act, viol
vars == <<s, abs, act, viol>>

Txs == 1..NTx

RECURSIVE AscSeq(_)
AscSeq(S) == IF S = {} THEN <<>>
              ELSE LET m == CHOOSE x \in S : \A y \in S : x <= y
                   IN  <<m>> \o AscSeq(S \ {m})

Graphs == {f \in [Txs -> SUBSET Txs] : \A i \in Txs : f[i] \subseteq 1..(i-1)}

P(x, t) == Range(x.par[t])

----------------------------------------------------------------------------
\* triggerRebroadcast (:145): take the token if it is there, copy the map.
Roots(x, S) == {t \in S : P(x, t) \cap S = {}}

Trigger(x) ==
  IF x.sem = 1
  THEN [x EXCEPT !.sem = 0, !.rbAll = x.txs, !.rbSent = {},
                 !.rbQ = IF x.txs = {} THEN <<>> ELSE <<Roots(x, x.txs)>>,
                 !.rb = IF x.txs = {} THEN "fin" ELSE "next"]
  ELSE x

\* The arms of the handler's select (:176) that can fire without the driver.
HSteps(x) ==
  IF x.h # "idle" THEN {} ELSE
       (IF x.bc = "send"                                   \* :178, then :179
        THEN {[x EXCEPT !.h = "cb", !.hreq = x.bctx, !.bc = "wait"]}
        ELSE {})
  \cup (IF x.mk = "send"                                   \* :200 from a caller
        THEN {[x EXCEPT !.txs = @ \ {x.mktx}, !.mk = "none"]} ELSE {})
  \cup (IF x.rb = "conf"                                   \* :200 from the rebroadcast
        THEN {[x EXCEPT !.txs = @ \ {x.rbCur}, !.rb = "next"]} ELSE {})
  \cup (IF x.tick = 1                                      \* :215
        THEN {Trigger([x EXCEPT !.tick = 0])} ELSE {})
  \cup (IF x.quit THEN {[x EXCEPT !.h = "dead"]} ELSE {})  \* :218

\* Kahn's algorithm, lazily: children whose last in-copy parent is t.
Freed(x, t) ==
  {c \in x.rbAll \ (x.rbSent \cup {t}) :
      t \in P(x, c) /\ (P(x, c) \cap x.rbAll) \subseteq (x.rbSent \cup {t})}

PopQ(q, t, fr) ==
  LET h1   == q[1] \ {t}
      rest == IF h1 = {} THEN Tail(q) ELSE <<h1>> \o Tail(q)
  IN  IF fr = {} THEN rest ELSE Append(rest, fr)

\* The rebroadcast goroutine.
RSteps(x) ==
  CASE x.rb = "next" ->
         IF x.quit \/ x.rbQ = <<>>                         \* :242 / loop end
         THEN {[x EXCEPT !.rb = "fin"]}
         ELSE {[x EXCEPT !.rb = "cb", !.rbCur = t, !.rbSent = @ \cup {t},
                         !.rbQ = PopQ(@, t, Freed(x, t)), !.rn = 1 - @]
               : t \in x.rbQ[1]}                           \* :248
    [] x.rb = "ret" ->                                     \* :255
         {[x EXCEPT !.rb = IF x.rbOut \in ConfOuts THEN "conf" ELSE "next"]}
    [] x.rb = "conf" ->                                    \* :267
         IF x.quit THEN {[x EXCEPT !.rb = "fin"]} ELSE {}
    [] x.rb = "fin" ->                                     \* :168, wg.Done
         {[x EXCEPT !.rb = "none", !.sem = 1, !.rbAll = {}, !.rbSent = {},
                    !.rbQ = <<>>, !.rbCur = 0, !.rbOut = "none"]}
    [] OTHER -> {}

\* Callers blocked in the API.
CSteps(x) ==
       (IF x.bc \in {"send", "wait"} /\ x.quit             \* :305 / :312
        THEN {[x EXCEPT !.bc = "none", !.lastB = 3]} ELSE {})
  \cup (IF FixMarkQuit /\ x.mk = "send" /\ x.quit
        THEN {[x EXCEPT !.mk = "none"]} ELSE {})
  \cup (IF x.stp = "wait" /\ x.h = "dead" /\ x.rb = "none" \* wg.Wait :118
        THEN {[x EXCEPT !.stp = "done"]} ELSE {})

IntSucc(x) == HSteps(x) \cup RSteps(x) \cup CSteps(x)

\* Nothing of a dead handler is ever read again.
Canon(x) == IF x.h = "dead" THEN [x EXCEPT !.tick = 0, !.txs = {}] ELSE x

RECURSIVE Settle(_)
Settle(x) == LET n == IntSucc(x)
             IN  IF n = {} THEN {Canon(x)} ELSE UNION {Settle(y) : y \in n}

Waiters(x) == (IF x.mk = "send" THEN 1 ELSE 0) + x.tick
              + (IF x.rb = "conf" THEN 1 ELSE 0)

----------------------------------------------------------------------------
\* Observables (see BroadcasterProps).
ObsOf(x) ==
  LET hcb   == IF x.h = "cb" THEN x.hreq ELSE 0
      rcb   == IF x.rb = "cb" THEN x.rbCur ELSE 0
      gates == hcb # 0 \/ rcb # 0
  IN  [par |-> x.par, hcb |-> hcb, rcb |-> rcb, rn |-> x.rn,
       bc  |-> IF x.bc = "none" THEN 0 ELSE IF gates THEN 1 ELSE 2,
       bcRes |-> x.lastB,
       mk  |-> IF x.mk = "none" THEN 0 ELSE IF gates THEN 1 ELSE 2,
       stp |-> CASE x.stp = "none" -> 0 [] x.stp = "done" -> 3
                 [] OTHER -> IF gates THEN 1 ELSE 2]

Obs == ObsOf(s)

Res(op, o2) ==
  CASE op = "BcastCall" -> IF o2.bc = 1 THEN "pending" ELSE IF o2.bc = 2 THEN "hung"
                           ELSE IF o2.bcRes = 3 THEN "stopped"
                           ELSE IF o2.bcRes = 1 THEN "ok" ELSE "err"
    [] op = "MarkCall"  -> IF o2.mk = 0 THEN "ok" ELSE IF o2.mk = 1 THEN "pending" ELSE "hung"
    [] op = "Stop"      -> IF o2.stp = 3 THEN "ok" ELSE IF o2.stp = 1 THEN "pending" ELSE "hung"
    [] op = "Block"     -> "delivered"
    [] OTHER            -> "ok"

\* Apply input x1 (the state right after the environment's move), let the
\* code run to quiescence in every possible way.
S0 == [s EXCEPT !.lastB = 0]     \* bcRes reports a return in THIS step only

Do(x0, op, tx, out) ==
  \E y \in Settle(x0) :
     /\ Waiters(y) <= 1
     /\ s' = y
     /\ act' = [op |-> op, tx |-> tx, out |-> out, res |-> Res(op, ObsOf(y))]
     /\ abs' = AbsNext(abs, act', ObsOf(y))
     /\ viol' = Viol(abs, Obs, act', abs', ObsOf(y))

BcastCall(t) ==                                            \* Broadcast :297
  /\ s.bc = "none" /\ s.nops < MaxOps
  /\ Do([S0 EXCEPT !.bc = "send", !.bctx = t, !.nops = @ + 1], "BcastCall", t, "")

HRelease(o) ==                                             \* :179 returns, :180-196
  /\ s.h = "cb"
  /\ LET acc == o \in AcceptOuts
         x1  == [S0 EXCEPT !.h = "idle", !.hreq = 0,
                          !.txs = IF acc THEN @ \cup {s.hreq} ELSE @]
         x2  == IF s.bc = "wait"
                THEN [x1 EXCEPT !.bc = "none", !.lastB = IF acc THEN 1 ELSE 2]
                ELSE x1
     IN  Do(x2, "HRelease", s.hreq, o)

RbRelease(o) ==                                            \* :248 returns
  /\ s.rb = "cb"
  /\ Do([S0 EXCEPT !.rb = "ret", !.rbOut = o], "RbRelease", s.rbCur, o)

MarkCall(t) ==                                             \* MarkAsConfirmed :319
  /\ s.mk = "none" /\ s.nops < MaxOps /\ s.nm < MaxM
  /\ Do([S0 EXCEPT !.mk = "send", !.mktx = t, !.nops = @ + 1, !.nm = @ + 1], "MarkCall", t, "")

Block ==                                                   \* :205
  /\ s.h = "idle" /\ s.nops < MaxOps
  /\ Do(Trigger([S0 EXCEPT !.nops = @ + 1]), "Block", 0, "")

Tick ==                                                    \* the ticker fires
  /\ s.h # "dead" /\ s.tick = 0 /\ s.nops < MaxOps
  /\ Do([S0 EXCEPT !.tick = 1, !.nops = @ + 1], "Tick", 0, "")

Stop ==                                                    \* :115
  /\ s.stp = "none"
  /\ Do([S0 EXCEPT !.stp = "wait", !.quit = TRUE], "Stop", 0, "")

Init ==
  /\ \E f \in Graphs :
       s = [par |-> [i \in Txs |-> AscSeq(f[i])],
            txs |-> {}, h |-> "idle", hreq |-> 0,
            bc |-> "none", bctx |-> 0, mk |-> "none", mktx |-> 0,
            stp |-> "none", quit |-> FALSE, sem |-> 1, tick |-> 0,
            rb |-> "none", rbAll |-> {}, rbSent |-> {}, rbQ |-> <<>>,
            rbCur |-> 0, rbOut |-> "none",
            nops |-> 0, nm |-> 0, rn |-> 0, lastB |-> 0]
  /\ abs = AbsInit
  /\ act = [op |-> "Init", tx |-> 0, out |-> "", res |-> "ok"]
  /\ viol = {}

Next ==
  \/ \E t \in Txs : BcastCall(t)
  \/ \E o \in Outs : HRelease(o)
  \/ \E o \in ROuts : RbRelease(o)
  \/ \E t \in Txs : MarkCall(t)
  \/ Block
  \/ Tick
  \/ Stop

Spec == Init /\ [][Next]_vars

----------------------------------------------------------------------------
TypeOK ==
  /\ s.txs \subseteq Txs /\ s.rbAll \subseteq Txs /\ s.rbSent \subseteq s.rbAll
  /\ s.h \in {"idle", "cb", "dead"} /\ s.hreq \in 0..NTx
  /\ s.bc \in {"none", "send", "wait"} /\ s.mk \in {"none", "send"}
  /\ s.stp \in {"none", "wait", "done"} /\ s.quit \in BOOLEAN
  /\ s.sem \in {0, 1} /\ s.tick \in {0, 1}
  /\ s.rb \in {"none", "next", "cb", "ret", "conf", "fin"}

\* Every state of the graph is quiescent.
Quiescent == IntSucc(s) = {}

\* One rebroadcast at a time; the token is out exactly while one runs.
SemInv == (s.sem = 0) <=> (s.rb # "none")

\* What the code has sent in the running rebroadcast respects the copy's order.
SortedInv == \A c \in s.rbSent : (P(s, c) \cap s.rbAll) \subseteq s.rbSent

\* A handler that is alive and idle leaves nobody waiting.
IdleServes == s.h = "idle" => s.mk = "none" /\ s.bc = "none" /\ s.tick = 0 /\ s.rb # "conf"

\* Design-level statement of C15 on the model; an invariant only for
\* configurations whose switches describe repaired code.
NoViolation == viol = {}

State == [s |-> s, abs |-> abs]
View  == <<s, abs>>
=============================================================================
