-------------------------- MODULE BroadcasterProps --------------------------
(***************************************************************************)
(* Property C15 (rebroadcast part and termination part) over OBSERVABLES   *)
(* of pushtx.Broadcaster only: the invocations of Config.Broadcast (which  *)
(* transaction, called from the request handler or from a rebroadcast) and *)
(* whether Broadcast / MarkAsConfirmed / Stop have returned.               *)
(*                                                                         *)
(* Every observation is taken at QUIESCENCE: the driver lets the real code *)
(* run until every goroutine is blocked (testing/synctest) before it reads *)
(* the observables, so "a callback is waiting at the gate" / "a call has   *)
(* not returned" are exact, not timing guesses.                            *)
(*                                                                         *)
(* obs = [par  |-> Seq(Seq(tx))  parents of each transaction (sorted),     *)
(*        hcb  |-> tx whose Config.Broadcast call made by the request      *)
(*                 handler is waiting at the gate (0 = none),              *)
(*        rcb  |-> tx whose Config.Broadcast call made by a rebroadcast is *)
(*                 waiting at the gate (0 = none),                         *)
(*        rn   |-> number of rebroadcast callbacks so far, modulo 2 (a new *)
(*                 invocation flips it, also when it is for the same tx),  *)
(*        bc   |-> Broadcast call: 0 none outstanding, 1 outstanding while *)
(*                 a gate is still held, 2 outstanding although no gate is *)
(*                 held and a generous (fake-)time bound passed = HUNG,    *)
(*        bcRes|-> result of a Broadcast call that returned in this step:  *)
(*                 0 none did, 1 nil, 2 the callback's error,              *)
(*                 3 ErrBroadcasterStopped,                                *)
(*        mk   |-> MarkAsConfirmed call: 0 / 1 / 2 as for bc,              *)
(*        stp  |-> Stop: 0 not called, 1 outstanding (gate held),          *)
(*                 2 HUNG, 3 returned]                                     *)
(* act = [op, tx, out, res]                                                *)
(*   op  in Init BcastCall HRelease RbRelease MarkCall Mined Block Tick    *)
(*          Stop CloseSub (the block subscription closes its Notifications  *)
(*          channel: no clause mentions it - every clause goes on being    *)
(*          judged afterwards); Mined(tx, out) = the rescan finds tx in a block, out =   *)
(*          spend / pay / both / neither: why the rescan cares about it    *)
(*   out = result the gate hands back to the code (HRelease / RbRelease):  *)
(*         ok mempool xmempool | confirmed xconfirmed | invalid fee        *)
(*         unknown plain                                                   *)
(***************************************************************************)
EXTENDS Integers, Sequences, FiniteSets

Range(f) == {f[i] : i \in DOMAIN f}

AcceptOuts == {"ok", "mempool", "xmempool"}    \* accepted / already in mempool
ConfOuts   == {"confirmed", "xconfirmed"}      \* a peer says: already confirmed

Univ(o)       == 1..Len(o.par)
Parents(o, t) == Range(o.par[t])

(***************************************************************************)
(* Abstract state.  Status of a transaction:                               *)
(*   must  : its broadcast was accepted and it has not been reported       *)
(*           confirmed since => every rebroadcast that starts must have it *)
(*   conf  : reported confirmed - MarkAsConfirmed has RETURNED, or a        *)
(*           rebroadcast result said so and the handler was idle - and not *)
(*           accepted again since                                          *)
(*           => no rebroadcast that starts after that may have it          *)
(*   cwait : a rebroadcast result said "confirmed" while the handler was   *)
(*           busy; the report reaches the handler when it is idle again    *)
(*   may   : both readings of the statement apply (accepted earlier, a     *)
(*           later broadcast of the same tx rejected, or accepted again    *)
(*           while a confirmation report was in flight) => not judged      *)
(*   none of these : never accepted (only rejected, or never broadcast)    *)
(*           => no rebroadcast may have it                                 *)
(* need/forbR/forbC/seen describe the rebroadcast now running, fixed at    *)
(* the moment it STARTED; judged = it was started by a trigger we saw.     *)
(***************************************************************************)
AbsInit == [must |-> {}, may |-> {}, conf |-> {}, cwait |-> {},
            stopped |-> FALSE, tickWait |-> FALSE, mkTx |-> 0,
            need |-> {}, forbR |-> {}, forbC |-> {}, seen |-> {},
            judged |-> FALSE, active |-> FALSE,
            lrn |-> 0, lrcb |-> 0, lmk |-> 0]

Status(a, t) == IF t \in a.must THEN 1 ELSE IF t \in a.may THEN 2
                ELSE IF t \in a.conf THEN 3 ELSE IF t \in a.cwait THEN 4 ELSE 0

SetStatus(a, t, v) ==
  [a EXCEPT !.must  = (@ \ {t}) \cup (IF v = 1 THEN {t} ELSE {}),
            !.may   = (@ \ {t}) \cup (IF v = 2 THEN {t} ELSE {}),
            !.conf  = (@ \ {t}) \cup (IF v = 3 THEN {t} ELSE {}),
            !.cwait = (@ \ {t}) \cup (IF v = 4 THEN {t} ELSE {})]

\* 1. what the logged action itself says
Upd1(a, act, o2) ==
  CASE act.op = "HRelease" ->
         LET t  == act.tx
             st == Status(a, t)
         IN  IF act.out \in AcceptOuts
             THEN SetStatus(a, t, IF st = 4 THEN 2 ELSE 1)
             ELSE SetStatus(a, t, IF st = 1 THEN 2 ELSE st)
    [] act.op = "RbRelease" /\ act.out \in ConfOuts ->
         LET t  == act.tx
             st == Status(a, t)
             a1 == [a EXCEPT !.need = @ \ {t}]
         IN  IF st = 0 THEN a1
             ELSE SetStatus(a1, t, IF o2.hcb = 0 THEN 3 ELSE 4)
    [] act.op = "Stop"     -> [a EXCEPT !.stopped = TRUE]
    [] act.op = "MarkCall" -> [a EXCEPT !.mkTx = act.tx]
    \* the rescan found tx in a block: a report iff the tx is relevant to
    \* the rescan (it then returns it to its caller as a mined relevant tx)
    [] act.op = "Mined"    -> [a EXCEPT !.mkTx = IF act.out = "neither" THEN 0 ELSE act.tx]
    [] act.op = "Tick"     -> [a EXCEPT !.tickWait = (o2.hcb # 0)]
    [] OTHER -> a

\* 2. a MarkAsConfirmed call returned in this step: the report was made
MarkReturned(a, act, o2) ==
  o2.mk = 0 /\ (act.op \in {"MarkCall", "Mined"} \/ a.lmk # 0)

Upd2(a0, a, act, o2) ==
  IF MarkReturned(a0, act, o2)
  THEN LET t  == a.mkTx
           a1 == [a EXCEPT !.need = @ \ {t}]
       IN  IF t = 0 \/ Status(a, t) = 0 THEN a1 ELSE SetStatus(a1, t, 3)
  ELSE a

\* 3. the handler is idle at quiescence: every report in flight has arrived
Upd3(a, o2) ==
  IF o2.hcb = 0 THEN [a EXCEPT !.conf = @ \cup a.cwait, !.cwait = {}] ELSE a

\* A block event or tick reached the handler in this step.
Trig(a, act, o2) ==
  \/ act.op = "Block" /\ act.res = "delivered"
  \/ act.op = "Tick" /\ o2.hcb = 0
  \/ a.tickWait /\ act.op # "Tick" /\ o2.hcb = 0

\* A rebroadcast was still running when this step began.
ActiveBefore(a) == a.active

Started(a, act, o2) ==
  Trig(a, act, o2) /\ ~ActiveBefore(a) /\ ~a.stopped /\ act.op # "Stop"

NewR(a, o2) == o2.rn # a.lrn

AbsCore(a, act, o2) ==
  LET a1 == Upd1(a, act, o2)
      a2 == Upd2(a, a1, act, o2)
      a3 == Upd3(a2, o2)
      st == Started(a, act, o2)
      \* A MarkAsConfirmed call that had been waiting for the busy handler
      \* returned in the very step in which the handler also took a trigger:
      \* the report may have been made before or after that rebroadcast
      \* started, so its tx is neither required in it nor forbidden.
      amb == IF MarkReturned(a, act, o2) /\ a.lmk # 0 THEN {a1.mkTx} ELSE {}
      a4 == IF st
            THEN [a3 EXCEPT !.need  = a3.must \ amb,
                            !.forbR = Univ(o2) \ (a3.must \cup a3.may \cup a3.conf \cup a3.cwait),
                            !.forbC = a3.conf \ amb,
                            !.seen  = {}, !.judged = TRUE]
            \* a callback of a rebroadcast we did not see start, or one that
            \* arrives in a step in which a trigger reached the handler while
            \* the previous rebroadcast was finishing (its last confirmation
            \* report was waiting for the busy handler): it may belong to the
            \* old rebroadcast or to a new one - not judged
            ELSE IF NewR(a, o2) /\ (~ActiveBefore(a) \/ Trig(a, act, o2))
            THEN [a3 EXCEPT !.need = {}, !.forbR = {}, !.forbC = {},
                            !.seen = {}, !.judged = FALSE]
            ELSE a3
      a5 == IF NewR(a, o2) THEN [a4 EXCEPT !.seen = @ \cup {o2.rcb}] ELSE a4
  IN  [a5 EXCEPT !.tickWait = IF o2.hcb = 0 THEN FALSE ELSE @,
                 !.active = (o2.rcb # 0 \/ a5.cwait # {}),
                 !.lrn = o2.rn, !.lrcb = o2.rcb, !.lmk = o2.mk]

\* Once a rebroadcast is over its description is forgotten.
AbsNext(a, act, o2) ==
  LET c == AbsCore(a, act, o2)
  IN  IF c.active THEN c
      ELSE [c EXCEPT !.need = {}, !.forbR = {}, !.forbC = {}, !.seen = {},
                     !.judged = FALSE]

Viol(a, o, act, aNext, o2) ==
  LET a2    == AbsCore(a, act, o2)
      st    == Started(a, act, o2)
      newR  == NewR(a, o2)
      t     == o2.rcb
      seenB == IF st \/ ~ActiveBefore(a) \/ Trig(a, act, o2) THEN {} ELSE a.seen
      ended == (ActiveBefore(a) \/ st) /\ ~a2.active
  IN
  \* "... is included in the rebroadcast that every later block event or
  \*  interval tick starts (unless one is still running)"
  (IF st /\ a2.must # {} /\ ~newR THEN {"TriggerStartsRebroadcast"} ELSE {})
  \* "a rejected transaction is never rebroadcast"
  \cup (IF newR /\ a2.judged /\ t \in a2.forbR THEN {"RejectedNeverRebroadcast"} ELSE {})
  \* "... until it is reported confirmed, and in no rebroadcast started after that"
  \cup (IF newR /\ a2.judged /\ t \in a2.forbC THEN {"NotAfterConfirmed"} ELSE {})
  \* "parents before their children"
  \* (a child sent after ... its parent: either the parent comes after one of
  \*  its children, or a child comes while a parent that this rebroadcast has
  \*  to contain has not been sent yet)
  \cup (IF newR /\ \E c \in seenB : t \in Parents(o2, c) THEN {"ParentsFirst"} ELSE {})
  \cup (IF newR /\ a2.judged /\ \E q \in Parents(o2, t) : q \in a2.need /\ q \notin seenB
        THEN {"ParentsFirst"} ELSE {})
  \* the rebroadcast that started while tx was accepted-and-unconfirmed contains tx
  \cup (IF ended /\ a2.judged /\ ~a2.stopped /\ ~(a2.need \subseteq a2.seen)
        THEN {"RebroadcastComplete"} ELSE {})
  \* "neither stopping the client nor marking a transaction confirmed can
  \*  block the caller indefinitely" (and Broadcast itself returns)
  \cup (IF o2.mk  = 2 THEN {"MarkConfirmedReturns"} ELSE {})
  \cup (IF o2.stp = 2 THEN {"StopReturns"} ELSE {})
  \cup (IF o2.bc  = 2 THEN {"BroadcastReturns"} ELSE {})

EndViol(a, o) ==
  (IF o.mk  = 2 THEN {"MarkConfirmedReturns"} ELSE {})
  \cup (IF o.stp = 2 THEN {"StopReturns"} ELSE {})
  \cup (IF o.bc  = 2 THEN {"BroadcastReturns"} ELSE {})
=============================================================================
