---------------------------- MODULE SendTxProps ----------------------------
(***************************************************************************)
(* Property C15, sentence "A broadcast fails only if every replying peer   *)
(* rejected it or the share calling it invalid reaches the configured      *)
(* threshold", over the observables of ChainService.sendTransaction:       *)
(* which peer sent which message (inputs), and the returned error.         *)
(*                                                                         *)
(* obs = [np |-> number of connected peers, thr |-> threshold in percent,  *)
(*        verdict |-> 0 still running, 1 nil (broadcast succeeded),        *)
(*                    10+c failed with a BroadcastError of class c,        *)
(*                    19 failed with another error, 18 panic]              *)
(* act = [op, p, kind, code, res]                                          *)
(*   op = "Msg": peer p sends kind "G" (getdata for the tx) or "R" (reject *)
(*        of the tx, reject class code) or "X" (reject of another hash);   *)
(*   op = "Delay": the reject timeout passes; "Finish": the broadcast      *)
(*        timeout passes.                                                  *)
(* classes: 1 Invalid, 2 InsufficientFee, 3 Mempool, 4 Confirmed, 5 Unknown*)
(*                                                                         *)
(* The statement is read as generously as its words allow, so that only a  *)
(* failure NO reading justifies is reported:                               *)
(*   replying peer  = a peer whose first message about the tx was getdata  *)
(*                    (a peer that rejects first and asks afterwards is    *)
(*                    not counted among the repliers that must reject);    *)
(*   rejected it    = sent a reject for the tx at any time, even late;     *)
(*   invalid share  = (peers that sent an Invalid-class reject at any      *)
(*                    time, replying or not) / (replying peers).           *)
(***************************************************************************)
EXTENDS Integers, Sequences, FiniteSets

AbsInit == [R |-> {}, J |-> {}, Inv |-> {}, any |-> {}]

AbsNext(a, act, o2) ==
  IF act.op # "Msg" \/ act.kind = "X" THEN a
  ELSE [R   |-> IF act.kind = "G" /\ act.p \notin a.any THEN a.R \cup {act.p} ELSE a.R,
        J   |-> IF act.kind = "R" THEN a.J \cup {act.p} ELSE a.J,
        Inv |-> IF act.kind = "R" /\ act.code = 1 THEN a.Inv \cup {act.p} ELSE a.Inv,
        any |-> a.any \cup {act.p}]

FailureJustified(a, thr) ==
  \/ a.R \subseteq a.J
  \/ Cardinality(a.Inv) * 100 >= thr * Cardinality(a.R)

Viol(a, o, act, a2, o2) ==
  IF o.verdict = 0 /\ o2.verdict >= 10 /\ ~FailureJustified(a2, o2.thr)
  THEN {"FailOnlyIfAllRejectedOrThreshold"} ELSE {}

EndViol(a, o) == {}
=============================================================================
