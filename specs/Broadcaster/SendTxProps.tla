---------------------------- MODULE SendTxProps ----------------------------
(***************************************************************************)
(* Property C15, sentence "A broadcast fails only if every replying peer   *)
(* rejected it or the share calling it invalid reaches the configured      *)
(* threshold", over the observables of ChainService.sendTransaction:       *)
(* which peer sent which message (inputs), and the returned error.         *)
(*                                                                         *)
(* obs = [np |-> number of connected peers, thr |-> threshold in percent,  *)
(*        verdict |-> 0 still running, 1 nil (broadcast succeeded),        *)
(*                    10+c failed with a BroadcastError of class c,        *)
(*                    19 failed with another error, 18 panic]              *)
(* act = [op, p, kind, code, res]                                          *)
(*   op = "Msg": peer p sends kind "G" (getdata for the tx) or "R" (reject *)
(*        of the tx, reject class code) or "X" (reject of another hash) or *)
(*        "Y" (getdata for another hash);                                  *)
(*   op = "Delay": the reject timeout passes; "Finish": the broadcast      *)
(*        timeout passes.                                                  *)
(* classes: 1 Invalid, 2 InsufficientFee, 3 Mempool, 4 Confirmed, 5 Unknown*)
(*                                                                         *)
(* The statement is read as generously as its words allow, so that only a  *)
(* failure NO reading justifies is reported:                               *)
(*   replying peer  = a peer whose first message about the tx was getdata  *)
(*                    (a peer that rejects first and asks afterwards is    *)
(*                    not counted among the repliers that must reject);    *)
(*   rejected it    = sent a reject for the tx at any time, even late;     *)
(*   invalid share  = (peers that sent an Invalid-class reject at any      *)
(*                    time, replying or not) / (replying peers).           *)
(***************************************************************************)
EXTENDS Integers, Sequences, FiniteSets

(***************************************************************************)
(* A reject may be given as a concrete message m = (wc-1)*8 + rs > 0:      *)
(*   wire reject code wc: 1 REJECT_INVALID, 2 REJECT_NONSTANDARD,          *)
(*     3 REJECT_INSUFFICIENTFEE, 4 REJECT_DUPLICATE, 5 any other code      *)
(*     (malformed, obsolete, dust, checkpoint);                            *)
(*   reason rs: 1 "txn-mempool-conflict", 2 "txn-already-in-mempool",      *)
(*     3 "txn-already-known" (bitcoind), 4 "... already spent ...",        *)
(*     5 "already have transaction", 6 "transaction already exists" (btcd),*)
(*     7 a reason none of these, 8 the empty reason.                       *)
(* What such a message SAYS is taken from bitcoind / btcd, not from the    *)
(* code under test: INVALID and NONSTANDARD call the transaction invalid   *)
(* whatever the reason; DUPLICATE means "I have this transaction or one    *)
(* that conflicts with it" and calls it invalid only with a reason that    *)
(* names a conflict (1, 4); with reasons 2, 5 the peer has it in its       *)
(* mempool, with 3, 6 in the chain; with any other reason (7, 8: e.g.      *)
(* bitcoind's txn-same-nonwitness-data-in-mempool) it does NOT call it     *)
(* invalid and is not a refusal beyond doubt.  Other codes: a refusal; as  *)
(* to "invalid" both readings are allowed (counted where that excuses the  *)
(* code, not counted where it would demand something of it).               *)
(* act.m = 0 (or no field m): the reject is given by its class act.code.   *)
(***************************************************************************)
WC(m) == (m - 1) \div 8 + 1
RS(m) == m - 8 * ((m - 1) \div 8)
MsgOf(act) == IF "m" \in DOMAIN act THEN act.m ELSE 0

\* calls the tx invalid under SOME reading / under EVERY reading
InvSome(act) == LET m == MsgOf(act) IN
  IF m = 0 THEN act.code = 1
  ELSE WC(m) \in {1, 2, 5} \/ (WC(m) = 4 /\ RS(m) \in {1, 4})
InvAll(act) == LET m == MsgOf(act) IN
  IF m = 0 THEN act.code = 1
  ELSE WC(m) \in {1, 2} \/ (WC(m) = 4 /\ RS(m) \in {1, 4})

AbsInit == [R |-> {}, J |-> {}, Inv |-> {}, any |-> {},
            G |-> {}, open |-> {}, shut |-> {}, hard |-> {}, soft |-> {},
            inv |-> {}, ninv |-> {}]

\* classes that mean "the peer refuses the transaction" beyond doubt
\* (Mempool = it already has it, Confirmed = it is in the chain: not refusals)
HardCodes == {1, 2, 5}
Hard(act) == LET m == MsgOf(act) IN
  IF m = 0 THEN act.code \in HardCodes
  ELSE WC(m) \in {1, 2, 3, 5} \/ (WC(m) = 4 /\ RS(m) \in {1, 4})

AbsNext(a, act, o2) ==
  IF act.op = "Delay"
  THEN [a EXCEPT !.shut = @ \cup a.open, !.open = {}]
  ELSE IF act.op # "Msg" \/ act.kind \in {"X", "Y"} THEN a
  ELSE LET p == act.p
           inTime == act.kind = "R" /\ p \in a.open
       IN  [R    |-> IF act.kind = "G" /\ p \notin a.any THEN a.R \cup {p} ELSE a.R,
            J    |-> IF act.kind = "R" THEN a.J \cup {p} ELSE a.J,
            Inv  |-> IF act.kind = "R" /\ InvSome(act) THEN a.Inv \cup {p} ELSE a.Inv,
            any  |-> a.any \cup {p},
            \* second reading, for the opposite direction (see Viol):
            G    |-> IF act.kind = "G" THEN a.G \cup {p} ELSE a.G,
            open |-> IF act.kind = "G" /\ p \notin a.shut THEN a.open \cup {p} ELSE a.open,
            shut |-> a.shut,
            hard |-> IF inTime /\ Hard(act) THEN a.hard \cup {p} ELSE a.hard,
            soft |-> IF inTime /\ ~Hard(act) THEN a.soft \cup {p} ELSE a.soft,
            inv  |-> IF inTime /\ InvAll(act) THEN a.inv \cup {p} ELSE a.inv,
            ninv |-> IF inTime /\ ~InvAll(act) THEN a.ninv \cup {p} ELSE a.ninv]

FailureJustified(a, thr) ==
  \/ a.R \subseteq a.J
  \/ Cardinality(a.Inv) * 100 >= thr * Cardinality(a.R)

\* "a rejected transaction is never rebroadcast", end to end: the verdict of
\* sendTransaction is what Broadcaster.Broadcast returns (neutrino.go:980), and
\* nil makes the transaction enter the rebroadcast set.  Reported only when NO
\* reading makes the transaction anything but rejected: at least one peer
\* requested it, and EVERY peer that requested it (at any time) answered,
\* after its request and before the reject timeout passed, with rejects of
\* refusing classes only (Invalid, InsufficientFee, Unknown).
RejectedBeyondDoubt(a) ==
  a.G # {} /\ \A p \in a.G : p \in a.hard /\ p \notin a.soft

\* "... or the share calling it invalid reaches the configured threshold": a
\* transaction whose invalid share reaches the threshold is a rejected one, and
\* "a rejected transaction is never rebroadcast", so the verdict must not be
\* nil.  "Reaches" is exact arithmetic (3 of 5 reaches 60 %).  Reported only
\* when the threshold is reached under the NARROWEST count: invalid = peers
\* that requested the tx and answered in time with Invalid-class rejects only,
\* over ALL peers that requested it at any time.
ThresholdBeyondDoubt(a, thr) ==
  a.G # {} /\ Cardinality((a.inv \ a.ninv) \cap a.G) * 100 >= thr * Cardinality(a.G)

Viol(a, o, act, a2, o2) ==
  (IF o.verdict = 0 /\ o2.verdict >= 10 /\ ~FailureJustified(a2, o2.thr)
   THEN {"FailOnlyIfAllRejectedOrThreshold"} ELSE {})
  \cup (IF o.verdict = 0 /\ o2.verdict = 1 /\ RejectedBeyondDoubt(a2)
        THEN {"RejectedByEveryReplierNotAccepted"} ELSE {})
  \cup (IF o.verdict = 0 /\ o2.verdict = 1 /\ ThresholdBeyondDoubt(a2, o2.thr)
        THEN {"ThresholdReachedNotAccepted"} ELSE {})

EndViol(a, o) == {}
=============================================================================
