----------------------------- MODULE ImportProps -----------------------------
(***************************************************************************)
(* Property C14 (header import leaves the stores equal to the file, or     *)
(* consistent on failure) and the import crash points of C08, stated over  *)
(* OBSERVABLES only: the configuration handed to the importer (what the    *)
(* two files contain, as abstract ids), what Import returned, and what the *)
(* public read API of the two target stores answers.  The same operators   *)
(* are evaluated by TLC (a) on every transition of Import.tla and (b) on   *)
(* every step of every trace observed on the real chainimport code.        *)
(*                                                                         *)
(* Ids (integers only):                                                    *)
(*   h          (0 <= h < 100)  header of the reference chain at height h  *)
(*                              (valid, child of h-1; 0 = genesis)         *)
(*   100 + h    header of the FILE's own branch at height h: valid, child  *)
(*              of the file's header at h-1 (or of reference header h-1    *)
(*              where the branch starts)                                   *)
(*   200 + h    the one header of the file that breaks a rule (cfg.kind)   *)
(*   300 + h    header appended by the driver after the import (Probe)     *)
(*   filter headers are named by the same numbers                          *)
(*   NF = nothing readable there, G = something unknown, ERR = call failed *)
(*                                                                         *)
(* cfg = [s, n, bs, hB, hF, x, kind, fy, fk, ck, cx, rsrc, rk, rkind,      *)
(*        lt, ln]                                                          *)
(*   s, n   start height and number of headers of both files               *)
(*   bs     WriteBatchSizePerRegion                                        *)
(*   hB,hF  tip heights of the block / filter header store before          *)
(*   kind   "none" | "fork" (valid other branch from height x on) |        *)
(*          "pow" | "bits" | "time" | "link" (header x breaks that rule,   *)
(*          later headers are valid children) | "easybits" (testnet-like   *)
(*          rules only: header x, the on-time block after the late         *)
(*          block(s), carries the limit bits instead of the difficulty of  *)
(*          the last ancestor that is not a minimum-difficulty block)      *)
(*   lt,ln  chain-parameter set.  lt = NF, ln = 0: regtest-like rules      *)
(*          (every header at the limit bits).  lt >= 1: testnet-like rules *)
(*          (ReduceMinDifficulty, no retarget inside the universe); the    *)
(*          reference chain has hard bits except for ln consecutive late   *)
(*          minimum-difficulty blocks at heights lt..lt+ln-1.  Which       *)
(*          headers are valid is the generator's ground truth either way   *)
(*          (ids < 200 and >= 300 valid, 200 + h not); no clause reads     *)
(*          lt / ln.                                                       *)
(*   fy     height FROM which the filter file alone differs (NF: none); a   *)
(*          filter header commits to its predecessor, so a genuine other   *)
(*          filter-header chain differs at every height from there on      *)
(*   fk     file-level damage: "none" | "magic" | "magicF" | "truncB" |    *)
(*          "truncF" | "emptyB" | "shortF" | "startF"                      *)
(*   ck     height of a hard-coded filter-header checkpoint of the target  *)
(*          network whose value is the reference filter header ck (NF: no  *)
(*          checkpoint)                                                    *)
(*   cx     1: the context handed to Import is already cancelled           *)
(*   rsrc   "B" / "F": the block / filter header SOURCE becomes unreadable *)
(*          from the header of height rk on once the write pass has begun  *)
(*          (validation read it fine); rkind "eof" = reads come back short *)
(*          (io.EOF), "io" = another I/O error.  "none": readable          *)
(* obs = [up, B |-> [tip |-> <<id,height>>, byH, hh], F |-> [tip, byH]]    *)
(*   byH[p] = id read by FetchHeaderByHeight(p-1); hh[p] = HeightFromHash  *)
(*   of that header.                                                       *)
(* act = [op, run, res, inj, sn, n, t, hs, cfg]                            *)
(***************************************************************************)
EXTENDS Integers, Sequences, FiniteSets

NF  == -1
G   == -2
ERR == -3

EndH(c) == c.s + c.n - 1

\* What the files contain.
FileB(c, h) == IF c.kind = "none" \/ h < c.x THEN h
               ELSE IF h = c.x THEN (IF c.kind = "fork" THEN 100 + h ELSE 200 + h)
               ELSE 100 + h
FileF(c, h) == IF (c.kind # "none" /\ h >= c.x) \/ (c.fy # NF /\ h >= c.fy) THEN 100 + h ELSE h

\* Ground truth about block headers (how the generator builds them).
ValidId(id) == id >= 0 /\ (id < 200 \/ id >= 300)
ParentOf(c, id) ==
  IF id < 100 THEN id - 1
  ELSE IF id < 200 THEN (IF id - 100 = c.x THEN id - 101 ELSE FileB(c, id - 101))
  ELSE IF id < 300 THEN (IF c.kind = "link" THEN -7 ELSE id - 201)
  ELSE -8

Max2(a, b) == IF a >= b THEN a ELSE b

TipOK(st)    == st.tip[1] >= 0 /\ st.tip[2] >= 0
Usable(o)    == o.up = 1 /\ TipOK(o.B) /\ TipOK(o.F)
ListOf(st)   == IF TipOK(st) /\ st.tip[2] + 1 <= Len(st.byH)
                THEN SubSeq(st.byH, 1, st.tip[2] + 1) ELSE <<ERR>>

\* Every height up to the tip is readable and, for block headers, indexed at
\* the height it is stored at; the tip is the entry at the tip height.
Readable(o) ==
  /\ Usable(o)
  /\ o.B.tip[2] + 1 <= Len(o.B.byH) /\ o.F.tip[2] + 1 <= Len(o.F.byH)
  /\ \A p \in 1..(o.B.tip[2] + 1) : o.B.byH[p] >= 0 /\ o.B.hh[p] = p - 1
  /\ \A p \in 1..(o.F.tip[2] + 1) : o.F.byH[p] >= 0
  /\ o.B.byH[o.B.tip[2] + 1] = o.B.tip[1]
  /\ o.F.byH[o.F.tip[2] + 1] = o.F.tip[1]

\* The stored block headers form a valid connected chain from genesis.
ChainOK(c, o) ==
  /\ TipOK(o.B) /\ o.B.tip[2] + 1 <= Len(o.B.byH)
  /\ \A p \in 1..(o.B.tip[2] + 1) :
       LET id == o.B.byH[p]
       IN  /\ ValidId(id)
           /\ (p = 1 => id = 0)
           /\ (p > 1 /\ id < 300 => ParentOf(c, id) = o.B.byH[p - 1])

\* No stored filter header contradicts the network's filter-header checkpoint
\* (the only validity rule an import can apply to filter headers).
CkOK(c, o) == \/ c.ck = NF \/ ~TipOK(o.F) \/ c.ck > o.F.tip[2]
              \/ c.ck + 1 > Len(o.F.byH) \/ o.F.byH[c.ck + 1] = c.ck

\* "leaves stores equal to the file": at every height of the file both stores
\* hold the file's header (a file that disagrees with what is stored is a
\* "mismatch with existing data", which is a failure).
AgreesWithFile(c, o) ==
  \A h \in c.s..EndH(c) :
     /\ h + 1 <= Len(o.B.byH) /\ o.B.byH[h + 1] = FileB(c, h)
     /\ h + 1 <= Len(o.F.byH) /\ o.F.byH[h + 1] = FileF(c, h)

\* "their earlier contents extended by the file's headers up to the file's
\* last height", as the complete answer of the read API.
ExpectB(c, pre) ==
  LET pB == pre.B.tip[2]
      tp == Max2(pB, EndH(c))
      HH == Len(pre.B.byH)
      at(h) == IF h <= pB THEN pre.B.byH[h + 1]
               ELSE IF h <= EndH(c) THEN FileB(c, h) ELSE NF
  IN  [tip |-> <<at(tp), tp>>,
       byH |-> [p \in 1..HH |-> at(p - 1)],
       hh  |-> [p \in 1..HH |-> IF p - 1 <= tp THEN p - 1 ELSE NF]]
ExpectF(c, pre) ==
  LET pF == pre.F.tip[2]
      tp == Max2(pF, EndH(c))
      HH == Len(pre.F.byH)
      at(h) == IF h <= pF THEN pre.F.byH[h + 1]
               ELSE IF h <= EndH(c) THEN FileF(c, h) ELSE NF
  IN  [tip |-> <<at(tp), tp>>,
       byH |-> [p \in 1..HH |-> at(p - 1)]]

\* After a failure every stored entry is either what was there before or the
\* file's (validated) header of that height, block and filter entry of one
\* height coming from the same side.
OnlyKnown(c, pre, o) ==
  /\ \A p \in 1..(o.B.tip[2] + 1) :
       \/ (p - 1 <= pre.B.tip[2] /\ o.B.byH[p] = pre.B.byH[p])
       \/ (p - 1 > pre.B.tip[2] /\ p - 1 >= c.s /\ p - 1 <= EndH(c) /\ o.B.byH[p] = FileB(c, p - 1))
  /\ \A p \in 1..(o.F.tip[2] + 1) :
       \/ (p - 1 <= pre.F.tip[2] /\ o.F.byH[p] = pre.F.byH[p])
       \/ (p - 1 > pre.F.tip[2] /\ p - 1 >= c.s /\ p - 1 <= EndH(c) /\ o.F.byH[p] = FileF(c, p - 1))

----------------------------------------------------------------------------
\* Abstract state carried along a trace.
AbsInit == [began |-> FALSE, cfg |-> <<>>, pre |-> <<>>, mid |-> <<>>, r1 |-> "none",
            B |-> <<>>, F |-> <<>>, alt |-> {}, crashed |-> FALSE]

Ids(hs) == [i \in 1..Len(hs) |-> hs[i][1]]
DropLast(s, k) == IF k >= Len(s) THEN <<>> ELSE SubSeq(s, 1, Len(s) - k)

\* What the logged store call does to two plain lists.
After(a, act) ==
  CASE act.op = "WriteB"    -> [B |-> a.B \o Ids(act.hs), F |-> a.F]
    [] act.op = "WriteF"    -> [B |-> a.B, F |-> a.F \o Ids(act.hs)]
    [] act.op = "RollbackB" -> [B |-> DropLast(a.B, act.n), F |-> a.F]
    [] OTHER                -> [B |-> a.B, F |-> a.F]

AbsNext(a, act, o2) ==
  CASE act.op = "Begin" ->
         [began |-> TRUE, cfg |-> act.cfg, pre |-> o2, mid |-> <<>>, r1 |-> "none",
          B |-> ListOf(o2.B), F |-> ListOf(o2.F), alt |-> {}, crashed |-> FALSE]
    [] act.op = "Return" /\ act.run = 1 -> [a EXCEPT !.mid = o2, !.r1 = act.res]
    [] act.op \in {"WriteB", "WriteF", "RollbackB"} /\ act.res = "crash" ->
         [a EXCEPT !.alt = {[B |-> a.B, F |-> a.F], After(a, act)}, !.crashed = TRUE]
    [] act.op \in {"WriteB", "WriteF", "RollbackB"} /\ act.res = "ok" ->
         LET c == After(a, act) IN [a EXCEPT !.B = c.B, !.F = c.F]
    [] OTHER -> a

Began(a) == a.began

\* Probe: the driver appends one more valid block header (id 300+h at the
\* block tip height + 1) and one filter header at the filter tip height + 1.
ProbeOK(o, act, o2) ==
  LET hb == o.B.tip[2] + 1
      hf == o.F.tip[2] + 1
  IN  /\ act.res = "ok" /\ Usable(o2)
      /\ o2.B.tip = <<300 + hb, hb>> /\ o2.F.tip = <<300 + hf, hf>>
      /\ hb + 1 <= Len(o2.B.byH) /\ o2.B.byH[hb + 1] = 300 + hb /\ o2.B.hh[hb + 1] = hb
      /\ hf + 1 <= Len(o2.F.byH) /\ o2.F.byH[hf + 1] = 300 + hf
      /\ \A p \in 1..hb : o2.B.byH[p] = o.B.byH[p]
      /\ \A p \in 1..hf : o2.F.byH[p] = o.F.byH[p]

Viol(a, o, act, a2, o2) ==
  IF ~Began(a) THEN {}
  ELSE IF act.op = "Return" /\ act.run = 1 /\ act.res = "ok" THEN
       \* success
       (IF Usable(a.pre) /\ (o2.B # ExpectB(a.cfg, a.pre) \/ o2.F # ExpectF(a.cfg, a.pre) \/ o2.up # 1)
        THEN {"SuccessMeansEqual"} ELSE {})
       \cup (IF Usable(a.pre) /\ ChainOK(a.cfg, a.pre) /\ ~ChainOK(a.cfg, o2)
             THEN {"SuccessChainValid"} ELSE {})
       \cup (IF Usable(a.pre) /\ a.cfg.fk = "none" /\ o2.up = 1 /\ ~AgreesWithFile(a.cfg, o2)
             THEN {"SuccessAgreesWithFile"} ELSE {})
       \cup (IF Usable(a.pre) /\ CkOK(a.cfg, a.pre) /\ o2.up = 1 /\ ~CkOK(a.cfg, o2)
             THEN {"SuccessFilterCheckpoint"} ELSE {})
  ELSE IF act.op = "Return" /\ act.run = 2 /\ a.r1 = "ok" THEN
       (IF o2 # a.mid THEN {"SecondImportNoop"} ELSE {})
  ELSE IF act.op = "Return" /\ act.run = 1 THEN
       \* failure (an error or a panic)
       (IF Readable(a.pre) /\ ~Readable(o2) THEN {"FailureLeavesUsable"} ELSE {})
       \cup (IF Readable(a.pre) /\ Readable(o2) /\ o2.F.tip[2] > o2.B.tip[2]
             THEN {"FailureLeavesConsistent"} ELSE {})
       \cup (IF Readable(a.pre) /\ Readable(o2) /\ ChainOK(a.cfg, a.pre)
                /\ CkOK(a.cfg, a.pre)
                /\ ~(ChainOK(a.cfg, o2) /\ OnlyKnown(a.cfg, a.pre, o2) /\ CkOK(a.cfg, o2))
             THEN {"FailureNothingUnvalidated"} ELSE {})
  ELSE IF act.op = "Probe" /\ ~a.crashed THEN
       (IF Readable(a.pre) /\ Readable(o) /\ ~ProbeOK(o, act, o2)
        THEN {"FailureLeavesUsable"} ELSE {})
  ELSE IF act.op = "Recover" THEN
       \* the import crash points of C08, reported under C14
       (IF o2.up # 1 THEN {"ImportCrashStoresOpen"} ELSE {})
       \cup (IF o2.up = 1 /\ Readable(a.pre)
                /\ ~ \E x \in a.alt : ListOf(o2.B) = x.B /\ ListOf(o2.F) = x.F
             THEN {"ImportCrashContentLegal"} ELSE {})
       \cup (IF o2.up = 1 /\ Readable(a.pre) /\ ~Readable(o2)
             THEN {"ImportCrashNoTornEntry"} ELSE {})
       \cup (IF o2.up = 1 /\ Usable(o2) /\ o2.F.tip[2] > o2.B.tip[2]
             THEN {"ImportCrashFilterNotAhead"} ELSE {})
  ELSE IF act.op = "Probe" /\ a.crashed THEN
       (IF Readable(a.pre) /\ Readable(o) /\ ~ProbeOK(o, act, o2)
        THEN {"ImportCrashAppendReadable"} ELSE {})
  ELSE {}

EndViol(a, o) == {}
=============================================================================
