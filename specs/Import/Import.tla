------------------------------- MODULE Import -------------------------------
(***************************************************************************)
(* Implementation-shaped model of neutrino's header import                 *)
(* (chainimport/headers_import.go, file_source.go, iter.go,                *)
(* block_headers_validator.go) running against the two headerfs stores.    *)
(*                                                                         *)
(* The import is a sequential function.  The model's job is (1) to         *)
(* enumerate the configuration space - everything the property quantifies  *)
(* over is chosen in Init (file start height, length, batch size, heights  *)
(* of the two stores, where and how the file deviates from the stored /    *)
(* the valid chain, file-level damage) or at the store calls (injected     *)
(* error, crash before / after the call) - and (2) to say, step by step,   *)
(* what the code does with it.  One action per stage of Import():          *)
(*                                                                         *)
(*   Begin       driver announces the configuration (no code runs)         *)
(*   Open        openSources: mmap, metadata, size checks   (file_source)  *)
(*   Compat      validateSourcesCompatibility               (:1042)        *)
(*   Cont        validateChainContinuity: gap / connection / two sampled   *)
(*               overlap comparisons                        (:287, :397)   *)
(*   ValB        blockHeadersValidator.Validate: per batch, ValidateSingle *)
(*               for a batch of one, ValidatePair(prev,cur) otherwise, and *)
(*               across batches (block_headers_validator.go:54)            *)
(*   ValF        filterHeadersValidator.Validate (checkpoints only)        *)
(*   Regions     determineProcessingRegions                 (:542)         *)
(*   DivVerify   validateLeadAndSyncLag's comparison        (:668)         *)
(*   WriteB / WriteF / RollbackB                                           *)
(*               the store calls of writeHeadersToTargetStores (:899) for  *)
(*               each batch read by processBatch (:774)                    *)
(*   Return      what Import returns                                       *)
(* then a second Import (run = 2) after a success, a Probe append after a  *)
(* failure, Recover (both stores reopened) + Probe after a crash.          *)
(*                                                                         *)
(* The stores are modelled as headerfs implements them, at whole-entry     *)
(* granularity: a flat file per store (position = height), one shared      *)
(* hash -> height bucket, one tip key (a block hash) per store.  That is   *)
(* what makes the effect of writing a header under a height that is not    *)
(* its position visible (index says h, file has it at another position).   *)
(*                                                                         *)
(* Code-version switch (the spec follows the code):                        *)
(*   FixBatchIndex   processBatch converts the batch start HEIGHT to a     *)
(*                   file INDEX before calling ReadBatch.  FALSE: the      *)
(*                   height is passed where the iterator expects an index. *)
(*   FixFirstHeader  Validate also pairs the FIRST header of the file with *)
(*                   the target store's header below the file's start      *)
(*                   height.  FALSE: the first header is never the         *)
(*                   `current` of a ValidatePair, so its link, difficulty  *)
(*                   bits and timestamp are never checked, and its proof   *)
(*                   of work only when the first batch has one header.     *)
(*                                                                         *)
(* Chain-parameter sets.  Testnet = FALSE: the regtest-like universe       *)
(* (PoWNoRetargeting: every header must carry the limit bits; cfg.lt = NF, *)
(* cfg.ln = 0).  Testnet = TRUE: a separate, small configuration space on  *)
(* testnet-like rules (ReduceMinDifficulty, no retarget inside the         *)
(* universe): the reference chain carries "hard" bits except for cfg.ln    *)
(* consecutive LATE blocks from height cfg.lt on (more than                *)
(* MinDiffReductionTime after their parent: they must carry the limit      *)
(* bits), and the on-time block after them, at height cfg.lt + cfg.ln,     *)
(* must return to the difficulty of the last ancestor that is not a        *)
(* minimum-difficulty block (btcd findPrevTestNetDifficulty walks back     *)
(* through Parent(); block_headers_validator.go lightHeaderCtx             *)
(* .RelativeAncestorCtx :262 answers from the TARGET STORE for heights     *)
(* below the file's first header and from the import source above).  That  *)
(* block is always inside the file; kind "easybits" = it wrongly stays at  *)
(* the limit bits (proof of work valid for them), so only the contextual   *)
(* rule, evaluated over ancestors on both sides of the store/file          *)
(* boundary, rejects it.  Whether a header is valid is decided by the      *)
(* generator's ground truth (btcd over the complete ancestor slice), not   *)
(* here; the model only says when the importer looks at the header.        *)
(***************************************************************************)
EXTENDS Integers, Sequences, FiniteSets, TLC, Json, ImportProps

CONSTANTS MaxStart,    \* file start heights 0..MaxStart
          MaxLen,      \* file lengths 1..MaxLen
          MaxBatch,    \* write batch sizes 1..MaxBatch
          MaxStoreH,   \* block store tip heights 0..MaxStoreH
          MaxH,        \* no header above this height (file end, store tips)
          MaxAnom,     \* how many deviations (kind, fy, fk, injected fault) at once
          MaxFaults,   \* injected store errors per import (2: the rollback fails too)
          WithCrash,   \* crash points at the store calls
          Testnet,     \* FALSE: regtest-like universe; TRUE: the testnet-like one
          MaxLate,     \* testnet-like: 1..MaxLate consecutive late blocks
          FixBatchIndex, FixFirstHeader

VARIABLES cfg,
          bfile, ffile,   \* flat files: Seq of ids, position p holds height p-1
          idx,            \* shared bucket: set of <<id, height>>
          btip, ftip,     \* tip keys (block ids)
          up,             \* 1 open, 2 crashed (awaiting Recover), 0 open failed
          pc, run,
          reg,            \* processingRegions
          cur, bstart,    \* region being appended, batchStart of processBatch
          pend,           \* the batch handed to writeHeadersToTargetStores
          ret,            \* result Import is about to return
          nf,             \* injected faults still allowed
          abs, act, viol

stores == <<bfile, ffile, idx, btip, ftip, up>>
ctl    == <<run, reg, cur, bstart, pend, nf>>
vars   == <<cfg, bfile, ffile, idx, btip, ftip, up, pc, run, reg, cur, bstart, pend, ret, nf,
            abs, act, viol>>

HH == MaxH + 2                 \* heights 0..MaxH+1 are read back
Min2(a, b) == IF a <= b THEN a ELSE b

----------------------------------------------------------------------------
\* headerfs, whole entries.
IdxH(ix, i)  == IF \E e \in ix : e[1] = i THEN (CHOOSE e \in ix : e[1] = i)[2] ELSE NF
ReadP(f, h)  == IF h >= 0 /\ h < Len(f) THEN f[h + 1] ELSE NF
TipOf(f, ix, t) == LET h == IdxH(ix, t)
                       r == ReadP(f, h)
                   IN  IF h = NF \/ r = NF THEN <<ERR, ERR>> ELSE <<r, h>>

ObsOf(bf, ff, ix, bt, ft, u) ==
  IF u # 1
  THEN [up |-> 0,
        B |-> [tip |-> <<ERR, ERR>>, byH |-> [p \in 1..HH |-> ERR], hh |-> [p \in 1..HH |-> ERR]],
        F |-> [tip |-> <<ERR, ERR>>, byH |-> [p \in 1..HH |-> ERR]]]
  ELSE [up |-> 1,
        B |-> [tip |-> TipOf(bf, ix, bt),
               byH |-> [p \in 1..HH |-> ReadP(bf, p - 1)],
               hh  |-> [p \in 1..HH |-> IF ReadP(bf, p - 1) = NF THEN NF
                                         ELSE IdxH(ix, ReadP(bf, p - 1))]],
        F |-> [tip |-> TipOf(ff, ix, ft),
               byH |-> [p \in 1..HH |-> ReadP(ff, p - 1)]]]

Obs == ObsOf(bfile, ffile, idx, btip, ftip, up)

\* blockHeaderStore.WriteHeaders(hs), hs = Seq of <<id, height>>: append to the
\* END of the file, index every header under the height it CARRIES, tip key :=
\* the header with the greatest height.
WB(bf, ix, bt, hs) ==
  IF Len(hs) = 0 THEN [bf |-> bf, ix |-> ix, bt |-> bt]
  ELSE LET new == {hs[i][1] : i \in 1..Len(hs)}
       IN  [bf |-> bf \o [i \in 1..Len(hs) |-> hs[i][1]],
            ix |-> {e \in ix : e[1] \notin new} \cup {<<hs[i][1], hs[i][2]>> : i \in 1..Len(hs)},
            bt |-> hs[Len(hs)][1]]

\* filterHeaderStore.WriteHeaders(hs) with the last header's block hash t.
WF(ff, ft, hs, t) ==
  IF Len(hs) = 0 THEN [ff |-> ff, ft |-> ft]
  ELSE [ff |-> ff \o [i \in 1..Len(hs) |-> hs[i][1]], ft |-> t]

\* blockHeaderStore.RollbackBlockHeaders(n)
RB(bf, ix, bt, n) ==
  LET th == IdxH(ix, bt)
  IN  IF n = 0 THEN [ok |-> TRUE, bf |-> bf, ix |-> ix, bt |-> bt]
      ELSE IF th = NF \/ n > th \/ th + 1 > Len(bf)
      THEN [ok |-> FALSE, bf |-> bf, ix |-> ix, bt |-> bt]
      ELSE LET gone == {bf[p] : p \in (th - n + 2)..(th + 1)}
           IN  [ok |-> TRUE, bf |-> SubSeq(bf, 1, Len(bf) - n),
                ix |-> {e \in ix : e[1] \notin gone}, bt |-> bf[th - n + 1]]

\* NewBlockHeaderStore / NewFilterHeaderStore on existing files.
OpenB(bf, ix, bt) ==
  LET th == IdxH(ix, bt)
      fh == Len(bf) - 1
  IN  IF th = NF \/ fh < 0 THEN [ok |-> FALSE, f |-> bf]
      ELSE IF bf[Len(bf)] = bt THEN [ok |-> TRUE, f |-> bf]
      ELSE IF fh - th < 0 THEN [ok |-> FALSE, f |-> bf]
      ELSE [ok |-> TRUE, f |-> SubSeq(bf, 1, Len(bf) - (fh - th))]
OpenF(ff, ix, ft) ==
  LET th == IdxH(ix, ft)
      fh == Len(ff) - 1
  IN  IF th = NF \/ fh < 0 THEN [ok |-> FALSE, f |-> ff]
      ELSE IF fh - th < 0 THEN [ok |-> FALSE, f |-> ff]
      ELSE [ok |-> TRUE, f |-> SubSeq(ff, 1, Len(ff) - (fh - th))]

----------------------------------------------------------------------------
NoPend == [eof |-> TRUE, bad |-> FALSE, rdfail |-> FALSE, bh |-> <<>>, fh |-> <<>>, t |-> NF, bend |-> 0]
NoReg  == [dS |-> 0, dE |-> 0, dEx |-> FALSE, dMode |-> "BF", nS |-> 0, nE |-> 0, nEx |-> FALSE]

RegE(r)    == IF r = "div" THEN reg.dE ELSE reg.nE
RegMode(r) == IF r = "div" THEN reg.dMode ELSE "BF"

\* processBatch up to the call of writeHeadersToTargetStores, for region r and
\* batch start height b.  Iterators were created for the indices
\* (start - s)..(RegE - s); ReadBatch(startIdx, endIdx, bs).
Batch(r, b) ==
  LET eIdx == RegE(r) - cfg.s
      rs   == IF FixBatchIndex THEN b - cfg.s ELSE b
      aEnd == Min2(eIdx, rs + cfg.bs - 1)
      len  == aEnd - rs + 1
      hAt(i) == rs + i - 1 + cfg.s          \* GetHeader(index): height = index + start
      m    == RegMode(r)
      bend == b + len - 1
      bh   == IF m = "F" THEN <<>> ELSE [i \in 1..len |-> <<FileB(cfg, hAt(i)), hAt(i)>>]
      fh   == IF m = "B" THEN <<>> ELSE [i \in 1..len |-> <<FileF(cfg, hAt(i)), hAt(i)>>]
      btp  == TipOf(bfile, idx, btip)
      last == bend >= eIdx
      \* cfg.rsrc: the block ("B") or filter ("F") header source cannot be read
      \* from the header of height cfg.rk on once the write pass has begun
      \* (file_source.go GetHeader: ReadAt fails, "failed to read header at
      \* index %d: %w"; iter.go ReadBatch hands the error up, processBatch wraps
      \* it again).  Whatever the error is (a short read = wrapped io.EOF, or any
      \* other I/O error) it is not the bare io.EOF that ends a region, so the
      \* batch that needs such a header fails before anything of it is written.
      rdfail == /\ run = 1 /\ cfg.rsrc # "none" /\ aEnd >= cfg.rk - cfg.s
                /\ ((cfg.rsrc = "B" /\ m # "F") \/ (cfg.rsrc = "F" /\ m # "B"))
  IN  IF rs > aEnd THEN NoPend
      ELSE [eof |-> FALSE,
            bad |-> m = "F" /\ last /\ (btp[1] = ERR \/ btp[2] # hAt(len)),
            rdfail |-> rdfail,
            bh |-> bh, fh |-> fh,
            t |-> IF m = "BF" THEN FileB(cfg, hAt(len))
                  ELSE IF m = "F" /\ last THEN btp[1] ELSE -9,
            bend |-> bend]

Ctl(p, c, b, pd, rt) == [pc |-> p, cur |-> c, bstart |-> b, pend |-> pd, ret |-> rt]
Done == Ctl("ret", "none", 0, NoPend, "ok")

\* appendNewHeaders polls the context before every batch: with a cancelled
\* context (cfg.cx = 1) a region that exists fails before its first batch.
GoNew(b) ==
  IF ~reg.nEx \/ Batch("new", b).eof THEN Done
  ELSE IF cfg.cx = 1 THEN Ctl("ret", "new", b, NoPend, "err")
  ELSE IF Batch("new", b).bad \/ Batch("new", b).rdfail THEN Ctl("ret", "new", b, NoPend, "err")
  ELSE Ctl("writeB", "new", b, Batch("new", b), ret)
GoDiv(b) ==
  IF Batch("div", b).eof THEN GoNew(reg.nS)
  ELSE IF cfg.cx = 1 THEN Ctl("ret", "div", b, NoPend, "err")
  ELSE IF Batch("div", b).bad \/ Batch("div", b).rdfail THEN Ctl("ret", "div", b, NoPend, "err")
  ELSE Ctl("writeB", "div", b, Batch("div", b), ret)
GoOn(b) == IF cur = "div" THEN GoDiv(b) ELSE GoNew(b)

Set(c) == /\ pc' = c.pc /\ cur' = c.cur /\ bstart' = c.bstart /\ pend' = c.pend /\ ret' = c.ret

----------------------------------------------------------------------------
ActS(op, res, inj, sn, n, t, hs) ==
  [op |-> op, run |-> run, res |-> res, inj |-> inj, sn |-> sn, n |-> n, t |-> t, hs |-> hs,
   cfg |-> cfg]
Act(op, res, inj, n, t, hs) == ActS(op, res, inj, 0, n, t, hs)

Finish(a) ==
  /\ act'  = a
  /\ abs'  = AbsNext(abs, a, Obs')
  /\ viol' = Viol(abs, Obs, a, abs', Obs')

Stage(op, ok, next) ==   \* a stage that touches no store
  /\ UNCHANGED <<cfg, stores, ctl>>
  /\ IF ok THEN pc' = next /\ UNCHANGED ret
           ELSE pc' = "ret" /\ ret' = "err"
  /\ Finish(Act(op, IF ok THEN "ok" ELSE "err", "none", 0, NF, <<>>))

Begin == pc = "begin" /\ Stage("Begin", TRUE, "open")

Open ==
  /\ pc = "open"
  /\ Stage("Open", ~(cfg.fk \in {"truncB", "truncF", "emptyB"} \/ (cfg.fk = "shortF" /\ cfg.n = 1)),
           "compat")

Compat ==
  /\ pc = "compat"
  /\ Stage("Compat", cfg.fk \notin {"magic", "magicF", "shortF", "startF"}, "cont")

ConnOK(h, prevH) == LET p == ReadP(bfile, prevH)
                    IN  p # NF /\ ParentOf(cfg, FileB(cfg, h)) = p
VerB(h) == ReadP(bfile, h) # NF /\ FileB(cfg, h) = ReadP(bfile, h)
VerF(h) == ReadP(ffile, h) # NF /\ FileF(cfg, h) = ReadP(ffile, h)

Cont ==
  /\ pc = "cont"
  /\ LET bt  == TipOf(bfile, idx, btip)
         ft  == TipOf(ffile, idx, ftip)
         eff == Min2(bt[2], ft[2])
         e   == EndH(cfg)
         s   == cfg.s
         oe  == Min2(eff, e)
     IN  Stage("Cont",
               /\ bt[1] # ERR /\ ft[1] # ERR
               /\ IF s > eff + 1 THEN FALSE
                  ELSE IF s > eff THEN ConnOK(s, bt[2])
                  ELSE /\ VerB(s) /\ VerF(s)
                       /\ (oe > s => (VerB(oe) /\ VerF(oe)))
                       /\ (oe < e => ConnOK(oe + 1, bt[2])),
               "valb")

\* The header that breaks a rule is noticed iff it is ever the `current` of a
\* ValidatePair (every index >= 1 is), or - for the context-free PoW check -
\* the single member of the first batch.
ValB ==
  /\ pc = "valb"
  /\ Stage("ValB",
           \* a cancelled context makes Validate return nil after reading
           \* the first batch: nothing is validated
           cfg.cx = 1 \/
           ~(/\ cfg.kind \in {"pow", "bits", "time", "link", "easybits"}
             /\ \/ cfg.x > cfg.s
                \/ (cfg.kind = "pow" /\ Min2(cfg.bs, cfg.n) = 1)
                \/ (FixFirstHeader /\ cfg.s > 0 /\ ReadP(bfile, cfg.s - 1) # NF)),
           "valf")

\* filter_headers_validator.go: every header of the file is compared with the
\* target network's hard-coded filter-header checkpoint of its height, if any.
ValF ==
  /\ pc = "valf"
  /\ Stage("ValF", cfg.cx = 1 \/ cfg.ck = NF \/ FileF(cfg, cfg.ck) = cfg.ck, "regions")

Regions ==
  /\ pc = "regions"
  /\ LET bt == TipOf(bfile, idx, btip)[2]
         ft == TipOf(ffile, idx, ftip)[2]
         eff == Min2(bt, ft)
         e == EndH(cfg)
     IN  reg' = [dS |-> eff + 1, dE |-> Min2(Max2(bt, ft), e),
                 dEx |-> bt # ft /\ eff + 1 <= Min2(Max2(bt, ft), e),
                 dMode |-> IF bt > ft THEN "F" ELSE IF bt < ft THEN "B" ELSE "BF",
                 nS |-> Max2(bt, ft) + 1, nE |-> e, nEx |-> Max2(bt, ft) + 1 <= e]
  /\ pc' = "divverify"
  /\ UNCHANGED <<cfg, stores, run, cur, bstart, pend, nf, ret>>
  /\ Finish(Act("Regions", "ok", "none", 0, NF, <<>>))

DivVerify ==
  /\ pc = "divverify"
  /\ LET ok == \/ ~reg.dEx
               \/ (reg.dMode = "F" /\ VerB(reg.dE))
               \/ (reg.dMode = "B" /\ VerF(reg.dE))
               \/ (reg.dMode = "BF" /\ VerB(reg.dE) /\ VerF(reg.dE))
         c  == IF ~ok THEN Ctl("ret", "none", 0, NoPend, "err")
               ELSE IF reg.dEx THEN GoDiv(reg.dS) ELSE GoNew(reg.nS)
     IN  /\ Set(c)
         /\ UNCHANGED <<cfg, stores, run, reg, nf>>
         /\ Finish(Act("DivVerify", IF ok THEN "ok" ELSE "err", "none", 0, NF, <<>>))

\* Where a store call of the import may stop: <<inj, sn>>.
\*   err   the call returns an injected error and does nothing
\*   cb/ca the process dies right before / right after the call
\*   cw    it dies inside the call, after sn HALF entries of the flat-file
\*         write reached the disk (a torn append)
\*   c2    it dies inside the call between its two durable steps (append:
\*         file written, index not; rollback: index updated, file not)
Stops(k, twoStep) ==
  {<<"none", 0>>}
  \cup (IF nf > 0 /\ run = 1
        THEN {<<"err", 0>>}
             \cup (IF WithCrash
                   THEN {<<"cb", 0>>, <<"ca", 0>>}
                        \cup (IF twoStep THEN {<<"c2", 0>>} ELSE {})
                        \cup {<<"cw", j>> : j \in 1..(2 * k - 1)}
                   ELSE {})
        ELSE {})

Crashed == /\ up' = 2 /\ pc' = "recover" /\ nf' = 0
           /\ UNCHANGED <<cfg, run, reg, cur, bstart, pend, ret>>

WriteB(st) ==
  LET inj == st[1]
      w == WB(bfile, idx, btip, pend.bh)
      a(res) == ActS("WriteB", res, inj, st[2], Len(pend.bh), NF, pend.bh)
      part(j) == [i \in 1..(j \div 2) |-> pend.bh[i][1]]
  IN
  /\ pc = "writeB" /\ st \in Stops(Len(pend.bh), Len(pend.bh) > 0)
  /\ CASE inj = "none" ->
            /\ bfile' = w.bf /\ idx' = w.ix /\ btip' = w.bt
            /\ pc' = "writeF"
            /\ UNCHANGED <<cfg, ffile, ftip, up, ctl, ret>>
            /\ Finish(a("ok"))
       [] inj = "err" ->
            /\ pc' = "ret" /\ ret' = "err" /\ nf' = nf - 1
            /\ UNCHANGED <<cfg, stores, run, reg, cur, bstart, pend>>
            /\ Finish(a("err"))
       [] inj = "cb" ->
            /\ Crashed /\ UNCHANGED <<bfile, ffile, idx, btip, ftip>>
            /\ Finish(a("crash"))
       [] inj = "ca" ->
            /\ bfile' = w.bf /\ idx' = w.ix /\ btip' = w.bt
            /\ Crashed /\ UNCHANGED <<ffile, ftip>>
            /\ Finish(a("crash"))
       [] inj = "c2" ->
            /\ bfile' = w.bf
            /\ Crashed /\ UNCHANGED <<ffile, idx, btip, ftip>>
            /\ Finish(a("crash"))
       [] inj = "cw" ->
            /\ bfile' = bfile \o part(st[2])
            /\ Crashed /\ UNCHANGED <<ffile, idx, btip, ftip>>
            /\ Finish(a("crash"))

WriteF(st) ==
  LET inj == st[1]
      w == WF(ffile, ftip, pend.fh, pend.t)
      a(res) == ActS("WriteF", res, inj, st[2], Len(pend.fh), pend.t, pend.fh)
      part(j) == [i \in 1..(j \div 2) |-> pend.fh[i][1]]
  IN
  /\ pc = "writeF" /\ st \in Stops(Len(pend.fh), Len(pend.fh) > 0)
  /\ CASE inj = "none" ->
            /\ ffile' = w.ff /\ ftip' = w.ft
            /\ Set(GoOn(pend.bend + 1))
            /\ UNCHANGED <<cfg, bfile, idx, btip, up, run, reg, nf>>
            /\ Finish(a("ok"))
       [] inj = "err" ->
            /\ pc' = "rollback" /\ nf' = nf - 1
            /\ UNCHANGED <<cfg, stores, run, reg, cur, bstart, pend, ret>>
            /\ Finish(a("err"))
       [] inj = "cb" ->
            /\ Crashed /\ UNCHANGED <<bfile, ffile, idx, btip, ftip>>
            /\ Finish(a("crash"))
       [] inj = "ca" ->
            /\ ffile' = w.ff /\ ftip' = w.ft
            /\ Crashed /\ UNCHANGED <<bfile, idx, btip>>
            /\ Finish(a("crash"))
       [] inj = "c2" ->
            /\ ffile' = w.ff
            /\ Crashed /\ UNCHANGED <<bfile, idx, btip, ftip>>
            /\ Finish(a("crash"))
       [] inj = "cw" ->
            /\ ffile' = ffile \o part(st[2])
            /\ Crashed /\ UNCHANGED <<bfile, idx, btip, ftip>>
            /\ Finish(a("crash"))

RollbackB(st) ==
  LET inj == st[1]
      n == Len(pend.bh)
      r == RB(bfile, idx, btip, n)
      a(res) == ActS("RollbackB", res, inj, st[2], n, NF, <<>>)
  IN
  /\ pc = "rollback" /\ st \in Stops(0, n > 0 /\ r.ok)
  /\ CASE inj = "none" ->
            /\ bfile' = r.bf /\ idx' = r.ix /\ btip' = r.bt
            /\ pc' = "ret" /\ ret' = "err"
            /\ UNCHANGED <<cfg, ffile, ftip, up, ctl>>
            /\ Finish(a(IF r.ok THEN "ok" ELSE "err"))
       [] inj = "err" ->
            /\ pc' = "ret" /\ ret' = "err" /\ nf' = nf - 1
            /\ UNCHANGED <<cfg, stores, run, reg, cur, bstart, pend>>
            /\ Finish(a("err"))
       [] inj = "cb" ->
            /\ Crashed /\ UNCHANGED <<bfile, ffile, idx, btip, ftip>>
            /\ Finish(a("crash"))
       [] inj = "ca" ->
            /\ bfile' = r.bf /\ idx' = r.ix /\ btip' = r.bt
            /\ Crashed /\ UNCHANGED <<ffile, ftip>>
            /\ Finish(a("crash"))
       [] inj = "c2" ->
            /\ idx' = r.ix /\ btip' = r.bt
            /\ Crashed /\ UNCHANGED <<bfile, ffile, ftip>>
            /\ Finish(a("crash"))

Return ==
  /\ pc = "ret"
  /\ UNCHANGED <<cfg, stores, ret>>
  /\ IF run = 1 /\ ret = "ok"
     THEN /\ run' = 2 /\ pc' = "open" /\ nf' = 0
          /\ reg' = NoReg /\ cur' = "none" /\ bstart' = 0 /\ pend' = NoPend
     ELSE /\ pc' = IF run = 1 /\ Usable(Obs) THEN "probe" ELSE "done"
          /\ UNCHANGED ctl
  /\ Finish(Act("Return", ret, "none", 0, NF, <<>>))

Recover ==
  /\ pc = "recover" /\ up = 2
  /\ LET b == OpenB(bfile, idx, btip)
         f == OpenF(ffile, idx, ftip)
         u == IF b.ok /\ f.ok THEN 1 ELSE 0
     IN  /\ bfile' = b.f /\ ffile' = IF b.ok THEN f.f ELSE ffile
         /\ up' = u
         /\ pc' = IF u = 1 /\ Usable(ObsOf(b.f, f.f, idx, btip, ftip, 1)) THEN "probe" ELSE "done"
         /\ UNCHANGED <<cfg, idx, btip, ftip, ctl, ret>>
         /\ Finish(Act("Recover", IF u = 1 THEN "ok" ELSE "err", "none", 0, NF, <<>>))

\* The driver appends one fresh valid block header at the block tip height + 1
\* and one filter header at the filter tip height + 1 (keyed by the block
\* stored at that height).
Probe ==
  /\ pc = "probe" /\ up = 1
  /\ LET hb == TipOf(bfile, idx, btip)[2] + 1
         hf == TipOf(ffile, idx, ftip)[2] + 1
         w  == WB(bfile, idx, btip, <<<<300 + hb, hb>>>>)
         v  == WF(ffile, ftip, <<<<300 + hf, hf>>>>, ReadP(w.bf, hf))
     IN  /\ bfile' = w.bf /\ idx' = w.ix /\ btip' = w.bt
         /\ ffile' = v.ff /\ ftip' = v.ft
         /\ pc' = "done"
         /\ UNCHANGED <<cfg, up, ctl, ret>>
         /\ Finish(Act("Probe", "ok", "none", 0, NF, <<>>))

----------------------------------------------------------------------------
Kinds  == {"none", "fork", "pow", "bits", "time", "link"}
FKinds == {"none", "magic", "magicF", "truncB", "truncF", "emptyB", "shortF", "startF"}

B2N(b) == IF b THEN 1 ELSE 0
Anom(c) == B2N(c.kind # "none") + B2N(c.fy # NF) + B2N(c.fk # "none") + B2N(c.rsrc # "none")

InitR ==
  /\ \E s \in 0..MaxStart, n \in 1..MaxLen, bs \in 1..MaxBatch, hB \in 0..MaxStoreH :
     \E hF \in {hB, hB - 1, hB - 2, hB - 3, hB + 1} \cap (0..MaxH) :
     \E kind \in Kinds, fk \in FKinds :
     \E x \in (IF kind = "none" THEN {NF} ELSE s..(s + n - 1)),
        fy \in {NF} \cup (s..(s + n - 1)),
        ck \in {NF} \cup (s..(s + n - 1)), cx \in {0, 1},
        rsrc \in (IF hB = hF /\ fk = "none" THEN {"none", "B", "F"} ELSE {"none"}) :
     \E rkind \in (IF rsrc = "none" THEN {"none"} ELSE {"eof", "io"}),
        rk \in (IF rsrc = "none" THEN {NF} ELSE (Max2(hB + 1, s))..(s + n - 1)) :
       /\ s + n - 1 <= MaxH
       /\ cfg = [s |-> s, n |-> n, bs |-> bs, hB |-> hB, hF |-> hF,
                 x |-> x, kind |-> kind, fy |-> fy, fk |-> fk, ck |-> ck, cx |-> cx,
                 rsrc |-> rsrc, rk |-> rk, rkind |-> rkind, lt |-> NF, ln |-> 0]
       /\ Anom(cfg) <= MaxAnom
       /\ (kind # "none" => fy = NF)      \* the whole filter file already differs from x on
       \* configurations that fail before the file's headers are looked at
       \* (file-level damage, a gap, an unreadable filter tip) are not
       \* multiplied with the deviations of the headers
       /\ (fk # "none" \/ s > Min2(hB, hF) + 1 \/ hF > hB)
             => (kind = "none" /\ fy = NF /\ ck = NF /\ cx = 0)
       \* a checkpoint matters for filter headers only: block-header kinds that
       \* fail in ValB are not multiplied with it
       /\ (ck # NF => (kind \in {"none", "fork"} /\ cx = 0))
       /\ (cx = 1 => fy = NF)
       \* an unreadable source in the write pass: only where the write pass
       \* needs that header (equal store heights, header above the tips), not
       \* multiplied with header deviations, checkpoints, a cancelled context
       \* or store faults
       /\ ((rsrc = "none") <=> (rkind = "none"))
       /\ (rsrc # "none" => (hB = hF /\ rk > hB /\ ck = NF /\ cx = 0 /\ kind = "none" /\ fy = NF))
       \* faults are not multiplied with checkpoints / a cancelled context
       /\ nf = IF Anom(cfg) < MaxAnom /\ cx = 0 /\ ck = NF /\ rsrc = "none" THEN MaxFaults ELSE 0

\* The testnet-like universe: start height >= 1, no gap, equal store heights,
\* the on-time block after the late one(s) inside the file (first, second or a
\* later position), valid ("none") or wrongly at the limit bits ("easybits");
\* no other deviation, no fault.
InitT ==
  /\ \E s \in 1..MaxStart, n \in 1..MaxLen, bs \in 1..MaxBatch, hB \in 0..MaxStoreH :
     \E ln \in 1..MaxLate, lt \in 1..MaxH, kind \in {"none", "easybits"} :
       /\ s + n - 1 <= MaxH
       /\ s <= hB + 1
       /\ lt + ln >= s /\ lt + ln <= s + n - 1
       /\ cfg = [s |-> s, n |-> n, bs |-> bs, hB |-> hB, hF |-> hB,
                 x |-> IF kind = "none" THEN NF ELSE lt + ln, kind |-> kind, fy |-> NF,
                 fk |-> "none", ck |-> NF, cx |-> 0,
                 rsrc |-> "none", rk |-> NF, rkind |-> "none", lt |-> lt, ln |-> ln]
       /\ nf = 0

Init ==
  /\ IF Testnet THEN InitT ELSE InitR
  /\ bfile = [p \in 1..(cfg.hB + 1) |-> p - 1]
  /\ ffile = [p \in 1..(cfg.hF + 1) |-> p - 1]
  /\ idx = {<<h, h>> : h \in 0..cfg.hB}
  /\ btip = cfg.hB /\ ftip = cfg.hF
  /\ up = 1 /\ pc = "begin" /\ run = 1
  /\ reg = NoReg /\ cur = "none" /\ bstart = 0 /\ pend = NoPend /\ ret = "ok"
  /\ abs = AbsInit
  /\ act = [op |-> "Init", run |-> 0, res |-> "ok", inj |-> "none", sn |-> 0, n |-> 0, t |-> NF,
            hs |-> <<>>, cfg |-> cfg]
  /\ viol = {}

Next ==
  \/ Begin \/ Open \/ Compat \/ Cont \/ ValB \/ ValF \/ Regions \/ DivVerify
  \/ \E st \in {"none", "err", "cb", "ca", "c2", "cw"} \X (0..(2 * MaxBatch)) :
        WriteB(st) \/ WriteF(st) \/ RollbackB(st)
  \/ Return \/ Recover \/ Probe

Spec == Init /\ [][Next]_vars

----------------------------------------------------------------------------
TypeOK ==
  /\ up \in {0, 1, 2} /\ run \in {1, 2} /\ nf \in 0..MaxFaults
  /\ pc \in {"begin", "open", "compat", "cont", "valb", "valf", "regions", "divverify",
             "writeB", "writeF", "rollback", "ret", "recover", "probe", "done"}
  /\ \A e \in idx : \A g \in idx : e[1] = g[1] => e = g
  /\ Len(bfile) <= HH /\ Len(ffile) <= HH

NoViolation == viol = {}

State == [cfg |-> cfg, bfile |-> bfile, ffile |-> ffile, idx |-> idx, btip |-> btip, ftip |-> ftip,
          up |-> up, pc |-> pc, run |-> run, reg |-> reg, cur |-> cur, bstart |-> bstart,
          pend |-> pend, ret |-> ret, nf |-> nf]
View == <<cfg, bfile, ffile, idx, btip, ftip, up, pc, run, reg, cur, bstart, pend, ret, nf, abs>>
=============================================================================
