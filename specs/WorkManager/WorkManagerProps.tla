--------------------------- MODULE WorkManagerProps ---------------------------
(***************************************************************************)
(* Property C12 of the query dispatcher (query/workmanager.go), stated     *)
(* over OBSERVABLES only.  The same operators are evaluated by TLC (a) on  *)
(* every transition of WorkManager.tla and (b) on every step of every      *)
(* trace observed on the real peerWorkManager.                             *)
(*                                                                         *)
(* obs = [verd  |-> Seq over batches (in submission order) of the SEQUENCE *)
(*                  of values read so far from the channel Query returned  *)
(*                  (0 nil, 1 ErrQueryTimeout, 2 ErrPeerDisconnected,      *)
(*                  3 ErrJobCanceled, 4 any other worker error,            *)
(*                  5 ErrWorkManagerShuttingDown, -1 anything else),       *)
(*        ans   |-> Seq over batches of Seq over requests: 1 iff the       *)
(*                  request's handler has returned Finished,               *)
(*        score |-> Seq over addresses: the ranking's score (-1 unknown),  *)
(*        disp  |-> 0 dispatcher waits in its select, 1 it is handing a    *)
(*                  job over, 2 it is stuck handing a job to a worker that *)
(*                  does not take it, 3 it has exited (Stop), 4 it died]   *)
(*                                                                         *)
(* act = [op, res, a, i, b, k, j, e, n, retr, nomax, hard, prog, g]        *)
(*   Connect(a,i)        peer object i of address a handed to the          *)
(*                       dispatcher (ConnectedPeers)                       *)
(*   WorkerExit(a,i)     idle worker's peer disconnects, Run returns       *)
(*   Query(b,n,retr,nomax,hard,prog)  res ok | blocked | shutdown          *)
(*                       retr = NumRetries (0 included), nomax = 1 iff     *)
(*                       NoRetryMax() was given ("NumRetries has no        *)
(*                       effect")                                          *)
(*   Dispatch(j,b,k,a,i) job j (request k of batch b) handed to worker     *)
(*   Gone(a)             dispatcher drops the exited worker of address a   *)
(*   Result(a,i,j,b,k,e) worker hands back e for job j; res = what the     *)
(*                       dispatcher did (discard, cancel, maxtries,        *)
(*                       requeue, done, progress, hardtimeout, panic) or   *)
(*                       blocked (nobody takes the result)                 *)
(*   Wake(b,g)           the idle timer armed for window g of batch b      *)
(*                       fires (window 1 starts with the batch, every      *)
(*                       accounted success starts the next one)            *)
(*   Cancel(b)  HardFire(b)  Stop (res ok | hang)                          *)
(*   IdleElapsed(b,g)    the idle window g of batch b has fully elapsed    *)
(*                       (logged at quiescence, under virtual time)        *)
(***************************************************************************)
EXTENDS Integers, Sequences, FiniteSets

Range1(s) == {s[x] : x \in 1..Len(s)}

\* win[b]: number of the idle window batch b is in = 1 + the successful results
\* accounted for it while it was alive (each of them starts a new window).
\* rec: the record of every address as the trace shows it: <<address, successes,
\* failures, ambiguous>>.  Successes / failures are results the dispatcher
\* accounted for a batch that was still open; a disconnect, or a result for a
\* batch that already had its verdict, makes the record ambiguous (the statement
\* does not say how those count).  done[b] = 1 once batch b has a verdict.
AbsInit == [opts |-> <<>>, fails |-> <<>>, cancel |-> <<>>, hardx |-> <<>>, win |-> <<>>,
            latest |-> {}, live |-> {}, hold |-> {}, stopped |-> 0, rec |-> {}, done |-> <<>>]

RecOf(a, x) == IF \E r \in a.rec : r[1] = x THEN CHOOSE r \in a.rec : r[1] = x
               ELSE <<x, 0, 0, 0>>

\* x has a strictly better record than y: at least as many successes, at most
\* as many failures, one of them strictly, both records unambiguous and short
\* enough (<= 4 events) that no bounded score can have saturated.
BetterRecord(a, x, y) ==
  LET rx == RecOf(a, x)
      ry == RecOf(a, y)
  IN  /\ rx[4] = 0 /\ ry[4] = 0
      /\ rx[2] + rx[3] <= 4 /\ ry[2] + ry[3] <= 4
      /\ rx[2] >= ry[2] /\ rx[3] <= ry[3]
      /\ (rx[2] > ry[2] \/ rx[3] < ry[3])

NB(a) == Len(a.opts)

\* Addresses whose most recent peer object is connected and holds no job.
Avail(a) == {p[1] : p \in {q \in a.latest : q \in a.live /\
                              ~ \E h \in a.hold : h[1] = q[1] /\ h[2] = q[2]}}

Zeros(n) == [x \in 1..n |-> 0]

AbsCore(a, act, o2) ==
  CASE act.op = "Connect" ->
         [a EXCEPT !.latest = {q \in @ : q[1] # act.a} \cup {<<act.a, act.i>>},
                   !.live = @ \cup {<<act.a, act.i>>}]
    [] act.op = "WorkerExit" ->
         [a EXCEPT !.live = @ \ {<<act.a, act.i>>}]
    [] act.op = "Query" /\ act.res \in {"ok", "shutdown"} ->
         [a EXCEPT !.opts = Append(@, [n |-> act.n, retr |-> act.retr, nomax |-> act.nomax,
                                       hard |-> act.hard, prog |-> act.prog]),
                   !.fails = Append(@, Zeros(act.n)),
                   !.cancel = Append(@, 0), !.hardx = Append(@, 0), !.win = Append(@, 1)]
    [] act.op = "Dispatch" ->
         [a EXCEPT !.hold = @ \cup {<<act.a, act.i, act.b, act.k>>}]
    [] act.op = "Result" ->
         [a EXCEPT !.hold = @ \ {<<act.a, act.i, act.b, act.k>>},
                   !.fails = IF act.e \in {1, 2, 4} /\ act.b \in 1..Len(@)
                             THEN [@ EXCEPT ![act.b][act.k] = @ + 1] ELSE @,
                   !.live = IF act.e = 2 THEN @ \ {<<act.a, act.i>>} ELSE @,
                   !.rec = IF act.res = "blocked" THEN @
                           ELSE LET r == RecOf(a, act.a)
                                    wasOpen == act.b \in 1..Len(a.done) /\ a.done[act.b] = 0
                                    r2 == IF act.e = 2 \/ (~wasOpen /\ act.e # 3) THEN <<r[1], r[2], r[3], 1>>
                                          ELSE IF act.e = 0 THEN <<r[1], r[2] + 1, r[3], r[4]>>
                                          ELSE IF act.e \in {1, 4} THEN <<r[1], r[2], r[3] + 1, r[4]>>
                                          ELSE r
                                IN  {q \in @ : q[1] # act.a} \cup {r2},
                   !.win = IF /\ act.e = 0 /\ act.res # "blocked" /\ act.b \in 1..Len(@)
                              /\ act.b \in 1..Len(o2.verd) /\ Len(o2.verd[act.b]) = 0
                           THEN [@ EXCEPT ![act.b] = @ + 1] ELSE @]
    [] act.op = "Cancel" /\ act.b \in 1..NB(a) ->
         [a EXCEPT !.cancel[act.b] = 1]
    [] act.op = "HardFire" /\ act.b \in 1..NB(a) ->
         [a EXCEPT !.hardx[act.b] = 1]
    [] act.op = "Stop" /\ act.res = "ok" ->
         [a EXCEPT !.stopped = 1, !.live = {}, !.hold = {}]
    [] OTHER -> a

AbsNext(a, act, o2) ==
  [AbsCore(a, act, o2) EXCEPT
     !.done = [b \in 1..Len(o2.verd) |-> IF Len(o2.verd[b]) > 0 THEN 1 ELSE 0]]

\* Is verdict v, newly delivered for batch b on this step, one of the outcomes
\* the statement allows, and has its cause occurred?
Justified(a2, o2, act, b, v) ==
  LET op == a2.opts[b]
      retry(e) == /\ op.nomax = 0 /\ act.op = "Result" /\ act.b = b /\ act.e = e
                  /\ a2.fails[b][act.k] >= op.retr
  IN  CASE v = 0 -> TRUE                         \* judged by SuccessMeansAllAnswered
        [] v = 5 -> act.op = "Stop" \/ a2.stopped = 1
        [] v = 3 -> a2.cancel[b] = 1
        [] v = 1 -> \/ (op.hard = 1 /\ a2.hardx[b] = 1)
                    \* the idle timer of the CURRENT window fired: the wake of a window
                    \* in which the batch made progress is no cause for a timeout
                    \/ (op.prog = 1 /\ act.op = "Wake" /\ act.b = b /\ act.g = a2.win[b])
                    \/ retry(1)
        [] v \in {2, 4} -> retry(v)
        [] OTHER -> FALSE

Viol(a, o, act, a2, o2) ==
  LET nb == Len(o2.verd)
      old(b) == IF b <= Len(o.verd) THEN Len(o.verd[b]) ELSE 0
      fresh == {<<b, x>> \in (1..nb) \X (1..3) : x > old(b) /\ x <= Len(o2.verd[b])}
      allAns(b) == \A k \in 1..Len(o2.ans[b]) : o2.ans[b][k] = 1
      open(b) == Len(o2.verd[b]) = 0
  IN
  (IF \E b \in 1..nb : Len(o2.verd[b]) > 1 THEN {"AtMostOneVerdict"} ELSE {})
  \cup (IF \E f \in fresh : o2.verd[f[1]][f[2]] = 0 /\ ~allAns(f[1])
        THEN {"SuccessMeansAllAnswered"} ELSE {})
  \cup (IF \E f \in fresh : f[1] <= NB(a2) /\
              ~Justified(a2, o2, act, f[1], o2.verd[f[1]][f[2]])
        THEN {"ErrorHasCause"} ELSE {})
  \cup (IF \E b \in 1..nb : allAns(b) /\ open(b) /\ act.res # "blocked"
        THEN {"AllAnsweredGetsVerdict"} ELSE {})
  \* once the hard deadline has passed, the next result the dispatcher accounts
  \* for the batch ends it (it is not retried any further)
  \cup (IF /\ act.op = "Result" /\ act.res # "blocked" /\ act.b \in 1..NB(a2) /\ act.b \in 1..nb
           /\ a2.opts[act.b].hard = 1 /\ a2.hardx[act.b] = 1 /\ open(act.b)
        THEN {"HardDeadlineEndsBatch"} ELSE {})
  \* "... otherwise a single error (... idle timeout ...)": the idle window the
  \* batch is in has fully elapsed, everything has come to rest with the
  \* dispatcher waiting in its main select - the batch must have its result
  \* (executions under virtual time; IdleElapsed is logged at quiescence)
  \cup (IF /\ act.op = "IdleElapsed" /\ o2.disp = 0 /\ act.b \in 1..NB(a2) /\ act.b \in 1..nb
           /\ a2.opts[act.b].prog = 1 /\ act.g = a2.win[act.b] /\ open(act.b)
        THEN {"IdleTimeoutEndsBatch"} ELSE {})
  \cup (IF act.op = "Query" /\ act.res = "blocked" THEN {"QueryReturns"} ELSE {})
  \cup (IF act.op = "Result" /\ act.res = "blocked" THEN {"ResultAccepted"} ELSE {})
  \cup (IF act.op = "Stop" /\ act.res # "ok" THEN {"StopReturns"} ELSE {})
  \cup (IF act.res = "panic" THEN {"NoPanic"} ELSE {})
  \cup (IF act.op = "Stop" /\ act.res = "ok" /\ \E b \in 1..nb : Len(o2.verd[b]) # 1
        THEN {"OneVerdictAfterStop"} ELSE {})
  \cup (IF act.op = "Dispatch" /\ act.a \in 1..Len(o.score) /\
           \E x \in Avail(a) : x # act.a /\ x \in 1..Len(o.score) /\
                               o.score[x] >= 0 /\ o.score[x] < o.score[act.a]
        THEN {"PrefersBetterRanked"} ELSE {})
  \* ... preferring peers with a better record, the record being what the trace
  \* itself shows (not the ranking's own numbers): a job never goes to a peer
  \* while an available peer has a strictly better record.  Judged where a
  \* ranking is under observation (scores known).
  \cup (IF act.op = "Dispatch" /\ act.a \in 1..Len(o.score) /\ o.score[act.a] >= 0 /\
           \E x \in Avail(a) : x # act.a /\ x \in 1..Len(o.score) /\ o.score[x] >= 0 /\
                               BetterRecord(a, x, act.a)
        THEN {"PrefersBetterRecord"} ELSE {})
  \cup (IF o2.disp \in {0, 2} /\ Avail(a2) # {} /\
           \E b \in 1..nb : b <= NB(a2) /\ open(b) /\
              \E k \in 1..Len(o2.ans[b]) :
                 o2.ans[b][k] = 0 /\ ~ \E h \in a2.hold : h[3] = b /\ h[4] = k
        THEN {"ReissueWhenAvailable"} ELSE {})

\* If the trace ends here: after shutdown every batch has exactly one verdict.
EndViol(a, o) ==
  IF a.stopped = 1 /\ \E b \in 1..Len(o.verd) : Len(o.verd[b]) # 1
  THEN {"OneVerdictAfterStop"} ELSE {}
=============================================================================
