----------------------------- MODULE WorkManager -----------------------------
(***************************************************************************)
(* Implementation-shaped model of neutrino's query dispatcher              *)
(* (query/workmanager.go workDispatcher :183, Query :703, Stop :170) with  *)
(* its workers as processes (query/worker.go Run :86, abstracted to        *)
(* idle -> busy -> result handed back -> maybe exit) and the ranking of    *)
(* query/peer_rank.go.                                                     *)
(*                                                                         *)
(* Dispatcher bookkeeping (all local to the workDispatcher goroutine):     *)
(*   work   the heap of queued jobs (ordered by job index => a set)        *)
(*   bat    currentBatches + per-batch options; bat[b].live = b is in the  *)
(*          map; rem, gen (progressGen), hardx (hard timer expired),       *)
(*          cancel (caller closed its cancel channel), icancel (the        *)
(*          dispatcher closed the batch's internal cancel channel)         *)
(*   cq     currentQueries (job -> batch; the batch of a job is fixed, so  *)
(*          only membership matters: a missing key reads as batch 0, i.e.  *)
(*          the FIRST batch)                                               *)
(*   wk     workers[addr] = (which Worker object, activeJob)               *)
(*   rank   peerRanking.rank                                               *)
(* Environment / worker processes:                                         *)
(*   ws[a][i]  state of the worker started for the i-th peer object of     *)
(*             address a: 0 idle (reading NewJob()), j>0 holds job j,      *)
(*             -1 Run returned, -2 stuck sending a result nobody takes     *)
(*   verd, ans what callers see (see WorkManagerProps)                     *)
(*                                                                         *)
(* One action per select arm of the dispatcher (line numbers: /repo with   *)
(* the trace hooks and the stale-worker fix committed):                    *)
(*   Dispatch / Gone   the hand-off select :327 (send to the best-ranked   *)
(*                     free worker :328 | its onExit :341), enabled        *)
(*                     whenever the heap is non-empty and a free worker    *)
(*                     exists; the third arm (quit :346) is part of Stop.  *)
(*                     If the chosen worker is neither reading nor gone    *)
(*                     the dispatcher is BLOCKED: nothing but Stop is      *)
(*                     enabled for it.                                     *)
(*   Connect :361, Wake :392, Result :423 (free the slot :435, sub-cases   *)
(*   discard :450, cancel :469, maxtries :508, requeue :552, done :588,    *)
(*   hardtimeout :609, progress / re-arm :643), Query :703 = NewBatch      *)
(*   :648, Stop :170 = quit :693 + deferred shutdown verdicts :281.        *)
(* The sends on peersConnected, newBatches and jobResults are unbuffered,  *)
(* so the environment's send and the dispatcher's arm are one step.  The   *)
(* idle timer's callback and the wake arm are one step too: a wake that    *)
(* was posted before a re-arm / before the batch ended and is consumed     *)
(* afterwards is the same thing, for the dispatcher, as a wake carrying an *)
(* old generation / a dead batch number, and that is how it is modelled.   *)
(* Timers are nondeterministic events (HardFire, Wake).                    *)
(*                                                                         *)
(* Environment steps are taken only when the dispatcher is SETTLED         *)
(* (waiting in its main select, or blocked): the hand-off steps that       *)
(* follow an arm take microseconds in the code and are given priority.     *)
(*                                                                         *)
(* Code-version switch: FixStaleWorker = the Result arm clears             *)
(* workers[addr].activeJob only if that worker really holds the job the    *)
(* result is for (and tolerates a missing entry).                          *)
(***************************************************************************)
EXTENDS Integers, Sequences, FiniteSets, TLC, Json, WorkManagerProps

CONSTANTS NAddr,      \* addresses 1..NAddr
          MaxConn,    \* peer objects handed to the dispatcher in total
          MaxBatch,   \* batches per history
          MaxReq,     \* requests per batch 1..MaxReq
          Retries,    \* set of retry caps (NumRetries), 0 included
          NoMaxes,    \* subset of {0,1}: NoRetryMax() not given / given
          Hards,      \* subset of {0,1}: hard timeout far away / armed
          Progs,      \* subset of {0,1}: idle timeout off / on
          MaxFail,    \* failing results per history
          MaxExit,    \* idle-worker exits per history
          MaxCancel,  \* caller cancellations per history
          MaxStale,   \* stale / late wakes per history
          MaxOk,      \* successful results per history
          FixStaleWorker

VARIABLES bat, jobs, work, cq, wk, rank, ws, verd, ans, dsp, cnt, abs, act, viol

vars == <<bat, jobs, work, cq, wk, rank, ws, verd, ans, dsp, cnt, abs, act, viol>>

Addrs == 1..NAddr

NoAct == [op |-> "Init", res |-> "ok", a |-> 0, i |-> 0, b |-> 0, k |-> 0, j |-> 0,
          e |-> 0, n |-> 0, retr |-> 0, nomax |-> 0, hard |-> 0, prog |-> 0, g |-> 0]

----------------------------------------------------------------------------
\* Where the dispatcher is (derived; it has no program counter of its own).
Free == {a \in Addrs : wk[a].inst # 0 /\ wk[a].job = 0}
Less(x, y) == rank[x] < rank[y] \/ (rank[x] = rank[y] /\ x < y)
Cand == CHOOSE a \in Free : \A x \in Free \ {a} : Less(a, x)
Offering == dsp = "run" /\ work # {} /\ Free # {}
CandProc == ws[Cand][wk[Cand].inst]
Waiting == dsp = "run" /\ ~Offering
Blocked == Offering /\ (CandProc > 0 \/ CandProc = -2)
Settled == Waiting \/ Blocked
Next1 == CHOOSE j \in work : \A x \in work : j <= x        \* heap Peek

DispOf == IF dsp = "stopped" THEN 3 ELSE IF dsp = "dead" THEN 4
          ELSE IF Waiting THEN 0 ELSE IF Blocked THEN 2 ELSE 1

Obs == [verd |-> verd, ans |-> ans, score |-> rank, disp |-> DispOf]

Finish(a) ==
  /\ act'  = a
  /\ abs'  = AbsNext(abs, a, Obs')
  /\ viol' = Viol(abs, Obs, a, abs', Obs')

Bump(f) == cnt' = [cnt EXCEPT ![f] = @ + 1]

Punish(r, a)  == IF r[a] < 0 \/ r[a] = 8 THEN r ELSE [r EXCEPT ![a] = @ + 1]
Reward(r, a)  == IF r[a] <= 0 THEN r ELSE [r EXCEPT ![a] = @ - 1]
ResetR(r, a)  == IF r[a] < 0 THEN r ELSE [r EXCEPT ![a] = 4]

----------------------------------------------------------------------------
\* :322-339  hand-off select, arm 1: worker a (free, reading) takes the job.
DispatchTo(a) ==
  /\ dsp = "run" /\ work # {} /\ a \in Free /\ ws[a][wk[a].inst] = 0
  /\ LET i == wk[a].inst
         j == Next1
     IN  /\ work' = work \ {j}
         /\ wk' = [wk EXCEPT ![a].job = j]
         /\ ws' = [ws EXCEPT ![a][i] = j]
         /\ UNCHANGED <<bat, jobs, cq, rank, verd, ans, dsp, cnt>>
         /\ Finish([NoAct EXCEPT !.op = "Dispatch", !.a = a, !.i = i, !.j = j,
                                 !.b = jobs[j].b, !.k = jobs[j].k])

\* The dispatcher offers the job to the best-ranked free worker first.
Dispatch == Offering /\ DispatchTo(Cand)

\* :341  hand-off select, arm 2: the Run of free worker a has returned.
GoneAt(a) ==
  /\ dsp = "run" /\ work # {} /\ a \in Free /\ ws[a][wk[a].inst] = -1
  /\ wk' = [wk EXCEPT ![a] = [inst |-> 0, job |-> 0]]
  /\ UNCHANGED <<bat, jobs, work, cq, rank, ws, verd, ans, dsp, cnt>>
  /\ Finish([NoAct EXCEPT !.op = "Gone", !.a = a])

Gone == Offering /\ GoneAt(Cand)

\* :361  a peer object arrives on the ConnectedPeers channel.
Connect(a) ==
  /\ Waiting /\ cnt.conn < MaxConn
  /\ LET i == Len(ws[a]) + 1
     IN  /\ ws' = [ws EXCEPT ![a] = Append(@, 0)]
         /\ wk' = [wk EXCEPT ![a] = [inst |-> i, job |-> 0]]
         /\ rank' = IF rank[a] < 0 THEN [rank EXCEPT ![a] = 4] ELSE rank
         /\ Bump("conn")
         /\ UNCHANGED <<bat, jobs, work, cq, verd, ans, dsp>>
         /\ Finish([NoAct EXCEPT !.op = "Connect", !.a = a, !.i = i])

\* worker.go :111  an idle worker's peer disconnects; Run returns.
WorkerExitAny(a, i) ==
  /\ cnt.exit < MaxExit
  /\ i \in 1..Len(ws[a]) /\ ws[a][i] = 0
  /\ ws' = [ws EXCEPT ![a][i] = -1]
  /\ Bump("exit")
  /\ UNCHANGED <<bat, jobs, work, cq, wk, rank, verd, ans, dsp>>
  /\ Finish([NoAct EXCEPT !.op = "WorkerExit", !.a = a, !.i = i])

WorkerExit(a, i) == Settled /\ WorkerExitAny(a, i)

\* Query :703 + NewBatch arm :648.
Query(n, retr, nomax, hard, prog) ==
  /\ Waiting /\ Len(bat) < MaxBatch
  /\ LET b  == Len(bat) + 1
         j0 == Len(jobs)
     IN  /\ bat' = Append(bat, [n |-> n, retr |-> retr, nomax |-> nomax, hard |-> hard, prog |-> prog,
                                live |-> TRUE, rem |-> n, gen |-> prog, hardx |-> FALSE,
                                cancel |-> FALSE, icancel |-> FALSE])
         /\ jobs' = jobs \o [k \in 1..n |-> [b |-> b, k |-> k, tries |-> 0]]
         /\ work' = work \cup ((j0 + 1)..(j0 + n))
         /\ cq' = cq \cup ((j0 + 1)..(j0 + n))
         /\ verd' = Append(verd, <<>>)
         /\ ans' = Append(ans, Zeros(n))
         /\ UNCHANGED <<wk, rank, ws, dsp, cnt>>
         /\ Finish([NoAct EXCEPT !.op = "Query", !.b = b, !.n = n, !.retr = retr, !.nomax = nomax,
                                 !.hard = hard, !.prog = prog])

\* Query while the dispatcher can take nothing (stuck in the hand-off, or
\* dead): the caller blocks in `w.newBatches <-` :713 (quit is not closed).
QueryBlocked(n, retr, nomax, hard, prog) ==
  /\ Blocked \/ dsp = "dead"
  /\ Len(bat) < MaxBatch
  /\ UNCHANGED <<bat, jobs, work, cq, wk, rank, ws, verd, ans, dsp, cnt>>
  /\ Finish([NoAct EXCEPT !.op = "Query", !.res = "blocked", !.b = Len(bat) + 1, !.n = n,
                          !.retr = retr, !.nomax = nomax,
                          !.hard = hard, !.prog = prog])

\* Query after Stop: :718.
QueryStopped(n, retr, nomax, hard, prog) ==
  /\ dsp = "stopped" /\ Len(bat) < MaxBatch
  /\ bat' = Append(bat, [n |-> n, retr |-> retr, nomax |-> nomax, hard |-> hard, prog |-> prog,
                         live |-> FALSE, rem |-> n, gen |-> 0, hardx |-> FALSE,
                         cancel |-> FALSE, icancel |-> FALSE])
  /\ verd' = Append(verd, <<5>>)
  /\ ans' = Append(ans, Zeros(n))
  /\ UNCHANGED <<jobs, work, cq, wk, rank, ws, dsp, cnt>>
  /\ Finish([NoAct EXCEPT !.op = "Query", !.res = "shutdown", !.b = Len(bat) + 1, !.n = n,
                          !.retr = retr, !.nomax = nomax,
                          !.hard = hard, !.prog = prog])

\* End of a batch: verdict v, stopTimers, delete(currentBatches, b).
EndBatch(B, b, v, closeInternal) ==
  [B EXCEPT ![b].live = FALSE,
            ![b].icancel = IF closeInternal THEN TRUE ELSE @]

\* :423  a worker hands back its result (worker.go :246) and the dispatcher
\* processes it.  e: 0 nil, 1 timeout, 2 disconnect, 3 canceled, 4 other.
ResultJ(a, i, j, e) ==
  /\ Waiting
  /\ i \in 1..Len(ws[a]) /\ j \in 1..Len(jobs)
  /\ LET jb == jobs[j].b
         present == wk[a].inst # 0
         clear == IF FixStaleWorker THEN present /\ wk[a].job = j ELSE present
         wk1 == IF clear THEN [wk EXCEPT ![a].job = 0] ELSE wk
         \* (a worker object handing back a job it does not hold exists only in
         \* the repository's mock-worker tests; its own state is left alone)
         ws1 == IF ws[a][i] = j THEN [ws EXCEPT ![a][i] = IF e = 2 THEN -1 ELSE 0] ELSE ws
         ans1 == IF e = 0 THEN [ans EXCEPT ![jb][jobs[j].k] = 1] ELSE ans
         bn == IF j \in cq THEN jb ELSE 1
         B  == bat[bn]
         A(res) == [NoAct EXCEPT !.op = "Result", !.res = res, !.a = a, !.i = i, !.j = j,
                                 !.b = jb, !.k = jobs[j].k, !.e = e]
     IN
     /\ e \in 0..4
     /\ e = 3 => (bat[jb].cancel \/ bat[jb].icancel)
     /\ e \in {1, 2, 4} => cnt.fail < MaxFail
     /\ e = 0 => cnt.ok < MaxOk
     /\ cnt' = [cnt EXCEPT !.fail = IF e \in {1, 2, 4} THEN @ + 1 ELSE @,
                           !.ok = IF e = 0 THEN @ + 1 ELSE @]
     /\ ws' = ws1 /\ ans' = ans1
     /\ IF ~present /\ ~FixStaleWorker
        THEN \* nil-pointer dereference (r.activeJob = nil on a missing entry, :435
             \* before the fix); the deferred function :281
             \* still hands ErrWorkManagerShuttingDown to every live batch.
             /\ dsp' = "dead"
             /\ verd' = [x \in 1..Len(verd) |-> IF bat[x].live THEN Append(verd[x], 5)
                                                 ELSE verd[x]]
             /\ bat' = [x \in 1..Len(bat) |-> [bat[x] EXCEPT !.live = FALSE]]
             /\ UNCHANGED <<jobs, work, cq, wk, rank>>
             /\ Finish(A("panic"))
        ELSE
        /\ dsp' = dsp /\ wk' = wk1
        /\ LET requeued == /\ B.live /\ e \in {1, 2, 4}
                            /\ ~(B.nomax = 0 /\ jobs[j].tries + 1 >= B.retr)
           IN  cq' = IF requeued THEN cq \cup {j} ELSE cq \ {j}     \* :445 / :553
        /\ IF ~B.live
           THEN /\ UNCHANGED <<bat, jobs, work, rank, verd>>
                /\ Finish(A("discard"))
           ELSE IF e = 3
           THEN /\ bat' = EndBatch(bat, bn, 3, FALSE)
                /\ verd' = [verd EXCEPT ![bn] = Append(@, 3)]
                /\ UNCHANGED <<jobs, work, rank>>
                /\ Finish(A("cancel"))
           ELSE IF e # 0
           THEN LET r1 == IF e = 2 THEN ResetR(rank, a) ELSE Punish(rank, a)
                    t1 == IF B.nomax = 1 THEN jobs[j].tries ELSE jobs[j].tries + 1   \* :496
                IN  /\ rank' = r1
                    /\ jobs' = [jobs EXCEPT ![j].tries = t1]
                    /\ IF B.nomax = 0 /\ t1 >= B.retr                               \* :503
                       THEN /\ bat' = EndBatch(bat, bn, e, FALSE)
                            /\ verd' = [verd EXCEPT ![bn] = Append(@, e)]
                            /\ work' = work
                            /\ Finish(A("maxtries"))
                       ELSE \* requeue :552, then the hard-timeout check :608
                            /\ work' = work \cup {j}
                            /\ IF B.hard = 1 /\ B.hardx
                               THEN /\ bat' = EndBatch(bat, bn, 1, TRUE)
                                    /\ verd' = [verd EXCEPT ![bn] = Append(@, 1)]
                                    /\ Finish(A("hardtimeout"))
                               ELSE /\ UNCHANGED <<bat, verd>>
                                    /\ Finish(A("requeue"))
           ELSE \* success
                /\ rank' = Reward(rank, a)
                /\ UNCHANGED <<jobs, work>>
                /\ IF B.rem = 1
                   THEN /\ bat' = EndBatch([bat EXCEPT ![bn].rem = 0], bn, 0, FALSE)
                        /\ verd' = [verd EXCEPT ![bn] = Append(@, 0)]
                        /\ Finish(A("done"))
                   ELSE IF B.hard = 1 /\ B.hardx
                   THEN /\ bat' = EndBatch([bat EXCEPT ![bn].rem = @ - 1], bn, 1, TRUE)
                        /\ verd' = [verd EXCEPT ![bn] = Append(@, 1)]
                        /\ Finish(A("hardtimeout"))
                   ELSE /\ bat' = [bat EXCEPT ![bn].rem = @ - 1,
                                              ![bn].gen = IF B.prog = 1 THEN @ + 1 ELSE @]
                        /\ verd' = verd
                        /\ Finish(A("progress"))

\* Workers hand back the job they hold.
Result(a, i, e) ==
  /\ i \in 1..Len(ws[a]) /\ ws[a][i] > 0
  /\ ResultJ(a, i, ws[a][i], e)

\* A worker wants to hand back its result while the dispatcher takes none
\* (stuck in the hand-off select, or dead): worker.go :245 blocks.
ResultBlocked(a, i, e) ==
  /\ Blocked \/ dsp = "dead"
  /\ i \in 1..Len(ws[a]) /\ ws[a][i] > 0
  /\ LET j == ws[a][i]
         jb == jobs[j].b
     IN  /\ e \in 0..4
         /\ e = 3 => (bat[jb].cancel \/ bat[jb].icancel)
         /\ e \in {1, 2, 4} => cnt.fail < MaxFail
         /\ e = 0 => cnt.ok < MaxOk
         /\ ws' = [ws EXCEPT ![a][i] = -2]
         /\ ans' = IF e = 0 THEN [ans EXCEPT ![jb][jobs[j].k] = 1] ELSE ans
         /\ UNCHANGED <<bat, jobs, work, cq, wk, rank, verd, dsp, cnt>>
         /\ Finish([NoAct EXCEPT !.op = "Result", !.res = "blocked", !.a = a, !.i = i,
                                 !.j = j, !.b = jb, !.k = jobs[j].k, !.e = e])

\* :392  idle timer of batch b, generation g, fires and its wake is consumed.
\* (WakeAny: a wake of ANY earlier window may still be on its way when the
\* dispatcher was busy for long - recorded executions; the exhaustive
\* configurations look at the current and the previous window only)
WakeAny(b, g) ==
  /\ Waiting
  /\ b \in 1..Len(bat) /\ bat[b].prog = 1 /\ g \in 1..bat[b].gen
  /\ LET B == bat[b]
         cur == B.live /\ g = B.gen
         A(res) == [NoAct EXCEPT !.op = "Wake", !.res = res, !.b = b, !.g = g]
     IN  /\ ~cur => cnt.stale < MaxStale
         /\ cnt' = IF cur THEN cnt ELSE [cnt EXCEPT !.stale = @ + 1]
         /\ UNCHANGED <<jobs, work, cq, wk, rank, ws, ans, dsp>>
         /\ IF ~B.live
            THEN /\ UNCHANGED <<bat, verd>> /\ Finish(A("nobatch"))
            ELSE IF g # B.gen
            THEN /\ UNCHANGED <<bat, verd>> /\ Finish(A("stale"))
            ELSE /\ bat' = EndBatch(bat, b, 1, TRUE)
                 /\ verd' = [verd EXCEPT ![b] = Append(@, 1)]
                 /\ Finish(A("timeout"))

Wake(b, g) ==
  /\ b \in 1..Len(bat) /\ (~(bat[b].live /\ g = bat[b].gen) => g >= bat[b].gen - 1)
  /\ WakeAny(b, g)

\* Environment fact (executions under virtual time): the idle window g of batch
\* b - the one its current timer (generation g, :259-:262) was armed for - has
\* fully elapsed.  Nothing the dispatcher owns changes; what has to follow is
\* judged by WorkManagerProps (IdleTimeoutEndsBatch).  Not part of Next: in the
\* replayed configurations the idle timer is represented by its wake.
IdleElapsedAny(b, g) ==
  /\ b \in 1..Len(bat) /\ bat[b].prog = 1 /\ g = bat[b].gen
  /\ UNCHANGED <<bat, jobs, work, cq, wk, rank, ws, verd, ans, dsp, cnt>>
  /\ Finish([NoAct EXCEPT !.op = "IdleElapsed", !.b = b, !.g = g])

\* The caller closes the cancel channel it passed with the batch.
CancelAny(b) ==
  /\ Settled /\ cnt.cancel < MaxCancel
  /\ b \in 1..Len(bat) /\ ~bat[b].cancel
  /\ bat' = [bat EXCEPT ![b].cancel = TRUE]
  /\ Bump("cancel")
  /\ UNCHANGED <<jobs, work, cq, wk, rank, ws, verd, ans, dsp>>
  /\ Finish([NoAct EXCEPT !.op = "Cancel", !.b = b])

\* (cancelling a batch that already has its verdict changes nothing the
\* dispatcher looks at: left out of the exhaustive configurations)
Cancel(b) == b \in 1..Len(bat) /\ bat[b].live /\ CancelAny(b)

\* The hard wall-clock deadline of batch b passes (time.After channel ready).
HardFire(b) ==
  /\ Settled
  /\ b \in 1..Len(bat) /\ bat[b].hard = 1 /\ ~bat[b].hardx /\ bat[b].live
  /\ bat' = [bat EXCEPT ![b].hardx = TRUE]
  /\ UNCHANGED <<jobs, work, cq, wk, rank, ws, verd, ans, dsp, cnt>>
  /\ Finish([NoAct EXCEPT !.op = "HardFire", !.b = b])

\* Stop :170: close(quit); the dispatcher returns from whichever select it is
\* in (:346 / :693), its deferred function hands ErrWorkManagerShuttingDown to
\* every live batch, all workers return, wg.Wait() returns.
StopAny ==
  /\ dsp # "stopped"
  /\ dsp' = "stopped"
  /\ verd' = [x \in 1..Len(verd) |-> IF bat[x].live THEN Append(verd[x], 5) ELSE verd[x]]
  /\ bat' = [x \in 1..Len(bat) |-> [bat[x] EXCEPT !.live = FALSE]]
  /\ ws' = [a \in Addrs |-> [x \in 1..Len(ws[a]) |-> -1]]
  /\ UNCHANGED <<jobs, work, cq, wk, rank, ans, cnt>>
  /\ Finish([NoAct EXCEPT !.op = "Stop"])

\* Stop may also come while the dispatcher is inside the hand-off (offering the
\* head job to a free worker that has not taken it yet): it leaves through the
\* quit case of that inner select and must tell every live batch all the same.
Stop == (Settled \/ Offering \/ dsp = "dead") /\ StopAny

Init ==
  /\ bat = <<>> /\ jobs = <<>> /\ work = {} /\ cq = {}
  /\ wk = [a \in Addrs |-> [inst |-> 0, job |-> 0]]
  /\ rank = [a \in Addrs |-> -1]
  /\ ws = [a \in Addrs |-> <<>>]
  /\ verd = <<>> /\ ans = <<>> /\ dsp = "run"
  /\ cnt = [conn |-> 0, fail |-> 0, exit |-> 0, cancel |-> 0, stale |-> 0, ok |-> 0]
  /\ abs = AbsInit /\ act = NoAct /\ viol = {}

Opts == (1..MaxReq) \X Retries \X NoMaxes \X Hards \X Progs
Opt1 == CHOOSE o \in Opts : TRUE

Next ==
  \/ Dispatch
  \/ Gone
  \/ \E a \in Addrs : Connect(a)
  \/ \E a \in Addrs : \E i \in 1..MaxConn : WorkerExit(a, i)
  \/ \E o \in Opts : Query(o[1], o[2], o[3], o[4], o[5])
  \/ QueryBlocked(Opt1[1], Opt1[2], Opt1[3], Opt1[4], Opt1[5])     \* the options play no role there
  \/ QueryStopped(Opt1[1], Opt1[2], Opt1[3], Opt1[4], Opt1[5])
  \/ \E a \in Addrs : \E i \in 1..MaxConn : \E e \in 0..4 : Result(a, i, e)
  \/ \E a \in Addrs : \E i \in 1..MaxConn : \E e \in 0..4 : ResultBlocked(a, i, e)
  \/ \E b \in 1..MaxBatch : \E g \in 1..(MaxOk + 1) : Wake(b, g)
  \/ \E b \in 1..MaxBatch : Cancel(b)
  \/ \E b \in 1..MaxBatch : HardFire(b)
  \/ Stop

Spec == Init /\ [][Next]_vars

----------------------------------------------------------------------------
TypeOK ==
  /\ dsp \in {"run", "stopped", "dead"}
  /\ work \subseteq 1..Len(jobs) /\ cq \subseteq 1..Len(jobs)
  /\ \A a \in Addrs : rank[a] \in -1..8 /\ wk[a].inst \in 0..Len(ws[a])
  /\ Len(verd) = Len(bat) /\ Len(ans) = Len(bat)

\* Design-level statement of C12 on the model (an invariant only when the
\* switches describe repaired code).
NoViolation == viol = {}

\* No reachable state has the dispatcher stuck in the hand-off (repaired code).
NeverBlocked == ~Blocked /\ dsp # "dead"

State == [bat |-> bat, jobs |-> jobs, work |-> work, cq |-> cq, wk |-> wk, rank |-> rank,
          ws |-> ws, verd |-> verd, ans |-> ans, dsp |-> dsp, cnt |-> cnt,
          abs |-> [opts |-> abs.opts, fails |-> abs.fails, cancel |-> abs.cancel,
                   hardx |-> abs.hardx, win |-> abs.win, latest |-> abs.latest, live |-> abs.live,
                   hold |-> abs.hold, stopped |-> abs.stopped, rec |-> abs.rec, done |-> abs.done]]
View == <<bat, jobs, work, cq, wk, rank, ws, verd, ans, dsp, cnt, abs>>
=============================================================================
