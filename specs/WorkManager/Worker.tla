-------------------------------- MODULE Worker --------------------------------
(***************************************************************************)
(* worker.Run (query/worker.go :86) as a state machine.  pc: "idle" (first *)
(* select :97), "work" (inner loop :158), "exit".  Time is VIRTUAL (the     *)
(* driver runs worker.Run inside a testing/synctest bubble): Tick = half a *)
(* job timeout passes; the timer :154 expires after two Ticks without a    *)
(* restart, whatever else the peer sent meanwhile.  The driver receives the*)
(* result in the step that produces it (the channel is unbuffered, as the  *)
(* dispatcher's), except in QuitDuring = the hand-off select :245 with     *)
(* quit closed and no receiver left.  Actions <-> code: Job = TakeJob :99 + the cancel pre-check*)
(* :120 + Queue :147; Msg while idle = IgnoreMsg :104; Msg while working = *)
(* Resp :163 (handler, timer restart :185); Timeout :199; Disconnect :111 /*)
(* :211 (+ exit :256); Cancel :221 / :228; Quit :116 / :235.               *)
(***************************************************************************)
EXTENDS Integers, Sequences, FiniteSets, TLC, Json, WorkerProps

CONSTANTS MaxJobs, MaxMsgs, MaxTicks

\* quiet: virtual time since the job's timer was (re)started, in HALF timeouts.
VARIABLES pc, quiet, res, queued, handled, fin, njobs, nmsgs, nticks, canc, abs, act, viol
vars == <<pc, quiet, res, queued, handled, fin, njobs, nmsgs, nticks, canc, abs, act, viol>>

Obs == [res |-> res, queued |-> queued, handled |-> handled, fin |-> fin, early |-> 0,
        exited |-> IF pc = "exit" THEN 1 ELSE 0]

Finish(a) ==
  /\ act' = a /\ abs' = AbsNext(abs, a, Obs') /\ viol' = Viol(abs, Obs, a, abs', Obs')

A(op, r, x, y) == [op |-> op, res |-> r, x |-> x, y |-> y]

Job(pre) ==
  /\ pc = "idle" /\ njobs < MaxJobs
  /\ njobs' = njobs + 1 /\ quiet' = 0 /\ canc' = pre
  /\ UNCHANGED <<handled, fin, nmsgs, nticks>>
  /\ IF pre # 0
     THEN /\ pc' = "idle" /\ res' = Append(res, 3) /\ UNCHANGED queued
          /\ Finish(A("Job", "r3", 0, pre))
     ELSE /\ pc' = "work" /\ queued' = queued + 1 /\ UNCHANGED res
          /\ Finish(A("Job", "none", 0, pre))

\* k = 0: a message the handler does not care about (no progress: the timer
\* keeps running), 1: partial progress (the timer is restarted :185), 2: the
\* answer.
Msg(k) ==
  /\ pc \in {"idle", "work"} /\ nmsgs < MaxMsgs
  /\ nmsgs' = nmsgs + 1
  /\ UNCHANGED <<queued, njobs, nticks, canc>>
  /\ IF pc = "idle"
     THEN /\ UNCHANGED <<pc, res, handled, fin, quiet>> /\ Finish(A("Msg", "none", k, 0))
     ELSE /\ handled' = handled + 1
          /\ quiet' = IF k = 1 THEN 0 ELSE quiet
          /\ IF k = 2
             THEN /\ fin' = fin + 1 /\ pc' = "idle" /\ res' = Append(res, 0)
                  /\ Finish(A("Msg", "r0", k, 0))
             ELSE /\ UNCHANGED <<fin, pc, res>> /\ Finish(A("Msg", "none", k, 0))

\* Half a job timeout of (virtual) time passes while the worker waits for the
\* answer.  The second half without progress is the timeout :199.
Tick ==
  /\ pc = "work" /\ nticks < MaxTicks
  /\ nticks' = nticks + 1
  /\ UNCHANGED <<queued, handled, fin, njobs, nmsgs, canc>>
  /\ IF quiet = 1
     THEN /\ pc' = "idle" /\ res' = Append(res, 1) /\ quiet' = 0
          /\ Finish(A("Tick", "r1", 0, 0))
     ELSE /\ quiet' = quiet + 1 /\ UNCHANGED <<pc, res>>
          /\ Finish(A("Tick", "none", 0, 0))

Disconnect ==
  /\ pc \in {"idle", "work"}
  /\ pc' = "exit"
  /\ res' = IF pc = "work" THEN Append(res, 2) ELSE res
  /\ UNCHANGED <<quiet, queued, handled, fin, njobs, nmsgs, nticks, canc>>
  /\ Finish(A("Disconnect", IF pc = "work" THEN "r2" ELSE "exit", 0, 0))

Cancel(x) ==
  /\ pc = "work" /\ canc = 0
  /\ canc' = x /\ pc' = "idle" /\ res' = Append(res, 3)
  /\ UNCHANGED <<quiet, queued, handled, fin, njobs, nmsgs, nticks>>
  /\ Finish(A("Cancel", "r3", x, 0))

Quit ==
  /\ pc \in {"idle", "work"}
  /\ pc' = "exit"
  /\ UNCHANGED <<quiet, res, queued, handled, fin, njobs, nmsgs, nticks, canc>>
  /\ Finish(A("Quit", "exit", 0, 0))

\* :245-253  quit is closed while the worker has a result that nobody takes
\* (the dispatcher returned first): Run must return without delivering it.
\* x = 4: the rest of the timeout passes first.
QuitDuring(x) ==
  /\ pc = "work"
  /\ x = 3 => canc = 0
  /\ x \in {0, 1} => nmsgs < MaxMsgs
  /\ pc' = "exit"
  /\ handled' = IF x \in {0, 1} THEN handled + 1 ELSE handled
  /\ fin' = IF x \in {0, 1} THEN fin + 1 ELSE fin
  /\ nmsgs' = IF x \in {0, 1} THEN nmsgs + 1 ELSE nmsgs
  /\ canc' = IF x = 3 THEN 1 ELSE canc
  /\ UNCHANGED <<quiet, res, queued, njobs, nticks>>
  /\ Finish(A("QuitDuring", "exit", x, 0))

Init ==
  /\ pc = "idle" /\ quiet = 0 /\ res = <<>> /\ queued = 0 /\ handled = 0 /\ fin = 0
  /\ njobs = 0 /\ nmsgs = 0 /\ nticks = 0 /\ canc = 0
  /\ abs = AbsInit /\ act = A("Init", "none", 0, 0) /\ viol = {}

Next ==
  \/ \E pre \in {0, 1, 2} : Job(pre)
  \/ \E k \in {0, 1, 2} : Msg(k)
  \/ Tick \/ Disconnect \/ Quit
  \/ \E x \in {1, 2} : Cancel(x)
  \/ \E x \in 0..4 : QuitDuring(x)

TypeOK == pc \in {"idle", "work", "exit"} /\ quiet \in 0..1
NoViolation == viol = {}
State == [pc |-> pc, quiet |-> quiet, res |-> res, queued |-> queued, handled |-> handled,
          fin |-> fin, njobs |-> njobs, nmsgs |-> nmsgs, nticks |-> nticks, canc |-> canc]
View == <<pc, quiet, res, queued, handled, fin, njobs, nmsgs, nticks, canc, abs>>
=============================================================================
